(* FIPS 180-4 SHA-256 over the primitive 63-bit integers, for *running* the
   identifier model in correspondence checks.  Not used by any theorem: kept
   outside the dependency cone of props/.  Validated on every run against
   hashlib (NIST vectors and every stream of the run).                      *)
From Coq Require Import ZArith NArith Uint63 List.
Import ListNotations.
Open Scope uint63_scope.

Definition m32 : int := 4294967295.
Definition add32 (a b : int) : int := (a + b) land m32.
Definition rotr (x : int) (n : int) : int := ((x >> n) lor (x << (32 - n))) land m32.
Definition shr (x n : int) : int := x >> n.
Definition not32 (x : int) : int := x lxor m32.

Definition ch (x y z : int) := (x land y) lxor ((not32 x) land z).
Definition maj (x y z : int) := (x land y) lxor (x land z) lxor (y land z).
Definition bsig0 x := rotr x 2 lxor rotr x 13 lxor rotr x 22.
Definition bsig1 x := rotr x 6 lxor rotr x 11 lxor rotr x 25.
Definition ssig0 x := rotr x 7 lxor rotr x 18 lxor shr x 3.
Definition ssig1 x := rotr x 17 lxor rotr x 19 lxor shr x 10.

Definition K : list int := [
 0x428a2f98; 0x71374491; 0xb5c0fbcf; 0xe9b5dba5; 0x3956c25b; 0x59f111f1; 0x923f82a4; 0xab1c5ed5;
 0xd807aa98; 0x12835b01; 0x243185be; 0x550c7dc3; 0x72be5d74; 0x80deb1fe; 0x9bdc06a7; 0xc19bf174;
 0xe49b69c1; 0xefbe4786; 0x0fc19dc6; 0x240ca1cc; 0x2de92c6f; 0x4a7484aa; 0x5cb0a9dc; 0x76f988da;
 0x983e5152; 0xa831c66d; 0xb00327c8; 0xbf597fc7; 0xc6e00bf3; 0xd5a79147; 0x06ca6351; 0x14292967;
 0x27b70a85; 0x2e1b2138; 0x4d2c6dfc; 0x53380d13; 0x650a7354; 0x766a0abb; 0x81c2c92e; 0x92722c85;
 0xa2bfe8a1; 0xa81a664b; 0xc24b8b70; 0xc76c51a3; 0xd192e819; 0xd6990624; 0xf40e3585; 0x106aa070;
 0x19a4c116; 0x1e376c08; 0x2748774c; 0x34b0bcb5; 0x391c0cb3; 0x4ed8aa4a; 0x5b9cca4f; 0x682e6ff3;
 0x748f82ee; 0x78a5636f; 0x84c87814; 0x8cc70208; 0x90befffa; 0xa4506ceb; 0xbef9a3f7; 0xc67178f2].

Definition H0 : list int := [0x6a09e667; 0xbb67ae85; 0x3c6ef372; 0xa54ff53a; 0x510e527f; 0x9b05688c; 0x1f83d9ab; 0x5be0cd19].

(* message schedule: w is kept reversed (most recent first) *)
Fixpoint extend (n : nat) (w : list int) : list int :=
  match n with
  | O => w
  | S n' =>
      match w with
      | w1 :: w2 :: _ =>
          let w7 := nth 6 w 0 in let w15 := nth 14 w 0 in let w16 := nth 15 w 0 in
          extend n' (add32 (add32 (ssig1 w2) w7) (add32 (ssig0 w15) w16) :: w)
      | _ => w
      end
  end.

Definition round (st : list int) (kw : int * int) : list int :=
  match st with
  | [a; b; c; d; e; f; g; hh] =>
      let t1 := add32 (add32 (add32 hh (bsig1 e)) (add32 (ch e f g) (fst kw))) (snd kw) in
      let t2 := add32 (bsig0 a) (maj a b c) in
      [add32 t1 t2; a; b; c; add32 d t1; e; f; g]
  | _ => st
  end.

Definition compress (hs : list int) (block : list int (* 16 words *)) : list int :=
  let w := rev (extend 48 (rev block)) in
  let st := fold_left round (combine K w) hs in
  map (fun p => add32 (fst p) (snd p)) (combine hs st).

Fixpoint words (l : list int) : list int :=      (* bytes -> big-endian 32-bit words *)
  match l with
  | a :: b :: c :: d :: l' => ((a << 24) lor (b << 16) lor (c << 8) lor d) :: words l'
  | _ => []
  end.

Fixpoint blocks (fuel : nat) (ws : list int) (hs : list int) : list int :=
  match fuel with
  | O => hs
  | S f => match ws with
           | [] => hs
           | _ => blocks f (skipn 16 ws) (compress hs (firstn 16 ws))
           end
  end.

Definition word_bytes (w : int) : list int := [(w >> 24) land 255; (w >> 16) land 255; (w >> 8) land 255; w land 255].

Definition sha256_int (msg : list int) : list int :=
  let len := length msg in
  let padlen := (Nat.modulo (119 - Nat.modulo len 64) 64)%nat in
  let bitlen := of_Z (Z.of_nat len * 8) in
  let padded := msg ++ [128] ++ repeat 0 padlen
                ++ [0; 0; 0; (bitlen >> 32) land 255] ++ word_bytes (bitlen land m32) in
  let ws := words padded in
  flat_map word_bytes (blocks (S (length ws)) ws H0).

Definition sha256 (msg : list N) : list N :=
  map (fun x => Z.to_N (to_Z x)) (sha256_int (map (fun b => of_Z (Z.of_N b)) msg)).
