(* C13 - runtime objects.  Model of
     core/objects.py ConfigInformation.fromConfig / FromPython  (l.1557-1609)
     core/objects.py ObjectStore                                (l.547-562)
     core/objects.py load_objects / parameter-file loader             (l.1370-1555)
     core/objects.py __get_objects__ (order of the definitions) (l.1120-1191)
     run.py run()                                               (l.32-50)
   on top of the generic walk (model/Walk.v).  Definitions only.

   The object created for configuration n is named n; identity relations between
   attributes are equalities of these names.                                     *)
From Coq Require Import List NArith ZArith Bool Arith.
From XV Require Import model.Walk.
Import ListNotations.

Inductive ovalue :=
| ONone
| OScalar (z : Z)
| OStr (s : str)
| OObj (n : nat)                      (* the object made for configuration n *)
| OList (l : list ovalue)
| ODict (l : list (str * ovalue)).

(* what self(v) returns in FromPython, and the value decoder of load_objects *)
Fixpoint image (v : value) : ovalue :=
  match v with
  | VNone => ONone
  | VScalar z => OScalar z
  | VStr s => OStr s
  | VRef n => OObj n
  | VList l => OList (map image l)
  | VDict l => ODict (map (fun kv => (fst kv, image (snd kv))) l)
  end.

(* objects named inside a value *)
Fixpoint orefs (o : ovalue) : list nat :=
  match o with
  | OObj n => [n]
  | OList l => flat_map orefs l
  | ODict l => flat_map (fun kv => orefs (snd kv)) l
  | _ => []
  end.

Record object := { o_id : nat; o_attrs : list (str * ovalue) }.

(* the calls the harness classes log *)
Inductive call :=
| PostInit (obj : nat) (attrs_set : list str)   (* __post_init__ of obj, attributes of obj set at that moment *)
| Execute (obj : nat)                            (* execute() of a lightweight task *)
| Body (obj : nat).                              (* execute() of the task itself *)

Record result := {
  r_objects : list object;        (* objects created, in creation-completion order *)
  r_log : list call;
  r_root : nat }.                 (* the object returned *)

(* first occurrences, in order (dict keyed by id(pre_task) / completed_pretasks set) *)
Fixpoint dedup (seen l : list nat) : list nat :=
  match l with
  | [] => []
  | x :: l' => if memb x seen then dedup seen l' else x :: dedup (x :: seen) l'
  end.

(* ---- the calls at the level of the code, and what they do to the objects ---------------- *)
Inductive ev :=
| ESet (obj : nat) (k : str) (v : ovalue)     (* setattr(obj, k, v) *)
| EPost (obj : nat)                            (* obj.__post_init__() *)
| EExec (obj : nat)                            (* execute() of a lightweight task *)
| EBody (obj : nat).                           (* execute() of the task *)

(* the attributes of an object: a dict (assigning an existing name replaces its value in place) *)
Fixpoint set_attr (attrs : list (str * ovalue)) (k : str) (v : ovalue) : list (str * ovalue) :=
  match attrs with
  | [] => [(k, v)]
  | kv :: a => if str_eqb k (fst kv) then (k, v) :: a else kv :: set_attr a k v
  end.

(* the memory: object -> attributes *)
Definition mem := list (nat * list (str * ovalue)).
Fixpoint mem_get (m : mem) (n : nat) : list (str * ovalue) :=
  match m with
  | [] => []
  | (n', a) :: m' => if Nat.eqb n n' then a else mem_get m' n
  end.
Fixpoint mem_set (m : mem) (n : nat) (k : str) (v : ovalue) : mem :=
  match m with
  | [] => [(n, [(k, v)])]
  | (n', a) :: m' => if Nat.eqb n n' then (n', set_attr a k v) :: m' else (n', a) :: mem_set m' n k v
  end.

(* running the calls: final memory, and the log the harness classes write - __post_init__ records
   the names of the attributes its object has at that moment                                    *)
Fixpoint replay (l : list ev) (m : mem) : mem * list call :=
  match l with
  | [] => (m, [])
  | ESet n k v :: l' => replay l' (mem_set m n k v)
  | EPost n :: l' => let '(m', log) := replay l' m in (m', PostInit n (map fst (mem_get m n)) :: log)
  | EExec n :: l' => let '(m', log) := replay l' m in (m', Execute n :: log)
  | EBody n :: l' => let '(m', log) := replay l' m in (m', Body n :: log)
  end.

Definition empty_node : node :=
  {| cls := 0; fields := []; pre := []; init := []; task := None; sealed := false |}.

Section Inst.
  Variable h : heap.

  Definition node_at (n : nat) : node := nth n h empty_node.

  Definition object_of (n : nat) : object :=
    {| o_id := n; o_attrs := map (fun kv => (fst kv, image (snd kv))) (fields (node_at n)) |}.

  Definition post_init_of (n : nat) : call := PostInit n (map fst (fields (node_at n))).

  (* ---- instance(): FromPython walk, then the gathered pre-tasks ------------------ *)
  (* constructed: the configurations already constructed in the ObjectStore given to
     instance(objects=...) (empty for a fresh store)                                  *)
  Variable constructed : list nat.

  Definition cut_constructed (n : nat) : bool := memb n constructed.

  (* FromPython is built with recurse_task = False *)
  Definition inst_events (root : nat) : option (list (nat * list str)) :=
    walk h (node_edges false) cut_constructed root.

  (* postprocess of ev: self.pre_tasks[id(p)] = ... for p in config.pre_tasks *)
  Definition gathered (evs : list (nat * list str)) : list nat :=
    dedup [] (flat_map (fun ev => pre (node_at (fst ev))) evs).

  (* what FromPython.postprocess does for configuration n, call by call (l.1646-1659):
       for key, value in values.items(): setattr(stub, key, value)
       stub.__post_init__()
     post_first = true is the variant that calls __post_init__ before the copy               *)
  Definition node_trace (post_first : bool) (n : nat) : list ev :=
    let sets := map (fun kv => ESet n (fst kv) (image (snd kv))) (fields (node_at n)) in
    if post_first then EPost n :: sets else sets ++ [EPost n].

  (* the calls of one instance(): postprocess of every created configuration in walk order,
     then the gathered pre-tasks                                                             *)
  Definition inst_trace (post_first : bool) (evs : list (nat * list str)) : list ev :=
    flat_map (fun ev => node_trace post_first (fst ev)) evs ++ map EExec (gathered evs).

  (* the result is what an observer sees when these calls run: the attributes each object ends
     up with, and at each __post_init__/execute the attributes the object has at that moment   *)
  Definition instantiate_gen (post_first : bool) (root : nat) : option result :=
    match inst_events root with
    | None => None
    | Some evs =>
        let '(m, log) := replay (inst_trace post_first evs) [] in
        Some {| r_objects := map (fun ev => {| o_id := fst ev; o_attrs := mem_get m (fst ev) |}) evs;
                r_log := log;
                r_root := root |}
    end.

  Definition instantiate : nat -> option result := instantiate_gen false.
  (* __post_init__ before the attribute copy *)
  Definition instantiate_post_first : nat -> option result := instantiate_gen true.

  (* ---- the parameter file: __get_objects__ -------------------------------------- *)
  (* sub-objects of the values, then the task, then pre-tasks, then init tasks, then
     the object itself; context.serialized plays the role of the visited map          *)
  Definition ser_edges (n : nat) (nd : node) : list edge :=
    map (fun e => ([], snd e)) (edges_fields (fields nd)) ++
    (match task nd with Some t => [([], t)] | None => []
     end) ++
    map (fun t => ([], t)) (pre nd) ++ map (fun t => ([], t)) (init nd).

  Definition ser_order (root : nat) : option (list nat) :=
    match walk h ser_edges (fun _ => false) root with
    | None => None
    | Some evs => Some (map fst evs)
    end.
End Inst.

(* ---- loading the definitions as instances (l.1510-1555), then task.execute() --------- *)
Record def := {
  d_id : nat;
  d_fields : list (str * value);     (* VRef n = {"type": "python", "value": n} *)
  d_pre : list nat;                  (* "pre-tasks" *)
  d_init : list nat }.               (* "init-tasks" *)

Definition def_of (h : heap) (n : nat) : def :=
  {| d_id := n; d_fields := fields (node_at h n); d_pre := pre (node_at h n); d_init := init (node_at h n) |}.

Definition def_object (d : def) : object :=
  {| o_id := d_id d; o_attrs := map (fun kv => (fst kv, image (snd kv))) (d_fields d) |}.

Definition def_refs (d : def) : list nat :=
  flat_map (fun kv => orefs (image (snd kv))) (d_fields d) ++ d_pre d ++ d_init d.

Fixpoint nodupb (l : list nat) : bool :=
  match l with [] => true | x :: l' => negb (memb x l') && nodupb l' end.

(* "Duplicate id" assertion, objects[...] KeyError *)
Definition defs_ok (defs : list def) : bool :=
  nodupb (map d_id defs) &&
  forallb (fun d => forallb (fun r => memb r (map d_id defs)) (def_refs d)) defs.

Definition pretasks (defs : list def) : list nat := dedup [] (flat_map d_pre defs).

(* the init tasks that are executed: every entry of "init-tasks" of the last definition (the code
   before fixes/C13-1.diff), or - once = true - each lightweight task once: an init task listed twice,
   or already executed as a pre-task, is not executed again                                     *)
Definition inits (once : bool) (defs : list def) (last : def) : list nat :=
  if once then dedup (pretasks defs) (d_init last) else d_init last.

Definition from_params_gen (once : bool) (defs : list def) : option result :=
  match rev defs with
  | [] => None                                     (* definitions[-1]: IndexError *)
  | last :: _ =>
      if defs_ok defs then
        Some {| r_objects := map def_object defs;
                r_log := map (fun d => PostInit (d_id d) (map fst (d_fields d))) defs
                         ++ map Execute (pretasks defs)
                         ++ map Execute (inits once defs last)
                         ++ [Body (d_id last)];
                r_root := d_id last |}
      else None
  end.
Definition from_params : list def -> option result := from_params_gen true.
Definition from_params_listed : list def -> option result := from_params_gen false.

(* writing the parameter file of task `root` and running it *)
Definition load_gen (once : bool) (h : heap) (root : nat) : option result :=
  match ser_order h root with
  | None => None
  | Some order => from_params_gen once (map (def_of h) order)
  end.
Definition load : heap -> nat -> option result := load_gen true.
Definition load_listed : heap -> nat -> option result := load_gen false.

(* ---- ObjectStore (l.569-585) and FromPython.stub (l.1634-1644) ---------------------------- *)
(* `instantiate` names the object of configuration n by n.  That abstraction rests on the store
   never holding two objects for one configuration, i.e. on how `stub` consults the store.  The
   store and `stub` themselves, over an arbitrary type of runtime objects:                     *)
Section Store.
  Variable obj : Type.
  Definition ostore := list (nat * obj).          (* id(config) -> object, latest binding first *)

  Fixpoint retrieve (st : ostore) (n : nat) : option obj :=
    match st with
    | [] => None
    | (m, o) :: st' => if Nat.eqb m n then Some o else retrieve st' n
    end.
  Definition add_stub (st : ostore) (n : nat) (o : obj) : ostore := (n, o) :: st.

  (* o = retrieve(id(config)); if o is None: o = config.XPMValue(); add_stub(id(config), o); return o
     `fresh` = the object config.XPMValue() would make                                        *)
  Definition stub (fresh : obj) (st : ostore) (n : nat) : ostore * obj :=
    match retrieve st n with
    | Some o => (st, o)
    | None => (add_stub st n fresh, fresh)
    end.

  (* the variant that asks the cached object for its truth value instead
     (`o = retrieve(...) or config.XPMValue(); add_stub(id(config), o)`): what Python's `or`
     does depends on __bool__/__len__ of the object                                           *)
  Variable truthy : obj -> bool.
  Definition stub_by_truth (fresh : obj) (st : ostore) (n : nat) : ostore * obj :=
    match retrieve st n with
    | Some o => if truthy o then (add_stub st n o, o) else (add_stub st n fresh, fresh)
    | None => (add_stub st n fresh, fresh)
    end.
End Store.
Arguments retrieve {obj}.
Arguments add_stub {obj}.
Arguments stub {obj}.
Arguments stub_by_truth {obj}.

(* ---- the class of a configuration (plain, container-like, __bool__, equality by content ...)
   is not an input of anything above: recls f relabels the classes of a heap                 *)
Definition recls (f : nat -> nat) (nd : node) : node :=
  {| cls := f (cls nd); fields := fields nd; pre := pre nd; init := init nd; task := task nd;
     sealed := sealed nd |}.

(* parameter names pairwise distinct, decidable form (hypothesis of C13_wired_like_graph /
   C13_post_init_once_after_fields; evaluated on every generated heap by the correspondence)  *)
Fixpoint nodup_strb (l : list str) : bool :=
  match l with [] => true | k :: l' => negb (existsb (str_eqb k) l') && nodup_strb l' end.
Definition fields_nodupb (h : heap) : bool := forallb (fun nd => nodup_strb (map fst (fields nd))) h.

(* ---- one ObjectStore over several instance() calls (fixes/C13-3.diff) ------------------------ *)
(* executed: the pre-tasks already executed through this store; fromConfig executes a gathered
   pre-task only when ObjectStore.set_executed answers that it had not been                       *)
Definition not_executed (executed : list nat) (c : call) : bool :=
  match c with Execute p => negb (memb p executed) | _ => true end.
Definition instantiate_store (h : heap) (constructed executed : list nat) (root : nat) : option result :=
  match instantiate h constructed root with
  | None => None
  | Some r => Some {| r_objects := r_objects r; r_log := filter (not_executed executed) (r_log r);
                      r_root := r_root r |}
  end.
