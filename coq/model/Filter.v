(* Model of experimaestro/cli/filter.py : job filters (C19).
   Definitions only: proofs live in proofs/Filter_lemmas.v.

   Strings are lists of code points (N).  A filter, as accepted by
   `createFilter` (which parses with `logicExpr`, i.e. without parentheses),
   is a non-empty chain   atom (op atom)*   of the four kinds of tests.      *)
From Coq Require Import NArith List Bool.
Import ListNotations.
Open Scope N_scope.

Definition str := list N.

Fixpoint str_eqb (a b : str) : bool :=
  match a, b with
  | [], [] => true
  | x :: a', y :: b' => (x =? y) && str_eqb a' b'
  | _, _ => false
  end.

Definition ostr_eqb (a b : option str) : bool :=
  match a, b with
  | None, None => true
  | Some x, Some y => str_eqb x y
  | _, _ => false
  end.

Fixpoint mem (s : str) (l : list str) : bool :=
  match l with [] => false | x :: l' => str_eqb s x || mem s l' end.

(* ---- what a filter can look at ---------------------------------------- *)
(* JobState members a job directory can be in (JobInformation.state) *)
Inductive jstate := Done | Error | Running.

(* JobState.<member>.name *)
Definition state_name (s : jstate) : str :=
  match s with
  | Done => [68; 79; 78; 69]                  (* "DONE" *)
  | Error => [69; 82; 82; 79; 82]             (* "ERROR" *)
  | Running => [82; 85; 78; 78; 73; 78; 71]   (* "RUNNING" *)
  end.

Record env := {
  e_tags : list (str * str);      (* params.json "tags" (string values) *)
  e_state : option jstate;        (* JobInformation.state *)
  e_name : str                    (* info.path.parent.name : the task directory *)
}.

Fixpoint assoc (k : str) (l : list (str * str)) : option str :=
  match l with
  | [] => None
  | (k', v) :: l' => if str_eqb k k' then Some v else assoc k l'
  end.

Inductive var := VState | VName | VTag (t : str).

(* VarExpr.get *)
Definition get (v : var) (e : env) : option str :=
  match v with
  | VState => match e_state e with Some s => Some (state_name s) | None => None end
  | VName => Some (e_name e)
  | VTag t => assoc t (e_tags e)
  end.

(* ---- regular expressions (the subset the generator prints) ------------ *)
Inductive regex :=
  | RNone                      (* matches nothing (only produced by derivatives) *)
  | REps                       (* "" *)
  | RChr (c : N)               (* a literal character *)
  | RAny                       (* .  (values never contain a newline) *)
  | RCat (a b : regex)
  | RAlt (a b : regex)         (* (?:a|b) *)
  | RStar (a : regex).         (* (?:a)* *)

(* a pattern is a regex optionally followed by "$" *)
Record pattern := { p_re : regex; p_eol : bool }.

Fixpoint nullable (r : regex) : bool :=
  match r with
  | RNone => false
  | REps => true
  | RChr _ => false
  | RAny => false
  | RCat a b => nullable a && nullable b
  | RAlt a b => nullable a || nullable b
  | RStar _ => true
  end.

(* Brzozowski derivative *)
Fixpoint deriv (c : N) (r : regex) : regex :=
  match r with
  | RNone => RNone
  | REps => RNone
  | RChr d => if c =? d then REps else RNone
  | RAny => REps
  | RCat a b => if nullable a then RAlt (RCat (deriv c a) b) (deriv c b) else RCat (deriv c a) b
  | RAlt a b => RAlt (deriv c a) (deriv c b)
  | RStar a => RCat (deriv c a) (RStar a)
  end.

(* re.match(r, s) is not None : some prefix of s is in the language of r *)
Fixpoint prefix_match (r : regex) (s : str) : bool :=
  nullable r || match s with [] => false | c :: s' => prefix_match (deriv c r) s' end.

(* with a trailing "$" the whole value has to be consumed *)
Fixpoint full_match (r : regex) (s : str) : bool :=
  match s with [] => nullable r | c :: s' => full_match (deriv c r) s' end.

Definition re_match (p : pattern) (s : str) : bool :=
  if p_eol p then full_match (p_re p) s else prefix_match (p_re p) s.

(* ---- filter expressions ------------------------------------------------ *)
Inductive operand := OVar (v : var) | OConst (s : str).

Inductive atom :=
  | AEq (v : var) (o : operand)        (* v = "s"   or   v = w *)
  | AIn (v : var) (l : list str)       (* v in ["a", "b"] *)
  | ANotIn (v : var) (l : list str)    (* v not in ["a", "b"] *)
  | ARegex (v : var) (p : pattern).    (* v ~ "re" *)

Inductive bop := BAnd | BOr.

Record expr := { x_first : atom; x_rest : list (bop * atom) }.

(* ConstantString.get / VarExpr.get *)
Definition oget (o : operand) (e : env) : option str :=
  match o with OVar v => get v e | OConst s => Some s end.

Definition isnil {A} (l : list A) : bool := match l with [] => true | _ => false end.

(* the four `filter` methods, after the repair (fixes/C19-1, C19-2):
   membership compares with the string values, `~` compiles the string and
   uses the compiled object.  A missing value fails a regular-expression
   test; an empty value is matched like any other (fixes/C19-11: the code
   used to say `if not value: return False`, see eval_atom_emptyfalse).     *)
(* EqExpr.filter after fixes/C19-13: a missing left-hand side equals nothing (before: var1.get == var2.get, and
   None == None made `model = bm25` -- quotes forgotten -- select every job without a `model` tag) *)
Definition eq_present (a b : option str) : bool :=
  match a with Some s => ostr_eqb (Some s) b | None => false end.

Definition eval_atom (a : atom) (e : env) : bool :=
  match a with
  | AEq v o => eq_present (get v e) (oget o e)
  | AIn v l => match get v e with Some s => mem s l | None => false end
  | ANotIn v l => negb (match get v e with Some s => mem s l | None => false end)
  | ARegex v p => match get v e with
                  | Some s => re_match p s
                  | None => false
                  end
  end.

(* RegexExpr.filter before fixes/C19-11, literally: `if not value: return False` -- an empty value never matches *)
Definition eval_regex_emptyfalse (v : var) (p : pattern) (e : env) : bool :=
  match get v e with
  | Some s => negb (isnil s) && re_match p s
  | None => false
  end.

(* LogicExpr.summary: [m1; (op1,m2); (op2,m3) ...] is nested to the left,
   the object built for (op, m) keeps m as `y` and everything before as `x` *)
Inductive lexpr := LAtom (a : atom) | LOp (op : bop) (x : lexpr) (y : atom).

Fixpoint summary (acc : lexpr) (rest : list (bop * atom)) : lexpr :=
  match rest with
  | [] => acc
  | (op, a) :: rest' => summary (LOp op acc a) rest'
  end.

(* LogicExpr.filter: `y.filter(i) and x.filter(i)` / `y.filter(i) or x.filter(i)` *)
Fixpoint eval_l (l : lexpr) (e : env) : bool :=
  match l with
  | LAtom a => eval_atom a e
  | LOp BAnd x y => eval_atom y e && eval_l x e
  | LOp BOr x y => eval_atom y e || eval_l x e
  end.

Definition compile (x : expr) : lexpr := summary (LAtom (x_first x)) (x_rest x).

(* bool(createFilter(text)(info)) *)
Definition eval (x : expr) (e : env) : bool := eval_l (compile x) e.

(* ---- the literal code of the pinned commit (defects #11, #12) ----------
   `quotedString` carries the ConstantString parse action everywhere, so
   membership looks a str up in a set of ConstantString objects (never
   equal), and RegexExpr.__init__ calls re.compile on such an object:
   TypeError while the filter is being built.  None = "raises".           *)
Definition has_regex_atom (a : atom) : bool := match a with ARegex _ _ => true | _ => false end.
Definition has_regex (x : expr) : bool :=
  has_regex_atom (x_first x) || existsb (fun p => has_regex_atom (snd p)) (x_rest x).

Definition eval_atom_prefix (a : atom) (e : env) : bool :=
  match a with
  | AEq v o => ostr_eqb (get v e) (oget o e)
  | AIn _ _ => false
  | ANotIn _ _ => true
  | ARegex _ _ => false        (* never reached: construction raises *)
  end.

Fixpoint eval_l_prefix (l : lexpr) (e : env) : bool :=
  match l with
  | LAtom a => eval_atom_prefix a e
  | LOp BAnd x y => eval_atom_prefix y e && eval_l_prefix x e
  | LOp BOr x y => eval_atom_prefix y e || eval_l_prefix x e
  end.

Definition eval_prefix (x : expr) (e : env) : option bool :=
  if has_regex x then None else Some (eval_l_prefix (compile x) e).

(* ---- documented meaning, stated independently of the evaluator --------- *)
(* the language of a regular expression *)
Inductive lang : regex -> str -> Prop :=
  | LEps : lang REps []
  | LChr c : lang (RChr c) [c]
  | LAny c : lang RAny [c]
  | LCat a b s1 s2 : lang a s1 -> lang b s2 -> lang (RCat a b) (s1 ++ s2)
  | LAltL a b s : lang a s -> lang (RAlt a b) s
  | LAltR a b s : lang b s -> lang (RAlt a b) s
  | LStar0 a : lang (RStar a) []
  | LStarS a s1 s2 : lang a s1 -> lang (RStar a) s2 -> lang (RStar a) (s1 ++ s2).

(* "the value matches the pattern": a prefix of the value (the whole value
   if the pattern ends with $) belongs to the language                      *)
Definition matches (p : pattern) (s : str) : Prop :=
  exists pre suf, s = pre ++ suf /\ lang (p_re p) pre /\ (p_eol p = true -> suf = []).

Definition member (v : var) (l : list str) (e : env) : Prop :=
  exists s, get v e = Some s /\ In s l.

Definition meaning_atom (a : atom) (e : env) : Prop :=
  match a with
  | AEq v o => exists s, get v e = Some s /\ oget o e = Some s
  | AIn v l => member v l e
  | ANotIn v l => ~ member v l e
  | ARegex v p => exists s, get v e = Some s /\ matches p s
  end.

(* no precedence between `and` and `or`: the chain is read left to right *)
Definition meaning (x : expr) (e : env) : Prop :=
  fold_left (fun P (oa : bop * atom) =>
               match fst oa with
               | BAnd => P /\ meaning_atom (snd oa) e
               | BOr => P \/ meaning_atom (snd oa) e
               end)
            (x_rest x) (meaning_atom (x_first x) e).

(* ---- arbitrary bracketings of a single-operator chain ------------------ *)
Inductive btree := BLeaf (a : atom) | BNode (l r : btree).

Fixpoint leaves (t : btree) : list atom :=
  match t with BLeaf a => [a] | BNode l r => leaves l ++ leaves r end.

Fixpoint eval_tree (op : bop) (t : btree) (e : env) : bool :=
  match t with
  | BLeaf a => eval_atom a e
  | BNode l r => match op with
                 | BAnd => eval_tree op l e && eval_tree op r e
                 | BOr => eval_tree op l e || eval_tree op r e
                 end
  end.

(* the chain  a1 op a2 op ... op an  as createFilter reads it *)
Definition chain (op : bop) (a : atom) (l : list atom) : expr :=
  {| x_first := a; x_rest := map (fun b => (op, b)) l |}.
