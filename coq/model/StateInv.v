(* Executable form of the invariant the cache theorems start from (C01, C14): evaluated by the
   correspondence run on every state exported from the implementation, so that the hypothesis
   `ginv` of the theorems is CHECKED on the observed states, not assumed.  Definitions only.  *)
From Coq Require Import ZArith NArith List Bool.
From XV Require Import core.Value model.Hash model.Cache model.Seal.
Import ListNotations.

Section StateInv.
  Variable H : bytes -> bytes.
  Variable cs : classes.
  Variable fuel : nat.

  (* cached identifiers sit on sealed configurations only and are the identifiers computed afresh *)
  Definition entry_ok (h : heap) (s : cstate) (n : nat) : bool :=
    let e := cget s n in
    (if k_sealed e then true else match k_raw e, k_full e with None, None => true | _, _ => false end) &&
    match k_raw e with
    | None => true
    | Some (d, fl) => match raw_ident H cs h (fun _ => None) fuel n with
                      | Ok (d', fl') => bytes_eqb d d' && Bool.eqb fl fl'
                      | Err _ => false
                      end
    end &&
    match k_full e with
    | None => true
    | Some d => match full_pure H cs h fuel n with Ok d' => bytes_eqb d d' | Err _ => false end
    end.

  Definition closed_b (h : heap) (s : cstate) : bool :=
    forallb (fun n => match nth_error h n with
                      | Some x => if sealed_in s n then forallb (sealed_in s) (succs x) else true
                      | None => true
                      end) (seq 0 (length h)).

  Definition wf_heap_b (h : heap) : bool :=
    forallb (fun x => forallb (fun m => Nat.ltb m (length h)) (succs x)) h.

  Definition ginv_b (g : gstate) : bool :=
    wf_heap_b (fst g) && Nat.eqb (length (snd g)) (length (fst g)) && closed_b (fst g) (snd g) &&
    forallb (entry_ok (fst g) (snd g)) (seq 0 (length (snd g))).

  (* diagnosis for the harness: (node, code) pairs flattened; 1 = sealed with an unsealed successor,
     2 = identifier cached on an unsealed configuration, 3 = cached raw identifier (or its loop flag)
     differs from the fresh one, 4 = cached full identifier differs, 5 = dangling reference / sizes *)
  Definition ginv_diag (g : gstate) : list nat :=
    let h := fst g in let s := snd g in
    (if wf_heap_b h && Nat.eqb (length s) (length h) then [] else [0; 5]) ++
    flat_map (fun n =>
      let e := cget s n in
      (match nth_error h n with
       | Some x => if sealed_in s n && negb (forallb (sealed_in s) (succs x)) then [n; 1] else []
       | None => [] end) ++
      (if k_sealed e then [] else match k_raw e, k_full e with None, None => [] | _, _ => [n; 2] end) ++
      (match k_raw e with
       | None => []
       | Some (d, fl) => match raw_ident H cs h (fun _ => None) fuel n with
                         | Ok (d', fl') => if bytes_eqb d d' && Bool.eqb fl fl' then [] else [n; 3]
                         | Err _ => [n; 3]
                         end
       end) ++
      (match k_full e with
       | None => []
       | Some d => match full_pure H cs h fuel n with Ok d' => if bytes_eqb d d' then [] else [n; 4] | Err _ => [n; 4] end
       end)) (seq 0 (length s)).
End StateInv.
