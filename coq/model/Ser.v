(* Token-level syntax of the byte stream HashComputer feeds to the hasher, and
   the typed domain on which it is uniquely readable (C03).  Definitions only.

   A nested configuration appears as its 32-byte identifier (SObj) or as a
   relative cycle reference (SCyc); types are the declared parameter types.  *)
From Coq Require Import ZArith NArith List Bool.
From XV Require Import core.Value model.Hash.
Import ListNotations.

Inductive sty := TInt | TFloat | TStr | TEnum | TObj | TOpt (t : sty) | TList (t : sty) | TDict (t : sty).

Inductive sval :=
| SNone | SInt (z : Z) | SFloat (b : N) | SStr (s : bytes) | SEnum (q : bytes)
| SObj (d : bytes) | SCyc (k : Z)
| SList (l : list sval) | SDict (l : list (bytes * sval)).

Definition q8 (z : Z) : bytes := be_bytes 8 (Z.to_N (Z.modulo z two64)).

Fixpoint enc (v : sval) : bytes :=
  match v with
  | SNone => [NONE_ID]
  | SInt z => INT_ID :: q8 z
  | SFloat b => FLOAT_ID :: be_bytes 8 b
  | SStr s => STR_ID :: s
  | SEnum q => ENUM_ID :: q
  | SObj d => OBJECT_ID :: d
  | SCyc k => OBJECT_ID :: CYCLE_REFERENCE :: q8 k
  | SList l => LIST_ID :: pack_len (length l) ++ flat_map enc l
  | SDict l => DICT_ID :: flat_map (fun kv => STR_ID :: fst kv ++ enc (snd kv)) l
  end.

(* no control character: every byte is >= 0x20 (and a byte) *)
Definition clean (s : bytes) : Prop := Forall (fun b => (32 <= b)%N) s.
Definition low (b : N) : Prop := (b < 32)%N.
Definition lowhead (r : bytes) : Prop := match r with [] => True | b :: _ => low b end.

Definition inq (z : Z) : Prop := (- two63 <= z < two63)%Z.

Fixpoint has_type (t : sty) (v : sval) {struct t} : Prop :=
  match t with
  | TInt => exists z, v = SInt z /\ inq z
  | TFloat => exists b, v = SFloat b /\ (b < 18446744073709551616)%N
  | TStr => exists s, v = SStr s /\ clean s
  | TEnum => exists q, v = SEnum q /\ clean q
  | TObj => (exists d, v = SObj d /\ length d = 32 /\ hd_error d <> Some CYCLE_REFERENCE)
            \/ (exists k, v = SCyc k /\ inq k)
  | TOpt t' => v = SNone \/ has_type t' v
  | TList t' => exists l, v = SList l /\ Forall (has_type t') l /\ (N.of_nat (length l) < 9007199254740992)%N
  | TDict t' => exists l, v = SDict l /\ Forall (fun kv => clean (fst kv) /\ has_type t' (snd kv)) l
  end.

(* first byte of the encoding of a value of type t *)
Fixpoint start (t : sty) : list N :=
  match t with
  | TInt => [INT_ID] | TFloat => [FLOAT_ID] | TStr => [STR_ID] | TEnum => [ENUM_ID] | TObj => [OBJECT_ID]
  | TOpt t' => NONE_ID :: start t'
  | TList _ => [LIST_ID] | TDict _ => [DICT_ID]
  end.

(* r cannot be read as a dict item  03 key tag...  whose value tag is in `tags` *)
Definition noitem (tags : list N) (r : bytes) : Prop :=
  forall k b r', clean k -> low b -> r = STR_ID :: k ++ b :: r' -> ~ In b tags.

(* what may follow a value of type t *)
Fixpoint fol (t : sty) (r : bytes) : Prop :=
  match t with
  | TInt | TFloat | TObj => True
  | TStr | TEnum => lowhead r
  | TOpt t' | TList t' => fol t' r
  | TDict t' => fol t' r /\ noitem (start t') r
  end.

(* every item-shaped follower (03 key b ..., b in tags) is acceptable after a value of type t *)
Fixpoint okfol (tags : list N) (t : sty) : Prop :=
  match t with
  | TInt | TFloat | TObj | TStr | TEnum => True
  | TOpt t' | TList t' => okfol tags t'
  | TDict t' => okfol tags t' /\ (forall b, In b tags -> ~ In b (start t'))
  end.

(* well-formed declared types: inside Dict[str, t], an item of the enclosing dict must
   never be readable as an item of a dict nested in t (dicts nested at most two levels,
   with a non-dict leaf, satisfy this)                                              *)
Fixpoint wf_ty (t : sty) : Prop :=
  match t with
  | TInt | TFloat | TStr | TEnum | TObj => True
  | TOpt t' => wf_ty t' /\ ~ In NONE_ID (start t')
  | TList t' => wf_ty t'
  | TDict t' => wf_ty t' /\ okfol (start t') t'
  end.

(* ---- the stream of one configuration ------------------------------------------ *)
Record ssig := { ss_task : option sval; ss_tid : bytes; ss_args : list (bytes * sty * sval) }.

Definition enc_sig (s : ssig) : bytes :=
  OBJECT_ID ::
  (match ss_task s with Some t => TASK_ID :: enc t | None => [] end)
  ++ ss_tid s
  ++ flat_map (fun a => STR_ID :: fst (fst a) ++ NAME_ID :: enc (snd a)) (ss_args s).

Definition wf_sig (s : ssig) : Prop :=
  (match ss_task s with Some t => has_type TObj t | None => True end) /\
  clean (ss_tid s) /\ ss_tid s <> [] /\
  Forall (fun a => clean (fst (fst a)) /\ wf_ty (snd (fst a)) /\ has_type (snd (fst a)) (snd a)) (ss_args s).

(* two signatures over the same class: same parameter names and declared types *)
Definition same_decl (s1 s2 : ssig) : Prop :=
  forall k t1 v1 t2 v2, In (k, t1, v1) (ss_args s1) -> In (k, t2, v2) (ss_args s2) -> t1 = t2.

(* ---- tokenisation of the model's values: what hv feeds the hasher, as sval ----------
   (nested configurations become SObj <their identifier> / SCyc <relative index>)       *)
Section Tok.
  Variable H : bytes -> bytes.
  Variable cs : classes.
  Variable h : heap.
  Variable look : nat -> option bytes.

  Definition tres := res (sval * nat).

  Definition seq_tok {A} (f : A -> tres) : list A -> res (list sval * nat) :=
    fix go (l : list A) :=
      match l with
      | [] => Ok ([], O)
      | x :: l' => do a <- f x; do b <- go l'; Ok (fst a :: fst b, Nat.max (snd a) (snd b))
      end.

  Definition seq_tokd (f : value -> tres) : list (bytes * value) -> res (list (bytes * sval) * nat) :=
    fix go (l : list (bytes * value)) :=
      match l with
      | [] => Ok ([], O)
      | kv :: l' => do a <- f (snd kv); do b <- go l'; Ok ((fst kv, fst a) :: fst b, Nat.max (snd a) (snd b))
      end.

  Fixpoint tokv (fuel : nat) (st : list nat) (v : value) : tres :=
    match fuel with
    | O => Err EFuel
    | S f =>
        match v with
        | VNone => Ok (SNone, O)
        | VFloat b => Ok (SFloat b, O)
        | VInt z => do _ <- pack_q z; Ok (SInt z, O)
        | VBool b => do _ <- pack_q (zb b); Ok (SInt (zb b), O)
        | VStr s => Ok (SStr s, O)
        | VPath _ => Err EUnhashable
        | VEnum q => Ok (SEnum q, O)
        | VList l =>
            do r <- seq_tok (tokv f st) (filter (fun x => negb (is_meta h x)) l); Ok (SList (fst r), snd r)
        | VDict l =>
            do r <- seq_tokd (tokv f st) (sort_by fst (filter (fun kv => negb (is_meta h (snd kv))) l));
            Ok (SDict (fst r), snd r)
        | VRef m =>
            match index_of m st with
            | Some pos => do _ <- pack_q (Z.of_nat (S pos)); Ok (SCyc (Z.of_nat (S pos)), S pos)
            | None =>
                match look m with
                | Some d => Ok (SObj d, O)
                | None => do r <- hnode_with H cs h (hv H cs h look f) st m; Ok (SObj (fst r), Nat.pred (snd r))
                end
            end
        end
    end.

  Fixpoint tok_args (rec : value -> tres) (ty : bytes -> sty) (l : list (bytes * argsel))
    : res (list (bytes * sty * sval) * nat) :=
    match l with
    | [] => Ok ([], O)
    | (k, AVal v) :: l' => do a <- rec v; do b <- tok_args rec ty l'; Ok ((k, ty k, fst a) :: fst b, Nat.max (snd a) (snd b))
    | _ :: _ => Err EMissing
    end.

  (* the token-level signature whose encoding is hashed for node n (in context st) *)
  Definition tok_node (ty : bytes -> sty) (fuel : nat) (st : list nat) (n : nat) : res (ssig * nat) :=
    do sg <- nsig cs h n;
    let st' := n :: st in
    do t <- (match sg_task sg with
             | Some t => do r <- tokv fuel st' (VRef t);
                         Ok (match index_of t st' with Some _ => None | None => Some (fst r) end, snd r)
             | None => Ok (None, O)
             end);
    do a <- tok_args (tokv fuel st') ty (sg_args sg);
    Ok ({| ss_task := fst t; ss_tid := sg_tid sg; ss_args := fst a |}, Nat.max (snd t) (snd a)).
End Tok.

(* ---- decidable versions of the domain predicates (evaluated on every generated case) -- *)
Definition cleanb (s : bytes) : bool := forallb (fun b => N.leb 32 b) s.
Definition inqb (z : Z) : bool := (Z.leb (- two63) z && Z.ltb z two63)%bool.
Definition memN (b : N) (l : list N) : bool := existsb (N.eqb b) l.

(* strict = false ignores the requirement that an identifier does not start with the
   CYCLE_REFERENCE byte (an event of probability 1/256 per identifier with SHA-256)   *)
Fixpoint has_typeb (strict : bool) (t : sty) (v : sval) {struct t} : bool :=
  match t, v with
  | TInt, SInt z => inqb z
  | TFloat, SFloat b => N.ltb b 18446744073709551616
  | TStr, SStr s => cleanb s
  | TEnum, SEnum q => cleanb q
  | TObj, SObj d => Nat.eqb (length d) 32 &&
                    (negb strict || negb (match d with b :: _ => N.eqb b CYCLE_REFERENCE | [] => false end))
  | TObj, SCyc k => inqb k
  | TOpt t', SNone => true
  | TOpt t', _ => has_typeb strict t' v
  | TList t', SList l => forallb (has_typeb strict t') l && N.ltb (N.of_nat (length l)) 9007199254740992
  | TDict t', SDict l => forallb (fun kv => cleanb (fst kv) && has_typeb strict t' (snd kv)) l
  | _, _ => false
  end.

Fixpoint okfolb (tags : list N) (t : sty) : bool :=
  match t with
  | TInt | TFloat | TObj | TStr | TEnum => true
  | TOpt t' | TList t' => okfolb tags t'
  | TDict t' => okfolb tags t' && forallb (fun b => negb (memN b (start t'))) tags
  end.

Fixpoint wf_tyb (t : sty) : bool :=
  match t with
  | TInt | TFloat | TStr | TEnum | TObj => true
  | TOpt t' => wf_tyb t' && negb (memN NONE_ID (start t'))
  | TList t' => wf_tyb t'
  | TDict t' => wf_tyb t' && okfolb (start t') t'
  end.

Definition wf_sigb (strict : bool) (s : ssig) : bool :=
  (match ss_task s with Some t => has_typeb strict TObj t | None => true end)
  && cleanb (ss_tid s) && negb (match ss_tid s with [] => true | _ => false end)
  && forallb (fun a => cleanb (fst (fst a)) && wf_tyb (snd (fst a)) && has_typeb strict (snd (fst a)) (snd a)) (ss_args s).
