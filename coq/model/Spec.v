(* Fuel-free specification of identifiers on acyclic graphs (every reference
   points to an earlier node): a table of identifiers built node by node.
   Used to state that the cache machine is sound (C01, C14).  Definitions only. *)
From Coq Require Import ZArith NArith List Bool.
From XV Require Import core.Value model.Hash.
Import ListNotations.

Section Spec.
  Variable H : bytes -> bytes.
  Variable cs : classes.
  Variable h : heap.

  Definition q8t (z : Z) : bytes := be_bytes 8 (Z.to_N (Z.modulo z two64)).

  (* bytes hashed for a value, nested identifiers read from the table *)
  Fixpoint spec_v (tab : list bytes) (v : value) : bytes :=
    match v with
    | VNone => [NONE_ID]
    | VFloat b => FLOAT_ID :: be_bytes 8 b
    | VInt z => INT_ID :: q8t z
    | VBool b => INT_ID :: q8t (zb b)
    | VStr s => STR_ID :: s
    | VPath _ => []
    | VEnum q => ENUM_ID :: q
    | VList l =>
        LIST_ID :: pack_len (length (filter (fun x => negb (is_meta h x)) l))
                ++ flat_map (fun x => if is_meta h x then [] else spec_v tab x) l
    | VDict l =>
        (* values first (structural recursion), then the filter and the sort, which read keys and flags only *)
        let enc := map (fun kv => (fst kv, (is_meta h (snd kv), spec_v tab (snd kv)))) l in
        DICT_ID :: flat_map (fun p : bytes * (bool * bytes) => STR_ID :: fst p ++ snd (snd p))
                     (sort_by fst (filter (fun p : bytes * (bool * bytes) => negb (fst (snd p))) enc))
    | VRef m => OBJECT_ID :: nth m tab []
    end.

  Definition spec_arg (tab : list bytes) (p : bytes * argsel) : bytes :=
    match snd p with
    | AVal v => STR_ID :: fst p ++ NAME_ID :: spec_v tab v
    | _ => []
    end.

  Definition spec_node (tab : list bytes) (n : nat) : bytes :=
    match nsig cs h n with
    | Ok sg =>
        H (OBJECT_ID ::
           (match sg_task sg with Some t => TASK_ID :: spec_v tab (VRef t) | None => [] end)
           ++ sg_tid sg ++ flat_map (spec_arg tab) (sg_args sg))
    | Err _ => []
    end.

  (* identifiers of nodes 0 .. k-1 *)
  Fixpoint table (k : nat) : list bytes :=
    match k with
    | O => []
    | S k' => let t := table k' in t ++ [spec_node t k']
    end.

  Definition spec_id (n : nat) : bytes := nth n (table (length h)) [].

  Definition spec_full (n : nat) : bytes :=
    match nth_error h n with
    | Some x => full_of H (spec_id n) (map spec_id (pre_tasks_of h n)) (map spec_id (n_init x))
    | None => []
    end.
End Spec.
