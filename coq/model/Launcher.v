(* Model of experimaestro/launcherfinder/specs.py (+ the meaning of parser.py).
   Definitions only: proofs live in proofs/Launcher_lemmas.v.  *)
From Coq Require Import ZArith List Bool.
Import ListNotations.
Open Scope Z_scope.

(* ---- host side ------------------------------------------------------- *)
Record cuda := { g_mem : Z; g_min : Z }.
Record cpu := { c_mem : Z; c_cores : Z }.
Record host := { h_cuda : list cuda; h_cpu : cpu; h_prio : Z; h_maxdur : Z; h_mingpu : Z }.

(* ---- request side: a simple requirement ------------------------------
   The GPUs of a request built through the API carry only a memory amount
   (min_memory = 0, model = ""), and match() reads only that field.       *)
Record req := { r_gpus : list Z; r_cpu : cpu; r_dur : Z }.

Definition gpu_ok (hg : cuda) (m : Z) : bool := (m <=? g_mem hg) && (g_min hg <=? m).

(* zip(host.cuda, self.cuda_gpus): stops at the shorter list *)
Fixpoint zip_ok (hs : list cuda) (rs : list Z) : bool :=
  match hs, rs with
  | hg :: hs', m :: rs' => gpu_ok hg m && zip_ok hs' rs'
  | _, _ => true
  end.

(* CPUSpecification.__lt__ : "host is short of what is requested" *)
Definition cpu_lt (a b : cpu) : bool := (c_mem a <? c_mem b) || (c_cores a <? c_cores b).
(* the pinned commit's version, kept as the record of defect #9 *)
Definition cpu_lt_conj (a b : cpu) : bool := (c_mem a <? c_mem b) && (c_cores a <? c_cores b).

Definition isnil {A} (l : list A) : bool := match l with [] => true | _ => false end.
Definition zlen {A} (l : list A) : Z := Z.of_nat (length l).

Definition match_with (lt : cpu -> cpu -> bool) (r : req) (h : host) : option Z :=
  if negb (isnil (r_gpus r)) && (zlen (h_cuda h) <? zlen (r_gpus r)) then None
  else if negb (isnil (r_gpus r)) && negb (zip_ok (h_cuda h) (r_gpus r)) then None
  else if zlen (r_gpus r) <? h_mingpu h then None
  else if lt (h_cpu h) (r_cpu r) then None
  else if (0 <? h_maxdur h) && (h_maxdur h <? r_dur r) then None
  else Some (h_prio h).

Definition match_simple := match_with cpu_lt.
Definition match_simple_conj := match_with cpu_lt_conj.

(* RequirementUnion.match: index of the chosen alternative and its score.
   Literal: keep the first alternative whose score is strictly greater than
   the best so far (initially -infinity).                                   *)
Fixpoint union_go (rs : list req) (h : host) (i : nat) (best : option (nat * Z)) : option (nat * Z) :=
  match rs with
  | [] => best
  | r :: rs' =>
      let best' :=
        match match_simple r h with
        | None => best
        | Some s => match best with
                    | None => Some (i, s)
                    | Some (_, s0) => if s0 <? s then Some (i, s) else best
                    end
        end in
      union_go rs' h (S i) best'
  end.
Definition union_match (rs : list req) (h : host) : option (nat * Z) := union_go rs h 0%nat None.

(* specification of "first alternative, in the order given, that matches" *)
Fixpoint first_match (rs : list req) (h : host) (i : nat) : option (nat * Z) :=
  match rs with
  | [] => None
  | r :: rs' => match match_simple r h with
                | Some s => Some (i, s)
                | None => first_match rs' h (S i)
                end
  end.

(* ---- list.sort() on GPU memories (insertion sort; any stable sort gives
        the same list on integers)                                          *)
Fixpoint insert (x : Z) (l : list Z) : list Z :=
  match l with
  | [] => [x]
  | y :: l' => if x <=? y then x :: l else y :: insert x l'
  end.
Fixpoint sort (l : list Z) : list Z :=
  match l with [] => [] | x :: l' => insert x (sort l') end.

(* ---- value-level meaning of the combinators --------------------------- *)
(* _add(self, req) *)
Definition add_req (a b : req) : req :=
  {| r_gpus := sort (r_gpus a ++ r_gpus b);
     r_cpu := {| c_mem := Z.max (c_mem (r_cpu b)) (c_mem (r_cpu a));
                 c_cores := Z.max (c_cores (r_cpu b)) (c_cores (r_cpu a)) |};
     r_dur := Z.max (r_dur b) (r_dur a) |}.

Fixpoint repeat_app (l : list Z) (n : nat) (acc : list Z) : list Z :=
  match n with O => acc | S n' => repeat_app l n' (acc ++ l) end.

(* __mul__: count = 1 gives self; otherwise count-1 more copies (none when count <= 1) *)
Definition mul_req (a : req) (count : Z) : req :=
  if count =? 1 then a
  else {| r_gpus := sort (repeat_app (r_gpus a) (Z.to_nat (count - 1)) (r_gpus a));
          r_cpu := r_cpu a; r_dur := r_dur a |}.

(* ---- the same combinators with Python aliasing made explicit ---------- *)
(* A request object points to a CPU cell and a list cell of a store.       *)
Record store := { s_cpus : list cpu; s_lists : list (list Z) }.
Record robj := { o_cpu : nat; o_list : nat; o_dur : Z }.

Definition dcpu : cpu := {| c_mem := 0; c_cores := 0 |}.
Definition view (st : store) (o : robj) : req :=
  {| r_gpus := nth (o_list o) (s_lists st) [];
     r_cpu := nth (o_cpu o) (s_cpus st) dcpu;
     r_dur := o_dur o |}.
Definition valid (st : store) (o : robj) : Prop :=
  (o_cpu o < length (s_cpus st))%nat /\ (o_list o < length (s_lists st))%nat.

Fixpoint set_nth {A} (n : nat) (x : A) (l : list A) : list A :=
  match l, n with
  | [], _ => []
  | _ :: l', O => x :: l'
  | y :: l', S n' => y :: set_nth n' x l'
  end.

(* _add mutates the cells self points to; self.duration is a plain attribute *)
Definition add_into (st : store) (self other : robj) : store * robj :=
  let r := add_req (view st self) (view st other) in
  ({| s_cpus := set_nth (o_cpu self) (r_cpu r) (s_cpus st);
      s_lists := set_nth (o_list self) (r_gpus r) (s_lists st) |},
   {| o_cpu := o_cpu self; o_list := o_list self; o_dur := r_dur r |}).

(* copy.copy: a new object sharing both cells *)
Definition shallow_copy (st : store) (o : robj) : store * robj := (st, o).
(* copy.deepcopy: a new object with fresh cells *)
Definition deep_copy (st : store) (o : robj) : store * robj :=
  ({| s_cpus := s_cpus st ++ [r_cpu (view st o)];
      s_lists := s_lists st ++ [r_gpus (view st o)] |},
   {| o_cpu := length (s_cpus st); o_list := length (s_lists st); o_dur := o_dur o |}).

Definition and_with (cp : store -> robj -> store * robj) (st : store) (a b : robj) : store * robj :=
  let '(st1, n) := cp st a in add_into st1 n b.
Definition and_op := and_with deep_copy.          (* the tree after the fix: *)
Definition and_op_shallow := and_with shallow_copy. (* the pinned commit (defect #10) *)

Definition mul_op (st : store) (a : robj) (count : Z) : store * robj :=
  if count =? 1 then (st, a)
  else
    let '(st1, n) := deep_copy st a in
    let l := sort (repeat_app (r_gpus (view st a)) (Z.to_nat (count - 1)) (r_gpus (view st1 n))) in
    ({| s_cpus := s_cpus st1; s_lists := set_nth (o_list n) l (s_lists st1) |}, n).

(* ---- request expressions (what parser.py accepts) --------------------- *)
Inductive munit := UNone | UG | UM.
Inductive dunit := DH | DD.
Inductive item := IMem (n : Z) (u : munit) | ICores (n : Z).
Inductive term :=
  | TDuration (n : Z) (u : dunit)
  | TCuda (its : list item) (mult : option Z)
  | TCpu (its : list item).

Definition mem_bytes (n : Z) (u : munit) : Z :=
  match u with UNone => n | UG => n * 1000000000 | UM => n * 1000000 end.
Definition last_mem (its : list item) : option Z :=
  fold_left (fun acc it => match it with IMem n u => Some (mem_bytes n u) | _ => acc end) its None.
Definition last_cores (its : list item) : option Z :=
  fold_left (fun acc it => match it with ICores n => Some n | _ => acc end) its None.
Definition odflt (d : Z) (o : option Z) : Z := match o with Some x => x | None => d end.

Definition empty_req : req := {| r_gpus := []; r_cpu := dcpu; r_dur := 0 |}.
Definition sem_term (t : term) : req :=
  match t with
  | TDuration n u =>
      {| r_gpus := []; r_cpu := dcpu; r_dur := n * match u with DH => 3600 | DD => 86400 end |}
  | TCuda its mult =>
      let g := {| r_gpus := [odflt 0 (last_mem its)]; r_cpu := dcpu; r_dur := 0 |} in
      match mult with None => g | Some c => mul_req g c end
  | TCpu its =>
      {| r_gpus := []; r_cpu := {| c_mem := odflt 0 (last_mem its); c_cores := odflt 1 (last_cores its) |};
         r_dur := 0 |}
  end.
(* visit_one_spec: reduce(lambda x, el: x & el, children) *)
Definition sem_spec (ts : list term) : req :=
  match ts with
  | [] => empty_req
  | t :: ts' => fold_left (fun acc t' => add_req acc (sem_term t')) ts' (sem_term t)
  end.
Definition sem_expr (e : list (list term)) : list req := map sem_spec e.

(* ---- LauncherRegistry.find (registry.py l.139-176) ---------------------
   The registry turns its arguments into a list of specs (a string gives one
   simple requirement per alternative, parse(); an object is taken as it is)
   and hands them, one at a time and in order, to the find_launcher function
   of launchers.py.  The find_launcher functions of the documentation and of
   tests/launchers go through their hosts in order and answer with the first
   host the requirement they were given matches.                             *)

(* find_launcher(spec): spec is a simple requirement ([r]) or a RequirementUnion
   object; answer = (alternative chosen inside spec, index of the host)        *)
Fixpoint launcher_fn (spec : list req) (hs : list host) (j : nat) : option (nat * nat) :=
  match hs with
  | [] => None
  | h :: hs' => match union_match spec h with
                | Some (k, _) => Some (k, j)
                | None => launcher_fn spec hs' (S j)
                end
  end.

(* for spec in specs: if launcher := find_launcher_fn(spec): return launcher
   off = number of alternatives in the specs already tried                      *)
Fixpoint registry_go (specs : list (list req)) (hs : list host) (off : nat) : option (nat * nat) :=
  match specs with
  | [] => None
  | s :: ss => match launcher_fn s hs 0 with
               | Some (k, j) => Some ((off + k)%nat, j)
               | None => registry_go ss hs (off + length s)%nat
               end
  end.

Definition singletons (rs : list req) : list (list req) := map (fun r => [r]) rs.

(* an argument of find(): its alternatives, and whether it is one RequirementUnion
   object (built with |) rather than a string or a simple requirement            *)
Definition arg := (bool * list req)%type.
Definition all_alts (args : list arg) : list req := concat (map snd args).

(* every alternative is a spec of its own, in the order given *)
Definition registry_find (args : list arg) (hs : list host) : option (nat * nat) :=
  registry_go (singletons (all_alts args)) hs 0.
(* literal reading of registry.py: a RequirementUnion object stays one spec *)
Definition registry_find_objects (args : list arg) (hs : list host) : option (nat * nat) :=
  registry_go (flat_map (fun a : arg => if fst a then [snd a] else singletons (snd a)) args) hs 0.
(* all alternatives wrapped in one union handed to find_launcher once: each host, then each alternative *)
Definition registry_find_hostfirst (args : list arg) (hs : list host) : option (nat * nat) :=
  registry_go [all_alts args] hs 0.
