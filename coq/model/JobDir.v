(* JobDir.v - the job-directory protocol shared by schedulers and job processes,
   and the in-process registry used for de-duplication.   (C05, C11)

   Anchors in /repo/src/experimaestro:
     scheduler/base.py   Scheduler.jobs, aio_registerJob, aio_submit, aio_start
     commandline.py      CommandLineJob.aio_process (pid file -> process), aio_run
                         (prepare -> Popen -> write pid file)
     connectors/local.py detached Popen, PsutilProcess from the pid file, InterProcessLock
     run.py              TaskRunner.run / cleanup / handle_error
     scriptbuilder.py    the job script is (re)written by open("wt") + write + close

   Definitions only; proofs are in proofs/JobDir_lemmas.v.

   Modelled, not verified (assumptions of the operating system, restated in the notes):
     - the run lock (fcntl record lock on <name>.lock) is exclusive between processes
       and is released when its holder dies;
     - a job process started by a scheduler survives the death of that scheduler;
     - liveness of the process named by a pid file is reported truthfully.            *)
From Coq Require Import List Bool Arith ZArith.
Import ListNotations.

(* ------------------------------------------------------------------ total maps *)
Definition upd {A} (f : nat -> A) (k : nat) (v : A) : nat -> A :=
  fun i => if Nat.eqb i k then v else f i.
Arguments upd : simpl never.

(* ==================================================================
   Part 1.  The registry  (Scheduler.jobs, aio_registerJob, ConfigInformation.submit)
   ================================================================== *)
Inductive jst := JWaiting | JReady | JRunning | JDone | JError.
Definition jst_error (s : jst) : bool := match s with JError => true | _ => false end.
Definition jst_finished (s : jst) : bool := match s with JDone | JError => true | _ => false end.

Fixpoint lookup (k : nat) (l : list (nat * nat)) : option nat :=
  match l with
  | [] => None
  | (k', v) :: l' => if Nat.eqb k k' then Some v else lookup k l'
  end.
Fixpoint replace (k v : nat) (l : list (nat * nat)) : list (nat * nat) :=
  match l with
  | [] => []
  | (k', v') :: l' => if Nat.eqb k k' then (k', v) :: l' else (k', v') :: replace k v l'
  end.

(* Job objects are numbered in the order in which they are handed to aio_submit. *)
Record reg := {
  r_jobs : list (nat * nat);     (* Scheduler.jobs : identifier -> job object *)
  r_state : nat -> jst;          (* job.state of each job object *)
  r_ident : nat -> nat;          (* identifier of each job object *)
  r_next : nat;                  (* number of job objects scheduled so far *)
  r_unfinished : Z               (* experiment.unfinishedJobs *)
}.
Definition reg0 : reg :=
  {| r_jobs := []; r_state := fun _ => JWaiting; r_ident := fun _ => 0; r_next := 0; r_unfinished := 0%Z |}.

(* One call of ConfigInformation.submit for a configuration of identifier i.
   Result: the new registry and the job object whose output is returned.
   [repl] = the re-submission branch registers the new job (true: repaired code;
   false: the code of the pinned commit, which leaves the failed job in the registry
   and does not count the new one).                                                   *)
Definition submit_with (repl : bool) (r : reg) (i : nat) : reg * nat :=
  match lookup i (r_jobs r) with
  | Some other =>
      if jst_error (r_state r other) then
        let j := r_next r in
        ({| r_jobs := if repl then replace i j (r_jobs r) else r_jobs r;
            r_state := upd (r_state r) j JWaiting;
            r_ident := upd (r_ident r) j i;
            r_next := S j;
            r_unfinished := if repl then (r_unfinished r + 1)%Z else r_unfinished r |}, j)
      else (r, other)                       (* "already submitted": return the other job *)
  | None =>
      let j := r_next r in
      ({| r_jobs := (i, j) :: r_jobs r;
          r_state := upd (r_state r) j JWaiting;
          r_ident := upd (r_ident r) j i;
          r_next := S j;
          r_unfinished := (r_unfinished r + 1)%Z |}, j)
  end.
Definition submit := submit_with true.
Definition submit_prefix := submit_with false.     (* literal pinned code, kept for the refutation *)

(* What happens between submissions: the scheduler moves a job object to another state.
   Final states are absorbing (that is C06's statement; here it is the shape of the
   environment), and a job that reaches a final state is counted as finished.        *)
Inductive rev := RSubmit (i : nat) | RState (j : nat) (s : jst).

Definition set_state (r : reg) (j : nat) (s : jst) : reg :=
  if (j <? r_next r) && negb (jst_finished (r_state r j)) then
    {| r_jobs := r_jobs r; r_state := upd (r_state r) j s; r_ident := r_ident r; r_next := r_next r;
       r_unfinished := if jst_finished s then (r_unfinished r - 1)%Z else r_unfinished r |}
  else r.

(* run a history; the second component lists, per RSubmit, (returned job, created?) *)
Fixpoint run_with (repl : bool) (h : list rev) (r : reg) : reg * list (nat * bool) :=
  match h with
  | [] => (r, [])
  | RSubmit i :: h' =>
      let '(r1, j) := submit_with repl r i in
      let '(r2, out) := run_with repl h' r1 in
      (r2, (j, negb (Nat.eqb (r_next r1) (r_next r))) :: out)
  | RState j s :: h' => run_with repl h' (set_state r j s)
  end.
Definition run_reg := run_with true.
Definition run_reg_prefix := run_with false.

(* job objects of identifier i that are not failed *)
Definition live_of (r : reg) (i : nat) : list nat :=
  filter (fun j => Nat.eqb (r_ident r j) i && negb (jst_error (r_state r j))) (seq 0 (r_next r)).

(* ==================================================================
   Part 2.  One job directory, N schedulers, any number of job processes
   ================================================================== *)
Inductive agent := ASched (s : nat) | AProc (p : nat).
Definition agent_eqb (a b : agent) : bool :=
  match a, b with
  | ASched x, ASched y => Nat.eqb x y
  | AProc x, AProc y => Nat.eqb x y
  | _, _ => false
  end.

(* exit of a job process: XOk = code 0 on a path that saw or wrote the success marker;
   XFail = non-zero (failure path, or killed); XNop = code 0 of an *empty* script
   (the interpreter read <name>.py while a scheduler was between open("wt") and close) *)
Inductive xcode := XOk | XFail | XNop.
Inductive sfile := SEmpty | SFull.
(* <name>.pid is created by open("w") and filled when the file object is closed: two steps *)
Inductive pidfile := PFNone | PFEmpty | PFSome (p : nat).

(* program counter of a job process = the next effect of TaskRunner.run *)
Inductive ppc :=
| PNone                (* no such process *)
| PExec                (* next: the interpreter reads the script *)
| PLockW               (* next: acquire the run lock (blocking) *)
| PTest                (* lock held; next: donepath.is_file() *)
| PRmFailed            (* next: rmfile(failedpath) *)
| PBegin               (* next: the task body begins *)
| PBody                (* inside the body; next: it ends *)
| PTouch               (* body succeeded; next: donepath.touch(), then exit *)
| PWriteFailed         (* body failed; next: failedpath.write_text *)
| PRmPid (c : xcode)   (* cleanup: rmfile(pidfile) *)
| PUnlock (c : xcode)  (* cleanup: release the lock, exit *)
| PExit (c : xcode).   (* dead *)

Definition alive (c : ppc) : bool := match c with PNone | PExit _ => false | _ => true end.
Definition plocked (c : ppc) : bool :=
  match c with
  | PTest | PRmFailed | PBegin | PBody | PTouch | PWriteFailed | PRmPid _ | PUnlock _ => true
  | _ => false
  end.
Definition pinflight (c : ppc) : bool := match c with PBody | PTouch => true | _ => false end.
Definition prun (c : ppc) : bool :=
  match c with PRmFailed | PBegin | PBody | PTouch | PWriteFailed => true | _ => false end.
Definition pfailing (c : ppc) : bool :=
  match c with PWriteFailed | PRmPid XFail | PUnlock XFail | PExit XFail => true | _ => false end.

Inductive view := VDone | VError.

(* program counter of one scheduler instance for this job = the next effect of
   aio_submit / aio_start / aio_run                                                  *)
Inductive spc :=
| SIdle                        (* job not submitted by this instance *)
| STest1                       (* next: first donepath.exists() *)
| SPid (d : bool)              (* next: aio_process(): pid file + liveness; d = first test *)
| SAdopt (p : nat)             (* waits for the adopted process p *)
| STest2 (adopted d : bool)    (* next: second donepath.exists() *)
| SReady                       (* waits until the job is READY (dependencies) *)
| SLock                        (* aio_start; next: take the job lock (blocking) *)
| STest3                       (* lock held; next: donepath test under the lock (repaired aio_start only) *)
| STrunc                       (* lock held; next: mkdir, params.json, open(script, "wt") *)
| SWrite                       (* lock held; next: write + close the script *)
| SSpawn                       (* lock held; next: Popen *)
| SCreatePid (p : nat)         (* lock held; next: pidpath.open("w") creates/truncates the pid file *)
| SWritePid (p : nat)          (* lock held; next: the JSON text reaches the pid file (close) *)
| SUnlock (p : nat)            (* lock held; next: release the job lock *)
| SWait (p : nat)              (* waits for the exit code of its child p *)
| SFinal (v : view)            (* job.state is final in this instance *)
| SDead                        (* the instance died (or this job's coroutine was aborted) *)
| SStuck.                      (* aio_submit raised: the job never becomes final, the experiment never ends *)

Definition slocked (c : spc) : bool :=
  match c with STest3 | STrunc | SWrite | SSpawn | SCreatePid _ | SWritePid _ | SUnlock _ => true | _ => false end.
(* an attempt is over: a new one may begin *)
Definition sover (c : spc) : bool := match c with SIdle | SFinal _ | SDead => true | _ => false end.
(* between a negative aio_process() and the write of the pid file *)
Definition sprelaunch (c : spc) : bool :=
  match c with STest2 false _ | SReady | SLock | STest3 | STrunc | SWrite | SSpawn => true | _ => false end.
(* the scheduler owns a child / an adopted process *)
Definition schild (c : spc) : option nat :=
  match c with SCreatePid p | SWritePid p | SUnlock p | SWait p | SAdopt p => Some p | _ => None end.

Record jobdir := {
  done : bool;                 (* <name>.done *)
  failed : bool;               (* <name>.failed *)
  pidf : pidfile;              (* <name>.pid: absent, empty, or the process it names *)
  lock : option agent;         (* holder of the lock on <name>.lock *)
  script : sfile;              (* <name>.py *)
  procs : nat -> ppc;
  nprocs : nat;                (* processes created so far; the next one gets this number *)
  scheds : nat -> spc;
  (* ghost state *)
  body_runs : nat;             (* number of BodyBegin effects *)
  body_active : nat;           (* processes inside the body *)
  inflight : nat;              (* processes between BodyBegin and TouchDone *)
  launches : nat;              (* number of Popen effects *)
  succ : nat;                  (* number of TouchDone effects *)
  aborts : nat;                (* bodies that failed + job processes that were killed *)
  done0 : bool                 (* the marker was there before everything started *)
}.

Definition set_done (st : jobdir) (v : bool) : jobdir :=
  {| done := v; failed := failed st; pidf := pidf st; lock := lock st; script := script st;
     procs := procs st; nprocs := nprocs st; scheds := scheds st; body_runs := body_runs st;
     body_active := body_active st; inflight := inflight st; launches := launches st;
     succ := succ st; aborts := aborts st; done0 := done0 st |}.
Definition set_failed (st : jobdir) (v : bool) : jobdir :=
  {| done := done st; failed := v; pidf := pidf st; lock := lock st; script := script st;
     procs := procs st; nprocs := nprocs st; scheds := scheds st; body_runs := body_runs st;
     body_active := body_active st; inflight := inflight st; launches := launches st;
     succ := succ st; aborts := aborts st; done0 := done0 st |}.
Definition set_pidf (st : jobdir) (v : pidfile) : jobdir :=
  {| done := done st; failed := failed st; pidf := v; lock := lock st; script := script st;
     procs := procs st; nprocs := nprocs st; scheds := scheds st; body_runs := body_runs st;
     body_active := body_active st; inflight := inflight st; launches := launches st;
     succ := succ st; aborts := aborts st; done0 := done0 st |}.
Definition set_lock (st : jobdir) (v : option agent) : jobdir :=
  {| done := done st; failed := failed st; pidf := pidf st; lock := v; script := script st;
     procs := procs st; nprocs := nprocs st; scheds := scheds st; body_runs := body_runs st;
     body_active := body_active st; inflight := inflight st; launches := launches st;
     succ := succ st; aborts := aborts st; done0 := done0 st |}.
Definition set_script (st : jobdir) (v : sfile) : jobdir :=
  {| done := done st; failed := failed st; pidf := pidf st; lock := lock st; script := v;
     procs := procs st; nprocs := nprocs st; scheds := scheds st; body_runs := body_runs st;
     body_active := body_active st; inflight := inflight st; launches := launches st;
     succ := succ st; aborts := aborts st; done0 := done0 st |}.
Definition set_proc (st : jobdir) (p : nat) (c : ppc) : jobdir :=
  {| done := done st; failed := failed st; pidf := pidf st; lock := lock st; script := script st;
     procs := upd (procs st) p c; nprocs := nprocs st; scheds := scheds st; body_runs := body_runs st;
     body_active := body_active st; inflight := inflight st; launches := launches st;
     succ := succ st; aborts := aborts st; done0 := done0 st |}.
Definition set_sched (st : jobdir) (s : nat) (c : spc) : jobdir :=
  {| done := done st; failed := failed st; pidf := pidf st; lock := lock st; script := script st;
     procs := procs st; nprocs := nprocs st; scheds := upd (scheds st) s c; body_runs := body_runs st;
     body_active := body_active st; inflight := inflight st; launches := launches st;
     succ := succ st; aborts := aborts st; done0 := done0 st |}.
(* ghost counters: (body_runs, body_active, inflight, succ, aborts) *)
Definition set_ghost (st : jobdir) (r a i s ab : nat) : jobdir :=
  {| done := done st; failed := failed st; pidf := pidf st; lock := lock st; script := script st;
     procs := procs st; nprocs := nprocs st; scheds := scheds st; body_runs := r;
     body_active := a; inflight := i; launches := launches st;
     succ := s; aborts := ab; done0 := done0 st |}.
Definition new_proc (st : jobdir) : jobdir :=
  {| done := done st; failed := failed st; pidf := pidf st; lock := lock st; script := script st;
     procs := upd (procs st) (nprocs st) PExec; nprocs := S (nprocs st); scheds := scheds st;
     body_runs := body_runs st; body_active := body_active st; inflight := inflight st;
     launches := S (launches st); succ := succ st; aborts := aborts st; done0 := done0 st |}.

(* the OS drops the lock of an agent that dies / the agent releases it *)
Definition release (a : agent) (l : option agent) : option agent :=
  match l with
  | Some b => if agent_eqb a b then None else l
  | None => None
  end.

Inductive label :=
(* effects of scheduler instance s *)
| LSubmit (s : nat)      (* a (new) instance submits the job: aio_submit starts *)
| LTest1 (s : nat)
| LPid (s : nat)
| LAdoptEnd (s : nat)    (* the adopted process is gone *)
| LTest2 (s : nat)
| LReady (s : nat)       (* the job became READY (all dependencies DONE) *)
| LDepFail (s : nat)     (* a dependency failed *)
| LSLock (s : nat)
| LTest3 (s : nat)       (* repaired aio_start: the marker is tested again once the job lock is held *)
| LAbort (s : nat)       (* aio_start gives up after taking the job lock (a token could not be taken):
                           the lock is released and the job waits to be READY again *)
| LTrunc (s : nat)
| LWrite (s : nat)
| LSpawn (s : nat)
| LCreatePid (s : nat)
| LWritePid (s : nat)
| LSUnlock (s : nat)
| LWaitEnd (s : nat)     (* the child is gone: exit code read *)
| LCrash (s : nat)       (* the instance dies (SIGKILL/SIGTERM/SIGINT), anywhere *)
(* effects of job process p *)
| LExec (p : nat)
| LPLock (p : nat)
| LPTest (p : nat)
| LRmFailed (p : nat)
| LBegin (p : nat)
| LEnd (p : nat) (ok : bool)
| LTouch (p : nat) (cleanup : bool)   (* cleanup = the atexit handler is still registered *)
| LWriteFailed (p : nat)
| LRmPid (p : nat)
| LPUnlock (p : nat)
| LKill (p : nat).       (* the job process is killed, anywhere *)

Definition lbl_sched (l : label) : option nat :=
  match l with
  | LSubmit s | LTest1 s | LPid s | LAdoptEnd s | LTest2 s | LReady s | LDepFail s | LSLock s
  | LTest3 s | LAbort s | LTrunc s | LWrite s | LSpawn s | LCreatePid s | LWritePid s | LSUnlock s | LWaitEnd s | LCrash s => Some s
  | _ => None
  end.

Definition view_of_code (c : xcode) : view := match c with XFail => VError | _ => VDone end.

(* The transition function: None = the effect is not enabled in this state.
   [fixed] = the repaired code: aio_process() treats a pid file without content as "no process
   information", the job script is written aside and renamed, and aio_start tests the marker again once it
   holds the job lock;  false = the pinned code, where json.loads("") raises inside aio_submit, the script
   is rewritten in place, and aio_start launches whatever happened while it waited for the lock. *)
Definition lstep_with (fixed : bool) (l : label) (st : jobdir) : option jobdir :=
  match l with
  | LSubmit s => if sover (scheds st s) then Some (set_sched st s STest1) else None
  | LTest1 s =>
      match scheds st s with STest1 => Some (set_sched st s (SPid (done st))) | _ => None end
  | LPid s =>
      match scheds st s with
      | SPid d =>
          match pidf st with
          | PFSome p => if alive (procs st p) then Some (set_sched st s (SAdopt p))
                        else Some (set_sched st s (STest2 false d))
          | PFNone => Some (set_sched st s (STest2 false d))
          | PFEmpty => if fixed then Some (set_sched st s (STest2 false d)) else Some (set_sched st s SStuck)
          end
      | _ => None
      end
  | LAdoptEnd s =>
      match scheds st s with
      | SAdopt p => if alive (procs st p) then None else Some (set_sched st s (STest2 true false))
      | _ => None
      end
  | LTest2 s =>
      match scheds st s with
      | STest2 a d =>
          if done st then Some (set_sched st s (SFinal VDone))
          else if a then Some (set_sched st s (SFinal VError))
          else if d then Some (set_sched st s (SFinal VDone))
          else Some (set_sched st s SReady)
      | _ => None
      end
  | LReady s => match scheds st s with SReady => Some (set_sched st s SLock) | _ => None end
  | LDepFail s => match scheds st s with SReady => Some (set_sched st s (SFinal VError)) | _ => None end
  | LSLock s =>
      match scheds st s, lock st with
      | SLock, None => Some (set_sched (set_lock st (Some (ASched s))) s (if fixed then STest3 else STrunc))
      | _, _ => None
      end
  | LTest3 s =>
      (* completed by another process while this scheduler waited for the lock: nothing is launched *)
      match scheds st s with
      | STest3 => if done st then Some (set_sched (set_lock st (release (ASched s) (lock st))) s (SFinal VDone))
                  else Some (set_sched st s STrunc)
      | _ => None
      end
  | LAbort s =>
      match scheds st s with
      | STrunc => Some (set_sched (set_lock st (release (ASched s) (lock st))) s SReady)
      | _ => None
      end
  | LTrunc s =>
      (* pinned code: <name>.py is rewritten in place, open("wt") empties it; repaired code: the text goes to a
         temporary file that LWrite renames into place, the script itself is never seen empty *)
      match scheds st s with
      | STrunc => Some (set_sched (if fixed then st else set_script st SEmpty) s SWrite)
      | _ => None
      end
  | LWrite s => match scheds st s with SWrite => Some (set_sched (set_script st SFull) s SSpawn) | _ => None end
  | LSpawn s =>
      match scheds st s with
      | SSpawn => Some (set_sched (new_proc st) s (SCreatePid (nprocs st)))
      | _ => None
      end
  | LCreatePid s =>
      match scheds st s with SCreatePid p => Some (set_sched (set_pidf st PFEmpty) s (SWritePid p)) | _ => None end
  | LWritePid s =>
      match scheds st s with SWritePid p => Some (set_sched (set_pidf st (PFSome p)) s (SUnlock p)) | _ => None end
  | LSUnlock s =>
      match scheds st s with
      | SUnlock p => Some (set_sched (set_lock st (release (ASched s) (lock st))) s (SWait p))
      | _ => None
      end
  | LWaitEnd s =>
      match scheds st s with
      | SWait p => match procs st p with
                   | PExit c => Some (set_sched st s (SFinal (view_of_code c)))
                   | _ => None
                   end
      | _ => None
      end
  | LCrash s =>
      match scheds st s with
      | SDead => None
      | _ => Some (set_sched (set_lock st (release (ASched s) (lock st))) s SDead)
      end
  | LExec p =>
      match procs st p with
      | PExec => Some (set_proc st p (match script st with SFull => PLockW | SEmpty => PExit XNop end))
      | _ => None
      end
  | LPLock p =>
      match procs st p, lock st with
      | PLockW, None => Some (set_proc (set_lock st (Some (AProc p))) p PTest)
      | _, _ => None
      end
  | LPTest p =>
      match procs st p with
      | PTest => Some (set_proc st p (if done st then PRmPid XOk else PRmFailed))
      | _ => None
      end
  | LRmFailed p =>
      match procs st p with PRmFailed => Some (set_proc (set_failed st false) p PBegin) | _ => None end
  | LBegin p =>
      match procs st p with
      | PBegin => Some (set_proc (set_ghost st (S (body_runs st)) (S (body_active st)) (S (inflight st))
                                            (succ st) (aborts st)) p PBody)
      | _ => None
      end
  | LEnd p ok =>
      match procs st p with
      | PBody =>
          if ok then Some (set_proc (set_ghost st (body_runs st) (pred (body_active st)) (inflight st)
                                               (succ st) (aborts st)) p PTouch)
          else Some (set_proc (set_ghost st (body_runs st) (pred (body_active st)) (pred (inflight st))
                                         (succ st) (S (aborts st))) p PWriteFailed)
      | _ => None
      end
  | LTouch p cleanup =>
      match procs st p with
      | PTouch =>
          let st1 := set_ghost (set_done st true) (body_runs st) (body_active st) (pred (inflight st))
                               (S (succ st)) (aborts st) in
          if cleanup then Some (set_proc st1 p (PRmPid XOk))
          else Some (set_proc (set_lock st1 (release (AProc p) (lock st))) p (PExit XOk))
      | _ => None
      end
  | LWriteFailed p =>
      match procs st p with PWriteFailed => Some (set_proc (set_failed st true) p (PRmPid XFail)) | _ => None end
  | LRmPid p =>
      match procs st p with PRmPid c => Some (set_proc (set_pidf st PFNone) p (PUnlock c)) | _ => None end
  | LPUnlock p =>
      match procs st p with
      | PUnlock c => Some (set_proc (set_lock st (release (AProc p) (lock st))) p (PExit c))
      | _ => None
      end
  | LKill p =>
      let c := procs st p in
      if alive c then
        let st1 := set_lock st (release (AProc p) (lock st)) in
        let st2 := set_ghost st1 (body_runs st)
                     (match c with PBody => pred (body_active st) | _ => body_active st end)
                     (if pinflight c then pred (inflight st) else inflight st)
                     (succ st)
                     (S (aborts st)) in
        Some (set_proc st2 p (PExit XFail))
      else None
  end.

Definition lstep := lstep_with true.
Definition lstep_prefix := lstep_with false.     (* literal pinned code, kept for the refutation *)

Definition step (st : jobdir) (l : label) (st' : jobdir) : Prop := lstep l st = Some st'.

Inductive steps : jobdir -> list label -> jobdir -> Prop :=
| steps_nil : forall st, steps st [] st
| steps_cons : forall st l st1 tr st', step st l st1 -> steps st1 tr st' -> steps st (l :: tr) st'.

(* run a list of labels; None as soon as one is not enabled *)
Fixpoint run_labels (tr : list label) (st : jobdir) : option jobdir :=
  match tr with
  | [] => Some st
  | l :: tr' => match lstep l st with Some st1 => run_labels tr' st1 | None => None end
  end.
Fixpoint run_labels_prefix (tr : list label) (st : jobdir) : option jobdir :=
  match tr with
  | [] => Some st
  | l :: tr' => match lstep_prefix l st with Some st1 => run_labels_prefix tr' st1 | None => None end
  end.

(* an effect that makes the job advance: anything but a death, a kill, or a new submission *)
Definition progress_label (l : label) : bool :=
  match l with LCrash _ | LKill _ | LSubmit _ => false | _ => true end.
(* the coroutine of scheduler s for this job is neither over nor waiting for dependencies *)
Definition sbusy (c : spc) : bool :=
  match c with SIdle | SFinal _ | SDead | SReady => false | _ => true end.

(* A workspace before any scheduler or job process exists: arbitrary files, no process,
   no lock holder.                                                                     *)
Definition initial (st : jobdir) : Prop :=
  (forall p, procs st p = PNone) /\ nprocs st = 0 /\ (forall s, scheds st s = SIdle) /\
  lock st = None /\ body_runs st = 0 /\ body_active st = 0 /\ inflight st = 0 /\ launches st = 0 /\
  succ st = 0 /\ aborts st = 0 /\ done0 st = done st /\
  (pidf st = PFNone).   (* a stale pid file is the same as none: nothing alive is named; no pid reuse *)

Definition mk_initial (d f : bool) (sc : sfile) : jobdir :=
  {| done := d; failed := f; pidf := PFNone; lock := None; script := sc;
     procs := fun _ => PNone; nprocs := 0; scheds := fun _ => SIdle;
     body_runs := 0; body_active := 0; inflight := 0; launches := 0; succ := 0; aborts := 0; done0 := d |}.
Definition fresh : jobdir := mk_initial false false SEmpty.

Definition reachable (st : jobdir) : Prop := exists st0 tr, initial st0 /\ steps st0 tr st.

(* the system with a single scheduler slot (slot 0): the same experiment run again and
   again, each run possibly killed; the experiment lock keeps two runs of one
   experiment from overlapping                                                         *)
Definition lbl_single (l : label) : Prop :=
  match lbl_sched l with Some s => s = 0 | None => True end.
Definition reachable1 (st : jobdir) : Prop :=
  exists st0 tr, initial st0 /\ steps st0 tr st /\ Forall lbl_single tr.

(* ==================================================================
   Part 3.  Several jobs with dependencies
   ================================================================== *)
Record gstate := { jd : nat -> jobdir }.

Section Global.
  Variable deps : nat -> list nat.      (* deps j = the jobs j depends on *)

  Definition deps_done (g : gstate) (s : nat) (j : nat) : Prop :=
    forall d, In d (deps j) -> scheds (jd g d) s = SFinal VDone.
  Definition deps_failed (g : gstate) (s : nat) (j : nat) : Prop :=
    exists d, In d (deps j) /\ scheds (jd g d) s = SFinal VError.

  Definition is_gate (l : label) : bool :=
    match l with LReady _ | LDepFail _ => true | _ => false end.

  Inductive gstep : gstate -> gstate -> Prop :=
  | g_local : forall g j l st',
      is_gate l = false -> lstep l (jd g j) = Some st' ->
      gstep g {| jd := upd (jd g) j st' |}
  | g_ready : forall g j s st',
      deps_done g s j -> lstep (LReady s) (jd g j) = Some st' ->
      gstep g {| jd := upd (jd g) j st' |}
  | g_depfail : forall g j s st',
      deps_failed g s j -> lstep (LDepFail s) (jd g j) = Some st' ->
      gstep g {| jd := upd (jd g) j st' |}
  | g_crash : forall g s,           (* the scheduler process dies: every coroutine at once *)
      gstep g {| jd := fun j => match lstep (LCrash s) (jd g j) with Some st' => st' | None => jd g j end |}.

  Inductive gsteps : gstate -> gstate -> Prop :=
  | gsteps_refl : forall g, gsteps g g
  | gsteps_step : forall g g1 g', gstep g g1 -> gsteps g1 g' -> gsteps g g'.

  (* single scheduler slot *)
  Inductive gstep1 : gstate -> gstate -> Prop :=
  | g1_local : forall g j l st',
      is_gate l = false -> lbl_single l -> lstep l (jd g j) = Some st' ->
      gstep1 g {| jd := upd (jd g) j st' |}
  | g1_ready : forall g j st',
      deps_done g 0 j -> lstep (LReady 0) (jd g j) = Some st' ->
      gstep1 g {| jd := upd (jd g) j st' |}
  | g1_depfail : forall g j st',
      deps_failed g 0 j -> lstep (LDepFail 0) (jd g j) = Some st' ->
      gstep1 g {| jd := upd (jd g) j st' |}
  | g1_crash : forall g,
      gstep1 g {| jd := fun j => match lstep (LCrash 0) (jd g j) with Some st' => st' | None => jd g j end |}.

  Inductive gsteps1 : gstate -> gstate -> Prop :=
  | gsteps1_refl : forall g, gsteps1 g g
  | gsteps1_step : forall g g1 g', gstep1 g g1 -> gsteps1 g1 g' -> gsteps1 g g'.

  Definition ginitial (g : gstate) : Prop := forall j, initial (jd g j).
  (* an empty workspace *)
  Definition gfresh (g : gstate) : Prop := forall j, initial (jd g j) /\ done (jd g j) = false.
  Definition greachable (g : gstate) : Prop := exists g0, ginitial g0 /\ gsteps g0 g.
  Definition greachable1 (g : gstate) : Prop := exists g0, gfresh g0 /\ gsteps1 g0 g.

  (* the (last) run of the experiment has concluded on each of its n jobs *)
  Definition gfinal (n : nat) (g : gstate) : Prop :=
    forall j, j < n -> exists v, scheds (jd g j) 0 = SFinal v.
  Definition no_abort (g : gstate) : Prop := forall j, aborts (jd g j) = 0.
  (* the results of a run: per job, the final state in the scheduler and the marker *)
  Definition results (n : nat) (g : gstate) : list (option view * bool) :=
    map (fun j => (match scheds (jd g j) 0 with SFinal v => Some v | _ => None end, done (jd g j))) (seq 0 n).
End Global.

(* the three configurations named by C11 *)
Definition deps_one : nat -> list nat := fun _ => [].
Definition deps_chain2 : nat -> list nat := fun j => match j with 1 => [0] | _ => [] end.
Definition deps_indep2 : nat -> list nat := fun _ => [].
Definition gfresh0 : gstate := {| jd := fun _ => fresh |}.

(* ------------------------------------------------------------------ executable composition *)
Definition is_vdone (c : spc) : bool := match c with SFinal VDone => true | _ => false end.
Definition is_verror (c : spc) : bool := match c with SFinal VError => true | _ => false end.

(* one move of the composed system: an effect on job j, or the death of scheduler s *)
Inductive gmove := GOn (j : nat) (l : label) | GDie (s : nat).

Definition gexec (deps : nat -> list nat) (m : gmove) (g : gstate) : option gstate :=
  match m with
  | GDie s => Some {| jd := fun j => match lstep (LCrash s) (jd g j) with Some st' => st' | None => jd g j end |}
  | GOn j l =>
      let ok :=
        match l with
        | LReady s => forallb (fun d => is_vdone (scheds (jd g d) s)) (deps j)
        | LDepFail s => existsb (fun d => is_verror (scheds (jd g d) s)) (deps j)
        | _ => true
        end in
      if ok then match lstep l (jd g j) with
                 | Some st' => Some {| jd := upd (jd g) j st' |}
                 | None => None
                 end
      else None
  end.

Fixpoint grun (deps : nat -> list nat) (ms : list gmove) (g : gstate) : option gstate :=
  match ms with
  | [] => Some g
  | m :: ms' => match gexec deps m g with Some g1 => grun deps ms' g1 | None => None end
  end.

Definition gmove_single (m : gmove) : bool :=
  match m with
  | GDie s => Nat.eqb s 0
  | GOn _ l => match lbl_sched l with Some s => Nat.eqb s 0 | None => true end
  end.

(* ------------------------------------------------------------------ the death of a scheduler whose children
   share its process group (launcher of the pinned commit: Popen without start_new_session).  A Ctrl-C or a
   hang-up is delivered to the whole group: the child of the dying instance gets the signal as well.  Its
   handler (TaskRunner.handle_error) writes the failure marker, removes the pid file, releases the lock and
   exits with code 1; a child that is not yet inside TaskRunner.run just dies.  Coarse: one atomic effect.
   Only used to state what the theorems of C11 owe to the repaired launcher (own session for every job).  *)
Definition signal_child (st : jobdir) (p : nat) : jobdir :=
  let c := procs st p in
  if alive c then
    let st1 := set_lock st (release (AProc p) (lock st)) in
    let st2 := match c with
               | PExec => st1
               | _ => set_pidf (set_failed st1 true) PFNone
               end in
    let st3 := set_ghost st2 (body_runs st)
                 (match c with PBody => pred (body_active st) | _ => body_active st end)
                 (if pinflight c then pred (inflight st) else inflight st)
                 (succ st) (aborts st) in
    set_proc st3 p (PExit XFail)
  else st.

Definition lcrash_group (s : nat) (st : jobdir) : jobdir :=
  let st1 := match scheds st s with
             | SCreatePid p | SWritePid p | SUnlock p | SWait p => signal_child st p
             | _ => st
             end in
  match lstep (LCrash s) st1 with Some st' => st' | None => st1 end.

(* moves of the composed system with the pinned launcher: GDie is a group signal *)
Definition gexec_group (deps : nat -> list nat) (m : gmove) (g : gstate) : option gstate :=
  match m with
  | GDie s => Some {| jd := fun j => lcrash_group s (jd g j) |}
  | _ => gexec deps m g
  end.
Fixpoint grun_group (deps : nat -> list nat) (ms : list gmove) (g : gstate) : option gstate :=
  match ms with
  | [] => Some g
  | m :: ms' => match gexec_group deps m g with Some g1 => grun_group deps ms' g1 | None => None end
  end.
(* a run in which nothing fails by itself and nobody kills a job process *)
Definition quiet_move (m : gmove) : bool :=
  match m with
  | GOn _ (LKill _) | GOn _ (LEnd _ false) | GOn _ (LDepFail _) => false
  | _ => true
  end.
