(* Model of `jobs clean` (cli/jobs.py, process()) and `orphans --clean`
   (cli/__init__.py) over an abstract workspace (C19).
   Definitions only: proofs live in proofs/Clean_lemmas.v.                  *)
From Coq Require Import NArith List Bool.
From XV Require Import model.Filter.
Import ListNotations.
Open Scope N_scope.

(* a job directory is jobs/<task>/<hash> *)
Definition key := (str * str)%type.
Definition key_eqb (a b : key) : bool := str_eqb (fst a) (fst b) && str_eqb (snd a) (snd b).
Definition mem_key (k : key) (l : list key) : bool := existsb (key_eqb k) l.

Record job := {
  j_task : str;                (* task directory name, e.g. "pkg.module.task" *)
  j_hash : str;
  j_done : bool;               (* <script>.done is a file *)
  j_failed : bool;             (* <script>.failed is a file *)
  j_pid : bool;                (* <script>.pid is a file *)
  j_alive : bool;              (* the process recorded in <script>.pid is alive *)
  j_tags : list (str * str)    (* params.json "tags" *)
}.
Definition job_key (j : job) : key := (j_task j, j_hash j).

(* an experiment: xp/<name>/jobs and, when the last run did not complete,
   xp/<name>/jobs.bak ; the entries are links to jobs/<task>/<hash>          *)
Record xp := { x_name : str; x_jobs : list key; x_bak : option (list key) }.

Record ws := { w_jobs : list job; w_xps : list xp }.

(* the link resolves to a directory *)
Definition stored (w : ws) (k : key) : bool := existsb (fun j => key_eqb (job_key j) k) (w_jobs w).

(* `*_, scriptname = name.rsplit(".", 1)` : the text after the last dot *)
Fixpoint scriptname_go (s acc : str) : str :=
  match s with
  | [] => acc
  | c :: s' => if c =? 46 then scriptname_go s' [] else scriptname_go s' (acc ++ [c])
  end.
Definition scriptname (s : str) : str := scriptname_go s [].

(* ---- JobInformation.state ---------------------------------------------- *)
(* after the repair (fixes/C19-4): a failure marker left by an earlier run does
   not hide the live process of a relaunched job                             *)
Definition state (j : job) : option jstate :=
  if j_done j then Some Done
  else if j_failed j then (if j_pid j && j_alive j then Some Running else Some Error)
  else if j_pid j then Some Running
  else None.

(* the pinned commit: marker files only *)
Definition state_prefix (j : job) : option jstate :=
  if j_done j then Some Done
  else if j_failed j then Some Error
  else if j_pid j then Some Running
  else None.

(* JobState.finished() *)
Definition finished (s : option jstate) : bool :=
  match s with Some Done | Some Error => true | _ => false end.

(* what is true of the job, whatever the markers say: it has a live process
   and has not recorded completion                                            *)
Definition running (j : job) : bool := negb (j_done j) && j_pid j && j_alive j.

(* ---- which experiments a job belongs to -------------------------------- *)
(* after the repair (fixes/C19-3): job2xp is keyed by the job directory *)
Definition xps_of (w : ws) (j : job) : list str :=
  map x_name (filter (fun x => mem_key (job_key j) (x_jobs x)) (w_xps w)).

(* the pinned commit: job2xp is keyed by the script name, so a job belongs to
   every experiment that holds some job of a task with the same script name  *)
Definition xps_of_prefix (w : ws) (j : job) : list str :=
  map x_name
      (filter (fun x => existsb (fun k => stored w k &&
                                          str_eqb (scriptname (fst k)) (scriptname (j_task j)))
                                (x_jobs x))
              (w_xps w)).

(* ---- process(..., clean=True) ------------------------------------------ *)
Record opts := {
  o_experiment : str;            (* "" = no restriction *)
  o_filter : option expr;        (* None = no --filter *)
  o_perform : bool
}.

Definition has_bak (x : xp) : bool := match x_bak x with Some _ => true | None => false end.

Section Gen.
  Variable build : expr -> bool.            (* false: createFilter raises *)
  Variable ev : expr -> env -> bool.
  Variable xpsel : ws -> job -> list str.
  Variable st : job -> option jstate.

  Definition env_of (j : job) : env :=
    {| e_tags := j_tags j; e_state := st j; e_name := j_task j |}.

  Definition selected_gen (w : ws) (o : opts) (j : job) : bool :=
    (isnil (o_experiment o) || mem (o_experiment o) (xpsel w j))
    && match o_filter o with None => true | Some f => ev f (env_of j) end.

  Definition raises_gen (o : opts) : bool :=
    match o_filter o with Some f => negb (build f) | None => false end.

  (* the directories removed by one call *)
  Definition clean_gen (w : ws) (o : opts) : list key :=
    if raises_gen o then []
    else
      (* an unfinished experiment switches cleaning off unless --perform *)
      let clean := negb (existsb has_bak (w_xps w) && negb (o_perform o)) in
      if clean && o_perform o
      then map job_key (filter (fun j => selected_gen w o j && finished (st j)) (w_jobs w))
      else [].
End Gen.

Definition selected := selected_gen eval xps_of state.
Definition clean := clean_gen (fun _ => true) eval xps_of state.
Definition clean_raises := raises_gen (fun _ => true).

(* the pinned commit, literally *)
Definition build_prefix (x : expr) : bool := negb (has_regex x).
Definition ev_prefix (x : expr) (e : env) : bool := eval_l_prefix (compile x) e.
Definition clean_prefix := clean_gen build_prefix ev_prefix xps_of_prefix state_prefix.
Definition clean_prefix_raises := raises_gen build_prefix.

(* ---- orphans [--clean] [--ignore-old] ----------------------------------- *)
Definition bak_keys (x : xp) : list key := match x_bak x with Some l => l | None => [] end.

(* xpjobs: relative paths of the index entries that are directories *)
Definition index_keys (w : ws) (ignore_old : bool) : list key :=
  flat_map (fun x => filter (stored w) (x_jobs x)) (w_xps w)
  ++ (if ignore_old then [] else flat_map (fun x => filter (stored w) (bak_keys x)) (w_xps w)).

Definition orphans_clean (w : ws) (do_clean ignore_old : bool) : list key :=
  if do_clean
  then filter (fun k => negb (mem_key k (index_keys w ignore_old))) (map job_key (w_jobs w))
  else [].

(* ---- the property, stated independently --------------------------------- *)
Definition finished_spec (j : job) : Prop :=
  j_done j = true \/ (j_failed j = true /\ ~ (j_pid j = true /\ j_alive j = true)).

Definition in_experiment (w : ws) (name : str) (j : job) : Prop :=
  exists x, In x (w_xps w) /\ x_name x = name /\ In (job_key j) (x_jobs x).

Definition selected_spec (w : ws) (o : opts) (j : job) : Prop :=
  (o_experiment o = [] \/ in_experiment w (o_experiment o) j)
  /\ match o_filter o with
     | None => True
     | Some f => meaning f (env_of state j)
     end.

Definition referenced (w : ws) (ignore_old : bool) (k : key) : Prop :=
  exists x, In x (w_xps w) /\ (In k (x_jobs x) \/ (ignore_old = false /\ In k (bak_keys x))).

(* ---- entries of jobs/<task>/ that are links ------------------------------
   `deprecated list --fix` (without --cleanup) leaves
       jobs/<new task>/<new id> -> jobs/<old task>/<old id>
   an alias of a job directory.  When the experiment runs again its index entry is
   xp/<name>/jobs/<new task>/<new id> -> jobs/<new task>/<new id>: the job directory
   an index entry refers to is the directory the entry resolves to.              *)
Definition lnk := (key * key)%type.      (* (entry, job directory it points to) *)

Fixpoint resolve (links : list lnk) (k : key) : key :=
  match links with
  | [] => k
  | (a, b) :: l => if key_eqb k a then b else resolve l k
  end.

Definition all_index_keys (w : ws) (ignore_old : bool) : list key :=
  flat_map x_jobs (w_xps w) ++ (if ignore_old then [] else flat_map bak_keys (w_xps w)).

(* the job directories the index entries lead to *)
Definition index_dirs (w : ws) (links : list lnk) (ignore_old : bool) : list key :=
  map (resolve links) (all_index_keys w ignore_old).

(* orphans --clean after the repair (fixes/C19-6): index entries are resolved,
   an entry of jobs/ that is a link is never removed (w_jobs are the real directories) *)
Definition orphans_clean_l (w : ws) (links : list lnk) (do_clean ignore_old : bool) : list key :=
  if do_clean
  then filter (fun k => negb (mem_key k (index_dirs w links ignore_old))) (map job_key (w_jobs w))
  else [].

(* the code before the repair, literally: entries are compared by their relative path, and
   rmtree is called on whatever entry is in no index -- on a link it raises (None: which
   directories were removed before that depends on the order of the listing)          *)
Definition is_dir (w : ws) (links : list lnk) (k : key) : bool := stored w (resolve links k).
Definition orphans_clean_l_prefix (w : ws) (links : list lnk) (do_clean ignore_old : bool)
  : option (list key) :=
  let xpjobs := filter (is_dir w links) (all_index_keys w ignore_old) in
  if do_clean
  then if existsb (fun l : lnk => is_dir w links (fst l) && negb (mem_key (fst l) xpjobs)) links
       then None
       else Some (filter (fun k => negb (mem_key k xpjobs)) (map job_key (w_jobs w)))
  else Some [].

(* "referenced by an experiment index or backup index", through links *)
Definition referenced_l (w : ws) (links : list lnk) (ignore_old : bool) (k : key) : Prop :=
  exists x k', In x (w_xps w) /\ (In k' (x_jobs x) \/ (ignore_old = false /\ In k' (bak_keys x)))
               /\ resolve links k' = k.
