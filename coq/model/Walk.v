(* ConfigWalk (core/objects.py l.397-536): configuration graphs and the generic
   traversal used by Sealer (C17), FromPython (C13), tags, pre-task collection.
   Definitions only.

   Strings are lists of code points (N).  A heap is a list of nodes, node ids
   are positions; arbitrary sharing and cycles.                               *)
From Coq Require Import List NArith ZArith Bool Arith Decimal.
Import ListNotations.

Definition str := list N.

Inductive value :=
| VNone
| VScalar (z : Z)                     (* int / float / bool / Path / Enum: opaque *)
| VStr (s : str)
| VRef (n : nat)                      (* a Config: position in the heap *)
| VList (l : list value)
| VDict (l : list (str * value)).     (* insertion order; keys are strings *)

Record node := {
  cls : nat;                          (* index in the class table of the client model *)
  fields : list (str * value);        (* names present in .values, in declaration order *)
  pre : list nat;                     (* __xpm__.pre_tasks *)
  init : list nat;                    (* __xpm__.init_tasks *)
  task : option nat;                  (* __xpm__.task *)
  sealed : bool }.

Definition heap := list node.

(* ---- strings -------------------------------------------------------- *)
Fixpoint str_eqb (a b : str) : bool :=
  match a, b with
  | [], [] => true
  | x :: a', y :: b' => N.eqb x y && str_eqb a' b'
  | _, _ => false
  end.

(* str(i) for a list index *)
Fixpoint digits (d : Decimal.uint) : str :=
  match d with
  | Nil => []
  | D0 d => 48%N :: digits d | D1 d => 49%N :: digits d | D2 d => 50%N :: digits d
  | D3 d => 51%N :: digits d | D4 d => 52%N :: digits d | D5 d => 53%N :: digits d
  | D6 d => 54%N :: digits d | D7 d => 55%N :: digits d | D8 d => 56%N :: digits d
  | D9 d => 57%N :: digits d
  end.
Definition dec (i : nat) : str := digits (Nat.to_uint i).

(* "__pre_tasks__" and "__init_tasks__" *)
Definition k_pre : str := [95;95;112;114;101;95;116;97;115;107;115;95;95]%N.
Definition k_init : str := [95;95;105;110;105;116;95;116;97;115;107;115;95;95]%N.

(* ---- the ordered, labelled out-edges of a node ---------------------- *)
(* The walk only acts at Config values; every other value is returned as is.
   So the effect of walking the arguments of a node is the effect of visiting,
   in order, the Config references found in them, each with the keys pushed on
   the way (map(arg.name), list(i) = push(str(i)), map(key)).                *)
Definition edge := (list str * nat)%type.    (* keys pushed below the node, target *)

Fixpoint mapi_from {A B} (f : nat -> A -> B) (i : nat) (l : list A) : list B :=
  match l with [] => [] | x :: l' => f i x :: mapi_from f (S i) l' end.

Fixpoint edges_value (rel : list str) (v : value) : list edge :=
  match v with
  | VRef n => [(rel, n)]
  | VList l =>
      (fix go (i : nat) (l : list value) : list edge :=
         match l with [] => [] | x :: l' => edges_value (rel ++ [dec i]) x ++ go (S i) l' end) 0 l
  | VDict l =>
      (fix go (l : list (str * value)) : list edge :=
         match l with [] => [] | (k, x) :: l' => edges_value (rel ++ [k]) x ++ go l' end) l
  | _ => []
  end.

Definition edges_fields (fs : list (str * value)) : list edge :=
  flat_map (fun kv => edges_value [fst kv] (snd kv)) fs.

Definition edges_tasks (key : str) (l : list nat) : list edge :=
  mapi_from (fun i t => ([key; dec i], t)) 0 l.

(* l.488-512: arguments, then pre-tasks, then init tasks, then the task
   (no key pushed) when recurse_task and it is not the node itself           *)
Definition node_edges (recurse_task : bool) (n : nat) (nd : node) : list edge :=
  edges_fields (fields nd) ++ edges_tasks k_pre (pre nd) ++ edges_tasks k_init (init nd) ++
  (if recurse_task then
     match task nd with Some t => if Nat.eqb t n then [] else [([], t)] | None => [] end
   else []).

(* ---- the walk -------------------------------------------------------- *)
Fixpoint memb (n : nat) (l : list nat) : bool :=
  match l with [] => false | x :: l' => Nat.eqb n x || memb n l' end.

Fixpoint fold_opt {A S} (f : A -> S -> option S) (l : list A) (s : S) : option S :=
  match l with
  | [] => Some s
  | x :: l' => match f x s with None => None | Some s' => fold_opt f l' s' end
  end.

Record wstate := {
  visited : list nat;                  (* keys of self.visited *)
  events : list (nat * list str) }.    (* postprocess calls, oldest first, with the
                                          keys pushed on the context at that moment *)

Definition st0 : wstate := {| visited := []; events := [] |}.

Section Walk.
  Variable h : heap.
  Variable edges_of : nat -> node -> list edge.   (* e.g. node_edges recurse_task *)
  Variable cut : nat -> bool.          (* preprocess answers False *)

  (* None = out of fuel.  A reference outside the heap is not a Config: ignored. *)
  Fixpoint visit (fuel : nat) (pos : list str) (n : nat) (st : wstate) : option wstate :=
    match fuel with
    | O => None
    | S f =>
      match nth_error h n with
      | None => Some st
      | Some nd =>
        if memb n (visited st) then Some st
        else
          let st1 := {| visited := n :: visited st; events := events st |} in
          if cut n then Some st1
          else
            match fold_opt (fun e s => visit f (pos ++ fst e) (snd e) s)
                           (edges_of n nd) st1 with
            | None => None
            | Some st2 => Some {| visited := visited st2; events := events st2 ++ [(n, pos)] |}
            end
      end
    end.

  (* enough for every heap (Walk_lemmas.visit_fuel) *)
  Definition fuel_bound : nat := S (length h).

  Definition walk (root : nat) : option (list (nat * list str)) :=
    match visit fuel_bound [] root st0 with None => None | Some st => Some (events st) end.

  (* ---- specification vocabulary ------------------------------------- *)
  (* a node whose children are walked and on which postprocess is called *)
  Definition expanded (n : nat) : Prop :=
    exists nd, nth_error h n = Some nd /\ cut n = false.

  Definition out_edges (n : nat) : list edge :=
    match nth_error h n with Some nd => edges_of n nd | None => [] end.

  (* path a p b: from a, through expanded nodes only, pushing exactly the keys p, to the
     expanded node b *)
  Inductive path : nat -> list str -> nat -> Prop :=
  | path_nil : forall a, expanded a -> path a [] a
  | path_cons : forall a rel b p c,
      expanded a -> In (rel, b) (out_edges a) -> path b p c -> path a (rel ++ p) c.

  Definition reach (root n : nat) : Prop := exists p, path root p n.
End Walk.
