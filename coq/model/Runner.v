(* Runner.v - the job process of experimaestro (src/experimaestro/run.py, TaskRunner) as a program
   over effects on a job directory, with Python's try / except Exception / except SystemExit, the
   atexit callback and the two signal handlers made explicit.  Definitions only.

   One launch = the scheduler writes <name>.pid, the process runs `TaskRunner(script, [lock]).run()`
   and the interpreter's exit phase, possibly cut short by a death (SIGKILL, SIGTERM, SIGINT) that
   arrives before the k-th effect of the undisturbed run.

     run():                                   effects (ctx)
       atexit.register(self.cleanup)          RegAtexit            (CProp)
       signal(SIGTERM, handle_error)          SetTerm              (CProp)
       signal(SIGINT, handle_error)           SetInt               (CProp)
       try:
         lock.acquire(blocking=True)          Lock                 (CTry)
         self.locks.append(lock)              NoteLock             (CTry)
         if donepath.is_file(): pass          TestDone             (CTry)
         else:
           rmfile(failedpath)                 RmFailed  [if present]
           run(params.json)                   BodyBegin, BodyEnd b
           remove_signal_handlers(False)      RestoreTerm, RestoreInt, (pre-fix: UnregAtexit)
           sys.exit(0)
       except Exception: handle_error(1)      WriteFailed 1, cleanup            (CProp)
       except SystemExit as e:
         if e.code == 0: donepath.touch()     TouchDone                         (CProp)
         else: handle_error(e.code)           WriteFailed code, cleanup         (CProp)
     exit phase: cleanup() if still registered                                  (CAtexit)
     cleanup(): if not cleaned: cleaned = True; rmfile(pid); release noted locks
     handle_error(c): write failed marker c; cleanup(); sys.exit(1)
     (with fixes/C10-2.diff, variant Guarded: the failure marker is written and the pid file removed only
      by a runner that has every run lock in self.locks)

   Second part of the file: TWO job processes for one job (two experiments launched it).  The first
   holds the run lock and is in its body; the second performs what comes before `lock.acquire`, blocks
   there, receives a signal and dies; then the first goes on (`double`).

   ctx says what happens to an exception raised at that point (by a signal handler): CTry = caught by
   run()'s own except clauses, CProp = leaves run() and reaches the exit phase, CAtexit = raised inside
   an exit callback (reported and dropped by the interpreter).                                         *)
From Coq Require Import ZArith List Bool.
Import ListNotations.

(* ---------------------------------------------------------------- job directory *)
Record dir := {
  d_done : bool;            (* <name>.done *)
  d_failed : option Z;      (* <name>.failed and the code written in it *)
  d_pid : bool;             (* <name>.pid *)
  d_lock : bool;            (* the run lock is held by a live process *)
  d_runs : nat;             (* ghost: number of times the task body was entered *)
  d_completed : nat         (* ghost: number of times the task body ran to completion *)
}.

Definition fresh : dir :=
  {| d_done := false; d_failed := None; d_pid := false; d_lock := false; d_runs := 0; d_completed := 0 |}.

(* ---------------------------------------------------------------- a live job process *)
Record st := {
  done : bool; failed : option Z; pid : bool; lock : bool; runs : nat; completed : nat;
  atexit : bool;            (* cleanup is registered as exit callback *)
  hterm : bool;             (* handle_error installed for SIGTERM *)
  hint : bool;              (* handle_error installed for SIGINT *)
  cleaned : bool;           (* self.cleaned *)
  noted : bool              (* the acquired lock is in self.locks *)
}.

(* what a process forked by the task body can do to the files of the job directory *)
Inductive ceff := CTouchDone | CWriteFailed (c : Z) | CRmPid | CUnlock.

Inductive eff :=
| RegAtexit | UnregAtexit
| SetTerm | SetInt | RestoreTerm | RestoreInt
| Lock | NoteLock | TestDone
| RmFailed
| BodyBegin | BodyEnd (ok : bool)
| TouchDone
| WriteFailed (c : Z)
| SetCleaned | RmPid | Unlock
| Child (l : list ceff).   (* the body forks; l = what the child does to the job directory before it is gone *)

Definition capply (s : st) (e : ceff) : st :=
  let '(Build_st dn fl pd lk rn cp ax ht hi cl nt) := s in
  match e with
  | CTouchDone => Build_st true fl pd lk rn cp ax ht hi cl nt
  | CWriteFailed c => Build_st dn (Some c) pd lk rn cp ax ht hi cl nt
  | CRmPid => Build_st dn fl false lk rn cp ax ht hi cl nt
  | CUnlock => s            (* fcntl locks belong to the process that took them: the parent keeps its lock *)
  end.

Definition apply (e : eff) (s : st) : st :=
  let '(Build_st dn fl pd lk rn cp ax ht hi cl nt) := s in
  match e with
  | RegAtexit => Build_st dn fl pd lk rn cp true ht hi cl nt
  | UnregAtexit => Build_st dn fl pd lk rn cp false ht hi cl nt
  | SetTerm => Build_st dn fl pd lk rn cp ax true hi cl nt
  | SetInt => Build_st dn fl pd lk rn cp ax ht true cl nt
  | RestoreTerm => Build_st dn fl pd lk rn cp ax false hi cl nt
  | RestoreInt => Build_st dn fl pd lk rn cp ax ht false cl nt
  | Lock => Build_st dn fl pd true rn cp ax ht hi cl nt
  | NoteLock => Build_st dn fl pd lk rn cp ax ht hi cl true
  | TestDone => s
  | RmFailed => Build_st dn None pd lk rn cp ax ht hi cl nt
  | BodyBegin => Build_st dn fl pd lk (S rn) cp ax ht hi cl nt
  | BodyEnd ok => Build_st dn fl pd lk rn (if ok then S cp else cp) ax ht hi cl nt
  | TouchDone => Build_st true fl pd lk rn cp ax ht hi cl nt
  | WriteFailed c => Build_st dn (Some c) pd lk rn cp ax ht hi cl nt
  | SetCleaned => Build_st dn fl pd lk rn cp ax ht hi true nt
  | RmPid => Build_st dn fl false lk rn cp ax ht hi cl nt
  | Unlock => Build_st dn fl pd false rn cp ax ht hi cl nt
  | Child l => fold_left capply l s
  end.

Definition run_effs (es : list eff) (s : st) : st := fold_left (fun s e => apply e s) es s.

(* ---------------------------------------------------------------- blocks of code *)
(* A block yields the effects it performs when started in a given state. *)
Definition blk := st -> list eff.
Definition nop : blk := fun _ => [].
Definition emit (e : eff) : blk := fun _ => [e].
Definition emits (es : list eff) : blk := fun _ => es.
Definition seq (a b : blk) : blk := fun s => let es := a s in es ++ b (run_effs es s).
Definition when (c : st -> bool) (a : blk) : blk := fun s => if c s then a s else [].

Definition is_some {A} (o : option A) : bool := match o with Some _ => true | None => false end.

(* rmfile(path): unlink only if the file is there *)
Definition rmfile_failed : blk := when (fun s => is_some (failed s)) (emit RmFailed).
Definition rmfile_pid : blk := when pid (emit RmPid).

Inductive variant := Prefix | Fixed | Guarded.
(* Prefix:  the code of the pinned commit (remove_signal_handlers always unregisters the exit callback);
   Fixed:   with fixes/C10-1.diff (remove_cleanup is honoured) - the code of /repo 3854c75;
   Guarded: with fixes/C10-2.diff as well (handle_error / cleanup touch the failure marker and the pid
            file only when this runner has every run lock, `len(self.locks) == len(self.lockfiles)`). *)
Definition guarded (v : variant) : bool := match v with Guarded => true | _ => false end.

(* may this runner change the marker files and the pid file?  (literal code: always) *)
Definition owner (v : variant) (s : st) : bool := negb (guarded v) || noted s.

(* TaskRunner.cleanup *)
Definition cleanup (v : variant) : blk :=
  when (fun s => negb (cleaned s))
       (seq (emit SetCleaned)
            (seq (when (owner v) rmfile_pid) (when (fun s => noted s && lock s) (emit Unlock)))).

(* TaskRunner.handle_error(code, _): the caller continues with SystemExit(1) *)
(* (Guarded also has fixes/C10-5.diff: no failure marker once the success marker exists) *)
Definition handle_error (v : variant) (c : Z) : blk :=
  seq (when (fun s => owner v s && (negb (guarded v) || negb (done s))) (emit (WriteFailed c))) (cleanup v).

(* the interpreter's exit phase *)
Definition exit_phase (v : variant) : blk := when atexit (cleanup v).

(* ---------------------------------------------------------------- TaskRunner.run *)
Inductive outcome := OOk | ORaise | OExit (c : Z) | OBase.
(* the body returns | raises an Exception | calls sys.exit(c) | raises another BaseException *)
Definition success (o : outcome) : bool :=
  match o with OOk => true | OExit c => (c =? 0)%Z | _ => false end.

Inductive ctx := CProp | CTry | CAtexit.

Definition tblk := st -> list (ctx * eff).
Definition at_ (c : ctx) (b : blk) : tblk := fun s => map (pair c) (b s).
Definition tseq (a b : tblk) : tblk := fun s => let es := a s in es ++ b (run_effs (map snd es) s).

Definition body (o : outcome) : blk := emits [BodyBegin; BodyEnd (success o)].

Definition after_body (v : variant) (o : outcome) : tblk :=
  match o with
  | OOk =>
      tseq (at_ CTry (seq (emits [RestoreTerm; RestoreInt])
                          (match v with Prefix => emit UnregAtexit | _ => nop end)))
           (at_ CProp (emit TouchDone))                       (* sys.exit(0); except SystemExit, code 0 *)
  | ORaise => at_ CProp (handle_error v 1)                      (* except Exception *)
  | OExit c => if (c =? 0)%Z then at_ CProp (emit TouchDone) else at_ CProp (handle_error v c)
  | OBase => fun _ => []                                      (* no clause catches it *)
  end.

Definition runner (v : variant) (o : outcome) : tblk :=
  tseq (at_ CProp (emits [RegAtexit; SetTerm; SetInt]))
 (tseq (at_ CTry (emits [Lock; NoteLock; TestDone]))
 (tseq (fun s => if done s then []
                 else tseq (at_ CTry (seq rmfile_failed (body o))) (after_body v o) s)
       (at_ CAtexit (exit_phase v)))).

(* ---------------------------------------------------------------- deaths *)
Inductive sig := SKill | STerm | SInt.
Definition signal_code (g : sig) : Z := match g with SKill => 9 | STerm => 15 | SInt => 2 end.
Definition handled (g : sig) (s : st) : bool :=
  match g with SKill => false | STerm => hterm s | SInt => hint s end.

(* what the process still does once signal g has arrived at a point of context c *)
Definition on_signal (v : variant) (g : sig) (c : ctx) : blk := fun s =>
  match g with
  | SKill => []
  | _ =>
    if handled g s then
      (* handle_error(signum, frame), then SystemExit(1) is raised where the signal arrived *)
      seq (handle_error v (signal_code g))
          (match c with
           | CTry => seq (handle_error v 1) (exit_phase v)  (* except SystemExit: code 1 *)
           | CProp => exit_phase v
           | CAtexit => nop
           end) s
    else
      match g with
      | SInt => match c with CAtexit => [] | _ => exit_phase v s end   (* KeyboardInterrupt *)
      | _ => []                                                        (* default action: killed *)
      end
  end.

(* a death: the signal, the number of effects of the undisturbed run already performed, the context *)
Definition death := (sig * nat * ctx)%type.

(* the scheduler has written <name>.pid; nothing is installed yet *)
Definition boot (d : dir) : st :=
  {| done := d_done d; failed := d_failed d; pid := true; lock := d_lock d; runs := d_runs d;
     completed := d_completed d; atexit := false; hterm := false; hint := false; cleaned := false;
     noted := false |}.

(* the process is gone; assumption (OS): its locks are gone with it *)
Definition die (s : st) : dir :=
  {| d_done := done s; d_failed := failed s; d_pid := pid s; d_lock := false; d_runs := runs s;
     d_completed := completed s |}.

Definition trace (v : variant) (o : outcome) (d : dir) : list eff := map snd (runner v o (boot d)).

Definition effects (v : variant) (o : outcome) (dth : option death) (d : dir) : list eff :=
  match dth with
  | None => trace v o d
  | Some (g, k, c) =>
      let pre := firstn k (trace v o d) in
      pre ++ on_signal v g c (run_effs pre (boot d))
  end.

Definition launch (v : variant) (d : dir) (o : outcome) (dth : option death) : dir :=
  die (run_effs (effects v o dth d) (boot d)).

Definition history (v : variant) (d : dir) (l : list (outcome * option death)) : dir :=
  fold_left (fun d x => launch v d (fst x) (snd x)) l d.

(* a second death of the same process: SIGKILL when j effects of what the first signal set off (the
   handler, the except clause it triggers, the exit phase) are done *)
Definition effects2 (v : variant) (o : outcome) (dth : death) (j : nat) (d : dir) : list eff :=
  let '(g, k, c) := dth in
  let pre := firstn k (trace v o d) in
  pre ++ firstn j (on_signal v g c (run_effs pre (boot d))).

Definition launch2 (v : variant) (d : dir) (o : outcome) (dth : death) (j : nat) : dir :=
  die (run_effs (effects2 v o dth j d) (boot d)).

(* how a launch ends: by itself, by one signal, by a signal and a SIGKILL inside its handling *)
Inductive fate := Alone | Dies (dth : death) | DiesTwice (dth : death) (j : nat).
Definition launchf (v : variant) (d : dir) (o : outcome) (f : fate) : dir :=
  match f with
  | Alone => launch v d o None
  | Dies dth => launch v d o (Some dth)
  | DiesTwice dth j => launch2 v d o dth j
  end.
Definition historyf (v : variant) (d : dir) (l : list (outcome * fate)) : dir :=
  fold_left (fun d x => launchf v d (fst x) (snd x)) l d.

(* ---------------------------------------------------------------- what the property talks about *)
Definition Inv (d : dir) : Prop :=
  (d_done d = true -> 1 <= d_completed d) /\ d_lock d = false /\ d_completed d <= d_runs d.

(* the part of Inv that is derived from the code (the middle conjunct of Inv is the assumption made in `die`) *)
Definition Truthful (d : dir) : Prop :=
  (d_done d = true -> 1 <= d_completed d) /\ d_completed d <= d_runs d.

(* the death arrives while the body runs: the next effect of the undisturbed run is BodyEnd *)
Definition in_body (v : variant) (o : outcome) (d : dir) (k : nat) : Prop :=
  exists b, nth_error (trace v o d) k = Some (BodyEnd b).

Definition term_signal (g : sig) : Prop := g = STerm \/ g = SInt.

(* ================================================================ two processes for one job
   Two experiments launched the same job (forced double launch: both found neither marker nor pid
   file).  Process H got the run lock and is in its body.  Process W - same script, same directory - is
   started by the second scheduler, which rewrites <name>.pid; W does everything that precedes
   `lock.acquire(blocking=True)` and blocks there.  A signal sent to W at any of these points is
   handled by a runner that does NOT hold the run lock.                                               *)

(* the run up to the moment the body has begun, and the rest of it (runner_split in the proofs:
   for a directory without success marker, runner = upto_body then from_body) *)
Definition upto_body : tblk :=
  tseq (at_ CProp (emits [RegAtexit; SetTerm; SetInt]))
 (tseq (at_ CTry (emits [Lock; NoteLock; TestDone]))
       (at_ CTry (seq rmfile_failed (emit BodyBegin)))).
Definition from_body (v : variant) (o : outcome) : tblk :=
  tseq (at_ CTry (emit (BodyEnd (success o))))
 (tseq (after_body v o) (at_ CAtexit (exit_phase v))).

(* what a runner does before it asks for the lock; it cannot get past this point while H holds the lock *)
Fixpoint before_lock (l : list eff) : list eff :=
  match l with
  | [] => []
  | Lock :: _ => []
  | e :: l' => e :: before_lock l'
  end.

(* another process enters the same directory: the files as they are, its own fresh private flags;
   its scheduler has just written the pid file *)
Definition enter (s : st) : st :=
  {| done := done s; failed := failed s; pid := true; lock := lock s; runs := runs s;
     completed := completed s; atexit := false; hterm := false; hint := false; cleaned := false;
     noted := false |}.
(* back to process h: its private flags, the files as the other process w left them *)
Definition back (h w : st) : st :=
  {| done := done w; failed := failed w; pid := pid w; lock := lock w; runs := runs w;
     completed := completed w; atexit := atexit h; hterm := hterm h; hint := hint h;
     cleaned := cleaned h; noted := noted h |}.

(* the directory as an observer sees it while processes are alive *)
Definition snap (s : st) : dir :=
  {| d_done := done s; d_failed := failed s; d_pid := pid s; d_lock := lock s; d_runs := runs s;
     d_completed := completed s |}.

(* H when its body has begun *)
Definition at_body (d : dir) : st := run_effs (map snd (upto_body (boot d))) (boot d).

(* the whole life of W, started in state s (= enter ...): k effects of its run up to the lock, then
   signal g at a point of context c *)
Definition waiter_effects (v : variant) (o : outcome) (dw : death) (s : st) : list eff :=
  let '(g, k, c) := dw in
  let pre := firstn k (before_lock (map snd (runner v o s))) in
  pre ++ on_signal v g c (run_effs pre s).

(* the state of W when it is gone *)
Definition waiter_end (v : variant) (d : dir) (ow : outcome) (dw : death) : st :=
  let w0 := enter (at_body d) in run_effs (waiter_effects v ow dw w0) w0.

(* the directory right after W's death, H still in its body *)
Definition double_mid (v : variant) (d : dir) (ow : outcome) (dw : death) : dir :=
  snap (waiter_end v d ow dw).

(* ... and when H is gone too.  dh: how H ends (None: by itself; Some (g, k, c): signal g when k
   effects of the REST of its run, from the end of the body on, are done) - both processes may die *)
Definition double_effects (v : variant) (oh : outcome) (dh : option death) (h : st) : list eff :=
  let rest := map snd (from_body v oh h) in
  match dh with
  | None => rest
  | Some (g, k, c) => let pre := firstn k rest in pre ++ on_signal v g c (run_effs pre h)
  end.

Definition double (v : variant) (d : dir) (oh ow : outcome) (dw : death) (dh : option death) : dir :=
  let h := back (at_body d) (waiter_end v d ow dw) in
  die (run_effs (double_effects v oh dh h) h).

(* the same death of H counted from the start of its run *)
Definition shift (d : dir) (dh : option death) : option death :=
  match dh with
  | None => None
  | Some (g, k, c) => Some (g, length (upto_body (boot d)) + k, c)
  end.


(* ================================================================ a body that forks
   The task body forks (multiprocessing with the fork start method, os.fork, DataLoader workers).  The
   child is a copy of the job process: the frames of TaskRunner.run - its try / except clauses - are
   on its stack, self.locks is copied, the at-fork hook `remove_signal_handlers` has restored the signal
   dispositions and unregistered the exit callback IN THE CHILD (the parent keeps its handlers and
   its exit callback).  How the child leaves decides what it does to the job directory:
     os._exit (multiprocessing)          nothing
     sys.exit(0)                         except SystemExit, code 0: donepath.touch()
     sys.exit(c), c <> 0                 handle_error(c): failure marker, cleanup (pid file, "release")
     an exception nobody catches         except Exception: handle_error(1)
   With fixes/C10-3.diff (fsafe = true) both except clauses re-raise in a process that is not the job.
   The child's life is one moment of the body (the parent waits for it).                              *)
Inductive cexit := CQuit | CExit (c : Z) | CRaise | CReturn.
(* CReturn: the child returns from the body as if it were the job: remove_signal_handlers(False), sys.exit(0) *)

Definition to_ceff (e : eff) : list ceff :=
  match e with
  | TouchDone => [CTouchDone] | WriteFailed c => [CWriteFailed c] | RmPid => [CRmPid] | Unlock => [CUnlock]
  | _ => []
  end.

(* the private flags of the child once the at-fork hook has run *)
Definition hooked (s : st) : st :=
  {| done := done s; failed := failed s; pid := pid s; lock := lock s; runs := runs s;
     completed := completed s; atexit := false; hterm := false; hint := false; cleaned := cleaned s;
     noted := noted s |}.

Definition child_effects (v : variant) (fsafe : bool) (ce : cexit) (s : st) : list ceff :=
  if fsafe then [] else
  match ce with
  | CQuit => []
  | CExit c => if (c =? 0)%Z then [CTouchDone] else flat_map to_ceff (handle_error v c (hooked s))
  | CRaise => flat_map to_ceff (handle_error v 1 (hooked s))
  | CReturn => [CTouchDone]
  end.

Definition fork_step (v : variant) (fsafe : bool) (fk : option cexit) : blk :=
  match fk with
  | None => nop
  | Some ce => fun s => [Child (child_effects v fsafe ce s)]
  end.

(* the runner with a body that forks once (fk = Some ...) between its beginning and its end *)
Definition runner_f (v : variant) (fsafe : bool) (fk : option cexit) (o : outcome) : tblk :=
  tseq (at_ CProp (emits [RegAtexit; SetTerm; SetInt]))
 (tseq (at_ CTry (emits [Lock; NoteLock; TestDone]))
 (tseq (fun s => if done s then []
                 else tseq (at_ CTry (seq rmfile_failed
                                          (seq (emit BodyBegin)
                                               (seq (fork_step v fsafe fk) (emit (BodyEnd (success o)))))))
                           (after_body v o) s)
       (at_ CAtexit (exit_phase v)))).

Definition trace_f (v : variant) (fsafe : bool) (fk : option cexit) (o : outcome) (d : dir) : list eff :=
  map snd (runner_f v fsafe fk o (boot d)).

Definition effects_f (v : variant) (fsafe : bool) (fk : option cexit) (o : outcome) (dth : option death) (d : dir) : list eff :=
  match dth with
  | None => trace_f v fsafe fk o d
  | Some (g, k, c) =>
      let pre := firstn k (trace_f v fsafe fk o d) in
      pre ++ on_signal v g c (run_effs pre (boot d))
  end.

Definition launch_f (v : variant) (fsafe : bool) (d : dir) (fk : option cexit) (o : outcome) (dth : option death) : dir :=
  die (run_effs (effects_f v fsafe fk o dth d) (boot d)).

Definition history_f (v : variant) (fsafe : bool) (d : dir) (l : list (option cexit * outcome * option death)) : dir :=
  fold_left (fun d x => launch_f v fsafe d (fst (fst x)) (snd (fst x)) (snd x)) l d.

(* a child that leaves through os._exit, or no fork at all *)
Definition wellbehaved (fk : option cexit) : bool :=
  match fk with None | Some CQuit => true | _ => false end.

(* the death arrives while the body runs: the next effect of the undisturbed run is the fork or the end of the body *)
Definition in_body_f (v : variant) (fsafe : bool) (fk : option cexit) (o : outcome) (d : dir) (k : nat) : Prop :=
  (exists b, nth_error (trace_f v fsafe fk o d) k = Some (BodyEnd b)) \/
  (exists l, nth_error (trace_f v fsafe fk o d) k = Some (Child l)).


(* ================================================================ the end-of-job notification
   cleanup() ends with `if self.started: report_eoj()`, which can raise (an entry of .notifications that
   cannot be read, the folder removed by the task...).  What a raising notification does to a run that
   ends by itself depends on WHERE in cleanup it is called: last (the code), or before the pid file is
   removed and the lock released (`NotifyFirst`: then the rest of cleanup is skipped, and `cleaned` is
   already set, so nobody does it later).  nf = the notification raises.  started = the body has begun
   in this process.  The exception leaves handle_error before its sys.exit(1) and, raised inside an except
   clause or the exit callback, is not caught again: no further effect on the directory.              *)
Inductive norder := NotifyLast | NotifyFirst.

Definition cleanup_n (ord : norder) (nf started : bool) (v : variant) : blk :=
  when (fun s => negb (cleaned s))
       (seq (emit SetCleaned)
            (if (match ord with NotifyFirst => nf && started | NotifyLast => false end)%bool then nop
             else seq (when (owner v) rmfile_pid) (when (fun s => noted s && lock s) (emit Unlock)))).

Definition handle_error_n (ord : norder) (nf : bool) (v : variant) (c : Z) : blk :=
  seq (when (owner v) (emit (WriteFailed c))) (cleanup_n ord nf true v).

Definition after_body_n (ord : norder) (nf : bool) (v : variant) (o : outcome) : tblk :=
  match o with
  | OOk =>
      tseq (at_ CTry (seq (emits [RestoreTerm; RestoreInt])
                          (match v with Prefix => emit UnregAtexit | _ => nop end)))
           (at_ CProp (emit TouchDone))
  | ORaise => at_ CProp (handle_error_n ord nf v 1)
  | OExit c => if (c =? 0)%Z then at_ CProp (emit TouchDone) else at_ CProp (handle_error_n ord nf v c)
  | OBase => fun _ => []
  end.

(* the undisturbed run *)
Definition runner_n (ord : norder) (nf : bool) (v : variant) (o : outcome) : tblk :=
  tseq (at_ CProp (emits [RegAtexit; SetTerm; SetInt]))
 (tseq (at_ CTry (emits [Lock; NoteLock; TestDone]))
       (fun s => if done s then at_ CAtexit (when atexit (cleanup_n ord nf false v)) s
                 else tseq (tseq (at_ CTry (seq rmfile_failed (body o))) (after_body_n ord nf v o))
                           (at_ CAtexit (when atexit (cleanup_n ord nf true v))) s)).

Definition end_n (ord : norder) (nf : bool) (v : variant) (d : dir) (o : outcome) : st :=
  run_effs (map snd (runner_n ord nf v o (boot d))) (boot d).

(* ================================================================ the run lock is a lock on an inode
   fasteners opens <name>.lock (creating it when the path names nothing) and takes a lockf lock on the
   open file, i.e. on the INODE.  Processes: numbers.  lk_file: the inode the path names now; lk_ino: the
   inode each process has open; lk_held: who holds the lock of which inode.  LAcquire succeeds only when
   nobody holds the lock of the process's inode (otherwise the process keeps waiting: no change).      *)
Inductive lev := LOpen (p : nat) | LAcquire (p : nat) | LRelease (p : nat) | LUnlink.

Record lst := { lk_file : option nat; lk_fresh : nat; lk_ino : list (nat * nat); lk_held : list (nat * nat) }.

Definition lk0 : lst := {| lk_file := None; lk_fresh := 0; lk_ino := []; lk_held := [] |}.

Fixpoint lk_lookup (p : nat) (l : list (nat * nat)) : option nat :=
  match l with [] => None | (q, i) :: l' => if Nat.eqb p q then Some i else lk_lookup p l' end.

Definition lk_step (s : lst) (e : lev) : lst :=
  match e with
  | LOpen p =>
      match lk_file s with
      | Some i => {| lk_file := Some i; lk_fresh := lk_fresh s; lk_ino := (p, i) :: lk_ino s; lk_held := lk_held s |}
      | None => {| lk_file := Some (lk_fresh s); lk_fresh := S (lk_fresh s);
                   lk_ino := (p, lk_fresh s) :: lk_ino s; lk_held := lk_held s |}
      end
  | LAcquire p =>
      match lk_lookup p (lk_ino s) with
      | Some i => if existsb (fun h => Nat.eqb (snd h) i) (lk_held s) then s
                  else {| lk_file := lk_file s; lk_fresh := lk_fresh s; lk_ino := lk_ino s; lk_held := (p, i) :: lk_held s |}
      | None => s
      end
  | LRelease p =>
      {| lk_file := lk_file s; lk_fresh := lk_fresh s; lk_ino := lk_ino s;
         lk_held := filter (fun h => negb (Nat.eqb (fst h) p)) (lk_held s) |}
  | LUnlink => {| lk_file := None; lk_fresh := lk_fresh s; lk_ino := lk_ino s; lk_held := lk_held s |}
  end.

Definition lk_run (s : lst) (l : list lev) : lst := fold_left lk_step l s.
Definition no_unlink (l : list lev) : bool := forallb (fun e => match e with LUnlink => false | _ => true end) l.

