(* Model of experimaestro/tools/jobs.py : fix_deprecated (the repair command
   `experimaestro deprecated list [--fix] [--cleanup]`), property C20.
   Definitions only: proofs live in proofs/Deprecate_lemmas.v.

   A workspace is the content of <workdir>/jobs: a finite map
        jobs/<module>.<name>/<id>  |->  Dir data | Link target
   kept as an association list (first match wins).  The last dotted component
   <name> of the type identifier is kept apart because the scheduler names the
   marker files of a job after it (<name>.done, <name>.out, ...: Job.name).   *)
From Coq Require Import ZArith List Bool.
Import ListNotations.
Open Scope Z_scope.

Record key := mkkey { k_mod : Z; k_name : Z; k_id : Z }.

Definition key_eqb (a b : key) : bool :=
  (k_mod a =? k_mod b) && (k_name a =? k_name b) && (k_id a =? k_id b).

(* What the model knows of a job directory:
   d_mark    the job data (a marker that identifies the payload)
   d_params  params.json is present
   d_recomp  the (type, identifier) that fix_deprecated computes from params.json with the
             classes as they are now (None: the configuration cannot be loaded).  It is an
             input of the model; C20's other half (Hash.v) says what it is.
   d_done    the names N such that N.done is visible in the directory                      *)
Record data := mkdata { d_mark : Z; d_params : bool; d_recomp : option key; d_done : list Z }.

Inductive entry := Dir (d : data) | Link (t : key).
Definition ws := list (key * entry).

Fixpoint lookup (k : key) (w : ws) : option entry :=
  match w with
  | [] => None
  | (k', e) :: w' => if key_eqb k' k then Some e else lookup k w'
  end.

Definition is_link_entry (e : entry) : bool := match e with Link _ => true | Dir _ => false end.

(* Path.unlink() of a symbolic link *)
Definition unlink (k : key) (w : ws) : ws :=
  filter (fun p => negb (key_eqb (fst p) k && is_link_entry (snd p))) w.
(* Path.rename(new) of a directory towards a path that does not exist *)
Definition rename (k n : key) (w : ws) : ws :=
  map (fun p => if key_eqb (fst p) k then (n, snd p) else p) w.
(* new.symlink_to(old), new does not exist *)
Definition add_link (n k : key) (w : ws) : ws := w ++ [(n, Link k)].
(* change the content of the directory stored at k *)
Fixpoint update_dir (k : key) (f : data -> data) (w : ws) : ws :=
  match w with
  | [] => []
  | (k', e) :: w' =>
      if key_eqb k' k then (k', match e with Dir d => Dir (f d) | Link t => Link t end) :: w'
      else (k', e) :: update_dir k f w'
  end.

(* Following symbolic links.  The kernel gives up after 40 links (ELOOP), in which case
   Path.exists() answers False, as it does for a dangling link or a loop.                 *)
Definition maxhops : nat := 41.
Fixpoint resolve_f (fuel : nat) (w : ws) (k : key) : option (key * data) :=
  match fuel with
  | O => None
  | S f => match lookup k w with
           | None => None
           | Some (Dir d) => Some (k, d)
           | Some (Link t) => resolve_f f w t
           end
  end.
Definition resolve (w : ws) (k : key) : option (key * data) := resolve_f maxhops w k.

(* Path.exists() / Path.is_symlink() *)
Definition exists_ (w : ws) (k : key) : bool := match resolve w k with Some _ => true | None => false end.
Definition is_link (w : ws) (k : key) : bool := match lookup k w with Some (Link _) => true | _ => false end.
(* jobspath.glob("*/*/params.json") yields the entry: params.json is reachable through it *)
Definition yielded (w : ws) (k : key) : bool :=
  match resolve w k with Some (_, d) => d_params d | None => false end.

Fixpoint memZ (x : Z) (l : list Z) : bool :=
  match l with [] => false | y :: l' => (x =? y) || memZ x l' end.

(* ---- the first loop (cleanup): the yielded symbolic links are removed ---------------
   keep = false : every one of them (pinned commit)
   keep = true  : repair C20-8 - a link whose target cannot be loaded (class deleted from the code, module not
                  importable) is kept: that directory will not be repaired by the second loop, and the link may be
                  the only way to reach it                                                                     *)
Definition loadable (w : ws) (k : key) : bool :=
  match resolve w k with Some (_, d) => match d_recomp d with Some _ => true | None => false end | None => false end.
Definition prepass_step_gen (keep : bool) (w : ws) (k : key) : ws :=
  if yielded w k && is_link w k && (negb keep || loadable w k) then unlink k w else w.
Definition prepass_step := prepass_step_gen true.

(* ---- repair of defect C20-1: the result files of a job are named after the task
   (<name>.done ...); when the task class itself was renamed they are made visible
   under the new name (relative symbolic links inside the directory)                    *)
Definition alias (kn nn : Z) (d : data) : data :=
  if kn =? nn then d
  else if memZ kn (d_done d) && negb (memZ nn (d_done d))
       then mkdata (d_mark d) (d_params d) (d_recomp d) (d_done d ++ [nn])
       else d.

(* ---- one iteration of the main loop on the entry k ---------------------------------
   rep = false : the code of the pinned commit, literally
   rep = true  : with the repairs C20-1 (alias) and C20-2 (see run)                      *)
Definition main_step (rep fx cleanup : bool) (w : ws) (k : key) : ws :=
  if negb (yielded w k) then w else
  match lookup k w with
  | Some (Dir d) =>
      match d_recomp d with
      | None => w                                         (* load_job failed: skipped *)
      | Some n =>
          if k_id n =? k_id k then w                      (* new_identifier == old_identifier *)
          else if negb fx then w                          (* listing only *)
          else
            (* "Remove the old symlink if dangling" *)
            let w1 := if is_link w n && negb (exists_ w n) then unlink n w else w in
            match resolve w1 n with
            | Some (k', _) =>
                (* newjobpath.exists(): warning if it resolves elsewhere; nothing is done *)
                if key_eqb k' k
                then (if rep then update_dir k (alias (k_name k) (k_name n)) w1 else w1)
                else w1
            | None =>
                if cleanup
                then let w2 := rename k n w1 in
                     if rep then update_dir n (alias (k_name k) (k_name n)) w2 else w2
                else let w2 := add_link n k w1 in
                     if rep then update_dir k (alias (k_name k) (k_name n)) w2 else w2
            end
      end
  | _ => w                                                (* "it is a symlink - skipping" *)
  end.

(* The two loops.  The order in which glob() yields the entries is chosen by the file
   system: it is an input (o1 for the first loop, o2 for the second), and entries are
   examined lazily, in the state the previous iterations left.                          *)
Definition prepass (w : ws) (o : list key) : ws := fold_left prepass_step o w.
Definition prepass0 (w : ws) (o : list key) : ws := fold_left (prepass_step_gen false) o w.   (* pinned commit *)
Definition mainpass (rep fx cleanup : bool) (w : ws) (o : list key) : ws :=
  fold_left (main_step rep fx cleanup) o w.

(* fix_deprecated(workpath, fix, cleanup).  Pinned commit: the first loop runs whenever
   cleanup is set, even without fix (defect C20-2); repaired: only when fixing.          *)
Definition run (rep fx cleanup : bool) (o1 o2 : list key) (w : ws) : ws :=
  let w1 := if cleanup && (negb rep || fx) then (if rep then prepass w o1 else prepass0 w o1) else w in
  mainpass rep fx cleanup w1 o2.

Definition fix_ws := run true.              (* the repaired command *)
Definition fix_ws_prefix := run false.      (* the command of the pinned commit *)

(* ---- observations ------------------------------------------------------------------- *)
Definition dirs (w : ws) : list data :=
  flat_map (fun p => match snd p with Dir d => [d] | Link _ => [] end) w.
Definition core (d : data) : Z * bool * option key := (d_mark d, d_params d, d_recomp d).

(* a submit of a job whose path is k finds a result: the directory is reachable and the
   marker <name of k>.done is visible in it (scheduler/base.py: job.donepath.exists())   *)
Definition found (w : ws) (k : key) : bool :=
  match resolve w k with Some (_, d) => memZ (k_name k) (d_done d) | None => false end.

(* ---- where d_recomp comes from -------------------------------------------------------
   tools/jobs.py load_job + `job.__xpm__.identifier`: the definitions stored in params.json
   are loaded in configuration mode (core/objects.py load_objects, as_instance=False: the model
   is model/Serial.v load_into) with the classes AS THEY ARE NOW - a deprecated class carries
   the type identifier of its replacement -, and the full identifier of the loaded root is
   computed afresh (model/Hash.v full_pure).  The result is the path jobs/<tid>/<digest> the
   directory is linked / moved to.

   fixmeta = true  : the loader of the current code (`meta = definition.get("meta"); if meta is not None`):
                     the three values of the flag - None, True, and an explicit False that forces a
                     Meta[...] member into the identifier - are restored;
   fixmeta = false : a loader that restores the flag only when it is truthy (`if meta := ...`), the
                     literal record of a family of defects (see recompute_truthy_refuted).           *)
From XV Require Import core.Value model.Hash model.Edits model.Serial.

(* ObjectType.deprecate (core/types.py l.429-441; annotations.py deprecate): the class - which must have exactly one
   parent, its replacement - takes the type identifier of that parent ("self.identifier = parent.identifier"); its
   declared arguments are untouched.  k, parent: positions in the class table.  A class is deprecated when its
   definition is executed, hence after its parent was (a parent that is itself deprecated already carries the
   identifier of ITS replacement): `deprecate_all` applies the deprecations in that order.                      *)
Definition deprecate (cs : classes) (k parent : nat) : classes :=
  match nth_error cs k, nth_error cs parent with
  | Some c, Some p => upd_nth cs k {| c_tid := c_tid p; c_args := c_args c |}
  | _, _ => cs
  end.
Definition deprecate_all (cs : classes) (steps : list (nat * nat)) : classes :=
  fold_left (fun cs s => deprecate cs (fst s) (snd s)) steps cs.

Section Recompute.
  Variable H : bytes -> bytes.          (* the hash function: any; SHA-256 in the correspondence run *)
  Variable cs : classes.                (* the classes as they are now *)
  Variable fixmeta : bool.

  (* every reference must designate a definition (objects[...] raises otherwise: load_job answers None) *)
  Definition loaded (h0 : heap) (ds : list def) : option heap :=
    if resolves ds then load_into cs fixmeta true h0 ds else None.

  Definition recompute (fuel : nat) (h0 : heap) (ds : list def) (root : nat) : option (bytes * bytes) :=
    match loaded h0 ds with
    | Some h' =>
        match nth_error h' root with
        | Some x =>
            match nth_error cs (n_cls x), full_pure H cs h' fuel root with
            | Some c, Ok d => Some (c_tid c, d)
            | _, _ => None
            end
        | None => None
        end
    | None => None
    end.
End Recompute.

(* ---- interrupted repairs ---------------------------------------------------------------------
   The command can be stopped at any point (full device: a write raises; kill).  Every modification of
   jobs/ it makes is atomic (unlink, symlink, rename; params.json is rewritten through params.json.tmp +
   replace), so the states an interruption can leave are: the first loop done on a prefix of its entries;
   the main loop done on a prefix, possibly INSIDE the iteration on the next entry.  Inside an iteration,
   in the order of the repaired command (fixes/C20-6: the result files are aliased BEFORE the directory is
   moved; the order of the pinned commit - move, then alias - is `partials_moved_first`):
       the dangling link at the new path removed;
       link mode:    then the link created, the aliases not yet;
       cleanup mode: then params.json rewritten (same recomputed identity: not visible here) and the result
                     files aliased in the directory, the directory not yet moved.                        *)
Definition partials (cl : bool) (w : ws) (k : key) : list ws :=
  if negb (yielded w k) then [] else
  match lookup k w with
  | Some (Dir d) =>
      match d_recomp d with
      | None => []
      | Some n =>
          if k_id n =? k_id k then []
          else
            let w1 := if is_link w n && negb (exists_ w n) then unlink n w else w in
            match resolve w1 n with
            | Some _ => [w1]
            | None => if cl then [w1; update_dir k (alias (k_name k) (k_name n)) w1]
                      else [w1; add_link n k w1]
            end
      end
  | _ => []
  end.

(* the order of the commit that introduced the aliases: the directory is moved first; an interruption then
   leaves it under its new identifier without the aliases *)
Definition partials_moved_first (w : ws) (k : key) : list ws :=
  match lookup k w with
  | Some (Dir d) => match d_recomp d with Some n => [rename k n w] | None => [] end
  | _ => []
  end.

Fixpoint prefixes {A} (l : list A) : list (list A) :=
  match l with [] => [[]] | x :: l' => [] :: map (cons x) (prefixes l') end.

(* every state an interruption of `deprecated list --fix [--cleanup]` (repaired command) can leave *)
Definition interrupted (cl : bool) (o1 o2 : list key) (w : ws) : list ws :=
  (if cl then map (prepass w) (prefixes o1) else []) ++
  (let w0 := if cl then prepass w o1 else w in
   flat_map (fun pr => let w1 := mainpass true true cl w0 pr in
                       w1 :: match nth_error o2 (length pr) with Some x => partials cl w1 x | None => [] end)
            (prefixes o2)).
