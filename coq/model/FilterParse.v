(* Character-level model of the filter grammar of experimaestro/cli/filter.py (C19):
   what `logicExpr.parseString(query, parseAll=True)` does with a string, pyparsing element by element.
   Definitions only: proofs live in proofs/FilterParse_lemmas.v.

     quotedString = QuotedString(double quote) | QuotedString(single quote)
     var          = Literal("@state") | Literal("@name") | Word(alphas, alphanums + "_")   (Word(alphas) before fixes/C19-10)
     regexExpr    = var + "~" + quotedString
     eqExpr       = var + "=" + (var | quotedString)
     stringList   = quotedString + ZeroOrMore("," + quotedString)
     notInExpr    = var + Literal("not in") + "[" + stringList + "]"
     inExpr       = var + Literal("in") + "[" + stringList + "]"
     matchExpr    = eqExpr | regexExpr | inExpr | notInExpr
     booleanOp    = Keyword("and") | Keyword("or")           (Literal before fixes/C19-5)
     logicExpr    = matchExpr + ZeroOrMore(booleanOp + matchExpr)

   pyparsing: tabs are expanded first (str.expandtabs), every terminal skips the white characters
   " \n\t\r" before it tries to match, `|` is MatchFirst (first alternative that matches, each tried from
   the same place), `+` has no backtracking, ZeroOrMore stops at the first repetition that does not match,
   parseAll wants nothing but white characters after the expression.
   Strings are lists of code points; quoted strings contain no backslash (pyparsing rewrites \t, \n, \x..
   inside quoted strings -- outside the domain of the generator).                                         *)
From Coq Require Import NArith List Bool.
From XV Require Import model.Filter.
Import ListNotations.
Open Scope N_scope.

(* ---- characters -------------------------------------------------------- *)
Definition is_ws (c : N) : bool := (c =? 32) || (c =? 10) || (c =? 9) || (c =? 13).
Definition is_alpha (c : N) : bool := ((65 <=? c) && (c <=? 90)) || ((97 <=? c) && (c <=? 122)).
Definition is_digit (c : N) : bool := (48 <=? c) && (c <=? 57).
(* Keyword.DEFAULT_KEYWORD_CHARS = alphanums + "_$" *)
Definition is_ident (c : N) : bool := is_alpha c || is_digit c || (c =? 95) || (c =? 36).

Definition s_state : str := [64; 115; 116; 97; 116; 101].     (* "@state" *)
Definition s_name : str := [64; 110; 97; 109; 101].            (* "@name" *)
Definition s_and : str := [97; 110; 100].
Definition s_or : str := [111; 114].
Definition s_in : str := [105; 110].
Definition s_notin : str := [110; 111; 116; 32; 105; 110].      (* "not in": exactly one space *)

(* ---- str.expandtabs() (tab size 8, the column restarts after \n and \r) -- *)
Fixpoint spaces (n : nat) : str := match n with O => [] | S n' => 32 :: spaces n' end.
Fixpoint expandtabs (s : str) (col : nat) : str :=
  match s with
  | [] => []
  | c :: s' =>
      if c =? 9 then let k := (8 - Nat.modulo col 8)%nat in spaces k ++ expandtabs s' (col + k)
      else if (c =? 10) || (c =? 13) then c :: expandtabs s' 0
      else c :: expandtabs s' (S col)
  end.

(* ---- parser state: the character just before the position (Keyword looks at it), what is left ---- *)
Definition pst := (option N * str)%type.

Fixpoint skip_go (p : option N) (s : str) : pst :=
  match s with
  | c :: s' => if is_ws c then skip_go (Some c) s' else (p, s)
  | [] => (p, [])
  end.
Definition skipw (st : pst) : pst := skip_go (fst st) (snd st).

Fixpoint strip_prefix (w s : str) : option str :=
  match w, s with
  | [], _ => Some s
  | a :: w', b :: s' => if a =? b then strip_prefix w' s' else None
  | _ :: _, [] => None
  end.
Definition last_of (w : str) (p : option N) : option N := fold_left (fun _ c => Some c) w p.

(* Literal(w) *)
Definition lit (w : str) (st : pst) : option pst :=
  let '(p, s) := skipw st in
  match strip_prefix w s with
  | Some r => Some (last_of w p, r)
  | None => None
  end.

(* Keyword(w): not glued to an identifier character on either side *)
Definition keyword (w : str) (st : pst) : option pst :=
  let '(p, s) := skipw st in
  match strip_prefix w s with
  | Some r =>
      let prev_ok := match p with Some c => negb (is_ident c) | None => true end in
      let next_ok := match r with c :: _ => negb (is_ident c) | [] => true end in
      if prev_ok && next_ok then Some (last_of w p, r) else None
  | None => None
  end.

(* Word(alphas, alphanums + "_"): a letter, then letters, digits, underscores (a tag name) *)
Definition is_tagchar (c : N) : bool := is_alpha c || is_digit c || (c =? 95).
Fixpoint take_tagchars (s : str) : str * str :=
  match s with
  | c :: s' => if is_tagchar c then let '(w, r) := take_tagchars s' in (c :: w, r) else ([], s)
  | [] => ([], [])
  end.
Definition word (st : pst) : option (str * pst) :=
  let '(p, s) := skipw st in
  match s with
  | c :: s' => if is_alpha c
               then let '(w, r) := take_tagchars s' in Some (c :: w, (last_of (c :: w) p, r))
               else None
  | [] => None
  end.

(* var: the token is the variable name as written *)
Definition p_var (st : pst) : option (str * pst) :=
  match lit s_state st with
  | Some st' => Some (s_state, st')
  | None => match lit s_name st with
            | Some st' => Some (s_name, st')
            | None => word st
            end
  end.

(* QuotedString(q): q, characters other than q, \n, \r, then q *)
Fixpoint take_body (q : N) (s : str) : option (str * str) :=
  match s with
  | [] => None
  | c :: s' =>
      if c =? q then Some ([], s')
      else if (c =? 10) || (c =? 13) then None
      else match take_body q s' with Some (b, r) => Some (c :: b, r) | None => None end
  end.
Definition quoted1 (q : N) (st : pst) : option (str * pst) :=
  let '(p, s) := skipw st in
  match s with
  | c :: s' => if c =? q then match take_body q s' with
                              | Some (b, r) => Some (b, (Some q, r))
                              | None => None
                              end
               else None
  | [] => None
  end.
Definition p_quoted (st : pst) : option (str * pst) :=
  match quoted1 34 st with Some x => Some x | None => quoted1 39 st end.

(* ---- what the grammar builds (before any regular expression is compiled) -- *)
Inductive roperand := ROVar (v : str) | ROConst (s : str).
Inductive ratom :=
  | RAEq (v : str) (o : roperand)
  | RARegex (v : str) (src : str)
  | RAIn (v : str) (l : list str)
  | RANotIn (v : str) (l : list str).
(* the operator is kept as the text that was matched: LogicExpr.operator *)
Record rexpr := { r_first : ratom; r_rest : list (str * ratom) }.

(* ZeroOrMore("," + quotedString): every round eats at least the comma *)
Fixpoint more_strings (fuel : nat) (st : pst) : list str * pst :=
  match fuel with
  | O => ([], st)
  | S f =>
      match lit [44] st with
      | Some st1 => match p_quoted st1 with
                    | Some (s, st2) => let '(l, st3) := more_strings f st2 in (s :: l, st3)
                    | None => ([], st)
                    end
      | None => ([], st)
      end
  end.
Definition p_strlist (st : pst) : option (list str * pst) :=
  match p_quoted st with
  | Some (s, st1) => let '(l, st2) := more_strings (length (snd st1)) st1 in Some (s :: l, st2)
  | None => None
  end.

Definition p_eq (st : pst) : option (ratom * pst) :=
  match p_var st with
  | Some (v, st1) =>
      match lit [61] st1 with
      | Some st2 => match p_var st2 with
                    | Some (w, st3) => Some (RAEq v (ROVar w), st3)
                    | None => match p_quoted st2 with
                              | Some (s, st3) => Some (RAEq v (ROConst s), st3)
                              | None => None
                              end
                    end
      | None => None
      end
  | None => None
  end.

Definition p_regex (st : pst) : option (ratom * pst) :=
  match p_var st with
  | Some (v, st1) =>
      match lit [126] st1 with
      | Some st2 => match p_quoted st2 with
                    | Some (s, st3) => Some (RARegex v s, st3)
                    | None => None
                    end
      | None => None
      end
  | None => None
  end.

Definition p_member (kw : str) (mk : str -> list str -> ratom) (st : pst) : option (ratom * pst) :=
  match p_var st with
  | Some (v, st1) =>
      match lit kw st1 with
      | Some st2 =>
          match lit [91] st2 with
          | Some st3 =>
              match p_strlist st3 with
              | Some (l, st4) => match lit [93] st4 with
                                 | Some st5 => Some (mk v l, st5)
                                 | None => None
                                 end
              | None => None
              end
          | None => None
          end
      | None => None
      end
  | None => None
  end.

(* matchExpr = eqExpr | regexExpr | inExpr | notInExpr *)
Definition p_atom (st : pst) : option (ratom * pst) :=
  match p_eq st with
  | Some x => Some x
  | None => match p_regex st with
            | Some x => Some x
            | None => match p_member s_in RAIn st with
                      | Some x => Some x
                      | None => p_member s_notin RANotIn st
                      end
            end
  end.

Section Chain.
  (* how "and" / "or" are recognised: keyword (after fixes/C19-5) or lit (before) *)
  Variable opm : str -> pst -> option pst.

  Definition p_op (st : pst) : option (str * pst) :=
    match opm s_and st with
    | Some st' => Some (s_and, st')
    | None => match opm s_or st with
              | Some st' => Some (s_or, st')
              | None => None
              end
    end.

  (* ZeroOrMore(booleanOp + matchExpr) *)
  Fixpoint more_atoms (fuel : nat) (st : pst) : list (str * ratom) * pst :=
    match fuel with
    | O => ([], st)
    | S f =>
        match p_op st with
        | Some (op, st1) => match p_atom st1 with
                            | Some (a, st2) => let '(l, st3) := more_atoms f st2 in ((op, a) :: l, st3)
                            | None => ([], st)
                            end
        | None => ([], st)
        end
    end.

  (* logicExpr.parseString(text, parseAll=True): None = ParseException *)
  Definition parse_with (text : str) : option rexpr :=
    let s := expandtabs text 0 in
    match p_atom (None, s) with
    | Some (a, st1) =>
        let '(l, st2) := more_atoms (length (snd st1)) st1 in
        match snd (skipw st2) with
        | [] => Some {| r_first := a; r_rest := l |}
        | _ :: _ => None
        end
    | None => None
    end.
End Chain.

Definition parse_filter : str -> option rexpr := parse_with keyword.
(* the grammar before fixes/C19-5: and/or are plain literals *)
Definition parse_filter_literal : str -> option rexpr := parse_with lit.

(* ---- evaluation of what was built (VarExpr.get, the four filter methods, LogicExpr.filter) -------- *)
Definition rget (v : str) (e : env) : option str :=
  if str_eqb v s_state then match e_state e with Some s => Some (state_name s) | None => None end
  else if str_eqb v s_name then Some (e_name e)
  else assoc v (e_tags e).

Definition roget (o : roperand) (e : env) : option str :=
  match o with ROVar v => rget v e | ROConst s => Some s end.

Section Eval.
  (* re.compile on the sources that occur: None = not a source the harness knows the meaning of *)
  Variable dec : str -> option pattern.

  Definition reval_atom (a : ratom) (e : env) : option bool :=
    match a with
    | RAEq v o => Some (eq_present (rget v e) (roget o e))
    | RAIn v l => Some (match rget v e with Some s => mem s l | None => false end)
    | RANotIn v l => Some (negb (match rget v e with Some s => mem s l | None => false end))
    | RARegex v src =>
        match dec src with
        | Some p => Some (match rget v e with Some s => re_match p s | None => false end)
        | None => None
        end
    end.

  (* LogicExpr.filter: `if self.operator == "and": y and x` -- anything else is `y or x` *)
  Fixpoint reval_rest (acc : option bool) (rest : list (str * ratom)) (e : env) : option bool :=
    match rest with
    | [] => acc
    | (op, a) :: rest' =>
        let r := match acc, reval_atom a e with
                 | Some x, Some y => Some (if str_eqb op s_and then y && x else y || x)
                 | _, _ => None
                 end in
        reval_rest r rest' e
    end.
  Definition reval (r : rexpr) (e : env) : option bool := reval_rest (reval_atom (r_first r) e) (r_rest r) e.

  (* ---- the expression of model/Filter.v that a parsed text stands for ---- *)
  Definition var_of (v : str) : var :=
    if str_eqb v s_state then VState else if str_eqb v s_name then VName else VTag v.
  Definition atom_of (a : ratom) : option atom :=
    match a with
    | RAEq v (ROVar w) => Some (AEq (var_of v) (OVar (var_of w)))
    | RAEq v (ROConst s) => Some (AEq (var_of v) (OConst s))
    | RAIn v l => Some (AIn (var_of v) l)
    | RANotIn v l => Some (ANotIn (var_of v) l)
    | RARegex v src => match dec src with Some p => Some (ARegex (var_of v) p) | None => None end
    end.
  Definition bop_of (op : str) : bop := if str_eqb op s_and then BAnd else BOr.
  Fixpoint rest_of (l : list (str * ratom)) : option (list (bop * atom)) :=
    match l with
    | [] => Some []
    | (op, a) :: l' => match atom_of a, rest_of l' with
                       | Some a', Some r => Some ((bop_of op, a') :: r)
                       | _, _ => None
                       end
    end.
  Definition expr_of (r : rexpr) : option expr :=
    match atom_of (r_first r), rest_of (r_rest r) with
    | Some a, Some l => Some {| x_first := a; x_rest := l |}
    | _, _ => None
    end.
End Eval.

(* ---- a canonical way of writing what the grammar builds ----------------- *)
Definition pr_quoted (s : str) : str := 34 :: s ++ [34].
Fixpoint pr_more (l : list str) : str :=
  match l with [] => [] | s :: l' => 44 :: 32 :: pr_quoted s ++ pr_more l' end.
Definition pr_list (l : list str) : str :=
  match l with [] => [91; 93] | s :: l' => 91 :: pr_quoted s ++ pr_more l' ++ [93] end.
Definition pr_atom (a : ratom) : str :=
  match a with
  | RAEq v (ROVar w) => v ++ [32; 61; 32] ++ w
  | RAEq v (ROConst s) => v ++ [32; 61; 32] ++ pr_quoted s
  | RARegex v s => v ++ [32; 126; 32] ++ pr_quoted s
  | RAIn v l => v ++ 32 :: s_in ++ 32 :: pr_list l
  | RANotIn v l => v ++ 32 :: s_notin ++ 32 :: pr_list l
  end.
Fixpoint pr_rest (l : list (str * ratom)) : str :=
  match l with [] => [] | (op, a) :: l' => 32 :: op ++ 32 :: pr_atom a ++ pr_rest l' end.
Definition pr_expr (r : rexpr) : str := pr_atom (r_first r) ++ pr_rest (r_rest r).

(* what can be written that way *)
Definition wf_var (v : str) : Prop :=
  v = s_state \/ v = s_name \/ (exists c w, v = c :: w /\ is_alpha c = true /\ forallb is_tagchar w = true).
Definition plain_char (c : N) : bool := negb ((c =? 34) || (c =? 10) || (c =? 13) || (c =? 9)).
Definition wf_str (s : str) : Prop := forallb plain_char s = true.
Definition wf_atom (a : ratom) : Prop :=
  match a with
  | RAEq v (ROVar w) => wf_var v /\ wf_var w
  | RAEq v (ROConst s) => wf_var v /\ wf_str s
  | RARegex v s => wf_var v /\ wf_str s
  | RAIn v l | RANotIn v l => wf_var v /\ l <> [] /\ Forall wf_str l
  end.
Definition wf_op (op : str) : Prop := op = s_and \/ op = s_or.
Definition wf_expr (r : rexpr) : Prop :=
  wf_atom (r_first r) /\ Forall (fun oa => wf_op (fst oa) /\ wf_atom (snd oa)) (r_rest r).
