(* Model of the experiment job index (C16):
     scheduler/base.py  experiment.__enter__ / __exit__, Scheduler.submit / aio_submit (link step),
     connectors/local.py InterProcessLock (the lock primitive), cli/__init__.py orphans.
   Definitions only: proofs live in proofs/XpIndex_lemmas.v.

   One experiment name of one workspace.  The directory xp/<name>/jobs is a set of symbolic
   links (name = relative path <task id>/<identifier>, target = the job directory), the
   directory xp/<name>/jobs.bak may or may not exist, xp/<name>/lock is an inter-process lock.
   Several processes may try to run the experiment; every filesystem operation that the code
   performs on the index is one atomic step of the model (rename, unlink, symlink, mkdir,
   rmdir), and a process may be killed between any two of them.                               *)
From Coq Require Import ZArith List Bool.
Import ListNotations.
Open Scope Z_scope.

Definition jobid := Z.
Definition proc := nat.
(* a symbolic link: (name inside jobs/ or jobs.bak/, job directory it points to) *)
Definition link := (jobid * jobid)%type.

(* job.path for job j: the link created by aio_submit is named job.relpath and points to
   workspace.jobspath / job.relpath; both are determined by j                              *)
Definition dir_of (j : jobid) : jobid := j.

Definition memz (n : Z) (l : list Z) : bool := existsb (Z.eqb n) l.
Definition has (n : jobid) (l : list link) : bool := existsb (fun x => fst x =? n) l.
Definition unlink (n : jobid) (l : list link) : list link := filter (fun x => negb (fst x =? n)) l.
Definition find_link (n : jobid) (l : list link) : option link := find (fun x => fst x =? n) l.
Definition names (l : list link) : list jobid := map fst l.
Definition isnil {A} (l : list A) : bool := match l with [] => true | _ => false end.

(* where a process stands in `with experiment(...) as xp: <block>` *)
Inductive phase :=
| Out                                        (* not in the experiment (or waiting for the lock) *)
| Locked                                     (* __enter__: lock taken, nothing else done yet *)
| Moving                                     (* __enter__: jobs.bak exists, old links being moved *)
| Inside (sub linked : list jobid)               (* inside the block: jobs submitted / linked so far *)
| ExitRm (sub linked : list jobid)           (* __exit__ without exception: rmtree(jobs.bak) *)
| ExitWait (sub linked : list jobid)         (* __exit__ without exception: self.wait() *)
| ExitFin (sub linked : list jobid)         (* only in the repaired order (step_late): wait() succeeded and the backup
                                                is gone, the finally-clause has not yet released the lock *)
| GenIn.                                     (* inside the block of a GENERATE_ONLY run: the lock is held, the index
                                                has not been rotated, nothing is scheduled *)

Definition is_out (p : phase) : bool := match p with Out => true | _ => false end.

Record st := {
  jobs : list link;                          (* xp/<name>/jobs/*/*      *)
  bak : option (list link);                  (* xp/<name>/jobs.bak/*/*, None = no such directory *)
  lock : option proc;                        (* holder of xp/<name>/lock *)
  ph : proc -> phase;
  dirs : list jobid                          (* existing job directories workspace/jobs/*/* *)
}.

Definition bakl (s : st) : list link := match bak s with Some b => b | None => [] end.
Definition upd (f : proc -> phase) (p : proc) (v : phase) : proc -> phase :=
  fun q => if Nat.eqb q p then v else f q.

Definition init : st := {| jobs := []; bak := None; lock := None; ph := fun _ => Out; dirs := [] |}.

(* how a block that raised was left: the class of the exception handed to __exit__.  The code
   tests `exc_type is None` (before rmtree) and `if exc_type:` (before wait) in __exit__, so every class is treated alike;
   the class is part of the event so that histories distinguish them (variant below, correspondence) *)
Inductive exc_class :=
| ExcError        (* an instance of Exception (user error, failed experiment, ...) *)
| ExcExit.        (* a BaseException that is not an Exception: SystemExit (sys.exit), KeyboardInterrupt,
                     GeneratorExit, asyncio.CancelledError, a BaseExceptionGroup of those, ... *)

Inductive event :=
| Lock (p : proc)                (* connector.lock(xplockpath, 0).__enter__()   (l.971) *)
| MkBak (p : proc)               (* jobsbakpath.mkdir(exist_ok=True)            (l.976) *)
| Move (p : proc) (n : jobid)    (* one iteration of the loop over jobs/*/*     (l.977-986) *)
| Ready (p : proc)               (* the loop is over, __enter__ returns *)
| Submit (p : proc) (j : jobid)  (* xp.submit(job) returns (registration only)  (l.506-517) *)
| Link (p : proc) (j : jobid)    (* the job's coroutine creates its link        (l.565-570) *)
| EndOk (p : proc)               (* the block ends without exception: __exit__(None, ...) *)
| RmEntry (p : proc) (n : jobid) (* rmtree(jobsbakpath) removes one link        (l.1019-1020) *)
| RmBakDir (p : proc)            (* rmtree removes the directory itself *)
| Done (p : proc)                (* wait() is over, the lock is released, __exit__ returns (l.1032-1052) *)
| EndExc (p : proc) (c : exc_class) (* the block raised: __exit__(exc, ...) keeps the backup, releases the lock *)
| Kill (p : proc)                (* the process dies; its fcntl lock dies with it *)
| WaitFail (p : proc)            (* wait() raised (FailedExperiment: some job failed): the finally-clause releases
                                    the lock and __exit__ raises *)
| WaitOk (p : proc)              (* only in the repaired order (step_late): wait() returned, the backup is still there;
                                    in the code as it is wait() is the last thing __exit__ does: its success is `Done` *)
| MkJobDir (j : jobid)           (* environment: a job directory appears in workspace/jobs *)
| RmJobDir (j : jobid)           (* environment: a job directory is deleted (e.g. orphans --clean) *)
(* run kinds other than NORMAL.  RunMode.GENERATE_ONLY: __enter__ takes the lock (run_mode != DRY_RUN) but does
   not rotate the index (run_mode == NORMAL only); submit() only prepares the job folder (MkJobDir) and never
   reaches the scheduler, so no link is made; __exit__ does not touch jobs.bak (run_mode == NORMAL only) and
   releases the lock, whether the block raised or not.  RunMode.DRY_RUN takes no lock and touches nothing:
   it has no event.                                                                                          *)
| LockGen (p : proc)             (* __enter__ of a generate-only run *)
| EndGen (p : proc) (raised : bool). (* __exit__ of a generate-only run (block ended normally / raised) *)

Definition actor (e : event) : option proc :=
  match e with
  | Lock p | MkBak p | Move p _ | Ready p | Submit p _ | Link p _ | EndOk p
  | RmEntry p _ | RmBakDir p | Done p | EndExc p _ | Kill p | WaitFail p | WaitOk p | LockGen p | EndGen p _ => Some p
  | MkJobDir _ | RmJobDir _ => None
  end.

Definition mk (j : list link) (b : option (list link)) (l : option proc) (f : proc -> phase) (d : list jobid) : st :=
  {| jobs := j; bak := b; lock := l; ph := f; dirs := d |}.

(* aio_submit: `if path.is_symlink(): path.unlink()` then `path.symlink_to(job.path)` *)
Definition do_link (j : jobid) (l : list link) : list link := (j, dir_of j) :: unlink j l.

Definition release (p : proc) (l : option proc) : option proc :=
  match l with Some q => if Nat.eqb q p then None else l | None => None end.

Definition step (s : st) (e : event) : option st :=
  match e with
  | Lock p =>
      match lock s, ph s p with
      | None, Out => Some (mk (jobs s) (bak s) (Some p) (upd (ph s) p Locked) (dirs s))
      | _, _ => None
      end
  | MkBak p =>
      match ph s p with
      | Locked => Some (mk (jobs s) (Some (bakl s)) (lock s) (upd (ph s) p Moving) (dirs s))
      | _ => None
      end
  | Move p n =>
      match ph s p, bak s, find_link n (jobs s) with
      | Moving, Some b, Some l =>
          if has n b
          then (* target.is_symlink(): "remove if duplicate" -> p.unlink() *)
               Some (mk (unlink n (jobs s)) (Some b) (lock s) (ph s) (dirs s))
          else (* p.rename(target) *)
               Some (mk (unlink n (jobs s)) (Some (l :: b)) (lock s) (ph s) (dirs s))
      | _, _, _ => None
      end
  | Ready p =>
      match ph s p with
      | Moving => if isnil (jobs s)
                  then Some (mk (jobs s) (bak s) (lock s) (upd (ph s) p (Inside [] [])) (dirs s))
                  else None
      | _ => None
      end
  | Submit p j =>
      match ph s p with
      | Inside sub linked =>
          (* aio_registerJob: a job already submitted in this run is returned as is *)
          let sub' := if memz j sub then sub else j :: sub in
          Some (mk (jobs s) (bak s) (lock s) (upd (ph s) p (Inside sub' linked)) (dirs s))
      | _ => None
      end
  | Link p j =>
      match ph s p with
      | Inside sub linked =>
          if memz j sub
          then Some (mk (do_link j (jobs s)) (bak s) (lock s) (upd (ph s) p (Inside sub (j :: linked))) (dirs s))
          else None
      | ExitRm sub linked =>
          if memz j sub
          then Some (mk (do_link j (jobs s)) (bak s) (lock s) (upd (ph s) p (ExitRm sub (j :: linked))) (dirs s))
          else None
      | ExitWait sub linked =>
          if memz j sub
          then Some (mk (do_link j (jobs s)) (bak s) (lock s) (upd (ph s) p (ExitWait sub (j :: linked))) (dirs s))
          else None
      | _ => None
      end
  | EndOk p =>
      match ph s p with
      | Inside sub linked => Some (mk (jobs s) (bak s) (lock s) (upd (ph s) p (ExitRm sub linked)) (dirs s))
      | _ => None
      end
  | RmEntry p n =>
      match ph s p, bak s with
      | ExitRm _ _, Some b =>
          if has n b then Some (mk (jobs s) (Some (unlink n b)) (lock s) (ph s) (dirs s)) else None
      | _, _ => None
      end
  | RmBakDir p =>
      match ph s p with
      | ExitRm sub linked =>
          match bak s with
          | Some (_ :: _) => None
          | _ => (* empty directory removed, or `jobsbakpath.is_dir()` false: nothing to do *)
                 Some (mk (jobs s) None (lock s) (upd (ph s) p (ExitWait sub linked)) (dirs s))
          end
      | _ => None
      end
  | Done p =>
      match ph s p with
      | ExitWait sub linked =>
          (* wait(): every submitted job has been through its coroutine *)
          if forallb (fun j => memz j linked) sub
          then Some (mk (jobs s) (bak s) (release p (lock s)) (upd (ph s) p Out) (dirs s))
          else None
      | _ => None
      end
  | EndExc p _ =>
      (* whatever the class: `exc_type is None` is false, nothing is removed, wait() is skipped *)
      match ph s p with
      | Inside _ _ => Some (mk (jobs s) (bak s) (release p (lock s)) (upd (ph s) p Out) (dirs s))
      | _ => None
      end
  | Kill p =>
      if is_out (ph s p) then None
      else Some (mk (jobs s) (bak s) (release p (lock s)) (upd (ph s) p Out) (dirs s))
  | WaitFail p =>
      match ph s p with
      | ExitWait _ _ => Some (mk (jobs s) (bak s) (release p (lock s)) (upd (ph s) p Out) (dirs s))
      | _ => None
      end
  | WaitOk _ => None
  | MkJobDir j =>
      Some (mk (jobs s) (bak s) (lock s) (ph s) (if memz j (dirs s) then dirs s else j :: dirs s))
  | RmJobDir j =>
      Some (mk (jobs s) (bak s) (lock s) (ph s) (filter (fun d => negb (d =? j)) (dirs s)))
  | LockGen p =>
      match lock s, ph s p with
      | None, Out => Some (mk (jobs s) (bak s) (Some p) (upd (ph s) p GenIn) (dirs s))
      | _, _ => None
      end
  | EndGen p _ =>
      match ph s p with
      | GenIn => Some (mk (jobs s) (bak s) (release p (lock s)) (upd (ph s) p Out) (dirs s))
      | _ => None
      end
  end.

Definition ostep (os : option st) (e : event) : option st :=
  match os with Some s => step s e | None => None end.
Definition run (s : st) (tr : list event) : option st := fold_left ostep tr (Some s).

(* ---- the orphans command (default options) -------------------------------
   xpjobs = names of the links of jobs/ and jobs.bak/ that resolve to a directory;
   an orphan is a job directory whose relative path is not in xpjobs.             *)
Definition live_name (s : st) (d : jobid) : bool :=
  existsb (fun l => (fst l =? d) && memz (snd l) (dirs s)) (jobs s ++ bakl s).
Definition orphans (s : st) : list jobid := filter (fun d => negb (live_name s d)) (dirs s).
Definition not_orphans_count (s : st) : Z := Z.of_nat (length (filter (live_name s) (dirs s))).

(* ---- what a history says, read off the trace alone ------------------------ *)
(* jobs submitted by p since it last took the lock *)
Definition subs_step (p : proc) (acc : list jobid) (e : event) : list jobid :=
  match e with
  | Lock q => if Nat.eqb q p then [] else acc
  | Submit q j => if Nat.eqb q p then j :: acc else acc
  | _ => acc
  end.
Definition subs_of (p : proc) (tr : list event) : list jobid := fold_left (subs_step p) tr [].

(* (links made by the current run, links to keep) where "to keep" = the links made by the
   last run whose block ended without exception, and every link made since               *)
Definition keep_step (acc : list jobid * list jobid) (e : event) : list jobid * list jobid :=
  match e with
  | Lock _ => ([], snd acc)
  | Link _ j => (j :: fst acc, j :: snd acc)
  | EndOk _ => (fst acc, fst acc)
  | _ => acc
  end.
Definition ghost (tr : list event) : list jobid * list jobid := fold_left keep_step tr ([], []).
Definition kept (tr : list event) : list jobid := snd (ghost tr).

(* ---- "completed" read as "wait() returned": the audit's reading of the property ---------------
   `kept` above counts a plan as completed from the moment the block ends without exception (EndOk),
   which is when the code drops the backup.  The property speaks of the last *completed* plan and of
   runs that are killed: a run killed while its __exit__ is still waiting for its jobs (or whose wait()
   raises because a job failed) has not completed.  kept_w: the links made by the last run whose wait()
   returned (`Done` in the code as it is, `WaitOk` in the repaired order), and every link made since.  *)
Definition keepw_step (acc : list jobid * list jobid) (e : event) : list jobid * list jobid :=
  match e with
  | Lock _ => ([], snd acc)
  | Link _ j => (j :: fst acc, j :: snd acc)
  | WaitOk _ | Done _ => (fst acc, fst acc)
  | _ => acc
  end.
Definition ghostw (tr : list event) : list jobid * list jobid := fold_left keepw_step tr ([], []).
Definition kept_w (tr : list event) : list jobid := snd (ghostw tr).

(* ---- the repaired __exit__ (fixes/C16-1.diff): wait() first, rmtree(jobs.bak) only after it returned.
   Everything else is the code as it is.  Order of a normal exit:
     EndOk, (Link)*, WaitOk, RmEntry*, RmBakDir, Done        (code as it is: EndOk, RmEntry*, RmBakDir, (Link)*, Done) *)
Definition step_late (s : st) (e : event) : option st :=
  match e with
  | EndOk p =>
      match ph s p with
      | Inside sub linked => Some (mk (jobs s) (bak s) (lock s) (upd (ph s) p (ExitWait sub linked)) (dirs s))
      | _ => None
      end
  | WaitOk p =>
      match ph s p with
      | ExitWait sub linked =>
          if forallb (fun j => memz j linked) sub
          then Some (mk (jobs s) (bak s) (lock s) (upd (ph s) p (ExitRm sub linked)) (dirs s))
          else None
      | _ => None
      end
  | RmBakDir p =>
      match ph s p with
      | ExitRm sub linked =>
          match bak s with
          | Some (_ :: _) => None
          | _ => Some (mk (jobs s) None (lock s) (upd (ph s) p (ExitFin sub linked)) (dirs s))
          end
      | _ => None
      end
  | Done p =>
      match ph s p with
      | ExitFin _ _ => Some (mk (jobs s) (bak s) (release p (lock s)) (upd (ph s) p Out) (dirs s))
      | _ => None
      end
  | _ => step s e
  end.
Definition ostep_late (os : option st) (e : event) : option st :=
  match os with Some s => step_late s e | None => None end.
Definition run_late (s : st) (tr : list event) : option st := fold_left ostep_late tr (Some s).

(* ---- variants of __enter__ / __exit__ used to show that the theorems depend on what the code
   does (they are *not* the code): a backup that is replaced instead of merged, and an exit
   that drops the backup whatever happened                                                     *)
Definition step_replace (s : st) (e : event) : option st :=
  match e with
  | MkBak p =>
      match ph s p with
      | Locked => Some (mk (jobs s) (Some []) (lock s) (upd (ph s) p Moving) (dirs s))
      | _ => None
      end
  | _ => step s e
  end.
Definition run_replace (s : st) (tr : list event) : option st :=
  fold_left (fun os e => match os with Some s => step_replace s e | None => None end) tr (Some s).

(* an __exit__ whose guard is "the block did not raise an *Exception*" (isinstance(exc_value, Exception))
   instead of "the block did not raise" (exc_type is None): leaving through sys.exit / KeyboardInterrupt
   then counts as a normal end for the backup (rmtree(jobs.bak)) although wait() is still skipped *)
Definition step_exconly (s : st) (e : event) : option st :=
  match e with
  | EndExc p ExcExit =>
      match ph s p with
      | Inside _ _ => Some (mk (jobs s) None (release p (lock s)) (upd (ph s) p Out) (dirs s))
      | _ => None
      end
  | _ => step s e
  end.
Definition run_exconly (s : st) (tr : list event) : option st :=
  fold_left (fun os e => match os with Some s => step_exconly s e | None => None end) tr (Some s).

(* an __exit__ that removes jobs.bak whenever the experiment lock is held (instead of: in NORMAL run mode): a
   generate-only run that ends normally deletes the backup left by an aborted normal run although it has not
   rebuilt any index *)
Definition step_genrm (s : st) (e : event) : option st :=
  match e with
  | EndGen p false =>
      match ph s p with
      | GenIn => Some (mk (jobs s) None (release p (lock s)) (upd (ph s) p Out) (dirs s))
      | _ => None
      end
  | _ => step_late s e
  end.
Definition run_genrm (s : st) (tr : list event) : option st :=
  fold_left (fun os e => match os with Some s => step_genrm s e | None => None end) tr (Some s).

(* ---- what `lock : option proc` abstracts: the lock *file* -------------------------------------
   fasteners.InterProcessLock.acquire opens the path once (`_do_open`, creating the file when it
   does not exist), then retries a non-blocking fcntl lock on *that handle* until it succeeds.  An
   fcntl lock belongs to the file (inode), not to its name.  The code never removes
   xp/<name>/lock, so all handles denote one inode and "holder of the path" is well defined; this
   sub-model makes the assumption explicit: with a variant of __exit__ that also unlinks the lock
   file after releasing it (not the code), a waiter acquires the nameless old file and a later
   contender creates, and locks, a fresh one.                                                     *)
Definition inode := nat.
Record lf := {
  lf_path : option inode;            (* the file currently named xp/<name>/lock *)
  lf_next : inode;                   (* next fresh inode *)
  lf_handle : proc -> option inode;  (* file the process has open (waiting for it or holding it) *)
  lf_holder : inode -> option proc   (* fcntl lock of each file *)
}.
Definition lf_init : lf :=
  {| lf_path := None; lf_next := 0%nat; lf_handle := fun _ => None; lf_holder := fun _ => None |}.

Definition updh {A} (f : nat -> option A) (k : nat) (v : option A) : nat -> option A :=
  fun q => if Nat.eqb q k then v else f q.

Inductive lf_event :=
| LOpen (p : proc)             (* _do_open: open(path, "a+") *)
| LAcquire (p : proc)          (* a successful _try_acquire on the open handle *)
| LRelease (p : proc)          (* InterProcessLock.__exit__: unlock, close *)
| LReleaseUnlink (p : proc)    (* variant only: unlock, close, unlink(path) *)
| LDie (p : proc).             (* process death closes the handle, which drops its lock *)

Definition lf_step_gen (allow_unlink : bool) (s : lf) (e : lf_event) : option lf :=
  match e with
  | LOpen p =>
      match lf_handle s p with
      | Some _ => None
      | None =>
          match lf_path s with
          | Some i => Some {| lf_path := lf_path s; lf_next := lf_next s;
                              lf_handle := updh (lf_handle s) p (Some i); lf_holder := lf_holder s |}
          | None => Some {| lf_path := Some (lf_next s); lf_next := S (lf_next s);
                            lf_handle := updh (lf_handle s) p (Some (lf_next s)); lf_holder := lf_holder s |}
          end
      end
  | LAcquire p =>
      match lf_handle s p with
      | Some i => match lf_holder s i with
                  | None => Some {| lf_path := lf_path s; lf_next := lf_next s; lf_handle := lf_handle s;
                                    lf_holder := updh (lf_holder s) i (Some p) |}
                  | Some _ => None
                  end
      | None => None
      end
  | LRelease p | LReleaseUnlink p =>
      match e, allow_unlink with
      | LReleaseUnlink _, false => None
      | _, _ =>
        match lf_handle s p with
        | Some i => match lf_holder s i with
                    | Some q => if Nat.eqb q p
                                then Some {| lf_path := match e with LReleaseUnlink _ => None | _ => lf_path s end;
                                             lf_next := lf_next s;
                                             lf_handle := updh (lf_handle s) p None;
                                             lf_holder := updh (lf_holder s) i None |}
                                else None
                    | None => None
                    end
        | None => None
        end
      end
  | LDie p =>
      match lf_handle s p with
      | Some i => Some {| lf_path := lf_path s; lf_next := lf_next s;
                          lf_handle := updh (lf_handle s) p None;
                          lf_holder := match lf_holder s i with
                                       | Some q => if Nat.eqb q p then updh (lf_holder s) i None else lf_holder s
                                       | None => lf_holder s
                                       end |}
      | None => None
      end
  end.

Definition lf_step := lf_step_gen false.          (* the code: the lock file is never removed *)
Definition lf_step_unlink := lf_step_gen true.    (* the variant *)
Definition lf_run_gen (b : bool) (s : lf) (tr : list lf_event) : option lf :=
  fold_left (fun os e => match os with Some s => lf_step_gen b s e | None => None end) tr (Some s).
Definition lf_run := lf_run_gen false.
Definition lf_run_unlink := lf_run_gen true.
