(* The identifier cache as a state machine over request histories:
   ConfigInformation.identifiers (core/objects.py l.804-845),
   HashComputer.compute's cache test (l.326-341), seal() (l.740-768).
   Definitions only.                                                        *)
From Coq Require Import ZArith NArith List Bool.
From XV Require Import core.Value model.Hash.
Import ListNotations.

Record centry := { k_sealed : bool; k_raw : option (bytes * bool); k_full : option bytes }.
Definition cstate := list centry.

Definition centry0 (sealed : bool) : centry := {| k_sealed := sealed; k_raw := None; k_full := None |}.

Definition cget (s : cstate) (n : nat) : centry := nth n s (centry0 false).

Fixpoint cupd (s : cstate) (n : nat) (f : centry -> centry) : cstate :=
  match s, n with
  | [], _ => []
  | e :: s', O => f e :: s'
  | e :: s', S n' => e :: cupd s' n' f
  end.

(* what HashComputer.compute sees: sealed, cached, not flagged has_loops *)
Definition look_of (s : cstate) (m : nat) : option bytes :=
  let e := cget s m in
  if k_sealed e then match k_raw e with Some (d, false) => Some d | _ => None end else None.

Inductive op := OpRaw (n : nat) | OpFull (n : nat) | OpSeal (n : nat).

(* Sealer: ConfigWalk(recurse_task=True), cut at nodes already sealed *)
Fixpoint seal_walk (h : heap) (fuel : nat) (todo : list nat) (s : cstate) : cstate :=
  match fuel with
  | O => s
  | S f =>
      match todo with
      | [] => s
      | n :: todo' =>
          if k_sealed (cget s n) then seal_walk h f todo' s
          else match nth_error h n with
               | Some x => seal_walk h f (succs x ++ todo')
                             (cupd s n (fun e => {| k_sealed := true; k_raw := k_raw e; k_full := k_full e |}))
               | None => seal_walk h f todo' s
               end
      end
  end.

Section Machine.
  Variable H : bytes -> bytes.
  Variable cs : classes.
  Variable h : heap.
  Variable fuel : nat.
  (* fixflag = true: the has_loop flag reaches the cache test (repaired code);
     false: the pinned commit, which stores the flag under another attribute
     name so that the cache test never sees it                                *)
  Variable fixflag : bool.

  (* identifiers(only_raw=True) *)
  Definition req_raw (s : cstate) (n : nat) : res (cstate * bytes) :=
    let e := cget s n in
    match (if k_sealed e then k_raw e else None) with
    | Some (d, _) => Ok (s, d)
    | None =>
        do r <- hnode H cs h (look_of s) fuel [] n;
        let d := fst r in
        let flag := fixflag && Nat.leb 1 (snd r) in
        Ok (if k_sealed e
            then cupd s n (fun e => {| k_sealed := k_sealed e; k_raw := Some (d, flag); k_full := k_full e |})
            else s, d)
    end.

  Fixpoint req_raws (s : cstate) (l : list nat) : res (cstate * list bytes) :=
    match l with
    | [] => Ok (s, [])
    | n :: l' => do a <- req_raw s n; do b <- req_raws (fst a) l'; Ok (fst b, snd a :: snd b)
    end.

  (* identifiers(only_raw=False) *)
  Definition req_full (s : cstate) (n : nat) : res (cstate * bytes) :=
    do x <- getnode h n;
    do a <- req_raw s n;
    let s1 := fst a in
    let e := cget s1 n in
    match (if k_sealed e then k_full e else None) with
    | Some d => Ok (s1, d)
    | None =>
        do p <- req_raws s1 (pre_tasks_of h n);
        do i <- req_raws (fst p) (n_init x);
        let d := full_of H (snd a) (snd p) (snd i) in
        let s3 := fst i in
        Ok (if k_sealed (cget s3 n)
            then cupd s3 n (fun e => {| k_sealed := k_sealed e; k_raw := k_raw e; k_full := Some d |})
            else s3, d)
    end.

  Inductive answer := ADigest (d : bytes) | ASealed | AErr (e : err).

  Definition step (s : cstate) (o : op) : cstate * answer :=
    match o with
    | OpRaw n => match req_raw s n with Ok (s', d) => (s', ADigest d) | Err e => (s, AErr e) end
    | OpFull n => match req_full s n with Ok (s', d) => (s', ADigest d) | Err e => (s, AErr e) end
    | OpSeal n => (seal_walk h (walk_fuel h) [n] s, ASealed)
    end.

  Fixpoint run (s : cstate) (ops : list op) : list answer :=
    match ops with
    | [] => []
    | o :: ops' => let r := step s o in snd r :: run (fst r) ops'
    end.
End Machine.
