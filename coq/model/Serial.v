(* Saving and loading configuration graphs (C12): __get_objects__ / _outputjsonvalue
   (core/objects.py l.1076-1191) and load_objects in configuration mode (l.1370-1507).
   Definitions only.

   Object identity is abstract: a definition carries the heap position of the node
   it describes as its "id", and loading writes the rebuilt node at that position
   (load_into), so that the reloaded graph lives on the same index space.            *)
From Coq Require Import ZArith NArith List Bool.
From XV Require Import core.Value model.Hash model.Edits.
Import ListNotations.

Record def := {
  d_id : nat; d_cls : nat; d_fields : list (bytes * value);
  d_pre : list nat; d_init : list nat; d_meta : option bool; d_task : option nat }.

Section Serial.
  Variable cs : classes.
  (* fixmeta / fixinit = false: the pinned commit (meta written only when truthy and read only
     when truthy; init tasks written but not restored in configuration mode)              *)
  Variable fixmeta : bool.
  Variable fixinit : bool.

  (* xpmvalues(): class argument order, names present in .values *)
  Definition xpmvalues (c : class) (x : node) : list (bytes * value) :=
    flat_map (fun a => match assoc (a_name a) (n_fields x) with Some v => [(a_name a, v)] | None => [] end) (c_args c).

  Definition def_of (h : heap) (n : nat) : option def :=
    match nth_error h n with
    | Some x =>
        match nth_error cs (n_cls x) with
        | Some c =>
            Some {| d_id := n; d_cls := n_cls x; d_fields := xpmvalues c x;
                    d_pre := n_pre x; d_init := n_init x;
                    d_meta := (match n_meta x with
                               | Some true => Some true
                               | Some false => if fixmeta then Some false else None
                               | None => None
                               end);
                    d_task := n_task x |}
        | None => None
        end
    | None => None
    end.

  Inductive item := IVal (v : value) | INode (n : nat).

  (* __get_objects__ / __collect_objects__ : depth first, a definition is emitted after
     everything it references (except along cycles); `ser` = context.serialized          *)
  Fixpoint collect (h : heap) (fuel : nat) (i : item) (st : list def * list nat) : list def * list nat :=
    match fuel with
    | O => st
    | S f =>
        match i with
        | IVal (VRef m) => collect h f (INode m) st
        | IVal (VList l) => fold_left (fun st x => collect h f (IVal x) st) l st
        | IVal (VDict l) => fold_left (fun st kv => collect h f (IVal (snd kv)) st) l st
        | IVal _ => st
        | INode n =>
            if mem n (snd st) then st
            else match nth_error h n, def_of h n with
                 | Some x, Some d =>
                     let st0 := (fst st, n :: snd st) in
                     let st1 := fold_left (fun st kv => collect h f (IVal (snd kv)) st) (d_fields d) st0 in
                     let st2 := match n_task x with Some t => collect h f (INode t) st1 | None => st1 end in
                     let st3 := fold_left (fun st p => collect h f (INode p) st) (n_pre x) st2 in
                     let st4 := fold_left (fun st p => collect h f (INode p) st) (n_init x) st3 in
                     (fst st4 ++ [d], snd st4)
                 | _, _ => st
                 end
        end
    end.

  Definition save (h : heap) (fuel : nat) (r : nat) : list def := fst (collect h fuel (INode r) ([], [])).

  (* load_objects(as_instance=False): o.__init__() installs the defaults, then the saved
     fields are set; meta, pre-tasks, task (and init tasks when repaired) are restored    *)
  Definition init_fields (c : class) : list (bytes * value) :=
    flat_map (fun a => match a_default a with
                       | Some d => [(a_name a, d)]
                       | None => if a_required a then [] else [(a_name a, VNone)]
                       end) (c_args c).

  Definition load_node (d : def) : option node :=
    match nth_error cs (d_cls d) with
    | Some c =>
        Some {| n_cls := d_cls d;
                n_fields := fold_left (fun fs kv => set_field (fst kv) (snd kv) fs) (d_fields d) (init_fields c);
                n_meta := (match d_meta d with
                           | Some true => Some true
                           | Some false => if fixmeta then Some false else None
                           | None => None
                           end);
                n_task := d_task d;
                n_pre := d_pre d;
                n_init := if fixinit then d_init d else [] |}
    | None => None
    end.

  (* every reference of a definition must designate a definition (objects[...] raises otherwise) *)
  Definition def_refs (d : def) : list nat :=
    flat_map (fun kv => refs_of (snd kv)) (d_fields d) ++ d_pre d ++ d_init d
    ++ (match d_task d with Some t => [t] | None => [] end).

  Definition resolves (ds : list def) : bool :=
    forallb (fun d => forallb (fun m => existsb (fun d' => Nat.eqb (d_id d') m) ds) (def_refs d)) ds.

  Fixpoint load_into (h : heap) (ds : list def) : option heap :=
    match ds with
    | [] => Some h
    | d :: ds' => match load_node d with
                  | Some x => load_into (upd_nth h (d_id d) x) ds'
                  | None => None
                  end
    end.

  Definition reload (h : heap) (fuel : nat) (r : nat) : option heap :=
    let ds := save h fuel r in if resolves ds then load_into h ds else None.
End Serial.

(* The job process (fromParameters, as_instance=True, l.1627-1652): which lightweight tasks are executed, and in
   which order.  Pre-tasks of EVERY definition, in definition order, each once; then the init tasks of the LAST
   definition (the task that runs) that were not already executed as pre-tasks, each once.                       *)
Fixpoint add_new (seen out xs : list nat) : list nat * list nat :=
  match xs with
  | [] => (seen, out)
  | x :: xs' => if existsb (Nat.eqb x) seen then add_new seen out xs'
                else add_new (x :: seen) (out ++ [x]) xs'
  end.

Definition exec_pre (ds : list def) : list nat * list nat :=
  fold_left (fun st d => add_new (fst st) (snd st) (d_pre d)) ds ([], []).

Definition exec_init (ds : list def) : list nat :=
  match rev ds with
  | [] => []
  | d :: _ => snd (add_new (fst (exec_pre ds)) [] (d_init d))
  end.

Definition exec_plan (ds : list def) : list nat := snd (exec_pre ds) ++ exec_init ds.
