(* The DEEP signature of a configuration (C03): the token-level signature of model/Ser.v with every
   nested configuration unfolded recursively instead of being replaced by its identifier.  Two
   configurations have the same deep signature iff they have the same type identifier, parameter names,
   declared types and values at every depth (cycle references at the same relative positions).
   Definitions only.                                                                               *)
From Coq Require Import ZArith NArith List Bool.
From XV Require Import core.Value model.Hash model.Ser.
Import ListNotations.

Inductive dval :=
| DNone | DInt (z : Z) | DFloat (b : N) | DStr (s : bytes) | DEnum (q : bytes)
| DNode (task : option dval) (tid : bytes) (args : list (bytes * sty * dval))
| DCyc (k : Z)
| DList (l : list dval) | DDict (l : list (bytes * dval)).

Section Deep.
  Variable H : bytes -> bytes.

  (* back to the token level: a nested configuration is replaced by its identifier *)
  Fixpoint flatten (v : dval) : sval :=
    match v with
    | DNone => SNone | DInt z => SInt z | DFloat b => SFloat b | DStr s => SStr s | DEnum q => SEnum q
    | DCyc k => SCyc k
    | DList l => SList (map flatten l)
    | DDict l => SDict (map (fun kv => (fst kv, flatten (snd kv))) l)
    | DNode tk tid args =>
        SObj (H (enc_sig {| ss_task := match tk with Some t => Some (flatten t) | None => None end;
                            ss_tid := tid;
                            ss_args := map (fun a => (fst a, flatten (snd a))) args |}))
    end.

  Definition flat_sig (tk : option dval) (tid : bytes) (args : list (bytes * sty * dval)) : ssig :=
    {| ss_task := match tk with Some t => Some (flatten t) | None => None end;
       ss_tid := tid;
       ss_args := map (fun a => (fst a, flatten (snd a))) args |}.

  Variable cs : classes.
  Variable h : heap.
  (* declared type of parameter `name` of the class with type identifier `tid` *)
  Variable cty : bytes -> bytes -> sty.

  Definition dres := res (dval * nat).

  Definition seq_d {A} (f : A -> dres) : list A -> res (list dval * nat) :=
    fix go (l : list A) :=
      match l with
      | [] => Ok ([], O)
      | x :: l' => do a <- f x; do b <- go l'; Ok (fst a :: fst b, Nat.max (snd a) (snd b))
      end.

  Definition seq_dd (f : value -> dres) : list (bytes * value) -> res (list (bytes * dval) * nat) :=
    fix go (l : list (bytes * value)) :=
      match l with
      | [] => Ok ([], O)
      | kv :: l' => do a <- f (snd kv); do b <- go l'; Ok ((fst kv, fst a) :: fst b, Nat.max (snd a) (snd b))
      end.

  Fixpoint dargs (rec : value -> dres) (ty : bytes -> sty) (l : list (bytes * argsel))
    : res (list (bytes * sty * dval) * nat) :=
    match l with
    | [] => Ok ([], O)
    | (k, AVal v) :: l' => do a <- rec v; do b <- dargs rec ty l'; Ok ((k, ty k, fst a) :: fst b, Nat.max (snd a) (snd b))
    | _ :: _ => Err EMissing
    end.

  Definition dnode_with (rec : list nat -> value -> dres) (st : list nat) (n : nat) : dres :=
    do sg <- nsig cs h n;
    let st' := n :: st in
    do t <- (match sg_task sg with
             | Some t => do r <- rec st' (VRef t);
                         Ok (match index_of t st' with Some _ => None | None => Some (fst r) end, snd r)
             | None => Ok (None, O)
             end);
    do a <- dargs (rec st') (cty (sg_tid sg)) (sg_args sg);
    Ok (DNode (fst t) (sg_tid sg) (fst a), Nat.max (snd t) (snd a)).

  (* mirrors hv / tokv without cache; a reference that is not a cycle reference is unfolded *)
  Fixpoint dtokv (fuel : nat) (st : list nat) (v : value) : dres :=
    match fuel with
    | O => Err EFuel
    | S f =>
        match v with
        | VNone => Ok (DNone, O)
        | VFloat b => Ok (DFloat b, O)
        | VInt z => do _ <- pack_q z; Ok (DInt z, O)
        | VBool b => do _ <- pack_q (zb b); Ok (DInt (zb b), O)
        | VStr s => Ok (DStr s, O)
        | VPath _ => Err EUnhashable
        | VEnum q => Ok (DEnum q, O)
        | VList l =>
            do r <- seq_d (dtokv f st) (filter (fun x => negb (is_meta h x)) l); Ok (DList (fst r), snd r)
        | VDict l =>
            do r <- seq_dd (dtokv f st) (sort_by fst (filter (fun kv => negb (is_meta h (snd kv))) l));
            Ok (DDict (fst r), snd r)
        | VRef m =>
            match index_of m st with
            | Some pos => do _ <- pack_q (Z.of_nat (S pos)); Ok (DCyc (Z.of_nat (S pos)), S pos)
            | None => do r <- dnode_with (dtokv f) st m; Ok (fst r, Nat.pred (snd r))
            end
        end
    end.

  Definition dnode (fuel : nat) (st : list nat) (n : nat) : dres := dnode_with (dtokv fuel) st n.
End Deep.

Fixpoint sty_eqb (a b : sty) : bool :=
  match a, b with
  | TInt, TInt | TFloat, TFloat | TStr, TStr | TEnum, TEnum | TObj, TObj => true
  | TOpt x, TOpt y | TList x, TList y | TDict x, TDict y => sty_eqb x y
  | _, _ => false
  end.

(* every level of the deep signature is in the typed domain of model/Ser.v, with the declared types
   given by (type identifier, parameter name)                                                      *)
Section WfDeep.
  Variable H : bytes -> bytes.
  Variable cty : bytes -> bytes -> sty.

  Fixpoint wfd (v : dval) : Prop :=
    match v with
    | DList l => (fix go (l : list dval) : Prop := match l with [] => True | x :: l' => wfd x /\ go l' end) l
    | DDict l => (fix go (l : list (bytes * dval)) : Prop := match l with [] => True | kv :: l' => wfd (snd kv) /\ go l' end) l
    | DNode tk tid args =>
        wf_sig (flat_sig H tk tid args) /\
        (match tk with Some t => wfd t | None => True end) /\
        (fix go (l : list (bytes * sty * dval)) : Prop :=
           match l with [] => True | a :: l' => (snd (fst a) = cty tid (fst (fst a)) /\ wfd (snd a)) /\ go l' end) args
    | _ => True
    end.

  Fixpoint wfdb (strict : bool) (v : dval) : bool :=
    match v with
    | DList l => forallb (wfdb strict) l
    | DDict l => forallb (fun kv => wfdb strict (snd kv)) l
    | DNode tk tid args =>
        wf_sigb strict (flat_sig H tk tid args) &&
        (match tk with Some t => wfdb strict t | None => true end) &&
        forallb (fun a => sty_eqb (snd (fst a)) (cty tid (fst (fst a))) && wfdb strict (snd a)) args
    | _ => true
    end.
End WfDeep.
