(* C17 - generated paths.  Model of
     generators.py  PathGenerator.__call__            (l.23-40)
     core/objects.py ConfigWalkContext.currentpath/push (l.397-426)
     core/objects.py ConfigInformation.seal / Sealer  (l.740-768)
   on top of the generic walk (model/Walk.v).  Definitions only.

   Paths are modelled as pathlib.PurePosixPath values: a root (0 = relative, 1 = "/",
   2 = "//") and the list of parts after the root.                                  *)
From Coq Require Import List NArith ZArith Bool Arith Permutation.
From XV Require Import model.Walk.
Import ListNotations.
Open Scope N_scope.

Record ppath := { p_root : nat; p_parts : list str }.

(* ---- pathlib parsing (posix flavour, Python 3.12 _parse_path) ------------------ *)
Definition is_nil {A} (l : list A) : bool := match l with [] => true | _ => false end.

(* s.split("/") *)
Fixpoint split (s : str) : list str :=
  match s with
  | [] => [[]]
  | c :: s' =>
      if c =? 47 then [] :: split s'
      else match split s' with [] => [[c]] | w :: ws => (c :: w) :: ws end
  end.

(* [x for x in rel.split("/") if x and x != "."] *)
Definition keep (w : str) : bool := negb (is_nil w) && negb (str_eqb w [46]).
Definition comps (s : str) : list str := filter keep (split s).

(* posixpath.splitroot: "//x" keeps two slashes, "/x" and "///x" one *)
Definition root_of (s : str) : nat :=
  match s with
  | c1 :: r1 =>
      if c1 =? 47 then
        match r1 with
        | c2 :: r2 =>
            if c2 =? 47 then
              match r2 with c3 :: _ => if c3 =? 47 then 1%nat else 2%nat | [] => 2%nat end
            else 1%nat
        | [] => 1%nat
        end
      else 0%nat
  | [] => 0%nat
  end.

Definition parse (s : str) : ppath := {| p_root := root_of s; p_parts := comps s |}.

(* a / b : an anchored right operand replaces the left one *)
Definition pjoin (a b : ppath) : ppath :=
  match p_root b with
  | O => {| p_root := p_root a; p_parts := p_parts a ++ p_parts b |}
  | _ => b
  end.

Definition k_out : str := [111; 117; 116].        (* "out" *)

(* ---- how push turns a key into a path segment ---------------------------------- *)
(* the code at the pinned commit: the key is used as is *)
Definition esc_prefix (k : str) : str := k.

(* the repaired push (fixes/C17-1.diff): "%" -> "%25", "/" -> "%2F", and the keys that
   would otherwise be "", "." or ".." become "%", "%2E", "%2E%2E"                    *)
Fixpoint esc_chars (s : str) : str :=
  match s with
  | [] => []
  | c :: s' =>
      (if c =? 37 then [37; 50; 53] else if c =? 47 then [37; 50; 70] else [c]) ++ esc_chars s'
  end.
Definition esc_fix (k : str) : str :=
  match esc_chars k with
  | [] => [37]
  | [46] => [37; 50; 69]
  | [46; 46] => [37; 50; 69; 37; 50; 69]
  | e => e
  end.

(* a plain name: one path component that pathlib keeps as it is, and not ".." *)
Definition plain (s : str) : bool :=
  negb (is_nil s) && negb (existsb (N.eqb 47) s) && negb (str_eqb s [46]) && negb (str_eqb s [46; 46]).

(* ---- well-formed names: what every graph built through the public API satisfies ------ *)
Fixpoint nodup_keys (l : list str) : bool :=
  match l with [] => true | k :: l' => negb (existsb (str_eqb k) l') && nodup_keys l' end.

(* the keys of every dict inside the value are pairwise distinct (a Python dict) *)
Fixpoint dict_ok (v : value) : bool :=
  match v with
  | VList l => forallb dict_ok l
  | VDict l => nodup_keys (map fst l) && forallb (fun kv => dict_ok (snd kv)) l
  | _ => true
  end.

(* argument names are pairwise distinct and are not the reserved keys *)
Definition node_names_ok (nd : node) : Prop :=
  NoDup (map fst (fields nd)) /\ ~ In k_pre (map fst (fields nd)) /\ ~ In k_init (map fst (fields nd)) /\
  (forall kv, In kv (fields nd) -> dict_ok (snd kv) = true).
Definition names_wf (h : heap) : Prop := forall n nd, nth_error h n = Some nd -> node_names_ok nd.

Definition node_names_okb (nd : node) : bool :=
  nodup_keys (map fst (fields nd)) && negb (existsb (str_eqb k_pre) (map fst (fields nd)))
  && negb (existsb (str_eqb k_init) (map fst (fields nd)))
  && forallb (fun kv : str * value => dict_ok (snd kv)) (fields nd).
Definition names_wfb (h : heap) : bool := forallb node_names_okb h.

(* ---- the order in which the Sealer visits the entries of a dict -------------------- *)
(* Python str order on the keys (the identifier sorts the entries the same way) *)
Fixpoint str_leb (a b : str) : bool :=
  match a, b with
  | [], _ => true
  | _ :: _, [] => false
  | x :: a', y :: b' => if x <? y then true else if y <? x then false else str_leb a' b'
  end.

Fixpoint insert_key {A} (kv : str * A) (l : list (str * A)) : list (str * A) :=
  match l with
  | [] => [kv]
  | kv' :: l' => if str_leb (fst kv) (fst kv') then kv :: l else kv' :: insert_key kv l'
  end.
Definition sort_keys {A} (l : list (str * A)) : list (str * A) := fold_right insert_key [] l.

(* ---- positions of the elements of a list ---------------------------------------------- *)
(* The identifier drops the elements of a list (and the values of a dict) that are configurations
   flagged as meta-parameters (is_ignored, HashComputer.update / remove_meta): [m; a] with m flagged
   and [a] are one configuration, one job directory.  The walk numbers every element (l.545-548:
   list(i) = push(str(i))).  fixes/C17-4.diff: the Sealer numbers the elements that are not flagged
   0, 1, ... and the flagged ones "__meta__0", "__meta__1", ... apart.
   metaf n = configuration n is flagged (setmeta(config, True)) AND the tree renumbers; the code
   before the patch is metaf = fun _ => false: every element counts.                            *)
Definition k_meta : str := [95; 95; 109; 101; 116; 97; 95; 95].      (* "__meta__" *)
Definition meta_key (j : nat) : str := k_meta ++ dec j.
Definition flagged (metaf : nat -> bool) (v : value) : bool :=
  match v with VRef n => metaf n | _ => false end.

(* the key of each element of a list, i / j = next free number for unflagged / flagged elements *)
Fixpoint lkeys (metaf : nat -> bool) (i j : nat) (l : list value) : list str :=
  match l with
  | [] => []
  | x :: l' => if flagged metaf x then meta_key j :: lkeys metaf i (S j) l'
               else dec i :: lkeys metaf (S i) j l'
  end.

(* Walk.edges_value with the entries of every dict visited in sorted key order
   (fixes/C17-2.diff: Sealer.dictitems) and the elements of every list placed by lkeys
   (fixes/C17-4.diff: Sealer.listpositions)                                          *)
Fixpoint edges_value_m (metaf : nat -> bool) (rel : list str) (v : value) : list edge :=
  match v with
  | VRef n => [(rel, n)]
  | VList l =>
      (fix go (i j : nat) (l : list value) : list edge :=
         match l with
         | [] => []
         | x :: l' =>
             if flagged metaf x then edges_value_m metaf (rel ++ [meta_key j]) x ++ go i (S j) l'
             else edges_value_m metaf (rel ++ [dec i]) x ++ go (S i) j l'
         end) 0%nat 0%nat l
  | VDict l =>
      concat (map snd (sort_keys
        ((fix go (l : list (str * value)) : list (str * list edge) :=
            match l with [] => [] | (k, x) :: l' => (k, edges_value_m metaf (rel ++ [k]) x) :: go l' end) l)))
  | _ => []
  end.
(* every element counts: the code before fixes/C17-4.diff *)
Definition no_meta : nat -> bool := fun _ => false.
Definition edges_value_s : list str -> value -> list edge := edges_value_m no_meta.

(* the edges the Sealer follows (recurse_task = True) *)
Definition seal_edges_m (metaf : nat -> bool) (n : nat) (nd : node) : list edge :=
  flat_map (fun kv => edges_value_m metaf [fst kv] (snd kv)) (fields nd)
  ++ edges_tasks k_pre (pre nd) ++ edges_tasks k_init (init nd)
  ++ match task nd with Some t => if Nat.eqb t n then [] else [([], t)] | None => [] end.
Definition seal_edges : nat -> node -> list edge := seal_edges_m no_meta.
(* before fixes/C17-2.diff: insertion order of the dict *)
Definition seal_edges_insertion : nat -> node -> list edge := node_edges true.

(* ---- the order in which the walk visits the parameters of a configuration ------------ *)
(* ConfigInformation.values is a dict in ASSIGNMENT order: Config.__init__ puts the defaults of the
   arguments not given to the constructor first (declaration order), then the keyword arguments in
   the order they are written; a later assignment keeps the position of its key.  The identifier
   does not depend on that order (HashComputer sorts the arguments by name).  ConfigWalk.__call__
   iterates `info.xpmvalues()` (l.512 and l.707-711): the DECLARED arguments, in declaration order,
   that are present in .values.
   From here on a heap may hold `fields` in assignment order; `by_decl` is what the walk sees.  *)
Fixpoint assoc_str {A} (k : str) (l : list (str * A)) : option A :=
  match l with
  | [] => None
  | kv :: l' => if str_eqb k (fst kv) then Some (snd kv) else assoc_str k l'
  end.

(* for argument in xpmtype.arguments.values(): if argument.name in self.values: yield ... *)
Definition xpmvalues (decl : list str) (vals : list (str * value)) : list (str * value) :=
  flat_map (fun a => match assoc_str a vals with Some v => [(a, v)] | None => [] end) decl.

(* decls: for class c, the names of all its declared arguments, in declaration order *)
Definition by_decl (decls : list (list str)) (nd : node) : node :=
  {| cls := cls nd; fields := xpmvalues (nth (cls nd) decls []) (fields nd);
     pre := pre nd; init := init nd; task := task nd; sealed := sealed nd |}.

(* the edges the Sealer follows from a configuration whose .values are in assignment order *)
Definition seal_edges_decl (decls : list (list str)) (n : nat) (nd : node) : list edge :=
  seal_edges n (by_decl decls nd).
(* a walk iterating `info.values.items()` instead: assignment order *)
Definition seal_edges_assigned : nat -> node -> list edge := seal_edges.

(* the same configuration assigned in another order: same classes, same (name, value) pairs *)
Definition node_reassigned (nd nd' : node) : Prop :=
  cls nd = cls nd' /\ Permutation (fields nd) (fields nd') /\ NoDup (map fst (fields nd)) /\
  pre nd = pre nd' /\ init nd = init nd' /\ task nd = task nd' /\ sealed nd = sealed nd'.
Definition heap_reassigned (h h' : heap) : Prop := Forall2 node_reassigned h h'.

(* ---- the order in which the Sealer visits the pre-tasks of a configuration ----------- *)
(* The full identifier hashes the sorted raw identifiers of the pre-tasks (identifiers(), l.873-878):
   add_pretasks(a, b) and add_pretasks(b, a) are one configuration, one job directory.  The walk
   pushes "__pre_tasks__"/<index in the list> (l.520-522).  fixes/C17-3.diff: the Sealer visits the
   pre-tasks in the order of their raw identifiers (stable: equal identifiers keep the list order),
   so the index is the rank of the identifier.  idk t = the raw identifier of configuration t.   *)
Definition sort_pre (idk : nat -> str) (l : list nat) : list nat :=
  map snd (sort_keys (map (fun t => (idk t, t)) l)).

Definition by_pre (idk : nat -> str) (nd : node) : node :=
  {| cls := cls nd; fields := fields nd; pre := sort_pre idk (pre nd); init := init nd;
     task := task nd; sealed := sealed nd |}.

(* what the repaired Sealer sees of a configuration: parameters in declaration order, pre-tasks in
   identifier order                                                                            *)
Definition norm_node (decls : list (list str)) (idk : nat -> str) (nd : node) : node :=
  by_pre idk (by_decl decls nd).
Definition seal_edges_sorted (decls : list (list str)) (idk : nat -> str) (n : nat) (nd : node) : list edge :=
  seal_edges n (norm_node decls idk nd).

(* ... and list elements placed by lkeys (all three repairs) *)
Definition seal_edges_full (decls : list (list str)) (idk : nat -> str) (metaf : nat -> bool)
                           (n : nat) (nd : node) : list edge :=
  seal_edges_m metaf n (norm_node decls idk nd).

(* the same configuration with its pre-tasks added in another order *)
Definition node_repre (nd nd' : node) : Prop :=
  cls nd = cls nd' /\ fields nd = fields nd' /\ Permutation (pre nd) (pre nd') /\
  init nd = init nd' /\ task nd = task nd' /\ sealed nd = sealed nd'.
Definition heap_repre (h h' : heap) : Prop := Forall2 node_repre h h'.
(* the pre-tasks attached to one configuration have pairwise different identifiers (the same
   pre-task may be attached several times)                                                     *)
Definition pre_ids_distinct (idk : nat -> str) (h : heap) : Prop :=
  forall nd, In nd h -> forall a b, In a (pre nd) -> In b (pre nd) -> idk a = idk b -> a = b.

(* ---- the generated values -------------------------------------------------------- *)
Record entry := {
  g_node : nat;            (* configuration object *)
  g_arg : str;             (* name of the generated parameter *)
  g_file : str;            (* file name given to pathgenerator(...) *)
  g_path : ppath }.        (* value it receives *)

Section Gen.
  Variable esc : str -> str.
  Variable SE : nat -> node -> list edge.   (* seal_edges *)
  Variable h : heap.
  (* class table: for class c, the (argument name, file name) of its pathgenerator
     parameters, in declaration order *)
  Variable gens : list (list (str * str)).

  (* _configpath after pushing the keys pos (None when nothing was pushed) *)
  Definition configpath (pos : list str) : option ppath :=
    match pos with
    | [] => None
    | _ => Some (fold_left (fun p k => pjoin p (parse (esc k))) pos (parse k_out))
    end.

  Definition currentpath (jobdir : ppath) (pos : list str) : ppath :=
    match configpath pos with None => jobdir | Some p => pjoin jobdir p end.

  Definition gen_value (jobdir : ppath) (pos : list str) (file : str) : ppath :=
    pjoin (currentpath jobdir pos) (parse file).

  (* Sealer.preprocess: a sealed configuration is not entered *)
  Definition cut_sealed (n : nat) : bool :=
    match nth_error h n with Some nd => sealed nd | None => false end.

  Definition gens_of (n : nat) : list (str * str) :=
    match nth_error h n with Some nd => nth (cls nd) gens [] | None => [] end.

  Definition entries_of (jobdir : ppath) (ev : nat * list str) : list entry :=
    map (fun af => {| g_node := fst ev; g_arg := fst af; g_file := snd af;
                      g_path := gen_value jobdir (snd ev) (snd af) |}) (gens_of (fst ev)).

  (* every value set by the Sealer when `root` is sealed with a job context whose
     directory is jobdir, in the order they are set                               *)
  Definition generated (root : nat) (jobdir : ppath) : option (list entry) :=
    match walk h SE cut_sealed root with
    | None => None
    | Some evs => Some (flat_map (entries_of jobdir) evs)
    end.

  (* same with explicit fuel *)
  Definition generated_fuel (fuel : nat) (root : nat) (jobdir : ppath) : option (list entry) :=
    match visit h SE cut_sealed fuel [] root st0 with
    | None => None
    | Some st => Some (flat_map (entries_of jobdir) (events st))
    end.

  (* ---- decidable form of Walk_lemmas.unamb (hypothesis of `distinct`) ---------- *)
  Fixpoint is_prefix (a b : list str) : bool :=
    match a, b with
    | [], _ => true
    | x :: a', y :: b' => str_eqb x y && is_prefix a' b'
    | _, _ => false
    end.
  Fixpoint keys_eqb (a b : list str) : bool :=
    match a, b with
    | [], [] => true
    | x :: a', y :: b' => str_eqb x y && keys_eqb a' b'
    | _, _ => false
    end.
  Definition edge_eqb (e1 e2 : edge) : bool := keys_eqb (fst e1) (fst e2) && Nat.eqb (snd e1) (snd e2).
  Definition expandedb (n : nat) : bool :=
    match nth_error h n with Some _ => negb (cut_sealed n) | None => false end.
  Definition unamb_nodeb (n : nat) : bool :=
    let es := filter (fun e => expandedb (snd e)) (out_edges h SE n) in
    forallb (fun e1 => negb (is_nil (fst e1)) &&
                       forallb (fun e2 => implb (is_prefix (fst e1) (fst e2)) (edge_eqb e1 e2)) es) es.
  Definition unambb : bool := forallb unamb_nodeb (seq 0 (length h)).

  (* __xpm__.task is only set by the submit that sealed the task: the only edge without a key
     leads to a configuration the Sealer does not enter                                    *)
  Definition task_targets_cut : Prop :=
    forall n nd t, nth_error h n = Some nd -> task nd = Some t -> t <> n -> ~ expanded h cut_sealed t.
  Definition task_targets_cutb : bool :=
    forallb (fun n => match nth_error h n with
                      | Some nd => match task nd with
                                   | Some t => Nat.eqb t n || negb (expandedb t)
                                   | None => true end
                      | None => true end) (seq 0 (length h)).

  (* every key pushed below an expanded node gives a plain segment *)
  Definition keys_plainb : bool :=
    forallb (fun n => if expandedb n
                      then forallb (fun e : edge => forallb (fun k => plain (esc k)) (fst e)) (out_edges h SE n)
                      else true) (seq 0 (length h)).
  Definition files_plainb : bool :=
    forallb (fun c => forallb (fun af : str * str => plain (snd af)) c) gens.
End Gen.

(* ---- non-overlapping: no generated path is a folder on the way to another ---------------- *)
(* q lies strictly below p *)
Definition proper_prefix (p q : ppath) : Prop :=
  p_root p = p_root q /\ exists x rest, p_parts q = p_parts p ++ x :: rest.

Section Overlap.
  Variable esc : str -> str.
  Variable SE : nat -> node -> list edge.
  Variable h : heap.
  Variable gens : list (list (str * str)).

  (* a configuration placed at <pos> generates <pos>/<file>; its entered sub-configurations are placed
     at <pos>/<key>/...: no generated file name of a configuration is the segment of the first key
     leading to one of its entered sub-configurations                                               *)
  Definition no_file_key_clash : Prop :=
    forall n k r b af, expanded h (cut_sealed h) n -> In (k :: r, b) (out_edges h SE n) ->
      expanded h (cut_sealed h) b -> In af (gens_of h gens n) -> esc k <> snd af.
  (* the task generates <job>/<file>, everything below it lives in <job>/out/...               *)
  Definition root_files_not_out (root : nat) : Prop :=
    forall af, In af (gens_of h gens root) -> snd af <> k_out.

  Definition no_file_key_clashb : bool :=
    forallb (fun n =>
      if expandedb h n then
        forallb (fun e : edge =>
          match fst e with
          | k :: _ => if expandedb h (snd e)
                      then forallb (fun af : str * str => negb (str_eqb (esc k) (snd af))) (gens_of h gens n)
                      else true
          | [] => true
          end) (out_edges h SE n)
      else true) (seq 0 (length h)).
  Definition root_files_not_outb (root : nat) : bool :=
    forallb (fun af : str * str => negb (str_eqb (snd af) k_out)) (gens_of h gens root).
End Overlap.
