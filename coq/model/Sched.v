(* Sched - the in-process scheduler of experimaestro (scheduler/base.py, scheduler/dependencies.py,
   tokens.py ProcessCounterToken, locking.py) as a labelled transition system.

   The scheduler is cooperative: the code between two `await`s is atomic.  One transition =
   one callback of the asyncio loop run to its next suspension point, or one external
   completion (a helper thread of asyncThreadcheck finishing: job lock acquired / released,
   process exit, end-of-job handler), or one API call (submit, experiment.wait()).
   The ready callbacks are kept in a list; a transition may run the callback at *any* position
   (asyncio runs position 0; the theorems cover every order).

   Definitions only.  `fixes` selects, for each of the three defects of DESIGN section 7
   (#2 re-submission, #3 READY overwrite, #4 aborted start), the literal code of the unchanged
   tree (false) or the repaired code (true).  `step` is the repaired scheduler, `step_prefix`
   the literal pre-fix one.                                                                  *)
From Coq Require Import ZArith List Bool Arith.
Import ListNotations.
Open Scope Z_scope.

(* ------------------------------------------------------------------ workload (input) *)
Inductive dep := DJob (k : nat) | DTok (t : nat) (c : nat).
Record jobspec := {
  j_deps : list dep;       (* job.dependencies in the iteration order of the set *)
  j_code : Z;              (* exit code of the process, should it be launched *)
  j_marker : bool;         (* the .done marker exists at submission *)
  j_ident : nat;           (* identifier (duplicates allowed) *)
  j_adopt : option (option Z * bool)
                           (* a process started by an earlier scheduler is still running at submission
                              (aio_process() returns it): the exit code aio_code() will give (None when it
                              cannot be retrieved) and whether the .done marker exists once it has ended *)
}.
Record workload := { w_jobs : list jobspec; w_tokens : list nat }.

Definition nojob := {| j_deps := []; j_code := 1; j_marker := false; j_ident := 0; j_adopt := None |}.
Definition spec (W : workload) (j : nat) : jobspec := nth j (w_jobs W) nojob.
Definition deps W j := j_deps (spec W j).
Definition njobs W := length (w_jobs W).
Definition total W t := nth t (w_tokens W) 0%nat.

(* what a job asks of token t in total, and whether every token can ever provide what the job asks *)
Fixpoint sumreq (ds : list dep) (t : nat) : nat :=
  match ds with
  | [] => 0
  | DTok t' c :: r => ((if Nat.eqb t' t then c else 0) + sumreq r t)%nat
  | _ :: r => sumreq r t
  end.
Definition fits (W : workload) (j : nat) : bool :=
  forallb (fun d => match d with DTok t _ => (sumreq (deps W j) t <=? total W t)%nat | DJob _ => true end) (deps W j).

(* ------------------------------------------------------------------ state *)
Inductive jstate := UNSCHEDULED | WAITING | READY | RUNNING | DONE | ERROR.   (* SCHEDULED is never assigned here *)
Inductive dstatus := DWAIT | DOK | DFAIL.
Inductive await := ALockIn | ALockOutAbort | ALockOutRun | AProc | ADoneH | AAdopt.
Inductive pcT :=
  | PNot                         (* not submitted *)
  | PDup (k : nat)               (* submit() returned the job already registered; no coroutine *)
  | PSpawned                     (* registered; aio_submit scheduled, not started *)
  | PAwaitReady                  (* suspended in _readyEvent.wait() *)
  | PWokenReady                  (* ... and its wake-up is among the ready callbacks *)
  | PExt (a : await)             (* suspended on an asyncThreadcheck future; the operation is pending *)
  | PWoken (a : await)           (* the operation completed; the wake-up is among the ready callbacks *)
  | PReturned (r : jstate).      (* aio_submit returned r = value of job.wait() *)

Record jst := {
  st : jstate; uns : Z; ev : bool; pc : pcT; cur : list dstatus;
  held : list (nat * nat);       (* token locks in the Locks() of the running aio_start *)
  fdep : bool;                   (* failure_status = DEPENDENCY *)
  launches : nat                 (* ghost: number of aio_run calls *)
}.
Definition jst0 := {| st := UNSCHEDULED; uns := 0; ev := false; pc := PNot; cur := []; held := [];
                      fdep := false; launches := 0 |}.

Inductive cb :=
  | CSpawn (j : nat)             (* first step of aio_submit(j) *)
  | CStep (j : nat)              (* wake-up of the coroutine of j *)
  | CCheck (j i : nat)           (* loop.call_soon(dependency.check) by a finished origin job *)
  | CNotify (j i : nat)          (* Token.aio_notify: check if available > 0 *)
  | CWaitStart | CWakeExit.      (* awaitcompletion(): first step / woken by exitCondition.notify_all *)

Inductive waitst := WNone | WStarting | WBlocked | WWoken | WReturned | WRaised.

Record state := {
  jobs : nat -> jst;
  avail : nat -> nat;
  unfinished : Z;
  failed : list nat;             (* every job that left its loop in a state other than DONE, in order (what
                                    failedJobs was before ccf82b1) *)
  fdict : list nat;              (* experiment.failedJobs: the same, minus the entries dropped when their identifier
                                    is submitted again (fx7, ccf82b1) *)
  reg : nat -> option nat;       (* scheduler.jobs: identifier -> job *)
  queue : list cb;
  wst : waitst
}.

Definition init (W : workload) : state :=
  {| jobs := fun _ => jst0; avail := total W; unfinished := 0; failed := []; fdict := []; reg := fun _ => None;
     queue := []; wst := WNone |}.

(* fx5: a job whose requests on a token exceed its total is refused at submission;
   fx6: a failed dependency only cancels a job that has not started;
   fx7: the failure recorded for an identifier is dropped when that identifier is submitted again (ccf82b1) *)
Record fixes := { fx2 : bool; fx3 : bool; fx4 : bool; fx5 : bool; fx6 : bool; fx7 : bool }.
Definition all_fixed := {| fx2 := true; fx3 := true; fx4 := true; fx5 := true; fx6 := true; fx7 := true |}.
Definition no_fix := {| fx2 := false; fx3 := false; fx4 := false; fx5 := false; fx6 := false; fx7 := false |}.

(* ------------------------------------------------------------------ small helpers *)
Definition upd {A} (f : nat -> A) (j : nat) (v : A) : nat -> A := fun x => if Nat.eqb x j then v else f x.

Definition w_st (r : jst) v := {| st := v; uns := uns r; ev := ev r; pc := pc r; cur := cur r; held := held r; fdep := fdep r; launches := launches r |}.
Definition w_uns (r : jst) v := {| st := st r; uns := v; ev := ev r; pc := pc r; cur := cur r; held := held r; fdep := fdep r; launches := launches r |}.
Definition w_ev (r : jst) v := {| st := st r; uns := uns r; ev := v; pc := pc r; cur := cur r; held := held r; fdep := fdep r; launches := launches r |}.
Definition w_pc (r : jst) v := {| st := st r; uns := uns r; ev := ev r; pc := v; cur := cur r; held := held r; fdep := fdep r; launches := launches r |}.
Definition w_cur (r : jst) v := {| st := st r; uns := uns r; ev := ev r; pc := pc r; cur := v; held := held r; fdep := fdep r; launches := launches r |}.
Definition w_held (r : jst) v := {| st := st r; uns := uns r; ev := ev r; pc := pc r; cur := cur r; held := v; fdep := fdep r; launches := launches r |}.
Definition w_fdep (r : jst) v := {| st := st r; uns := uns r; ev := ev r; pc := pc r; cur := cur r; held := held r; fdep := v; launches := launches r |}.
Definition w_launches (r : jst) v := {| st := st r; uns := uns r; ev := ev r; pc := pc r; cur := cur r; held := held r; fdep := fdep r; launches := v |}.

Definition s_jobs (s : state) v := {| jobs := v; avail := avail s; unfinished := unfinished s; failed := failed s; fdict := fdict s; reg := reg s; queue := queue s; wst := wst s |}.
Definition s_avail (s : state) v := {| jobs := jobs s; avail := v; unfinished := unfinished s; failed := failed s; fdict := fdict s; reg := reg s; queue := queue s; wst := wst s |}.
Definition s_unfinished (s : state) v := {| jobs := jobs s; avail := avail s; unfinished := v; failed := failed s; fdict := fdict s; reg := reg s; queue := queue s; wst := wst s |}.
Definition s_failed (s : state) v := {| jobs := jobs s; avail := avail s; unfinished := unfinished s; failed := v; fdict := fdict s; reg := reg s; queue := queue s; wst := wst s |}.
Definition s_fdict (s : state) v := {| jobs := jobs s; avail := avail s; unfinished := unfinished s; failed := failed s; fdict := v; reg := reg s; queue := queue s; wst := wst s |}.
Definition s_reg (s : state) v := {| jobs := jobs s; avail := avail s; unfinished := unfinished s; failed := failed s; fdict := fdict s; reg := v; queue := queue s; wst := wst s |}.
Definition s_queue (s : state) v := {| jobs := jobs s; avail := avail s; unfinished := unfinished s; failed := failed s; fdict := fdict s; reg := reg s; queue := v; wst := wst s |}.
Definition s_wst (s : state) v := {| jobs := jobs s; avail := avail s; unfinished := unfinished s; failed := failed s; fdict := fdict s; reg := reg s; queue := queue s; wst := v |}.

Definition setjob (s : state) (j : nat) (r : jst) : state := s_jobs s (upd (jobs s) j r).
Definition enqueue (s : state) (c : cb) : state := s_queue s (queue s ++ [c]).
Definition enqueue_all (s : state) (cs : list cb) : state := s_queue s (queue s ++ cs).

Definition finished (x : jstate) : bool := match x with DONE | ERROR => true | _ => false end.
Definition notstarted (x : jstate) : bool := match x with UNSCHEDULED | WAITING | READY => true | _ => false end.
Definition jstate_eqb (a b : jstate) : bool :=
  match a, b with
  | UNSCHEDULED, UNSCHEDULED | WAITING, WAITING | READY, READY | RUNNING, RUNNING | DONE, DONE | ERROR, ERROR => true
  | _, _ => false
  end.
Definition dstatus_eqb (a b : dstatus) : bool :=
  match a, b with DWAIT, DWAIT | DOK, DOK | DFAIL, DFAIL => true | _, _ => false end.
Definition okval (d : dstatus) : Z := match d with DOK => 1 | _ => 0 end.
Definition is_ok (d : dstatus) : bool := match d with DOK => true | _ => false end.

(* has the coroutine of the job started (its dependencies are registered with their origins) *)
Definition started (p : pcT) : bool := match p with PNot | PDup _ | PSpawned => false | _ => true end.
(* does the job have a coroutine at all *)
Definition spawned (p : pcT) : bool := match p with PNot | PDup _ => false | _ => true end.
(* has the coroutine left its main loop (final state assigned) *)
Definition past_loop (p : pcT) : bool :=
  match p with PExt ADoneH | PWoken ADoneH | PReturned _ => true | _ => false end.
(* registered and not yet past the decrement of unfinishedJobs *)
Definition counted (p : pcT) : bool := match p with PNot | PDup _ | PReturned _ => false | _ => true end.

Fixpoint replace_nth {A} (i : nat) (v : A) (l : list A) : list A :=
  match l, i with
  | [], _ => []
  | _ :: l', O => v :: l'
  | x :: l', S i' => x :: replace_nth i' v l'
  end.

(* ------------------------------------------------------------------ Dependency.check / dependencychanged *)
(* JobDependency.status / CounterTokenDependency.status *)
Definition dep_status (s : state) (d : dep) : dstatus :=
  match d with
  | DJob k => match st (jobs s k) with DONE => DOK | ERROR => DFAIL | _ => DWAIT end
  | DTok t c => if (c <=? avail s t)%nat then DOK else DWAIT
  end.

(* asyncio.Event.set(): wakes the coroutine if it is suspended in wait() *)
Definition set_event_l (r : jst) : jst * bool :=
  if ev r then (r, false)
  else match pc r with
       | PAwaitReady => (w_pc (w_ev r true) PWokenReady, true)
       | _ => (w_ev r true, false)
       end.

(* Job.dependencychanged followed by `dependency.currentstatus = status` (job-local part);
   the boolean tells whether a wake-up of the job's coroutine became ready *)
Definition depchanged_l (f3 f6 : bool) (r : jst) (i : nat) (old new : dstatus) : jst * bool :=
  let r1 := w_cur (w_uns r (uns r - (okval new - okval old))) (replace_nth i new (cur r)) in
  let '(r2, w2) :=
    if dstatus_eqb new DFAIL && (if f6 then notstarted (st r1) else negb (finished (st r1)))
    then set_event_l (w_fdep (w_st r1 ERROR) true) else (r1, false) in
  let '(r3, w3) :=
    if (uns r2 =? 0) && (negb f3 || notstarted (st r2))
    then set_event_l (w_st r2 READY) else (r2, false) in
  (r3, w2 || w3).

Definition check_l (f3 f6 : bool) (r : jst) (i : nat) (new : dstatus) : jst * bool :=
  match nth_error (cur r) i with
  | Some old => if dstatus_eqb new old then (r, false) else depchanged_l f3 f6 r i old new
  | None => (r, false)
  end.

Definition check (W : workload) (fx : fixes) (s : state) (j i : nat) : state :=
  match nth_error (deps W j) i with
  | Some d =>
      let '(r, wake) := check_l (fx3 fx) (fx6 fx) (jobs s j) i (dep_status s d) in
      let s1 := setjob s j r in
      if wake then enqueue s1 (CStep j) else s1
  | None => s
  end.

(* ------------------------------------------------------------------ dependents *)
Fixpoint dep_indices (p : dep -> bool) (ds : list dep) (i : nat) : list nat :=
  match ds with
  | [] => []
  | d :: r => if p d then i :: dep_indices p r (S i) else dep_indices p r (S i)
  end.
(* the registered dependencies whose origin satisfies p, as (target job, index) *)
Definition dependents (W : workload) (s : state) (p : dep -> bool) : list (nat * nat) :=
  flat_map (fun j => if started (pc (jobs s j)) then map (fun i => (j, i)) (dep_indices p (deps W j) 0) else [])
           (seq 0 (njobs W)).
Definition is_job (k : nat) (d : dep) : bool := match d with DJob k' => Nat.eqb k k' | _ => false end.
Definition is_tok (t : nat) (d : dep) : bool := match d with DTok t' _ => Nat.eqb t t' | _ => false end.

(* ------------------------------------------------------------------ the coroutine aio_submit / aio_start *)
(* The part of a coroutine step that only concerns the job's own record is a function on `jst`
   that also says whether the job is added to failedJobs. *)

(* after the main loop: failedJobs, then `await asyncThreadcheck("End of job processing")` *)
Definition finish_l (r : jst) : jst * bool := (w_pc r (PExt ADoneH), negb (jstate_eqb (st r) DONE)).

(* `while not job.state.finished(): await job._readyEvent.wait()` with the event clear *)
Definition loop_tail_l (r : jst) : jst * bool :=
  if finished (st r) then finish_l r else (w_pc r PAwaitReady, false).

(* after `await job._readyEvent.wait()` returned *)
Definition after_ready_l (r : jst) : jst * bool :=
  let r1 := w_ev r false in
  match st r1 with
  | READY => (w_pc r1 (PExt ALockIn), false)             (* aio_start: async with job lock *)
  | _ => loop_tail_l r1
  end.

Definition main_loop_l (r : jst) : jst * bool :=
  if finished (st r) then finish_l r
  else if ev r then after_ready_l r
  else (w_pc r PAwaitReady, false).

Definition commit (s : state) (j : nat) (p : jst * bool) : state :=
  setjob (if snd p then s_fdict (s_failed s (failed s ++ [j])) (fdict s ++ [j]) else s) j (fst p).

(* registration loop of aio_submit: dependency.check() for each dependency in turn.  The
   coroutine is running, so Event.set() wakes nobody: the wake-up flag is dropped. *)
Fixpoint reg_l (f3 f6 : bool) (r : jst) (news : list dstatus) (i : nat) : jst :=
  match news with
  | [] => r
  | n :: rest => reg_l f3 f6 (fst (check_l f3 f6 r i n)) rest (S i)
  end.

(* the final state given by an adopted process: `DONE if code == 0 else ERROR`, then the marker check *)
Definition adopt_state (a : option Z * bool) : jstate :=
  match a with
  | (Some 0, _) => DONE
  | (_, true) => DONE
  | (_, false) => ERROR
  end.
Definition adopted (W : workload) (j : nat) : option jstate := option_map adopt_state (j_adopt (spec W j)).

(* aio_submit up to its first suspension; when a process is already running for the job
   (ad = true) the state becomes RUNNING and the coroutine waits for that process *)
Definition spawn_l (f3 f6 : bool) (marker : bool) (ad : bool) (r : jst) (news : list dstatus) : jst * bool :=
  let r0 := w_st (w_ev r false) WAITING in
  let r1 :=
    match news with
    | [] => w_st (w_ev r0 true) READY
    | _ => reg_l f3 f6 (w_cur (w_uns r0 (Z.of_nat (length news))) (repeat DWAIT (length news))) news 0
    end in
  let r2 := if marker then w_st r1 DONE else r1 in
  if ad then (w_pc (w_st r2 RUNNING) (PExt AAdopt), false) else main_loop_l r2.

Definition is_some_b {A} (o : option A) : bool := match o with Some _ => true | None => false end.

Definition run_spawn (W : workload) (fx : fixes) (s : state) (j : nat) : state :=
  commit s j (spawn_l (fx3 fx) (fx6 fx) (j_marker (spec W j)) (is_some_b (j_adopt (spec W j))) (jobs s j)
                      (map (dep_status s) (deps W j))).

(* the adopted process has ended: `job.state = DONE if code == 0 else ERROR`, marker check, loop *)
Definition adopt_l (v : jstate) (r : jst) : jst * bool := loop_tail_l (w_st r v).
Definition adopt_return (W : workload) (s : state) (j : nat) : state :=
  match adopted W j with
  | Some v => commit s j (adopt_l v (jobs s j))
  | None => s
  end.

(* for dependency in job.dependencies: locks.append(dependency.lock().acquire()) *)
Fixpoint acquire_l (av : nat -> nat) (hd : list (nat * nat)) (ds : list dep) (i : nat)
  : (nat -> nat) * list (nat * nat) * option nat :=
  match ds with
  | [] => (av, hd, None)
  | DJob _ :: r => acquire_l av hd r (S i)               (* JobLock._acquire: result ignored *)
  | DTok t c :: r =>
      if (av t <? c)%nat then (av, hd, Some i)           (* LockError *)
      else acquire_l (upd av t (av t - c)%nat) (hd ++ [(t, c)]) r (S i)
  end.

(* Locks.__exit__: release in order; each release notifies the dependents of the token *)
Fixpoint release_avail (av : nat -> nat) (l : list (nat * nat)) : nat -> nat :=
  match l with
  | [] => av
  | (t, c) :: r => release_avail (upd av t (av t + c)%nat) r
  end.
Definition release_notes (W : workload) (s : state) (l : list (nat * nat)) : list cb :=
  flat_map (fun tc => map (fun p => CNotify (fst p) (snd p)) (dependents W s (is_tok (fst tc)))) l.
Definition release_all (W : workload) (s : state) (j : nat) : state :=
  let hd := held (jobs s j) in
  s_queue (s_avail (setjob s j (w_held (jobs s j) [])) (release_avail (avail s) hd))
          (queue s ++ release_notes W s hd).

(* aio_start after the job lock has been acquired *)
Definition start_body (W : workload) (fx : fixes) (s : state) (j : nat) : state :=
  match acquire_l (avail s) (held (jobs s j)) (deps W j) 0 with
  | (av, hd, Some i) =>
      (* LockError: dependency.check(), then `return JobState.WAITING` leaves `async with job lock`
         (the coroutine is suspended on the release of the job lock when the step ends) *)
      check W fx (s_avail (setjob s j (w_pc (w_held (jobs s j) hd) (PExt ALockOutAbort))) av) j i
  | (av, hd, None) =>
      let r := w_held (jobs s j) hd in
      s_avail (setjob s j (w_pc (w_st (w_launches r (S (launches r))) RUNNING) (PExt ALockOutRun))) av
  end.

(* the aborted start returns WAITING; aio_submit stores it *)
Definition abort_l (f4 : bool) (r : jst) : jst * bool :=
  if f4 && (uns r =? 0)
  then main_loop_l (fst (set_event_l (w_st r READY)))
  else main_loop_l (w_st r WAITING).
Definition abort_return (W : workload) (fx : fixes) (s : state) (j : nat) : state :=
  let s1 := release_all W s j in commit s1 j (abort_l (fx4 fx) (jobs s1 j)).

Definition proc_l (code : Z) (r : jst) : jst * bool :=
  loop_tail_l (w_st r (if code =? 0 then DONE else ERROR)).
Definition proc_return (W : workload) (s : state) (j : nat) : state :=
  let s1 := release_all W s j in commit s1 j (proc_l (j_code (spec W j)) (jobs s1 j)).

Definition notify_exit (s : state) : state :=
  match wst s with WBlocked => enqueue (s_wst s WWoken) CWakeExit | _ => s end.

Definition done_return (W : workload) (s : state) (j : nat) : state :=
  let s1 := notify_exit (s_unfinished s (unfinished s - 1)) in
  let s2 := enqueue_all s1 (map (fun p => CCheck (fst p) (snd p)) (dependents W s1 (is_job j))) in
  setjob s2 j (w_pc (jobs s2 j) (PReturned (st (jobs s2 j)))).

Definition run_step (W : workload) (fx : fixes) (s : state) (j : nat) : state :=
  match pc (jobs s j) with
  | PWokenReady => commit s j (after_ready_l (jobs s j))
  | PWoken ALockIn => start_body W fx s j
  | PWoken ALockOutAbort => abort_return W fx s j
  | PWoken ALockOutRun => setjob s j (w_pc (jobs s j) (PExt AProc))
  | PWoken AProc => proc_return W s j
  | PWoken ADoneH => done_return W s j
  | PWoken AAdopt => adopt_return W s j
  | _ => s
  end.

(* awaitcompletion() *)
Definition wait_check (s : state) : state :=
  if unfinished s =? 0
  then s_wst s (match fdict s with [] => WReturned | _ => WRaised end)
  else s_wst s WBlocked.

Definition run_cb (W : workload) (fx : fixes) (s : state) (c : cb) : state :=
  match c with
  | CSpawn j => match pc (jobs s j) with PSpawned => run_spawn W fx s j | _ => s end
  | CStep j => run_step W fx s j
  | CCheck j i => check W fx s j i
  | CNotify j i =>
      match nth_error (deps W j) i with
      | Some (DTok t _) => if (0 <? avail s t)%nat then check W fx s j i else s
      | _ => s
      end
  | CWaitStart => match wst s with WStarting => wait_check s | _ => s end
  | CWakeExit => match wst s with WWoken => wait_check s | _ => s end
  end.

Fixpoint remove_nth {A} (n : nat) (l : list A) : list A :=
  match l, n with
  | [], _ => []
  | _ :: l', O => l'
  | x :: l', S n' => x :: remove_nth n' l'
  end.

(* ------------------------------------------------------------------ transitions *)
Inductive label :=
  | LSubmit (j : nat)            (* task.submit(): aio_registerJob + scheduling of aio_submit *)
  | LRun (n : nat)               (* run the ready callback at position n *)
  | LDeliver (j : nat)           (* the pending external operation of job j completes *)
  | LWait.                       (* experiment.wait() / __exit__ *)

Definition dep_submitted (s : state) (d : dep) : bool :=
  match d with DJob k => spawned (pc (jobs s k)) | DTok _ _ => true end.

(* Scheduler.aio_registerJob + Scheduler.submit *)
Definition submit (W : workload) (fx : fixes) (s : state) (j : nat) : state :=
  let id := j_ident (spec W j) in
  let spawn (s : state) := enqueue (setjob s j (w_pc (jobs s j) PSpawned)) (CSpawn j) in
  match reg s id with
  | Some k =>
      match st (jobs s k) with
      | ERROR =>                                       (* "Re-submitting job" *)
          if fx2 fx then
            (* fx7: `failedJobs.pop(job.identifier, None)` - the outcome of this submission replaces the failure *)
            let fd := if fx7 fx then filter (fun x => negb (Nat.eqb (j_ident (spec W x)) id)) (fdict s) else fdict s in
            spawn (s_fdict (s_reg (s_unfinished s (unfinished s + 1)) (upd (reg s) id (Some j))) fd)
          else spawn s
      | _ => setjob s j (w_pc (jobs s j) (PDup k))
      end
  | None => spawn (s_reg (s_unfinished s (unfinished s + 1)) (upd (reg s) id (Some j)))
  end.

Definition step_gen (W : workload) (fx : fixes) (s : state) (l : label) : option state :=
  match l with
  | LSubmit j =>
      if (j <? njobs W)%nat && (match pc (jobs s j) with PNot => true | _ => false end)
         && forallb (dep_submitted s) (deps W j) && (negb (fx5 fx) || fits W j)
      then Some (submit W fx s j) else None
  | LRun n =>
      match nth_error (queue s) n with
      | Some c => Some (run_cb W fx (s_queue s (remove_nth n (queue s))) c)
      | None => None
      end
  | LDeliver j =>
      match pc (jobs s j) with
      | PExt a => Some (enqueue (setjob s j (w_pc (jobs s j) (PWoken a))) (CStep j))
      | _ => None
      end
  | LWait =>
      match wst s with
      | WNone | WReturned | WRaised => Some (enqueue (s_wst s WStarting) CWaitStart)
      | _ => None
      end
  end.

Definition step W := step_gen W all_fixed.
Definition step_prefix W := step_gen W no_fix.

Fixpoint steps_gen (W : workload) (fx : fixes) (s : state) (ls : list label) : option state :=
  match ls with
  | [] => Some s
  | l :: r => match step_gen W fx s l with Some s' => steps_gen W fx s' r | None => None end
  end.
Definition steps W := steps_gen W all_fixed.
Definition steps_prefix W := steps_gen W no_fix.

(* well-formed workloads: dependencies point to earlier jobs (submit() rejects unsubmitted tasks) and
   tokens exist.  Nothing is assumed about the size of the requests: a job that asks more of a token
   than its total is refused by the guard of LSubmit (fx5, `fits`) *)
Definition dep_wf (W : workload) (j : nat) (d : dep) : bool :=
  match d with
  | DJob k => (k <? j)%nat
  | DTok t c => (t <? length (w_tokens W))%nat
  end.
Definition wf (W : workload) : bool :=
  forallb (fun j => forallb (dep_wf W j) (deps W j)) (seq 0 (njobs W)).

(* quiescence: nothing ready, nothing pending *)
Definition has_pending (s : state) (W : workload) : bool :=
  existsb (fun j => match pc (jobs s j) with PExt _ => true | _ => false end) (seq 0 (njobs W)).
