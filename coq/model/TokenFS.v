(* TokenFS: the file-based counter token of experimaestro/tokens.py shared by several
   scheduler processes (CounterToken, TokenFile, the watchdog handlers, TokenFile.watch),
   and the process-level token (ProcessCounterToken).          Used by C08 and C09.
   Definitions only: proofs live in proofs/TokenFS_lemmas.v.

   One token directory.  A job j (j < c_n) is owned by scheduler process c_owner j and asks
   for c_cnt j units; its token file is named after the job (CounterTokenDependency.name), so
   names are job numbers.  Everything is a total function nat -> _ (absent = default).

   The `variant` switches select, for each defect found in the pinned commit, the literal
   pre-fix behaviour (false) or the repaired one (true); VL is the pinned code, VF the
   repaired code (fixes/C09-1..3, C11-2, C09-4, C08-1).                                    *)
From Coq Require Import ZArith List Bool Arith.
Import ListNotations.
Open Scope Z_scope.

Record variant := mkV {
  v_parse : bool;   (* on_created/on_modified ignore a token file that cannot be parsed yet *)
  v_count : bool;   (* on_created/on_modified charge `available` for the file they cache     *)
  v_notify : bool;  (* release() notifies the dependents even when its file is already gone  *)
  v_watch : bool;   (* __init__ recounts once more after it has installed the directory watch *)
  v_empty : bool;   (* _update removes a token file that cannot be parsed: under token.lock such
                       a file was opened by a scheduler that died before writing it          *)
  v_fire : bool     (* TokenFile.watch tests "job gone" and deletes under the job lock (one
                       step); pinned code: it deletes later, outside the lock, by name        *)
}.
Definition VF := mkV true true true true true true.
Definition VL := mkV false false false false false false.
(* the repaired code with one repair taken out (used by the refutation theorems) *)
Definition V_no_parse  := mkV false true true true true true.
Definition V_no_count  := mkV true false true true true true.
Definition V_no_notify := mkV true true false true true true.
Definition V_no_watch  := mkV true true true false true true.
Definition V_no_empty  := mkV true true true true false true.
Definition V_no_fire   := mkV true true true true true false.

Record cfg := mkCfg { c_total : Z; c_n : nat; c_owner : nat -> nat; c_cnt : nat -> Z }.

(* job as seen from the token: Scheduler.aio_start takes the job lock, then the token
   (Creating = file opened, not written; Holding = written, job process not started yet),
   starts the process (Running), the process ends (Ended), the `with Locks()` block releases
   (Done); a start aborted because another dependency could not be locked releases from
   Holding and the job waits again (Idle).                                                 *)
Inductive phase := Idle | Creating | Holding | Running | Ended | Done.
Inductive fcont := Absent | Empty | Written (c : Z).
Inductive event := ECreated (n : nat) | EModified (n : nat) | EDeleted (n : nat).

Record proc := mkProc {
  p_alive : bool;
  p_avail : Z;                 (* Token.available *)
  p_cache : nat -> option Z;   (* CounterToken.cache: name -> TokenFile.count *)
  p_obs : bool;                (* the watchdog observer thread of this process is alive *)
  p_evq : list event;          (* filesystem events not yet handled *)
  p_wat : list nat             (* TokenFile.watch threads not yet finished (by file name) *)
}.
(* j_ok = (Dependency.currentstatus = OK); j_orph = the scheduler that took the token died;
   j_lock = the job's .lock file is held by its scheduler (aio_start l.683: from before the
   dependency locks are taken until the process is started and the pid file written);
   j_pid = the job's .pid file exists (written by aio_run, removed by an orderly end of the
   job, left behind when the job process is killed)                                        *)
Record jst := mkJ { j_ph : phase; j_ok : bool; j_orph : bool; j_lock : bool; j_pid : bool }.
Record state := mkS {
  s_lock : option nat;         (* token.lock: held by the acquire that is creating this file *)
  s_disk : nat -> fcont;
  s_procs : nat -> proc;
  s_jobs : nat -> jst
}.

Definition dead_proc := mkProc false 0 (fun _ => None) false [] [].
Definition init : state := mkS None (fun _ => Absent) (fun _ => dead_proc) (fun _ => mkJ Idle false false false false).

Definition upd {A} (f : nat -> A) (k : nat) (v : A) : nat -> A := fun x => if Nat.eqb x k then v else f x.

Fixpoint sumf (n : nat) (f : nat -> Z) : Z :=
  match n with O => 0 | S k => sumf k f + f k end.

Definition oval (o : option Z) : Z := match o with Some c => c | None => 0 end.
Definition cache_sum (C : cfg) (pr : proc) : Z := sumf (c_n C) (fun k => oval (p_cache pr k)).
(* what the directory holds: a file that is opened but not written yet stands for the
   request of the job that is creating it                                                *)
Definition held (C : cfg) (s : state) (k : nat) : Z :=
  match s_disk s k with Absent => 0 | _ => c_cnt C k end.
Definition held_sum (C : cfg) (s : state) : Z := sumf (c_n C) (held C s).
Definition written (s : state) (k : nat) : Z :=
  match s_disk s k with Written c => c | _ => 0 end.
Definition written_sum (C : cfg) (s : state) : Z := sumf (c_n C) (written s).

(* every live observer queues the event *)
Definition emit (ev : event) (procs : nat -> proc) : nat -> proc :=
  fun q => let pr := procs q in
    if p_alive pr && p_obs pr
    then mkProc (p_alive pr) (p_avail pr) (p_cache pr) (p_obs pr) (p_evq pr ++ [ev]) (p_wat pr)
    else pr.

(* CounterToken._update (l.233-257), called with token.lock held.
   parsable = no TokenFile(path) raises: an empty file not already in cache is a ValueError *)
Definition parsable (C : cfg) (s : state) (pr : proc) : bool :=
  forallb (fun k => match s_disk s k, p_cache pr k with Empty, None => false | _, _ => true end)
          (seq 0 (c_n C)).
Definition recount_cache (s : state) (pr : proc) : nat -> option Z :=
  fun k => match s_disk s k with
           | Absent => None
           | Empty => p_cache pr k
           | Written c => Some (match p_cache pr k with Some c0 => c0 | None => c end)
           end.
Definition new_names (C : cfg) (s : state) (pr : proc) : list nat :=
  filter (fun k => match s_disk s k, p_cache pr k with Written _, None => true | _, _ => false end)
         (seq 0 (c_n C)).
Definition recount (C : cfg) (s : state) (pr : proc) : proc :=
  let cache' := recount_cache s pr in
  mkProc (p_alive pr)
         (c_total C - sumf (c_n C) (fun k => oval (cache' k)))
         cache' (p_obs pr) (p_evq pr)
         (p_wat pr ++ new_names C s pr).

Definition set_ok (js : jst) (b : bool) : jst := mkJ (j_ph js) b (j_orph js) (j_lock js) (j_pid js).

(* Token.aio_notify with the posted checks run at once: if available > 0 every dependency of
   this process is re-checked (status = count <= available)                               *)
Definition notify (C : cfg) (p : nat) (avail : Z) (jobs : nat -> jst) : nat -> jst :=
  if 0 <? avail then
    fun j => let js := jobs j in
      if Nat.eqb (c_owner C j) p && negb (j_orph js)
      then set_ok js (c_cnt C j <=? avail) else js
  else jobs.

Fixpoint remove_nth {A} (i : nat) (l : list A) : list A :=
  match l, i with
  | [], _ => []
  | _ :: l', O => l'
  | x :: l', S i' => x :: remove_nth i' l'
  end.
Fixpoint remove_first (n : nat) (l : list nat) : list nat :=
  match l with
  | [] => []
  | x :: l' => if Nat.eqb x n then l' else x :: remove_first n l'
  end.
Definition mem (n : nat) (l : list nat) : bool := existsb (Nat.eqb n) l.

Inductive label :=
| Start (p : nat)            (* CounterToken.__init__ + submission of the process's jobs *)
| Kill (p : nat)             (* the scheduler process dies; its memory is lost, its jobs survive *)
| Acquire (p j : nat)        (* CounterToken.acquire up to open() of the token file *)
| WriteF (j : nat)           (* write() + close of the token file, token.lock released *)
| Launch (j : nat)           (* job process started, pid written, job lock released *)
| JobEnds (j : nat) (code : Z)
| JobKilled (j : nat)
| Release (p j : nat)        (* Locks._release -> CounterToken.release *)
| Deliver (p i : nat)        (* the observer of p handles its i-th pending event *)
| Fire (p n : nat)           (* a watcher thread of p for file n gets the job lock, sees the
                                job process gone, deletes the file *)
| StartRace (p n : nat)      (* Start p, and the watcher thread that its first _update starts
                                for file n finishes at once *)
| FireDelete (p n : nat)     (* pinned code only: a watcher thread of p that has left the job lock
                                (Fire) deletes whatever file is called n now *)
| Resubmit (p j : nat)       (* the job identity j, finished, is submitted again by its scheduler *)
| StartMid (p q j : nat)     (* Start p; while its __init__ is between its first _update and its second
                                one (directory watch installed), process q acquires for job j; the
                                second _update waits for token.lock, i.e. until q has written its file *)
| DeliverRace (p i : nat) (rel : bool) (j : nat).
                             (* the observer of p handles its i-th event, a deletion: its unlocked test
                                "name in cache" passes, then it waits for the thread lock while the
                                scheduler thread of p runs release (rel) / acquire for job j, whose
                                _update rebuilds the cache; then the handler runs its locked part *)
Inductive result := ROk | RLockError | RRaised.

(* token.lock is not held by process p (its handlers and its kill are outside an acquire) *)
Definition not_creating (C : cfg) (s : state) (p : nat) : bool :=
  match s_lock s with Some j => negb (Nat.eqb (c_owner C j) p) | None => true end.
Definition lock_free (s : state) : bool := match s_lock s with None => true | Some _ => false end.
Definition is_idle (ph : phase) : bool := match ph with Idle => true | _ => false end.
Definition is_creating (ph : phase) : bool := match ph with Creating => true | _ => false end.
Definition is_present (f : fcont) : bool := match f with Absent => false | _ => true end.
Definition set_job (js : jst) (ph : phase) (lock pid : bool) : jst := mkJ ph (j_ok js) (j_orph js) lock pid.
Definition set_ph (js : jst) (ph : phase) : jst := set_job js ph (j_lock js) (j_pid js).
Definition is_running (ph : phase) : bool := match ph with Running => true | _ => false end.
(* TokenFile.watch.run (l.130-155): the thread needs the job lock; with a pid file it waits
   for the process it names (a process that is gone - Process.fromDefinition returns None -
   is not waited for); then it deletes the token file                                      *)
Definition watcher_can_finish (js : jst) : bool :=
  negb (j_lock js) && (negb (j_pid js) || negb (is_running (j_ph js))).
Definition emit_except (p : nat) (ev : event) (procs : nat -> proc) : nat -> proc :=
  fun q => if Nat.eqb q p then procs q else emit ev procs q.

(* pinned watcher thread past its test, about to delete file n: kept in p_wat as c_n + n *)
Definition armed (C : cfg) (n : nat) : nat := (c_n C + n)%nat.

Definition emit_list (evs : list event) (procs : nat -> proc) : nat -> proc :=
  fold_left (fun ps ev => emit ev ps) evs procs.

(* repaired _update: a *.token file that cannot be parsed and is not in cache is unlinked and
   not counted.  (_update runs under token.lock, every creation too: the opener is dead.)   *)
Definition stale_empty (s : state) (pr : proc) (k : nat) : bool :=
  match s_disk s k, p_cache pr k with Empty, None => true | _, _ => false end.
Definition sweep (V : variant) (C : cfg) (s : state) (pr : proc) : state :=
  if v_empty V && lock_free s then
    mkS (s_lock s)
        (fun k => match s_disk s k with
                  | Empty => match p_cache pr k with None => Absent | Some _ => Empty end
                  | d => d
                  end)   (* = if stale_empty s pr k then Absent else s_disk s k *)
        (emit_list (map EDeleted (filter (stale_empty s pr) (seq 0 (c_n C)))) (s_procs s))
        (s_jobs s)
  else s.

Definition core (V : variant) (C : cfg) (s : state) (l : label) : option (state * result) :=
  match l with
  | Start p =>
      let fresh := mkProc true 0 (fun _ => None) true [] [] in
      if negb (p_alive (s_procs s p)) && lock_free s && parsable C s fresh then
        let pr := recount C s fresh in
        (* aio_submit l.581-588: dependency.check() of each job of this scheduler *)
        let jobs' := fun j => let js := s_jobs s j in
          if Nat.eqb (c_owner C j) p && is_idle (j_ph js) && negb (j_orph js)
          then set_ok js (c_cnt C j <=? p_avail pr) else js in
        Some (mkS (s_lock s) (s_disk s) (upd (s_procs s) p pr) jobs', ROk)
      else if negb (p_alive (s_procs s p)) && lock_free s
      then Some (s, RRaised)   (* ValueError out of CounterToken.__init__: no token object *)
      else None
  | Kill p =>
      (* also between open() and write() of a token file (Creating): token.lock dies with the
         process, the empty file stays, the job was never started                          *)
      if p_alive (s_procs s p) then
        let jobs' := fun j => let js := s_jobs s j in
          if Nat.eqb (c_owner C j) p && (negb (j_orph js) || is_creating (j_ph js)) then
            match j_ph js with
            | Creating => mkJ Ended (j_ok js) true false (j_pid js)
            | Holding => mkJ Ended (j_ok js) true false (j_pid js)  (* no job process; the job lock died with p *)
            | Running => mkJ Running (j_ok js) true (j_lock js) (j_pid js)
            | Ended => mkJ Ended (j_ok js) true (j_lock js) (j_pid js)
            | _ => js
            end
          else js in
        Some (mkS (if not_creating C s p then s_lock s else None) (s_disk s) (upd (s_procs s) p dead_proc) jobs', ROk)
      else None
  | Acquire p j =>
      let pr0 := s_procs s p in
      let js := s_jobs s j in
      if p_alive pr0 && (j <? c_n C)%nat && Nat.eqb (c_owner C j) p && is_idle (j_ph js)
         && negb (j_orph js) && j_ok js && lock_free s && parsable C s pr0 then
        let pr := recount C s pr0 in
        if p_avail pr <? c_cnt C j then
          (* LockError; aio_start then calls dependency.check() *)
          Some (mkS (s_lock s) (s_disk s) (upd (s_procs s) p pr)
                    (upd (s_jobs s) j (set_ok js (c_cnt C j <=? p_avail pr))),
                RLockError)
        else
          let pr' := mkProc (p_alive pr) (p_avail pr - c_cnt C j)
                            (upd (p_cache pr) j (Some (c_cnt C j))) (p_obs pr) (p_evq pr) (p_wat pr) in
          Some (mkS (Some j) (upd (s_disk s) j Empty)
                    (emit (ECreated j) (upd (s_procs s) p pr'))
                    (upd (s_jobs s) j (set_job js Creating true (j_pid js))),
                ROk)
      else None
  | WriteF j =>
      match s_lock s with
      | Some j' =>
          if Nat.eqb j j' then
            if is_present (s_disk s j) then
              Some (mkS None (upd (s_disk s) j (Written (c_cnt C j)))
                        (emit (EModified j) (s_procs s))
                        (upd (s_jobs s) j (set_ph (s_jobs s j) Holding)),
                    ROk)
            else
              (* the pinned watcher thread of another process has unlinked the file that is being
                 created: the write goes to the unlinked inode, nothing appears in the directory *)
              Some (mkS None (s_disk s) (s_procs s) (upd (s_jobs s) j (set_ph (s_jobs s j) Holding)), ROk)
          else None
      | None => None
      end
  | Launch j =>
      let js := s_jobs s j in
      match j_ph js with
      | Holding => if j_orph js then None
                   else Some (mkS (s_lock s) (s_disk s) (s_procs s) (upd (s_jobs s) j (set_job js Running false true)), ROk)
      | _ => None
      end
  | JobEnds j _ =>
      (* orderly end (any exit code): the job removes its pid file *)
      let js := s_jobs s j in
      match j_ph js with
      | Running => Some (mkS (s_lock s) (s_disk s) (s_procs s) (upd (s_jobs s) j (set_job js Ended (j_lock js) false)), ROk)
      | _ => None
      end
  | JobKilled j =>
      (* the job process is killed: its pid file stays behind *)
      let js := s_jobs s j in
      match j_ph js with
      | Running => Some (mkS (s_lock s) (s_disk s) (s_procs s) (upd (s_jobs s) j (set_ph js Ended)), ROk)
      | _ => None
      end
  | Release p j =>
      let pr0 := s_procs s p in
      let js := s_jobs s j in
      let nph := match j_ph js with Holding => Some Idle | Ended => Some Done | _ => None end in
      match nph with
      | Some ph' =>
          if p_alive pr0 && Nat.eqb (c_owner C j) p && negb (j_orph js) && lock_free s
             && parsable C s pr0 then
            let pr := recount C s pr0 in
            let jobs1 := upd (s_jobs s) j (set_job js ph' false (j_pid js)) in
            match p_cache pr j with
            | Some c =>
                let pr' := mkProc (p_alive pr) (p_avail pr + c) (upd (p_cache pr) j None)
                                  (p_obs pr) (p_evq pr) (p_wat pr) in
                let procs1 := upd (s_procs s) p pr' in
                (* tf.delete(): unlink if the file is there *)
                let '(disk', procs') :=
                  if is_present (s_disk s j)
                  then (upd (s_disk s) j Absent, emit (EDeleted j) procs1)
                  else (s_disk s, procs1) in
                Some (mkS (s_lock s) disk' procs' (notify C p (p_avail pr') jobs1), ROk)
            | None =>
                (* "Could not find the taken token": the pinned code returns before aio_notify *)
                Some (mkS (s_lock s) (s_disk s) (upd (s_procs s) p pr)
                          (if v_notify V then notify C p (p_avail pr) jobs1 else jobs1), ROk)
            end
          else None
      | None => None
      end
  | Deliver p i =>
      let pr := s_procs s p in
      if p_alive pr && p_obs pr && not_creating C s p then
        match nth_error (p_evq pr) i with
        | None => None
        | Some ev =>
            let q' := remove_nth i (p_evq pr) in
            let same := mkProc (p_alive pr) (p_avail pr) (p_cache pr) (p_obs pr) q' (p_wat pr) in
            match ev with
            | ECreated n | EModified n =>
                (* on_created l.288-309 / on_modified l.345-356 *)
                match p_cache pr n with
                | Some _ => Some (mkS (s_lock s) (s_disk s) (upd (s_procs s) p same) (s_jobs s), ROk)
                | None =>
                    match s_disk s n with
                    | Absent => (* FileNotFoundError: ignored *)
                        Some (mkS (s_lock s) (s_disk s) (upd (s_procs s) p same) (s_jobs s), ROk)
                    | Empty =>
                        if v_parse V
                        then Some (mkS (s_lock s) (s_disk s) (upd (s_procs s) p same) (s_jobs s), ROk)
                        else (* ValueError escapes the handler: the observer thread ends *)
                          Some (mkS (s_lock s) (s_disk s)
                                    (upd (s_procs s) p
                                       (mkProc (p_alive pr) (p_avail pr) (p_cache pr) false [] (p_wat pr)))
                                    (s_jobs s), RRaised)
                    | Written c =>
                        Some (mkS (s_lock s) (s_disk s)
                                  (upd (s_procs s) p
                                     (mkProc (p_alive pr)
                                             (if v_count V then p_avail pr - c else p_avail pr)
                                             (upd (p_cache pr) n (Some c)) (p_obs pr) q'
                                             (p_wat pr ++ [n])))
                                  (s_jobs s), ROk)
                    end
                end
            | EDeleted n =>
                (* on_deleted l.262-286 *)
                match p_cache pr n with
                | Some c =>
                    let av := p_avail pr + c in
                    Some (mkS (s_lock s) (s_disk s)
                              (upd (s_procs s) p
                                 (mkProc (p_alive pr) av (upd (p_cache pr) n None) (p_obs pr) q' (p_wat pr)))
                              (notify C p av (s_jobs s)), ROk)
                | None => Some (mkS (s_lock s) (s_disk s) (upd (s_procs s) p same) (s_jobs s), ROk)
                end
            end
        end
      else None
  | Fire p n =>
      let pr := s_procs s p in
      if p_alive pr && mem n (p_wat pr) && watcher_can_finish (s_jobs s n) then
        let pr' := mkProc (p_alive pr) (p_avail pr) (p_cache pr) (p_obs pr) (p_evq pr)
                          (remove_first n (p_wat pr)) in
        let procs1 := upd (s_procs s) p pr' in
        if v_fire V then
          if is_present (s_disk s n)
          then Some (mkS (s_lock s) (upd (s_disk s) n Absent) (emit (EDeleted n) procs1) (s_jobs s), ROk)
          else Some (mkS (s_lock s) (s_disk s) procs1 (s_jobs s), ROk)
        else
          (* pinned code: the thread has left the job lock and will call self.delete() *)
          Some (mkS (s_lock s) (s_disk s)
                    (upd (s_procs s) p
                       (mkProc (p_alive pr) (p_avail pr) (p_cache pr) (p_obs pr) (p_evq pr)
                               (remove_first n (p_wat pr) ++ [armed C n])))
                    (s_jobs s), ROk)
      else None
  | StartRace _ _ => None
  | StartMid _ _ _ => None
  | DeliverRace _ _ _ _ => None
  | FireDelete p n =>
      let pr := s_procs s p in
      if negb (v_fire V) && p_alive pr && mem (armed C n) (p_wat pr) then
        let pr' := mkProc (p_alive pr) (p_avail pr) (p_cache pr) (p_obs pr) (p_evq pr)
                          (remove_first (armed C n) (p_wat pr)) in
        let procs1 := upd (s_procs s) p pr' in
        if is_present (s_disk s n)
        then Some (mkS (s_lock s) (upd (s_disk s) n Absent) (emit (EDeleted n) procs1) (s_jobs s), ROk)
        else Some (mkS (s_lock s) (s_disk s) procs1 (s_jobs s), ROk)
      else None
  | Resubmit p j =>
      let pr := s_procs s p in
      let js := s_jobs s j in
      match j_ph js with
      | Done =>
          if p_alive pr && Nat.eqb (c_owner C j) p && negb (j_orph js) then
            Some (mkS (s_lock s) (s_disk s) (s_procs s)
                      (upd (s_jobs s) j (mkJ Idle (c_cnt C j <=? p_avail pr) false false (j_pid js))), ROk)
          else None
      | _ => None
      end
  end.

(* Start, acquire and release first run _update: in the repaired code it clears the stale
   half-created files *)
Definition step1 (V : variant) (C : cfg) (s : state) (l : label) : option (state * result) :=
  match l with
  | Start p => core V C (sweep V C s (mkProc true 0 (fun _ => None) true [] [])) l
  | Acquire p _ | Release p _ => core V C (sweep V C s (s_procs s p)) l
  | _ => core V C s l
  end.

(* the watcher thread of p for file n finishes before p's directory watch exists: every
   other live observer gets the deletion event, p does not                               *)
Definition silent_fire (C : cfg) (s : state) (p n : nat) : option (state * result) :=
  let pr := s_procs s p in
  if p_alive pr && mem n (p_wat pr) && watcher_can_finish (s_jobs s n) then
    let pr' := mkProc (p_alive pr) (p_avail pr) (p_cache pr) (p_obs pr) (p_evq pr)
                      (remove_first n (p_wat pr)) in
    let procs1 := upd (s_procs s) p pr' in
    if is_present (s_disk s n)
    then Some (mkS (s_lock s) (upd (s_disk s) n Absent) (emit_except p (EDeleted n) procs1) (s_jobs s), ROk)
    else Some (mkS (s_lock s) (s_disk s) procs1 (s_jobs s), ROk)
  else None.

(* a token file is deleted by a watcher thread of a process that is not alive yet (see
   StartRace): every live observer gets the event                                         *)
Definition is_written (f : fcont) : bool := match f with Written _ => true | _ => false end.
Definition ghost_delete (C : cfg) (s : state) (n : nat) : option state :=
  if watcher_can_finish (s_jobs s n) && is_written (s_disk s n)
  then Some (mkS (s_lock s) (upd (s_disk s) n Absent) (emit (EDeleted n) (s_procs s)) (s_jobs s))
  else None.

(* the acquire in progress (if any) writes its file and leaves token.lock *)
Definition finish_write (V : variant) (C : cfg) (s : state) : state :=
  match s_lock s with
  | Some j => match core V C s (WriteF j) with Some (s', _) => s' | None => s end
  | None => s
  end.

(* on_deleted (l.262-286) after its unlocked test `name in self.cache` has passed: under the thread
   lock the entry is dropped if it is still there; in both cases the dependents are notified  *)
Definition deleted_locked (V : variant) (C : cfg) (s : state) (p i : nat) : option (state * result) :=
  let pr := s_procs s p in
  if p_alive pr && p_obs pr && not_creating C s p then
    match nth_error (p_evq pr) i with
    | Some (EDeleted n) =>
        match p_cache pr n with
        | Some _ => core V C s (Deliver p i)
        | None =>
            Some (mkS (s_lock s) (s_disk s)
                      (upd (s_procs s) p (mkProc (p_alive pr) (p_avail pr) (p_cache pr) (p_obs pr)
                                                 (remove_nth i (p_evq pr)) (p_wat pr)))
                      (notify C p (p_avail pr) (s_jobs s)), ROk)
        end
    | _ => None
    end
  else None.

(* the second _update of CounterToken.__init__ (under token.lock), followed by the submission
   of the jobs of that scheduler (their dependency.check())                                 *)
Definition resync (V : variant) (C : cfg) (s : state) (p : nat) : option (state * result) :=
  let s0 := sweep V C s (s_procs s p) in
  let pr0 := s_procs s0 p in
  if p_alive pr0 && lock_free s0 && parsable C s0 pr0 then
    let pr := recount C s0 pr0 in
    let jobs' := fun j => let js := s_jobs s0 j in
      if Nat.eqb (c_owner C j) p && is_idle (j_ph js) && negb (j_orph js)
      then set_ok js (c_cnt C j <=? p_avail pr) else js in
    Some (mkS (s_lock s0) (s_disk s0) (upd (s_procs s0) p pr) jobs', ROk)
  else None.

(* CounterToken.__init__ runs _update (which starts the watcher threads) and only then
   installs the directory watch (l.219-230): a watcher that finishes in between deletes its
   file unseen by the new process (pinned code: Start, then silent_fire).  The repaired
   __init__ recounts once more after installing the watch, before any job is submitted: what
   the new process then holds only depends on the directory after the deletion, i.e. the
   race equals "the file disappears, then Start" (the watcher list is the same: one thread
   per written file found, minus the finished one).                                       *)
Definition step (V : variant) (C : cfg) (s : state) (l : label) : option (state * result) :=
  match l with
  | StartRace p n =>
      if v_watch V then
        (* (the unwritten files are removed by the first _update, the watcher finishes after it) *)
        match ghost_delete C (sweep V C s (mkProc true 0 (fun _ => None) true [] [])) n with
        | Some s1 => step1 V C s1 (Start p)
        | None => None
        end
      else
        match step1 V C s (Start p) with
        | Some (s1, _) => silent_fire C s1 p n
        | None => None
        end
  | StartMid p q j =>
      if Nat.eqb q p then None else
      match step1 V C s (Start p) with
      | Some (s1, ROk) =>
          match step1 V C s1 (Acquire q j) with
          | Some (s2, _) => if v_watch V then resync V C (finish_write V C s2) p else Some (finish_write V C s2, ROk)
          | None => None
          end
      | _ => None
      end
  | DeliverRace p i rel j =>
      let pr := s_procs s p in
      if p_alive pr && p_obs pr && not_creating C s p then
        match nth_error (p_evq pr) i with
        | Some (EDeleted n) =>
            match p_cache pr n with
            | Some _ =>
                match step1 V C s (if rel then Release p j else Acquire p j) with
                | Some (s1, _) => deleted_locked V C (finish_write V C s1) p i
                | None => None
                end
            | None => None
            end
        | _ => None
        end
      else None
  | _ => step1 V C s l
  end.

Inductive reachable (V : variant) (C : cfg) : state -> Prop :=
| R_init : reachable V C init
| R_step : forall s l s' r, reachable V C s -> step V C s l = Some (s', r) -> reachable V C s'.

Fixpoint run (V : variant) (C : cfg) (s : state) (tr : list label) : option state :=
  match tr with
  | [] => Some s
  | l :: tr' => match step V C s l with
                | Some (s', _) => run V C s' tr'
                | None => None
                end
  end.

(* nothing left to happen by itself: no watcher thread pending, no event pending at a live
   observer, no job between acquire and release (a job whose scheduler died stays Ended)   *)
Definition quiescent (s : state) : Prop :=
  (forall p, p_alive (s_procs s p) = true ->
     p_wat (s_procs s p) = [] /\ (p_obs (s_procs s p) = true -> p_evq (s_procs s p) = [])) /\
  (forall j, j_ph (s_jobs s j) = Idle \/ j_ph (s_jobs s j) = Done \/
             (j_ph (s_jobs s j) = Ended /\ j_orph (s_jobs s j) = true)).

(* a job of a live scheduler is WAITING on the token although its request fits the capacity *)
Definition waiting_fits (C : cfg) (s : state) (p j : nat) : Prop :=
  p_alive (s_procs s p) = true /\ (j < c_n C)%nat /\ c_owner C j = p /\
  j_ph (s_jobs s j) = Idle /\ j_orph (s_jobs s j) = false /\ j_ok (s_jobs s j) = false /\
  1 <= c_cnt C j <= c_total C.

(* ------------------------------------------------------------------------------------
   ProcessCounterToken (l.414-459): one process, no files.  Lock._level makes acquire and
   release alternate per dependency, which is the enabling condition here.                *)
Record ptok := mkP { pt_avail : Z; pt_held : nat -> bool }.
Inductive plabel := PAcquire (j : nat) | PRelease (j : nat).
Definition pinit (total : Z) : ptok := mkP total (fun _ => false).
Definition pstep (n : nat) (cnt : nat -> Z) (t : ptok) (l : plabel) : option (ptok * result) :=
  match l with
  | PAcquire j =>
      if pt_held t j || negb (j <? n)%nat then None
      else if pt_avail t <? cnt j then Some (t, RLockError)
      else Some (mkP (pt_avail t - cnt j) (upd (pt_held t) j true), ROk)
  | PRelease j =>
      if pt_held t j then Some (mkP (pt_avail t + cnt j) (upd (pt_held t) j false), ROk)
      else None
  end.
Inductive preachable (total : Z) (n : nat) (cnt : nat -> Z) : ptok -> Prop :=
| PR_init : preachable total n cnt (pinit total)
| PR_step : forall t l t' r, preachable total n cnt t -> pstep n cnt t l = Some (t', r) -> preachable total n cnt t'.
Definition pheld_sum (n : nat) (cnt : nat -> Z) (t : ptok) : Z :=
  sumf n (fun k => if pt_held t k then cnt k else 0).
