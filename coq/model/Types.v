(* C15 - executable model of parameter typing and of validation at submit.

   Anchors (experimaestro-python):
     core/types.py      Type.fromType, IntType/FloatType/BoolType/StrType/PathType,
                        EnumType, ArrayType, DictType, ObjectType.validate
     core/arguments.py  ArgumentOptions.create (optional at top level, required flag),
                        Argument.validate
     core/objects.py    ConfigInformation.set / get / validate / submit,
                        TypeConfig.__init__ (defaults go through set)
     core/types.py      ObjectType.addArgument (a default is validated at declaration)

   Definitions only; proofs are in proofs/Types_lemmas.v.

   Modelling choices (all visible in the statements):
   * floats are  FInt z  (a finite float whose value is the integer z; -0.0 is 0)
     or  FFrac bits  (any other float - non integral, inf, nan - named by its
     IEEE bits).  This is exactly what the int<->float rules look at.  Integers
     that reach a float position are assumed exactly representable (|z| <= 2^53):
     beyond that float(z) rounds or raises OverflowError, which is not modelled.
   * strings are Coq strings; pathlib normalisation is modelled only for ""
     (Path("") is Path(".")), the harness uses strings in pathlib normal form.
   * a raised exception is  Err  (the property only says "raises").
   * ObjectType.validate(None) returns None in the code at the pinned commit,
     so that List[A] silently stores [None], and BoolType.validate is bool(value)
     for any value, so that Param[bool] given "no" or ["x"] silently stores True;
     the flag none_ok = true gives that literal behaviour (validate_prefix),
     none_ok = false the repaired one (fixes/C15-3, fixes/C15-5).               *)
From Coq Require Import ZArith List Bool String.
Import ListNotations.
Open Scope Z_scope.

(* ------------------------------------------------------------------ values *)
Inductive fl := FInt (z : Z) | FFrac (bits : Z).

Inductive value :=
| VNone
| VInt (z : Z)
| VBool (b : bool)
| VFloat (f : fl)
| VStr (s : string)
| VPath (s : string)
| VEnum (e m : nat)                       (* enum class, member *)
| VList (l : list value)
| VDict (ps : list (value * value))       (* insertion order *)
| VObj (o c : nat) (sub : bool).          (* object identity, class, "has a job" (submitted) *)

(* runtime types (what Type.fromType builds) *)
Inductive tyexp :=
| TInt | TFloat | TBool | TStr | TPath
| TEnum (e : nat)
| TList (t : tyexp)
| TDict (k v : tyexp)
| TObj (c : nat).

(* annotations as written by the user: the same plus Optional *)
Inductive annot :=
| AInt | AFloat | ABool | AStr | APath
| AEnum (e : nat)
| AList (a : annot)
| ADict (k v : annot)
| AObj (c : nat)
| AOpt (a : annot).

Inductive result (A : Type) := Ok (a : A) | Err.
Arguments Ok {A} a.
Arguments Err {A}.

(* checkers (experimaestro.checkers): Annotated[T, Choices([...])] or any Checker
   subclass; the harness uses Choices and a user-defined "has at least one element" *)
Inductive checker := CChoices (choices : list value) | CNonEmpty.

(* ------------------------------------------------------------ class tables *)
Record argdecl := {
  a_ty : tyexp;
  a_required : bool;
  a_generated : bool;      (* has a generator (e.g. pathgenerator) *)
  a_constant : bool;
  a_optional : bool;       (* declared Optional[...]: None is a value of the parameter *)
  a_checker : option checker
}.

Record cls := {
  c_parents : list nat;    (* direct configuration base classes *)
  c_task : bool;           (* ObjectType.task is set (a Task class) *)
  c_args : list argdecl    (* xpmtype.arguments, in iteration order *)
}.

Definition classes := list cls.

Definition class_parents (cl : classes) (c : nat) : list nat :=
  match nth_error cl c with Some k => c_parents k | None => [] end.
Definition class_task (cl : classes) (c : nat) : bool :=
  match nth_error cl c with Some k => c_task k | None => false end.
Definition class_args (cl : classes) (c : nat) : list argdecl :=
  match nth_error cl c with Some k => c_args k | None => [] end.

(* isinstance(value, basetype): reflexive-transitive closure of the parent relation *)
Fixpoint subclass_fuel (cl : classes) (fuel : nat) (c d : nat) : bool :=
  Nat.eqb c d ||
  match fuel with
  | O => false
  | S f => existsb (fun p => subclass_fuel cl f p d) (class_parents cl c)
  end.
Definition subclass (cl : classes) (c d : nat) : bool := subclass_fuel cl (List.length cl) c d.

(* ------------------------------------------------- Type.fromType / declare *)
(* Type.fromType: a nested Optional becomes a UnionType over NoneType, for which
   no type is found: the class cannot be used at all.                          *)
Fixpoint from_type (a : annot) : option tyexp :=
  match a with
  | AInt => Some TInt | AFloat => Some TFloat | ABool => Some TBool
  | AStr => Some TStr | APath => Some TPath
  | AEnum e => Some (TEnum e)
  | AList x => match from_type x with Some t => Some (TList t) | None => None end
  | ADict k v =>
      match from_type k, from_type v with
      | Some tk, Some tv => Some (TDict tk tv)
      | _, _ => None
      end
  | AObj c => Some (TObj c)
  | AOpt _ => None
  end.

(* ArgumentOptions.create for  name: Param[annotation] (= default)  *)
Definition declare (a : annot) (has_default : bool) : option argdecl :=
  match a with
  | AOpt x =>
      match from_type x with
      | Some t => Some {| a_ty := t; a_required := false; a_generated := false; a_constant := false;
                          a_optional := true; a_checker := None |}
      | None => None
      end
  | _ =>
      match from_type a with
      | Some t => Some {| a_ty := t; a_required := negb has_default; a_generated := false; a_constant := false;
                          a_optional := false; a_checker := None |}
      | None => None
      end
  end.

(* --------------------------------------------------------- Python helpers *)
Definition truthy (v : value) : bool :=       (* bool(value) *)
  match v with
  | VNone => false
  | VInt z => negb (z =? 0)
  | VBool b => b
  | VFloat (FInt z) => negb (z =? 0)
  | VFloat (FFrac _) => true
  | VStr s => negb (String.eqb s "")
  | VPath _ => true
  | VEnum _ _ => true
  | VList l => match l with [] => false | _ => true end
  | VDict ps => match ps with [] => false | _ => true end
  | VObj _ _ _ => true
  end.

Definition path_norm (s : string) : string := if String.eqb s "" then "."%string else s.

(* == between hashable values, as used for dict keys *)
Definition num_of (v : value) : option Z :=
  match v with
  | VInt z => Some z
  | VBool b => Some (if b then 1 else 0)
  | VFloat (FInt z) => Some z
  | _ => None
  end.

Definition keq (a b : value) : bool :=
  match num_of a, num_of b with
  | Some x, Some y => x =? y
  | None, None =>
      match a, b with
      | VNone, VNone => true
      | VFloat (FFrac x), VFloat (FFrac y) => x =? y
      | VStr x, VStr y => String.eqb x y
      | VPath x, VPath y => String.eqb x y
      | VEnum e m, VEnum e' m' => Nat.eqb e e' && Nat.eqb m m'
      | _, _ => false
      end
  | _, _ => false
  end.

Definition dict_mem (acc : list (value * value)) (k : value) : bool :=
  existsb (fun p => keq (fst p) k) acc.

(* d[k] = v on an insertion-ordered dict: an equal key keeps its place (and the
   key object first inserted), its value is replaced                          *)
Fixpoint dict_replace (acc : list (value * value)) (k v : value) : list (value * value) :=
  match acc with
  | [] => []
  | (k0, v0) :: r => if keq k0 k then (k0, v) :: r else (k0, v0) :: dict_replace r k v
  end.
Definition dict_set (acc : list (value * value)) (k v : value) : list (value * value) :=
  if dict_mem acc k then dict_replace acc k v else acc ++ [(k, v)].

Fixpoint dict_get (ps : list (value * value)) (k : value) : option value :=
  match ps with
  | [] => None
  | (k0, v0) :: r => if keq k0 k then Some v0 else dict_get r k
  end.

(* Python == between values (Choices.check is `value == choice`): numbers across
   int / float / bool, nan differs from itself, lists element by element, dicts as
   maps, a str is never a Path, configurations by identity                        *)
Definition nan_bits : Z := 9221120237041090560.
Fixpoint pyeq (a b : value) {struct a} : bool :=
  match a, b with
  | VList l, VList l' =>
      (fix go (l l' : list value) : bool :=
         match l, l' with
         | [], [] => true
         | x :: r, y :: r' => pyeq x y && go r r'
         | _, _ => false
         end) l l'
  | VDict ps, VDict ps' =>
      Nat.eqb (List.length ps) (List.length ps') &&
      (fix all (ps : list (value * value)) : bool :=
         match ps with
         | [] => true
         | (k, v) :: r =>
             (fix find (qs : list (value * value)) : bool :=
                match qs with
                | [] => false
                | (k', v') :: r' => (keq k k' && pyeq v v') || find r'
                end) ps' && all r
         end) ps
  | VObj o _ _, VObj o' _ _ => Nat.eqb o o'
  | VFloat (FFrac x), VFloat (FFrac y) => (x =? y) && negb (x =? nan_bits)
  | _, _ => keq a b
  end.

(* Checker.check(value); a check that raises (len() of a number) refuses *)
Definition check_ok (ck : option checker) (v : value) : bool :=
  match ck with
  | None => true
  | Some (CChoices cs) => existsb (pyeq v) cs
  | Some CNonEmpty =>
      match v with
      | VList l => negb (Nat.eqb (List.length l) 0)
      | VDict ps => negb (Nat.eqb (List.length ps) 0)
      | VStr s => negb (String.eqb s "")
      | _ => false
      end
  end.

Fixpoint map_res {A B} (f : A -> result B) (l : list A) : result (list B) :=
  match l with
  | [] => Ok []
  | x :: r =>
      match f x with
      | Err => Err
      | Ok y => match map_res f r with Err => Err | Ok ys => Ok (y :: ys) end
      end
  end.

(* { kt.validate(k): vt.validate(v) for k, v in value.items() } *)
Fixpoint dict_build (fk fv : value -> result value) (ps acc : list (value * value))
  : result (list (value * value)) :=
  match ps with
  | [] => Ok acc
  | (k, v) :: r =>
      match fk k with
      | Err => Err
      | Ok k' =>
          match fv v with
          | Err => Err
          | Ok v' => dict_build fk fv r (dict_set acc k' v')
          end
      end
  end.

(* ----------------------------------------------------------- Type.validate *)
Fixpoint validate_gen (none_ok : bool) (cl : classes) (t : tyexp) (v : value) : result value :=
  match t with
  | TInt =>                                   (* IntType.validate *)
      match v with
      | VFloat (FInt z) => Ok (VInt z)        (* math.modf: integral float -> int *)
      | VFloat (FFrac _) => Err               (* TypeError; OverflowError for inf *)
      | VInt z => Ok (VInt z)
      | VBool b => Ok (VBool b)               (* isinstance(True, int) *)
      | _ => Err
      end
  | TFloat =>                                 (* FloatType.validate: float(value) *)
      match v with
      | VFloat f => Ok (VFloat f)
      | VInt z => Ok (VFloat (FInt z))
      | VBool b => Ok (VFloat (FInt (if b then 1 else 0)))
      | _ => Err
      end
  | TBool =>                                  (* BoolType.validate *)
      if none_ok then Ok (VBool (truthy v))   (* literal: bool(value), for ANY value *)
      else match v with VBool b => Ok (VBool b) | _ => Err end   (* repaired (fixes/C15-5) *)
  | TStr => match v with VStr s => Ok (VStr s) | _ => Err end
  | TPath =>                                  (* PathType.validate *)
      match v with
      | VDict ps =>
          match dict_get ps (VStr "$type") with
          | Some (VStr tag) =>
              if String.eqb tag "path" then
                match dict_get ps (VStr "$value") with
                | Some (VStr s) => Ok (VPath (path_norm s))
                | Some (VPath s) => Ok (VPath s)
                | _ => Err                    (* Path(None), Path(3): TypeError *)
                end
              else Err
          | _ => Err
          end
      | VStr s => Ok (VPath (path_norm s))
      | VPath s => Ok (VPath s)
      | _ => Err
      end
  | TEnum e =>                                (* EnumType.validate: assert isinstance *)
      match v with
      | VEnum e' m => if Nat.eqb e' e then Ok (VEnum e' m) else Err
      | _ => Err
      end
  | TList t' =>                               (* ArrayType.validate *)
      match v with
      | VList l =>
          match map_res (validate_gen none_ok cl t') l with
          | Ok l' => Ok (VList l')
          | Err => Err
          end
      | _ => Err
      end
  | TDict tk tv =>                            (* DictType.validate *)
      match v with
      | VDict ps =>
          match dict_build (validate_gen none_ok cl tk) (validate_gen none_ok cl tv) ps [] with
          | Ok ps' => Ok (VDict ps')
          | Err => Err
          end
      | _ => Err
      end
  | TObj c =>                                 (* ObjectType.validate *)
      match v with
      | VNone => if none_ok then Ok VNone else Err
      | VObj o c' sub =>
          if subclass cl c' c then
            if class_task cl c && negb sub then Err   (* "must be submitted before giving it" *)
            else Ok (VObj o c' sub)
          else Err
      | _ => Err
      end
  end.

Definition validate := validate_gen false.          (* repaired (fixes/C15-3, fixes/C15-5) *)
Definition validate_prefix := validate_gen true.    (* literal, pinned commit *)

(* "v is an instance of the declared type" (Python isinstance semantics: a bool
   is an int; a dict has pairwise different keys)                             *)
Fixpoint distinct_keys (ks : list value) : Prop :=
  match ks with
  | [] => True
  | k :: r => (forall k', In k' r -> keq k k' = false) /\ distinct_keys r
  end.

Fixpoint ht (cl : classes) (t : tyexp) (v : value) : Prop :=
  match t with
  | TInt => match v with VInt _ | VBool _ => True | _ => False end
  | TFloat => match v with VFloat _ => True | _ => False end
  | TBool => match v with VBool _ => True | _ => False end
  | TStr => match v with VStr _ => True | _ => False end
  | TPath => match v with VPath _ => True | _ => False end
  | TEnum e => match v with VEnum e' _ => e' = e | _ => False end
  | TList t' => match v with VList l => Forall (ht cl t') l | _ => False end
  | TDict tk tv =>
      match v with
      | VDict ps =>
          Forall (fun p => ht cl tk (fst p) /\ ht cl tv (snd p)) ps /\ distinct_keys (map fst ps)
      | _ => False
      end
  | TObj c =>
      match v with
      | VObj _ c' sub => subclass cl c' c = true /\ (class_task cl c = true -> sub = true)
      | _ => False
      end
  end.
Definition has_type (cl : classes) (v : value) (t : tyexp) : Prop := ht cl t v.

(* the documented coercions, at any depth: integral float -> int, int -> float,
   str -> path; everything else must already be of the type                    *)
Fixpoint coerced (cl : classes) (t : tyexp) (v v' : value) : Prop :=
  match t with
  | TInt => (ht cl TInt v /\ v' = v) \/ (exists z, v = VFloat (FInt z) /\ v' = VInt z)
  | TFloat => (ht cl TFloat v /\ v' = v) \/ (exists z, v = VInt z /\ v' = VFloat (FInt z))
  | TPath => (ht cl TPath v /\ v' = v) \/ (exists s, v = VStr s /\ v' = VPath (path_norm s))
  | TList t' => exists l l', v = VList l /\ v' = VList l' /\ Forall2 (coerced cl t') l l'
  | TDict tk tv =>
      exists ps ps', v = VDict ps /\ v' = VDict ps' /\
        Forall2 (fun p p' => coerced cl tk (fst p) (fst p') /\ coerced cl tv (snd p) (snd p')) ps ps' /\
        distinct_keys (map fst ps')
  | _ => ht cl t v /\ v' = v
  end.

(* What validate accepts BESIDE the documented coercions, listed: a value that is
   accepted is the given value up to the documented coercions unless one of these
   occurs somewhere in it (proofs: validate_explained).
   - a bool where a float is expected: float(True) = 1.0 (a bool is an int in Python
     - as for Param[int], which keeps True - and int -> float is documented);
   - a dict where a path is expected: the serialised form {"$type": "path", ...};
   - dict keys that become equal once validated: the entries collapse.            *)
Definition keys_collapse (f : value -> result value) (ks : list value) : Prop :=
  exists ks', Forall2 (fun k k' => f k = Ok k') ks ks' /\ ~ distinct_keys ks'.

Fixpoint odd (cl : classes) (t : tyexp) (v : value) : Prop :=
  match t with
  | TFloat => exists b, v = VBool b
  | TPath => exists ps, v = VDict ps
  | TList t' => exists l, v = VList l /\ Exists (odd cl t') l
  | TDict tk tv =>
      exists ps, v = VDict ps /\
        (Exists (fun p => odd cl tk (fst p) \/ odd cl tv (snd p)) ps \/
         keys_collapse (validate cl tk) (map fst ps))
  | _ => False
  end.

(* ------------------------------------------------- ConfigInformation.set/get *)
Definition is_none (v : value) : bool := match v with VNone => true | _ => false end.

(* Argument.validate: the type coerces, THEN the checker (if any) looks at the coerced
   value; what is returned (and stored) is the coerced value                        *)
Definition arg_validate_gen (none_ok : bool) (cl : classes) (d : argdecl) (v : value) : result value :=
  match validate_gen none_ok cl (a_ty d) v with
  | Ok v' => if check_ok (a_checker d) v' then Ok v' else Err
  | Err => Err
  end.
Definition arg_validate := arg_validate_gen false.

(* the value that set() stores, or Err when it raises.  None: refused when the
   parameter is required, and (repaired, fixes/C15-7) when it is not declared Optional -
   a default does not make None a value of the parameter - unless set() is called by
   the library itself (bypass: construction, loading); literal code (none_ok): only
   the required test                                                                *)
Definition assign_gen (none_ok : bool) (cl : classes) (d : argdecl) (sealed bypass : bool) (v : value)
  : result value :=
  if sealed && negb bypass then Err                                   (* read-only *)
  else if negb bypass && (a_generated d || a_constant d) then Err     (* read-only property *)
  else if is_none v then
    (if a_required d then Err
     else if negb none_ok && negb bypass && negb (a_optional d) then Err
     else Ok VNone)
  else arg_validate_gen none_ok cl d v.
Definition assign := assign_gen false.
Definition assign_prefix := assign_gen true.

(* what a parameter may hold *)
Definition arg_has_type (cl : classes) (d : argdecl) (v : value) : Prop :=
  (v = VNone /\ a_required d = false) \/ has_type cl v (a_ty d).

(* configuration objects *)
Record node := {
  n_cls : nat;
  n_fields : list (nat * value);   (* .values: argument position -> value (absent = never set) *)
  n_pre : list nat;                (* pre-tasks *)
  n_init : list nat;               (* init tasks (set by submit on the submitted task) *)
  n_sealed : bool
}.
Definition heap := list node.

Fixpoint get_field (fs : list (nat * value)) (k : nat) : option value :=
  match fs with
  | [] => None
  | (k0, v0) :: r => if Nat.eqb k0 k then Some v0 else get_field r k
  end.
Fixpoint set_field (fs : list (nat * value)) (k : nat) (v : value) : list (nat * value) :=
  match fs with
  | [] => [(k, v)]
  | (k0, v0) :: r => if Nat.eqb k0 k then (k0, v) :: r else (k0, v0) :: set_field r k v
  end.

Inductive outcome := Stored | Raised | NotAnArgument.

(* config.k = v  (k: position of a declared argument of the node's class) *)
Definition cfg_set (cl : classes) (n : node) (k : nat) (v : value) : node * outcome :=
  match nth_error (class_args cl (n_cls n)) k with
  | None => (n, NotAnArgument)
  | Some d =>
      match assign cl d (n_sealed n) false v with
      | Err => (n, Raised)
      | Ok v' =>
          ({| n_cls := n_cls n; n_fields := set_field (n_fields n) k v';
              n_pre := n_pre n; n_init := n_init n; n_sealed := n_sealed n |}, Stored)
      end
  end.
Definition cfg_get (n : node) (k : nat) : option value := get_field (n_fields n) k.

(* ------------------------------------- declared defaults / TypeConfig.__init__ *)
(* ObjectType.addArgument: `argument.type.validate(argument.default)` when a default is
   declared - the result is thrown away (Argument.default keeps the value as written),
   a default the type refuses makes the class unusable                               *)
Definition default_accepted (cl : classes) (d : argdecl) (default : option value) : bool :=
  match default with
  | None => true
  | Some dv => match validate cl (a_ty d) dv with Ok _ => true | Err => false end
  end.

Definition with_checker (d : argdecl) (ck : option checker) : argdecl :=
  {| a_ty := a_ty d; a_required := a_required d; a_generated := a_generated d; a_constant := a_constant d;
     a_optional := a_optional d; a_checker := ck |}.

Definition declare_default (cl : classes) (a : annot) (default : option value) : option argdecl :=
  match declare a (match default with Some _ => true | None => false end) with
  | Some d => if default_accepted cl d default then Some d else None
  | None => None
  end.

(* TypeConfig.__init__, first loop: every argument that is not among the keywords
   (`skip`) gets its declared default THROUGH set(..., bypass=True) - so the value held
   is the validated (coerced) one, not the value as written - or None when it is not
   required; a required argument without default gets no entry.  `defs` is the row of
   declared defaults, by argument position; `i` is the position of the head of `ds`.  *)
Fixpoint init_fields (cl : classes) (ds : list argdecl) (defs : list (option value)) (i : nat)
                     (skip : list nat) : result (list (nat * value)) :=
  match ds with
  | [] => Ok []
  | d :: r =>
      match init_fields cl r (tl defs) (S i) skip with
      | Err => Err
      | Ok fs =>
          if existsb (Nat.eqb i) skip then Ok fs
          else
            match hd None defs with
            | Some dv =>
                match assign cl d false true dv with
                | Ok x => Ok ((i, x) :: fs)
                | Err => Err
                end
            | None => if a_required d then Ok fs else Ok ((i, VNone) :: fs)
            end
      end
  end.

(* second loop: the keywords, through set() (no bypass), in order *)
Fixpoint set_all (cl : classes) (n : node) (kw : list (nat * value)) : result node :=
  match kw with
  | [] => Ok n
  | (k, v) :: r =>
      match cfg_set cl n k v with
      | (n', Stored) => set_all cl n' r
      | _ => Err
      end
  end.

(* C(k1=v1, ...) for class c whose declared defaults are defs *)
Definition cfg_new (cl : classes) (defs : list (option value)) (c : nat) (kw : list (nat * value))
  : result node :=
  match init_fields cl (class_args cl c) defs 0 (map fst kw) with
  | Err => Err
  | Ok fs => set_all cl {| n_cls := c; n_fields := fs; n_pre := []; n_init := []; n_sealed := false |} kw
  end.

(* "every parameter of the configuration holds a value of its declared type" *)
Definition fields_typed (cl : classes) (n : node) : Prop :=
  forall i d v, nth_error (class_args cl (n_cls n)) i = Some d -> cfg_get n i = Some v ->
                arg_has_type cl d v.

(* -------------------------------------------- ConfigInformation.validate *)
(* Configurations found in a value.  Repaired code (fixes/C15-1): directly, as
   list elements and as dict values, at any depth.  Pinned commit: directly only. *)
Fixpoint objs (v : value) : list nat :=
  match v with
  | VObj o _ _ => [o]
  | VList l => flat_map objs l
  | VDict ps => flat_map (fun p => objs (snd p)) ps
  | _ => []
  end.
Definition objs_prefix (v : value) : list nat :=
  match v with VObj o _ _ => [o] | _ => [] end.

(* What validate() does at one node, in order: per declared argument either
   descend into the configurations of its value or raise because it is required,
   has no generator and has no value; then the pre-tasks; then the init tasks.   *)
Inductive action := AFail | AVisit (m : nat).

Definition arg_actions (ob : value -> list nat) (d : argdecl) (fv : option value) : list action :=
  match fv with
  | Some v =>
      if is_none v then (if a_required d && negb (a_generated d) then [AFail] else [])
      else map AVisit (ob v)
  | None => if a_required d && negb (a_generated d) then [AFail] else []
  end.

Fixpoint args_actions (ob : value -> list nat) (ds : list argdecl) (fs : list (nat * value)) (i : nat)
  : list action :=
  match ds with
  | [] => []
  | d :: r => arg_actions ob d (get_field fs i) ++ args_actions ob r fs (S i)
  end.

Definition node_actions (ob : value -> list nat) (cl : classes) (n : node) : list action :=
  args_actions ob (class_args cl (n_cls n)) (n_fields n) 0
  ++ map AVisit (n_pre n) ++ map AVisit (n_init n).

Definition actions_of (ob : value -> list nat) (cl : classes) (h : heap) (m : nat) : list action :=
  match nth_error h m with Some n => node_actions ob cl n | None => [] end.

Definition mem (x : nat) (l : list nat) : bool := existsb (Nat.eqb x) l.

(* The recursive validate(), with the recursion stack made explicit: `todo` is
   what remains to be done (an exception aborts everything, results are not
   used, so the two are the same computation).  `vis` is the set of nodes whose
   _validated mark is set; the mark is set BEFORE the node is examined.         *)
Inductive vres := VOk (vis : list nat) | VErr (vis : list nat).

Fixpoint run (ob : value -> list nat) (cl : classes) (h : heap)
             (fuel : nat) (vis : list nat) (todo : list action) : option vres :=
  match fuel with
  | O => None
  | S f =>
      match todo with
      | [] => Some (VOk vis)
      | AFail :: _ => Some (VErr vis)
      | AVisit m :: rest =>
          if mem m vis then run ob cl h f vis rest
          else run ob cl h f (m :: vis) (actions_of ob cl h m ++ rest)
      end
  end.

(* The same method as it is written, recursive (fuel bounds the recursion depth);
   proofs/Types_lemmas.v shows that whatever it answers, `run` answers.          *)
Fixpoint validate_rec (ob : value -> list nat) (cl : classes) (h : heap)
                      (fuel : nat) (vis : list nat) (m : nat) : option vres :=
  match fuel with
  | O => None
  | S f =>
      if mem m vis then Some (VOk vis)                       (* if not self._validated: *)
      else
        (fix go (acts : list action) (vis : list nat) : option vres :=
           match acts with
           | [] => Some (VOk vis)
           | AFail :: _ => Some (VErr vis)                   (* raise ValueError *)
           | AVisit k :: r =>
               match validate_rec ob cl h f vis k with       (* value.__xpm__.validate() *)
               | Some (VOk vis') => go r vis'
               | other => other
               end
           end) (actions_of ob cl h m) (m :: vis)            (* self._validated = True *)
  end.

(* enough fuel: one step per pending action *)
Fixpoint total_actions (ob : value -> list nat) (cl : classes) (h : heap) : nat :=
  match h with
  | [] => O
  | n :: r => S (List.length (node_actions ob cl n)) + total_actions ob cl r
  end.
Definition fuel_for (ob : value -> list nat) (cl : classes) (h : heap) : nat :=
  S (S (total_actions ob cl h)).

(* repaired: the walk has its own visited set (fixes/C15-2), lists and dicts are walked *)
Definition cfg_validate (cl : classes) (h : heap) (root : nat) : option vres :=
  run objs cl h (fuel_for objs cl h) [] [AVisit root].
(* pinned commit: marks persist between calls, lists and dicts are skipped *)
Definition cfg_validate_prefix (cl : classes) (h : heap) (marks : list nat) (root : nat) : option vres :=
  run objs_prefix cl h (fuel_for objs_prefix cl h) marks [AVisit root].

(* ------------------------------------------------------------ submit *)
Inductive verdict := Accepted | Rejected | OutOfFuel.

(* submit: validate, then (and only then) register the job *)
Definition submit (cl : classes) (h : heap) (registry : list nat) (root : nat) : list nat * verdict :=
  match cfg_validate cl h root with
  | Some (VOk _) => (registry ++ [root], Accepted)
  | Some (VErr _) => (registry, Rejected)
  | None => (registry, OutOfFuel)
  end.

(* pinned commit: state = (marks, registry) *)
Definition submit_prefix (cl : classes) (h : heap) (st : list nat * list nat) (root : nat)
  : (list nat * list nat) * verdict :=
  match cfg_validate_prefix cl h (fst st) root with
  | Some (VOk vis) => ((vis, snd st ++ [root]), Accepted)
  | Some (VErr vis) => ((vis, snd st), Rejected)
  | None => (st, OutOfFuel)
  end.

(* what the statements talk about *)
Definition lacks_required (cl : classes) (h : heap) (m : nat) : Prop :=
  exists n i d,
    nth_error h m = Some n /\ nth_error (class_args cl (n_cls n)) i = Some d /\
    a_required d = true /\ a_generated d = false /\
    (get_field (n_fields n) i = None \/ get_field (n_fields n) i = Some VNone).

Definition cfg_edge (ob : value -> list nat) (cl : classes) (h : heap) (a b : nat) : Prop :=
  exists n, nth_error h a = Some n /\
    ((exists i d v, nth_error (class_args cl (n_cls n)) i = Some d /\
                    get_field (n_fields n) i = Some v /\ In b (ob v))
     \/ In b (n_pre n) \/ In b (n_init n)).

Inductive reach (ob : value -> list nat) (cl : classes) (h : heap) : nat -> nat -> Prop :=
| reach_refl : forall a, reach ob cl h a a
| reach_step : forall a b c, reach ob cl h a b -> cfg_edge ob cl h b c -> reach ob cl h a c.

(* ------------------------------------------------ sessions: histories of operations *)
(* What a script does with a set of configuration objects: assignments, submits and
   validations in any order.  The job flag of an object (`__xpm__.job`) is set by its
   own submit BEFORE validation (literal code: and stays set when validation raises;
   repaired: it is dropped again); it is what ObjectType.validate looks at ("must be submitted before giving it") when a task is
   given as a parameter value - and it plays no role in the validation walk: a task
   that "has a job" is walked like any other configuration.                          *)
Record session := {
  s_heap : heap;
  s_jobs : list nat;       (* objects whose __xpm__.job is set *)
  s_reg : list nat         (* jobs registered in the scheduler, in order *)
}.

Inductive op :=
| OSubmit (root : nat) (init : list nat)      (* root.submit(init_tasks=init) *)
| OValidate (root : nat)                      (* root.__xpm__.validate() *)
| OSet (m k : nat) (v : value)                (* m.<k-th argument> = v *)
| OInstance (root : nat).                     (* root.instance(): validate, seal, build the instance *)

(* the value as ObjectType.validate sees it: the "has a job" flag is read off the
   objects at the time of the assignment                                            *)
Fixpoint stamp (jobs : list nat) (v : value) : value :=
  match v with
  | VObj o c _ => VObj o c (mem o jobs)
  | VList l => VList (map (stamp jobs) l)
  | VDict ps => VDict (map (fun p => let '(a, b) := p in (stamp jobs a, stamp jobs b)) ps)
  | _ => v
  end.

Fixpoint upd_nth {A : Type} (l : list A) (i : nat) (x : A) : list A :=
  match l, i with
  | [], _ => []
  | _ :: r, O => x :: r
  | y :: r, S j => y :: upd_nth r j x
  end.

Definition set_init (n : node) (init : list nat) : node :=
  {| n_cls := n_cls n; n_fields := n_fields n; n_pre := n_pre n; n_init := init; n_sealed := n_sealed n |}.

(* sealing: every configuration the walk went through becomes read-only.  The flag only
   matters to set(): EVERY validation walks sealed configurations like the others - sealed
   does not mean validated: load_objects seals what it loads without validating it, and a
   task sealed by instance() gets its init tasks afterwards, at submit                   *)
Definition with_sealed (n : node) (b : bool) : node :=
  {| n_cls := n_cls n; n_fields := n_fields n; n_pre := n_pre n; n_init := n_init n; n_sealed := b |}.
Fixpoint seal_from (i : nat) (vis : list nat) (h : heap) : heap :=
  match h with
  | [] => []
  | n :: r => (if mem i vis then with_sealed n true else n) :: seal_from (S i) vis r
  end.
Definition seal_nodes (vis : list nat) (h : heap) : heap := seal_from 0 vis h.
Definition seal_session (s : session) (vis : list nat) : session :=
  {| s_heap := seal_nodes vis (s_heap s); s_jobs := s_jobs s; s_reg := s_reg s |}.

(* submit, step by step.  The states the objects and the scheduler go through:
     s --[init tasks set, job created]--> s1 --[validation]--> sealed --> registered
                                             \--[validation raises]--> rolled back
   `rollback = true` is the repaired code (fixes/C15-4): when validation raises, the
   job is dropped and the init tasks are restored; `rollback = false` is the code as
   it is at 5d2cab3: the job (and the init tasks) stay.  Registration is a step of
   its own, taken only after validation answered VOk.                              *)
Definition begin_submit (s : session) (root : nat) (n : node) (init : list nat) : session :=
  {| s_heap := upd_nth (s_heap s) root (set_init n init);      (* self.init_tasks = init_tasks *)
     s_jobs := root :: s_jobs s;                               (* self.job = self.xpmtype.task(...) *)
     s_reg := s_reg s |}.
Definition register (s : session) (root : nat) : session :=      (* experiment.CURRENT.submit(self.job) *)
  {| s_heap := s_heap s; s_jobs := s_jobs s; s_reg := s_reg s ++ [root] |}.

Definition submit_trace (rollback : bool) (cl : classes) (s : session) (root : nat) (init : list nat)
  : list session * verdict :=
  match nth_error (s_heap s) root with
  | None => ([], Rejected)
  | Some n =>
      if mem root (s_jobs s) || negb (class_task cl (n_cls n))
      then ([], Rejected)                       (* "already submitted" / "is not a task" *)
      else
        let s1 := begin_submit s root n init in
        match cfg_validate cl (s_heap s1) root with
        | Some (VOk vis) => ([s1; seal_session s1 vis; register (seal_session s1 vis) root], Accepted)
        | Some (VErr _) => ([s1; if rollback then s else s1], Rejected)
        | None => ([s1], OutOfFuel)
        end
  end.

(* one operation; the verdict is Rejected when the call raises *)
Definition sess_step_gen (rollback : bool) (cl : classes) (s : session) (o : op) : session * verdict :=
  match o with
  | OSubmit root init =>
      let '(tr, v) := submit_trace rollback cl s root init in (last tr s, v)
  | OValidate root =>
      (s, match cfg_validate cl (s_heap s) root with
          | Some (VOk _) => Accepted
          | Some (VErr _) => Rejected
          | None => OutOfFuel
          end)
  | OSet m k v =>
      match nth_error (s_heap s) m with
      | None => (s, Rejected)
      | Some n =>
          let '(n', r) := cfg_set cl n k (stamp (s_jobs s) v) in
          match r with
          | Stored => ({| s_heap := upd_nth (s_heap s) m n'; s_jobs := s_jobs s; s_reg := s_reg s |}, Accepted)
          | _ => (s, Rejected)
          end
      end
  | OInstance root =>                           (* fromConfig: self.validate(); self.seal(context) *)
      match cfg_validate cl (s_heap s) root with
      | Some (VOk vis) => (seal_session s vis, Accepted)
      | Some (VErr _) => (s, Rejected)
      | None => (s, OutOfFuel)
      end
  end.
Definition sess_step := sess_step_gen true.            (* repaired (fixes/C15-4) *)
Definition sess_step_prefix := sess_step_gen false.    (* literal *)

Fixpoint sess_run (cl : classes) (s : session) (ops : list op) : session :=
  match ops with
  | [] => s
  | o :: r => sess_run cl (fst (sess_step cl s o)) r
  end.

Definition heap_typed (cl : classes) (h : heap) : Prop :=
  forall m n, nth_error h m = Some n -> fields_typed cl n.
