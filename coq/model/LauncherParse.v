(* Character-level model of the textual requirement grammar of experimaestro/launcherfinder/parser.py (C18):
   what `parse(text)` does with a string -- the arpeggio PEG, element by element -- and what the visitor builds.
   Definitions only: proofs live in proofs/LauncherParse_lemmas.v.

     mem_spec   = 'mem' '=' /\d+(G|M)?/            cores_spec = 'cores' '=' /\d+/
     multiplier = '*' /\d+/
     cuda_specs = OneOrMore(mem_spec, sep=',')      (ZeroOrMore before fixes/C18-2)
     cuda       = 'cuda' '(' cuda_specs ')' Optional(multiplier)
     cpu_specs  = OneOrMore(mem_spec / cores_spec, sep=',')
     cpu        = 'cpu' '(' cpu_specs ')'
     duration   = 'duration' '=' /\d+/ /h(ours)?|d(ays)?/
     one_spec   = OneOrMore(duration / cuda / cpu, sep='&')
     grammar    = OneOrMore(one_spec, sep='|') EOF

   arpeggio: every terminal skips the white characters tab, newline, carriage return, space before it tries to
   match; a string terminal has no word boundary; a regular expression is matched at the position (greedy,
   nothing skipped inside); `/` is ordered choice with backtracking; a repetition with separator stops -- and
   goes back to before the separator -- at the first round that does not match; EOF wants the end of the input.
   The visitor: the last `mem` / `cores` of a term wins (dict.update), `cuda(..) * n` is cuda_gpu(..) * int(n),
   the terms of an alternative are combined with & from left to right.  The result is an expression of
   model/Launcher.v (list of alternatives, each a list of terms) whose meaning is `sem_expr`.

   Trusted about humanfriendly: parse_size(digits) = that many bytes, parse_size(digits G) = digits * 10^9,
   parse_size(digits M) = digits * 10^6 (decimal units), parse_timespan(n h | n hours) = n * 3600,
   parse_timespan(n d | n days) = n * 86400; int() of a digit string is its decimal value.  These are the
   unit tables `mem_bytes` and `sem_term` of model/Launcher.v.  Digits are the ASCII digits.               *)
From Coq Require Import ZArith NArith List Bool.
From XV Require Import model.Launcher.
Import ListNotations.

Definition chr := N.
Definition text := list N.

Local Open Scope N_scope.

(* ---- characters ---------------------------------------------------------- *)
Definition is_ws (c : N) : bool := (c =? 32) || (c =? 10) || (c =? 9) || (c =? 13).
Definition is_digit (c : N) : bool := (48 <=? c) && (c <=? 57).

Definition k_mem : text := [109; 101; 109].
Definition k_cores : text := [99; 111; 114; 101; 115].
Definition k_cuda : text := [99; 117; 100; 97].
Definition k_cpu : text := [99; 112; 117].
Definition k_duration : text := [100; 117; 114; 97; 116; 105; 111; 110].
Definition k_ours : text := [111; 117; 114; 115].       (* after h *)
Definition k_ays : text := [97; 121; 115].              (* after d *)

Fixpoint skip (s : text) : text :=
  match s with
  | c :: s' => if is_ws c then skip s' else s
  | [] => []
  end.

Fixpoint strip_prefix (w s : text) : option text :=
  match w, s with
  | [], _ => Some s
  | a :: w', b :: s' => if a =? b then strip_prefix w' s' else None
  | _ :: _, [] => None
  end.

(* a string terminal *)
Definition lit (w : text) (s : text) : option text := strip_prefix w (skip s).

(* /\d+/ at the position: the digits and what follows *)
Fixpoint take_digits (s : text) : text * text :=
  match s with
  | c :: s' => if is_digit c then let '(d, r) := take_digits s' in (c :: d, r) else ([], s)
  | [] => ([], [])
  end.

(* int(digits) *)
Definition num_of (ds : text) : Z :=
  fold_left (fun a d => (a * 10 + (Z.of_N d - 48))%Z) ds 0%Z.

Definition p_number (s : text) : option (Z * text) :=
  let '(ds, r) := take_digits (skip s) in
  match ds with [] => None | _ => Some (num_of ds, r) end.

(* /\d+(G|M)?/ *)
Definition p_size (s : text) : option (Z * munit * text) :=
  match p_number s with
  | Some (n, r) =>
      match r with
      | 71 :: r' => Some (n, UG, r')
      | 77 :: r' => Some (n, UM, r')
      | _ => Some (n, UNone, r)
      end
  | None => None
  end.

Definition p_mem (s : text) : option (item * text) :=
  match lit k_mem s with
  | Some s1 => match lit [61] s1 with
               | Some s2 => match p_size s2 with
                            | Some (n, u, r) => Some (IMem n u, r)
                            | None => None
                            end
               | None => None
               end
  | None => None
  end.

Definition p_cores (s : text) : option (item * text) :=
  match lit k_cores s with
  | Some s1 => match lit [61] s1 with
               | Some s2 => match p_number s2 with
                            | Some (n, r) => Some (ICores n, r)
                            | None => None
                            end
               | None => None
               end
  | None => None
  end.

(* mem_spec / cores_spec *)
Definition p_cpu_item (s : text) : option (item * text) :=
  match p_mem s with Some x => Some x | None => p_cores s end.

Section Items.
  Variable p_item : text -> option (item * text).

  (* the rounds after the first one: ',' item -- back to before the comma when the item does not match *)
  Fixpoint more_items (fuel : nat) (s : text) : list item * text :=
    match fuel with
    | O => ([], s)
    | S f =>
        match lit [44] s with
        | Some s1 => match p_item s1 with
                     | Some (it, s2) => let '(l, s3) := more_items f s2 in (it :: l, s3)
                     | None => ([], s)
                     end
        | None => ([], s)
        end
    end.

  (* ZeroOrMore(item, sep=','): possibly nothing *)
  Definition p_items (s : text) : list item * text :=
    match p_item s with
    | Some (it, s1) => let '(l, s2) := more_items (length s1) s1 in (it :: l, s2)
    | None => ([], s)
    end.
End Items.

(* Optional('*' /\d+/): None when absent (also when the digits are missing: back to before the star) *)
Definition p_mult (s : text) : option Z * text :=
  match lit [42] s with
  | Some s1 => match p_number s1 with
               | Some (n, r) => (Some n, r)
               | None => (None, s)
               end
  | None => (None, s)
  end.

(* what a term rule answers.  arpeggio takes a result without any element for "no match" but goes on from
   the position after it (TEmpty): this only happens with empty brackets, i.e. before fixes/C18-2 *)
Inductive tres := TFail | TEmpty (rest : text) | TOk (t : term) (rest : text).

Section Grammar.
  Variable strict : bool.      (* true: the specs are OneOrMore (fixes/C18-2); false: ZeroOrMore, literally *)

  Definition p_cuda (s : text) : tres :=
    match lit k_cuda s with
    | Some s1 =>
        match lit [40] s1 with
        | Some s2 =>
            let '(its, s3) := p_items p_mem s2 in
            match lit [41] s3 with
            | Some s4 =>
                let '(m, s5) := p_mult s4 in
                match its, m with
                | [], None => if strict then TFail else TEmpty s5
                | [], Some _ => TFail     (* not strict: visit_cuda raises TypeError, the text is rejected *)
                | _ :: _, _ => TOk (TCuda its m) s5
                end
            | None => TFail
            end
        | None => TFail
        end
    | None => TFail
    end.

  Definition p_cpu (s : text) : tres :=
    match lit k_cpu s with
    | Some s1 =>
        match lit [40] s1 with
        | Some s2 =>
            let '(its, s3) := p_items p_cpu_item s2 in
            match lit [41] s3 with
            | Some s4 => match its with
                         | [] => if strict then TFail else TEmpty s4
                         | _ :: _ => TOk (TCpu its) s4
                         end
            | None => TFail
            end
        | None => TFail
        end
    | None => TFail
    end.

  (* 'duration' '=' /\d+/ /h(ours)?|d(ays)?/ *)
  Definition p_unit (s : text) : option (dunit * text) :=
    match skip s with
    | 104 :: r => match strip_prefix k_ours r with Some r' => Some (DH, r') | None => Some (DH, r) end
    | 100 :: r => match strip_prefix k_ays r with Some r' => Some (DD, r') | None => Some (DD, r) end
    | _ => None
    end.
  Definition p_duration (s : text) : tres :=
    match lit k_duration s with
    | Some s1 => match lit [61] s1 with
                 | Some s2 => match p_number s2 with
                              | Some (n, s3) => match p_unit s3 with
                                                | Some (u, s4) => TOk (TDuration n u) s4
                                                | None => TFail
                                                end
                              | None => TFail
                              end
                 | None => TFail
                 end
    | None => TFail
    end.

  (* duration / cuda / cpu : the next alternative is tried from the same place after a failure, from AFTER an
     empty result *)
  Definition p_term (s : text) : option (term * text) :=
    match p_duration s with
    | TOk t r => Some (t, r)
    | _ =>
        match p_cuda s with
        | TOk t r => Some (t, r)
        | TFail => match p_cpu s with TOk t r => Some (t, r) | _ => None end
        | TEmpty s' => match p_cpu s' with TOk t r => Some (t, r) | _ => None end
        end
    end.

  Fixpoint more_terms (fuel : nat) (s : text) : list term * text :=
    match fuel with
    | O => ([], s)
    | S f =>
        match lit [38] s with
        | Some s1 => match p_term s1 with
                     | Some (t, s2) => let '(l, s3) := more_terms f s2 in (t :: l, s3)
                     | None => ([], s)
                     end
        | None => ([], s)
        end
    end.
  (* one_spec = OneOrMore(term, sep='&') *)
  Definition p_spec (s : text) : option (list term * text) :=
    match p_term s with
    | Some (t, s1) => let '(l, s2) := more_terms (length s1) s1 in Some (t :: l, s2)
    | None => None
    end.

  Fixpoint more_specs (fuel : nat) (s : text) : list (list term) * text :=
    match fuel with
    | O => ([], s)
    | S f =>
        match lit [124] s with
        | Some s1 => match p_spec s1 with
                     | Some (ts, s2) => let '(l, s3) := more_specs f s2 in (ts :: l, s3)
                     | None => ([], s)
                     end
        | None => ([], s)
        end
    end.

  (* parse(text): None = it raises (NoMatch, or TypeError in the visitor) *)
  Definition parse_with (s : text) : option (list (list term)) :=
    match p_spec s with
    | Some (ts, s1) =>
        let '(l, s2) := more_specs (length s1) s1 in
        match skip s2 with
        | [] => Some (ts :: l)
        | _ :: _ => None
        end
    | None => None
    end.
End Grammar.

Definition parse_req : text -> option (list (list term)) := parse_with true.
(* the grammar before fixes/C18-2, literally *)
Definition parse_req_prefix : text -> option (list (list term)) := parse_with false.

(* the requirements a text stands for *)
Definition text_reqs (s : text) : option (list req) :=
  match parse_req s with Some e => Some (sem_expr e) | None => None end.

(* ---- a canonical way of writing an expression ----------------------------- *)
Local Open Scope Z_scope.
(* decimal digits, least significant first *)
Fixpoint rdigits (fuel : nat) (n : Z) : text :=
  match fuel with
  | O => []
  | S f => Z.to_N (48 + n mod 10) :: (if n <? 10 then [] else rdigits f (n / 10))
  end.
Definition pr_num (n : Z) : text := rev (rdigits (S (Z.to_nat (Z.log2 n))) n).

Local Open Scope N_scope.
Definition pr_item (it : item) : text :=
  match it with
  | IMem n u => k_mem ++ [61] ++ pr_num n ++ match u with UNone => [] | UG => [71] | UM => [77] end
  | ICores n => k_cores ++ [61] ++ pr_num n
  end.
Fixpoint pr_more_items (l : list item) : text :=
  match l with [] => [] | it :: l' => 44 :: 32 :: pr_item it ++ pr_more_items l' end.
Definition pr_items (l : list item) : text :=
  match l with [] => [] | it :: l' => pr_item it ++ pr_more_items l' end.
Definition pr_term (t : term) : text :=
  match t with
  | TDuration n u => k_duration ++ [61] ++ pr_num n ++ 32 :: match u with DH => [104] | DD => [100] end
  | TCuda its m => k_cuda ++ [40] ++ pr_items its ++ [41]
                   ++ match m with Some c => [32; 42; 32] ++ pr_num c | None => [] end
  | TCpu its => k_cpu ++ [40] ++ pr_items its ++ [41]
  end.
Fixpoint pr_more_terms (l : list term) : text :=
  match l with [] => [] | t :: l' => [32; 38; 32] ++ pr_term t ++ pr_more_terms l' end.
Definition pr_spec (ts : list term) : text :=
  match ts with [] => [] | t :: l => pr_term t ++ pr_more_terms l end.
Fixpoint pr_more_specs (l : list (list term)) : text :=
  match l with [] => [] | ts :: l' => [32; 124; 32] ++ pr_spec ts ++ pr_more_specs l' end.
Definition pr_expr (e : list (list term)) : text :=
  match e with [] => [] | ts :: l => pr_spec ts ++ pr_more_specs l end.

(* what can be written: numbers are not negative, brackets and alternatives are not empty, a cpu(...) holds
   mem= and cores= items, a cuda(...) holds mem= items *)
Local Open Scope Z_scope.
Definition wf_item (cpu : bool) (it : item) : Prop :=
  match it with IMem n _ => 0 <= n | ICores n => cpu = true /\ 0 <= n end.
Definition wf_term (t : term) : Prop :=
  match t with
  | TDuration n _ => 0 <= n
  | TCuda its m => its <> [] /\ Forall (wf_item false) its /\ match m with Some c => 0 <= c | None => True end
  | TCpu its => its <> [] /\ Forall (wf_item true) its
  end.
Definition wf_spec (ts : list term) : Prop := ts <> [] /\ Forall wf_term ts.
Definition wf_expr (e : list (list term)) : Prop := e <> [] /\ Forall wf_spec e.

(* ---- the same expression built programmatically (objects in a store, & and * copying as specs.py does) ---- *)
Definition alloc (st : store) (r : req) : store * robj :=
  ({| s_cpus := s_cpus st ++ [r_cpu r]; s_lists := s_lists st ++ [r_gpus r] |},
   {| o_cpu := length (s_cpus st); o_list := length (s_lists st); o_dur := r_dur r |}).

(* duration(..), cpu(..), cuda_gpu(..) [* count] *)
Definition prog_term (st : store) (t : term) : store * robj :=
  match t with
  | TCuda its (Some c) => let '(st1, g) := alloc st (sem_term (TCuda its None)) in mul_op st1 g c
  | _ => alloc st (sem_term t)
  end.
(* acc & term & term ... *)
Fixpoint prog_rest (st : store) (acc : robj) (ts : list term) : store * robj :=
  match ts with
  | [] => (st, acc)
  | t :: ts' => let '(st1, o) := prog_term st t in
                let '(st2, n) := and_op st1 acc o in
                prog_rest st2 n ts'
  end.
Definition prog_spec (ts : list term) : store * robj :=
  match ts with
  | [] => alloc {| s_cpus := []; s_lists := [] |} empty_req
  | t :: ts' => let '(st1, o) := prog_term {| s_cpus := []; s_lists := [] |} t in prog_rest st1 o ts'
  end.
Definition prog_value (ts : list term) : req := let '(st, o) := prog_spec ts in view st o.
