(* Edits of configuration graphs and class tables, used to state the
   neutrality theorems (C01, C02, C20).  Definitions only.                 *)
From Coq Require Import List Bool Permutation.
From XV Require Import core.Value.
Import ListNotations.

Fixpoint upd_nth {A} (l : list A) (n : nat) (x : A) : list A :=
  match l, n with
  | [], _ => []
  | _ :: l', O => x :: l'
  | y :: l', S n' => y :: upd_nth l' n' x
  end.

Definition with_fields (x : node) (f : list (bytes * value)) : node :=
  {| n_cls := n_cls x; n_fields := f; n_meta := n_meta x; n_task := n_task x; n_pre := n_pre x; n_init := n_init x |}.

Definition with_cls (x : node) (c : nat) : node :=
  {| n_cls := c; n_fields := n_fields x; n_meta := n_meta x; n_task := n_task x; n_pre := n_pre x; n_init := n_init x |}.

(* config.k = v : replaces the stored value, or adds the name *)
Fixpoint set_field (k : bytes) (v : value) (l : list (bytes * value)) : list (bytes * value) :=
  match l with
  | [] => [(k, v)]
  | (k', v') :: l' => if bytes_eqb k k' then (k, v) :: l' else (k', v') :: set_field k v l'
  end.

Definition with_args (c : class) (args : list argdecl) : class := {| c_tid := c_tid c; c_args := args |}.

(* the same value with dict items inserted in another order (at any depth) *)
Inductive vperm : value -> value -> Prop :=
| vp_refl v : vperm v v
| vp_list l l' : Forall2 vperm l l' -> vperm (VList l) (VList l')
| vp_dict l l1 l' :
    Forall2 (fun a b : bytes * value => fst a = fst b /\ vperm (snd a) (snd b)) l l1 ->
    Permutation l1 l' -> NoDup (map fst l) ->
    vperm (VDict l) (VDict l').
