(* Model of HashComputer (core/objects.py l.147-341) and of
   ConfigInformation.identifiers (l.804-845).  Definitions only.

   The hash function H is a parameter (Section variable): theorems assume
   nothing about it; the correspondence run instantiates it with the
   Gallina SHA-256 of core/Sha256.v.                                        *)
From Coq Require Import ZArith NArith List Bool.
From XV Require Import core.Value.
Import ListNotations.

(* the 13 tag bytes of HashComputer *)
Definition OBJECT_ID : N := 0.   Definition INT_ID : N := 1.   Definition FLOAT_ID : N := 2.
Definition STR_ID : N := 3.      Definition PATH_ID : N := 4.  Definition NAME_ID : N := 5.
Definition NONE_ID : N := 6.     Definition LIST_ID : N := 7.  Definition TASK_ID : N := 8.
Definition DICT_ID : N := 9.     Definition ENUM_ID : N := 10. Definition CYCLE_REFERENCE : N := 11.
Definition INIT_TASKS : N := 12.

Fixpoint index_of (n : nat) (l : list nat) : option nat :=
  match l with
  | [] => None
  | x :: l' => if Nat.eqb n x then Some O else option_map S (index_of n l')
  end.

(* result of hashing a value in the frame of a stack `st` (head = the
   configuration being hashed): the bytes fed to the hasher and `esc`, how far
   down the stack the deepest cycle reference points (0 = no reference;
   k = the k-th entry from the top).  ConfigPath.has_loop() of the node on top
   of the stack is `1 <=? esc`.                                              *)
Definition hres := res (bytes * nat).

(* ---- the signature of a node: what update(config, myself=True) reads --------
   argsel_of mirrors the tests of the argument loop (l.262-310) for one argument:
   ASkip = `continue`, AMissing = the value is absent (getattr raises), AVal v =
   the name and v are hashed.                                                    *)
Inductive argsel := ASkip | AMissing | AVal (v : value).

Definition argsel_of (h : heap) (fields : list (bytes * value)) (a : argdecl) : argsel :=
  let stored := assoc (a_name a) fields in
  if a_ignored a && negb (match stored with Some v => is_meta_false h v | None => false end)
  then ASkip
  else if a_gen a then ASkip
  else match stored with
       | None => AMissing
       | Some v =>
           if negb (a_const a) &&
              ((negb (a_required a) && (match a_default a with None => true | _ => false end)
                && (match v with VNone => true | _ => false end))
               || (match a_default a with Some d => pyeq d (remove_meta h v) | None => false end))
           then ASkip
           else if is_meta h v then ASkip
           else AVal v
       end.

Definition is_skip (s : argsel) : bool := match s with ASkip => true | _ => false end.

(* arguments sorted by name; skipped ones dropped *)
Definition sigargs (h : heap) (fields : list (bytes * value)) (args : list argdecl) : list (bytes * argsel) :=
  filter (fun p => negb (is_skip (snd p)))
         (map (fun a => (a_name a, argsel_of h fields a)) (sort_by a_name args)).

Record nodesig := { sg_task : option nat; sg_tid : bytes; sg_args : list (bytes * argsel) }.

Definition nsig (cs : classes) (h : heap) (n : nat) : res nodesig :=
  do x <- getnode h n;
  do c <- getclass cs (n_cls x);
  Ok {| sg_task := (match n_task x with Some t => if Nat.eqb t n then None else Some t | None => None end);
        sg_tid := c_tid c;
        sg_args := sigargs h (n_fields x) (c_args c) |}.

Section Hash.
  Variable H : bytes -> bytes.
  Variable cs : classes.
  Variable h : heap.
  (* look n = Some d: n is sealed and its cached raw identifier d is not
     flagged has_loops (HashComputer.compute's cache test); the pure
     function uses `fun _ => None`.                                          *)
  Variable look : nat -> option bytes.

  Definition seq_list {A} (f : A -> hres) : list A -> hres :=
    fix go (l : list A) : hres :=
      match l with
      | [] => Ok ([], O)
      | x :: l' => do a <- f x; do b <- go l'; Ok (fst a ++ fst b, Nat.max (snd a) (snd b))
      end.

  (* one entry of the signature: hash the value of this argument *)
  Definition hsel (rec : value -> hres) (p : bytes * argsel) : hres :=
    match snd p with
    | AVal v => do r <- rec v; Ok (STR_ID :: fst p ++ NAME_ID :: fst r, snd r)
    | _ => Err EMissing                               (* getattr raises KeyError *)
    end.

  (* the mark of the producing task: TASK_ID + the task, unless the task is being hashed (it is on the stack: a task
     that marked one of its own parameters as its output) - then nothing is written and the loop is flagged, which
     the reference to the task does (detect_loop)                                                                 *)
  Definition tmark (st' : list nat) (t : nat) (b : bytes) : bytes :=
    match index_of t st' with Some _ => [] | None => TASK_ID :: b end.

  (* update(config, myself=True) then digest: HashComputer.compute without the cache test *)
  Definition hnode_with (rec : list nat -> value -> hres) (st : list nat) (n : nat) : hres :=
    do sg <- nsig cs h n;
    let st' := n :: st in
    do t <- (match sg_task sg with
             | Some t => do r <- rec st' (VRef t); Ok (tmark st' t (fst r), snd r)
             | None => Ok ([], O)
             end);
    do r <- seq_list (hsel (rec st')) (sg_args sg);
    Ok (H (OBJECT_ID :: fst t ++ sg_tid sg ++ fst r), Nat.max (snd t) (snd r)).

  Fixpoint hv (fuel : nat) (st : list nat) (v : value) : hres :=
    match fuel with
    | O => Err EFuel
    | S f =>
        match v with
        | VNone => Ok ([NONE_ID], O)
        | VFloat b => Ok (FLOAT_ID :: be_bytes 8 b, O)
        | VInt z => do p <- pack_q z; Ok (INT_ID :: p, O)
        | VBool b => do p <- pack_q (zb b); Ok (INT_ID :: p, O)
        | VStr s => Ok (STR_ID :: s, O)
        | VPath _ => Err EUnhashable
        | VEnum q => Ok (ENUM_ID :: q, O)
        | VList l =>
            let l' := filter (fun x => negb (is_meta h x)) l in
            do r <- seq_list (hv f st) l';
            Ok (LIST_ID :: pack_len (length l') ++ fst r, snd r)
        | VDict l =>
            let l' := sort_by fst (filter (fun kv => negb (is_meta h (snd kv))) l) in
            do r <- seq_list (fun kv => do b <- hv f st (snd kv); Ok (STR_ID :: fst kv ++ fst b, snd b)) l';
            Ok (DICT_ID :: fst r, snd r)
        | VRef m =>
            match index_of m st with
            | Some pos =>                                   (* detect_loop *)
                do p <- pack_q (Z.of_nat (S pos));
                Ok (OBJECT_ID :: CYCLE_REFERENCE :: p, S pos)
            | None =>
                match look m with
                | Some d => Ok (OBJECT_ID :: d, O)          (* cached, loop-free *)
                | None => do r <- hnode_with (hv f) st m; Ok (OBJECT_ID :: fst r, Nat.pred (snd r))
                end
            end
        end
    end.

  (* HashComputer.compute(config) called from outside any hash computation,
     after its own cache test failed: digest and has_loop flag *)
  Definition hnode (fuel : nat) (st : list nat) (n : nat) : hres := hnode_with (hv fuel) st n.

  Definition raw_ident (fuel : nat) (n : nat) : res (bytes * bool) :=
    do r <- hnode fuel [] n; Ok (fst r, Nat.leb 1 (snd r)).
End Hash.

(* ---- reachability used by collect_pre_tasks (ConfigWalk, recurse_task=True,
   never cut: `isinstance(config.__xpm__, Task)` is always false) ---------- *)
Fixpoint refs_of (v : value) : list nat :=
  match v with
  | VRef n => [n]
  | VList l => flat_map refs_of l
  | VDict l => flat_map (fun kv => refs_of (snd kv)) l
  | _ => []
  end.

Fixpoint vsize (v : value) : nat :=
  match v with
  | VList l => S (fold_right (fun x a => vsize x + a) O l)
  | VDict l => S (fold_right (fun kv a => vsize (snd kv) + a) O l)
  | _ => 1
  end.

Definition succs (x : node) : list nat :=
  flat_map (fun kv => refs_of (snd kv)) (n_fields x) ++ n_pre x ++ n_init x
  ++ (match n_task x with Some t => [t] | None => [] end).

Definition mem (n : nat) (l : list nat) : bool := existsb (Nat.eqb n) l.

(* depth-first, in ConfigWalk's order; `seen` accumulates visited nodes *)
Fixpoint walk (h : heap) (fuel : nat) (todo : list nat) (seen : list nat) : list nat :=
  match fuel with
  | O => seen
  | S f =>
      match todo with
      | [] => seen
      | n :: todo' =>
          if mem n seen then walk h f todo' seen
          else match nth_error h n with
               | Some x => walk h f (succs x ++ todo') (seen ++ [n])
               | None => walk h f todo' seen
               end
      end
  end.

Fixpoint dedup (l : list nat) (acc : list nat) : list nat :=
  match l with
  | [] => acc
  | x :: l' => if mem x acc then dedup l' acc else dedup l' (acc ++ [x])
  end.

Definition walk_fuel (h : heap) : nat :=
  S (length h + fold_right (fun x a => length (succs x) + a) O h).

(* pre-task objects collected for node n (distinct objects, first-seen order) *)
Definition pre_tasks_of (h : heap) (n : nat) : list nat :=
  let seen := walk h (walk_fuel h) [n] [] in
  dedup (flat_map (fun m => match nth_error h m with Some x => n_pre x | None => [] end) seen) [].

Section Full.
  Variable H : bytes -> bytes.
  Variable cs : classes.
  Variable h : heap.

  (* generous: the recursion depth is bounded by (#nodes on the stack) x (value nesting) *)
  Definition hash_fuel : nat :=
    S (S (fold_right (fun x a => 2 + fold_right (fun kv b => vsize (snd kv) + b) O (n_fields x) + a) O h)).

  Fixpoint all_ok {A} (l : list (res A)) : res (list A) :=
    match l with
    | [] => Ok []
    | Ok a :: l' => do r <- all_ok l'; Ok (a :: r)
    | Err e :: _ => Err e
    end.

  (* identifiers() computed afresh (no cache) : raw and full identifier *)
  Definition raw_pure (fuel : nat) (n : nat) : res bytes :=
    do r <- raw_ident H cs h (fun _ => None) fuel n; Ok (fst r).

  Definition full_of (raw : bytes) (pre : list bytes) (init : list bytes) : bytes :=
    H (raw ++ concat (sort_by (fun x => x) pre)
           ++ (match init with [] => [] | _ => INIT_TASKS :: concat init end)).

  Definition full_pure (fuel : nat) (n : nat) : res bytes :=
    do x <- getnode h n;
    do raw <- raw_pure fuel n;
    do pre <- all_ok (map (raw_pure fuel) (pre_tasks_of h n));
    do ini <- all_ok (map (raw_pure fuel) (n_init x));
    Ok (full_of raw pre ini).
End Full.
