(* Sealing and the operations it must reject (C14): ConfigInformation.seal (Sealer walk,
   core/objects.py l.740-768), set() l.655-681, set_meta() l.638-641, add_pretasks()
   l.1807-1814, interleaved with identifier requests.  Definitions only.             *)
From Coq Require Import ZArith NArith List Bool.
From XV Require Import core.Value model.Hash model.Cache model.Edits.
Import ListNotations.

Definition sealed_in (s : cstate) (n : nat) : bool := k_sealed (cget s n).

Inductive sop :=
| SAssign (n : nat) (k : bytes) (v : value)      (* config.k = v *)
| SSetMeta (n : nat) (f : option bool)           (* setmeta(config, f) *)
| SAddPre (n : nat) (p : list nat)               (* config.add_pretasks(...) *)
| SSeal (n : nat)
| SRaw (n : nat) | SFull (n : nat).

Inductive sans := ARejected | AOk | AId (d : bytes) | AFail.

Definition with_meta (x : node) (f : option bool) : node :=
  {| n_cls := n_cls x; n_fields := n_fields x; n_meta := f; n_task := n_task x; n_pre := n_pre x; n_init := n_init x |}.
Definition with_pre (x : node) (p : list nat) : node :=
  {| n_cls := n_cls x; n_fields := n_fields x; n_meta := n_meta x; n_task := n_task x; n_pre := p; n_init := n_init x |}.

Definition gstate := (heap * cstate)%type.

Section Seal.
  Variable H : bytes -> bytes.
  Variable cs : classes.
  Variable fuel : nat.

  Definition sstep (g : gstate) (o : sop) : gstate * sans :=
    let (h, s) := g in
    match o with
    | SAssign n k v =>
        if sealed_in s n then (g, ARejected)
        else match nth_error h n with
             | Some x => ((upd_nth h n (with_fields x (set_field k v (n_fields x))), s), AOk)
             | None => (g, AFail)
             end
    | SSetMeta n f =>
        if sealed_in s n then (g, ARejected)
        else match nth_error h n with
             | Some x => ((upd_nth h n (with_meta x f), s), AOk)
             | None => (g, AFail)
             end
    | SAddPre n p =>
        if sealed_in s n then (g, ARejected)
        else match nth_error h n with
             | Some x => ((upd_nth h n (with_pre x (n_pre x ++ p)), s), AOk)
             | None => (g, AFail)
             end
    | SSeal n => ((h, seal_walk h (walk_fuel h) [n] s), AOk)
    | SRaw n => match req_raw H cs h fuel true s n with
                | Ok (s', d) => ((h, s'), AId d)
                | Err _ => (g, AFail)
                end
    | SFull n => match req_full H cs h fuel true s n with
                 | Ok (s', d) => ((h, s'), AId d)
                 | Err _ => (g, AFail)
                 end
    end.

  Fixpoint srun (g : gstate) (ops : list sop) : gstate * list sans :=
    match ops with
    | [] => (g, [])
    | o :: ops' => let (g1, a) := sstep g o in let (g2, l) := srun g1 ops' in (g2, a :: l)
    end.
End Seal.

(* the node an operation tries to modify *)
Definition target (o : sop) : option nat :=
  match o with
  | SAssign n _ _ | SSetMeta n _ | SAddPre n _ => Some n
  | _ => None
  end.

(* reachability through parameters (lists, dicts), pre-tasks, init tasks and the producing task *)
Inductive reach (h : heap) : nat -> nat -> Prop :=
| reach_refl n : reach h n n
| reach_step n x k m : nth_error h n = Some x -> In k (succs x) -> reach h k m -> reach h n m.

Definition closed (h : heap) (s : cstate) : Prop :=
  forall n x, nth_error h n = Some x -> sealed_in s n = true -> forall m, In m (succs x) -> sealed_in s m = true.

Definition wf_heap (h : heap) : Prop :=
  forall n x, nth_error h n = Some x -> forall m, In m (succs x) -> m < length h.
