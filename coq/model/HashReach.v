(* Which configurations the hash of a configuration reads (hash edges), used to state
   soundness of the identifier cache on CYCLIC graphs (C01).  Definitions only.     *)
From Coq Require Import ZArith NArith List Bool.
From XV Require Import core.Value model.Hash.
Import ListNotations.

(* configurations referenced by a value, as the hash sees them: members flagged meta are
   dropped from lists and dicts at every level                                          *)
Fixpoint hrefs (h : heap) (v : value) : list nat :=
  match v with
  | VRef n => [n]
  | VList l => flat_map (fun x => if is_meta h x then [] else hrefs h x) l
  | VDict l => flat_map (fun kv => if is_meta h (snd kv) then [] else hrefs h (snd kv)) l
  | _ => []
  end.

Definition sig_edges (h : heap) (sg : nodesig) : list nat :=
  (match sg_task sg with Some t => [t] | None => [] end)
  ++ flat_map (fun p : bytes * argsel => match snd p with AVal v => hrefs h v | _ => [] end) (sg_args sg).

Definition node_edges (cs : classes) (h : heap) (n : nat) : list nat :=
  match nsig cs h n with Ok sg => sig_edges h sg | Err _ => [] end.

(* z is reached from x by hash edges, no intermediate node being in A *)
Inductive reach_avoid (cs : classes) (h : heap) (A : list nat) : nat -> nat -> Prop :=
| ra_edge x z : In z (node_edges cs h x) -> reach_avoid cs h A x z
| ra_step x y z : In y (node_edges cs h x) -> ~ In y A -> reach_avoid cs h A y z -> reach_avoid cs h A x z.

(* the stack of a hash computation is always a chain of hash edges: each entry is read by the next *)
Fixpoint chain (cs : classes) (h : heap) (st : list nat) : Prop :=
  match st with
  | x :: ((y :: _) as st') => In x (node_edges cs h y) /\ chain cs h st'
  | _ => True
  end.
