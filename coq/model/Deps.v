(* Deps - which jobs a submitted task depends on (core/objects.py: updatedependencies l.344-369,
   ConfigInformation.updatedependencies l.869-902, submit l.1003-1006), on a small heap model of
   parameter graphs.  Definitions only.

   A configuration object is a node; values are atoms, lists, dicts (keys and values are both
   walked) and references to nodes.  Each node carries
     n_task  : the `__xpm__.task` mark ("the task this configuration depends upon"): a submitted
               task is marked with itself, the configurations returned by task_outputs with the task;
     n_jobof : which job `__xpm__.job` is (as the index of the node whose submission registered it);
     n_loaded: loaded from disk (then the mark is ignored);
     n_sub   : ghost - Some k when the object went through submit(); k is the node whose job is the
               one registered in the scheduler for this identifier (k = the node itself for a first
               submission, the earlier node for a duplicate submission).
   The walk may not terminate on cyclic configurations (RecursionError at submit): fuel, None. *)
From Coq Require Import List Bool Arith.
Import ListNotations.

Inductive value :=
  | VAtom                                   (* str, int, float, Path, Enum, None *)
  | VList (l : list value)
  | VDict (l : list (value * value))
  | VRef (n : nat).

Record node := {
  n_fields : list value;                    (* xpmvalues(), None values skipped *)
  n_pre : list nat;                         (* pre_tasks *)
  n_init : list nat;                        (* init_tasks *)
  n_task : option nat;
  n_jobof : option nat;
  n_loaded : bool;
  n_sub : option nat
}.
Definition heap := list node.
Definition nonode := {| n_fields := []; n_pre := []; n_init := []; n_task := None; n_jobof := None;
                        n_loaded := false; n_sub := None |}.
Definition get (h : heap) (n : nat) : node := nth n h nonode.

(* state of the walk: (dependencies as job ids in insertion order, taskids) ; None = error *)
Definition acc := (list nat * list nat)%type.

Definition mem (x : nat) (l : list nat) : bool := existsb (Nat.eqb x) l.

Fixpoint fold_opt {A} (f : A -> acc -> option acc) (l : list A) (a : acc) : option acc :=
  match l with
  | [] => Some a
  | x :: r => match f x a with Some a' => fold_opt f r a' | None => None end
  end.

(* updatedependencies(value) / ConfigInformation.updatedependencies(node) *)
Fixpoint walk (h : heap) (fuel : nat) (v : value) (a : acc) : option acc :=
  match fuel with
  | O => None
  | S f =>
      match v with
      | VAtom => Some a
      | VList l => fold_opt (walk h f) l a
      | VDict l => fold_opt (fun kv a => match walk h f (fst kv) a with
                                         | Some a1 => walk h f (snd kv) a1
                                         | None => None
                                         end) l a
      | VRef n =>
          let nd := get h n in
          match fold_opt (fun x => walk h f (VRef x)) (n_pre nd) a with
          | None => None
          | Some a1 =>
              match fold_opt (fun x => walk h f (VRef x)) (n_init nd) a1 with
              | None => None
              | Some a2 =>
                  match n_task nd, n_loaded nd with
                  | Some t, false =>
                      if mem t (snd a2) then Some a2
                      else match n_jobof (get h t) with        (* self.task.__xpm__.dependency() *)
                           | Some k => Some (fst a2 ++ [k], t :: snd a2)
                           | None => None                       (* "is a task but was not submitted" *)
                           end
                  | _, _ => fold_opt (walk h f) (n_fields nd) a2
                  end
              end
          end
      end
  end.

(* submit(): the task being submitted is not marked yet; taskids starts with the task itself;
   explicitly added dependencies are appended.  Result: job ids. *)
Definition collect (h : heap) (fuel : nat) (root : nat) (explicit : list nat) : option (list nat) :=
  match walk h fuel (VRef root) ([], [root]) with
  | Some (ds, _) => Some (ds ++ explicit)
  | None => None
  end.

(* ------------------------------------------------------------------ specification *)
(* `reachv h v k`: the job k is registered for a task reachable from the value v, stopping at the
   first task on each path (a node carrying a task mark stands for that task; its own parameters
   are not searched), through lists, dict keys and values, nested configurations, pre-tasks and
   init tasks *)
Inductive reachv (h : heap) : value -> nat -> Prop :=
  | r_list : forall l v k, In v l -> reachv h v k -> reachv h (VList l) k
  | r_key : forall l kv k, In kv l -> reachv h (fst kv) k -> reachv h (VDict l) k
  | r_val : forall l kv k, In kv l -> reachv h (snd kv) k -> reachv h (VDict l) k
  | r_pre : forall n p k, In p (n_pre (get h n)) -> reachv h (VRef p) k -> reachv h (VRef n) k
  | r_init : forall n p k, In p (n_init (get h n)) -> reachv h (VRef p) k -> reachv h (VRef n) k
  | r_task : forall n k, n_loaded (get h n) = false -> n_sub (get h n) = Some k -> reachv h (VRef n) k
  | r_mark : forall n t k, n_loaded (get h n) = false -> n_task (get h n) = Some t ->
               n_sub (get h t) = Some k -> reachv h (VRef n) k
  | r_field : forall n v k,
               (n_loaded (get h n) = true \/ (n_task (get h n) = None /\ n_sub (get h n) = None)) ->
               In v (n_fields (get h n)) -> reachv h v k -> reachv h (VRef n) k.

(* every object that went through submit() is marked as a task and refers to the registered job;
   a mark always points to such an object (what the repaired submit() guarantees, and what the
   unchanged one guarantees as long as no duplicate-submission object is used as a value) *)
Definition marks_ok (h : heap) : Prop :=
  (forall n k, n_sub (get h n) = Some k -> n_task (get h n) = Some n /\ n_jobof (get h n) = Some k) /\
  (forall n t, n_task (get h n) = Some t -> exists k, n_sub (get h t) = Some k).

(* `finite h v`: every chain of references that the walk follows from v ends (no configuration contains
   itself, directly or through pre-tasks, init tasks, lists, dicts or nested configurations); the
   parameters of a node that stands for a task are not followed *)
Inductive finite (h : heap) : value -> Prop :=
  | f_atom : finite h VAtom
  | f_list : forall l, (forall v, In v l -> finite h v) -> finite h (VList l)
  | f_dict : forall l, (forall kv, In kv l -> finite h (fst kv)) -> (forall kv, In kv l -> finite h (snd kv)) ->
               finite h (VDict l)
  | f_ref : forall n,
               (forall p, In p (n_pre (get h n)) -> finite h (VRef p)) ->
               (forall p, In p (n_init (get h n)) -> finite h (VRef p)) ->
               (n_task (get h n) = None \/ n_loaded (get h n) = true ->
                forall v, In v (n_fields (get h n)) -> finite h v) ->
               finite h (VRef n).


(* the literal test of the unchanged tree, `if self.task and not self.loaded`: the truth value of the task
   object is tested, not `is not None`.  A task whose class defines __len__/__bool__ and that evaluates to
   False is then not seen as a task: the walk goes on into the parameters of the node that carries the mark.
   `falsy t`: the object t evaluates to False.  The literal walk is the walk on the heap in which those
   marks are erased. *)
Definition blind_node (falsy : nat -> bool) (nd : node) : node :=
  match n_task nd with
  | Some t => if falsy t
              then {| n_fields := n_fields nd; n_pre := n_pre nd; n_init := n_init nd; n_task := None;
                      n_jobof := n_jobof nd; n_loaded := n_loaded nd; n_sub := n_sub nd |}
              else nd
  | None => nd
  end.
Definition blind (falsy : nat -> bool) (h : heap) : heap := map (blind_node falsy) h.

(* copy_dependencies(other) puts the task mark of `other` on a configuration whose parameters have nothing to do
   with that task.  `uncopy cp h`: the heap in which every node of `cp` (the nodes whose mark was copied) is
   read as what it means - its own parameters, plus one more value that carries the copied mark.  The walk of
   the unchanged tree is the walk on h (a mark stops the search, the parameters are not looked at); the walk
   with fixes/C04-3.diff is the walk on `uncopy cp h`. *)
Fixpoint index_of (x : nat) (l : list nat) : option nat :=
  match l with
  | [] => None
  | y :: r => if Nat.eqb x y then Some 0 else option_map S (index_of x r)
  end.
Definition uncopy_node (cp : list nat) (base : nat) (i : nat) (nd : node) : node :=
  match index_of i cp with
  | Some p => {| n_fields := n_fields nd ++ [VRef (base + p)]; n_pre := n_pre nd; n_init := n_init nd; n_task := None;
                 n_jobof := n_jobof nd; n_loaded := n_loaded nd; n_sub := n_sub nd |}
  | None => nd
  end.
Definition mark_only (h : heap) (c : nat) : node :=
  {| n_fields := []; n_pre := []; n_init := []; n_task := n_task (get h c); n_jobof := None; n_loaded := false;
     n_sub := None |}.
Definition uncopy (cp : list nat) (h : heap) : heap :=
  map (fun p => uncopy_node cp (length h) (fst p) (snd p)) (combine (seq 0 (length h)) h) ++ map (mark_only h) cp.
