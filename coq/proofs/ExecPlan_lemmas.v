(* C12: the lightweight tasks the job process executes (fromParameters, instance mode).
   Every pre-task of the saved graph is executed exactly once, before any init task; the init tasks
   executed are those of the task that runs (the last definition) and of no other task; nothing is
   executed twice. *)
From Coq Require Import ZArith NArith List Bool Lia.
From XV Require Import core.Value model.Hash model.Serial.
Import ListNotations.

Lemma existsb_eqb_In x l : existsb (Nat.eqb x) l = true <-> In x l.
Proof.
  rewrite existsb_exists. split.
  - intros [y [Hy E]]. apply Nat.eqb_eq in E. subst. exact Hy.
  - intros H. exists x. split; [exact H|apply Nat.eqb_refl].
Qed.

Lemma NoDup_app_iff_local (l1 l2 : list nat) :
  NoDup l1 -> NoDup l2 -> (forall x, In x l1 -> In x l2 -> False) -> NoDup (l1 ++ l2).
Proof.
  induction l1 as [|a l1 IH]; intros H1 H2 Hd; cbn; [exact H2|].
  inversion H1 as [|? ? Ha H1']; subst. constructor.
  - rewrite in_app_iff. intros [H|H]; [contradiction|]. apply (Hd a); [left; reflexivity|exact H].
  - apply IH; [exact H1'|exact H2|]. intros x Hx Hx'. apply (Hd x); [right; exact Hx|exact Hx'].
Qed.

(* add_new extends [out] by the elements of [xs] that are not in [seen], each once, in order *)
Lemma add_new_spec xs : forall seen out,
  exists ext, add_new seen out xs = (rev ext ++ seen, out ++ ext)
              /\ NoDup ext
              /\ (forall x, In x ext <-> In x xs /\ ~ In x seen).
Proof.
  induction xs as [|x xs IH]; intros seen out; cbn [add_new].
  - exists []. rewrite app_nil_r. split; [reflexivity|]. split; [constructor|]. intros x; cbn; tauto.
  - destruct (existsb (Nat.eqb x) seen) eqn:E.
    + apply existsb_eqb_In in E.
      destruct (IH seen out) as [ext [H1 [H2 H3]]]. exists ext. split; [exact H1|]. split; [exact H2|].
      intros y. rewrite H3. cbn. split; [tauto|]. intros [[->|Hy] Hn]; [contradiction|tauto].
    + assert (Hx : ~ In x seen) by (intros H; apply existsb_eqb_In in H; congruence).
      destruct (IH (x :: seen) (out ++ [x])) as [ext [H1 [H2 H3]]].
      exists (x :: ext). split.
      * rewrite H1. cbn [rev]. rewrite <- !app_assoc. reflexivity.
      * split.
        -- constructor; [|exact H2]. intros H. apply H3 in H. destruct H as [_ H]. apply H. left. reflexivity.
        -- intros y. cbn [In]. rewrite H3. cbn [In]. split.
           ++ intros [<-|[Hy Hn]]; [tauto|]. split; [tauto|]. intros H. apply Hn. right. exact H.
           ++ intros [[<-|Hy] Hn]; [left; reflexivity|].
              destruct (Nat.eq_dec x y) as [->|Hd]; [left; reflexivity|]. right. split; [exact Hy|].
              intros [H|H]; [contradiction|contradiction].
Qed.

(* the state after the pre-task loop: [seen] and [out] hold the same elements, [out] without repetition *)
Definition pre_inv (ds : list def) (st : list nat * list nat) : Prop :=
  NoDup (snd st) /\ (forall x, In x (fst st) <-> In x (snd st))
  /\ (forall x, In x (snd st) <-> exists d, In d ds /\ In x (d_pre d)).

Lemma exec_pre_fold ds : forall done st,
  pre_inv done st ->
  pre_inv (done ++ ds) (fold_left (fun st d => add_new (fst st) (snd st) (d_pre d)) ds st).
Proof.
  induction ds as [|d ds IH]; intros done st H; cbn [fold_left].
  - rewrite app_nil_r. exact H.
  - replace (done ++ d :: ds) with ((done ++ [d]) ++ ds) by (rewrite <- app_assoc; reflexivity).
    apply IH. destruct st as [seen out]. destruct H as [Hnd [Hso Hin]]. cbn [fst snd] in *.
    destruct (add_new_spec (d_pre d) seen out) as [ext [E [Hn He]]]. rewrite E. unfold pre_inv. cbn [fst snd].
    split; [|split].
    + apply NoDup_app_iff_local; [exact Hnd|exact Hn|]. intros x Hx Hx'. apply He in Hx'. apply Hso in Hx. tauto.
    + intros x. rewrite !in_app_iff, <- in_rev, Hso. tauto.
    + intros x. rewrite in_app_iff, Hin, He. split.
      * intros [[d' [Hd Hp]]|[Hp _]].
        -- exists d'. rewrite in_app_iff. tauto.
        -- exists d. rewrite in_app_iff. cbn. tauto.
      * intros [d' [Hd Hp]]. rewrite in_app_iff in Hd. cbn in Hd.
        destruct Hd as [Hd|[<-|[]]]; [left; exists d'; tauto|].
        destruct (in_dec Nat.eq_dec x seen) as [Hs|Hs]; [|tauto].
        left. apply Hin. apply Hso. exact Hs.
Qed.

Lemma exec_pre_inv ds : pre_inv ds (exec_pre ds).
Proof.
  unfold exec_pre. apply (exec_pre_fold ds [] ([], [])).
  unfold pre_inv. cbn. split; [constructor|]. split; [tauto|]. intros x. split; [tauto|]. intros [d [[] _]].
Qed.

(* ---- the statements ------------------------------------------------------------------------ *)
Lemma last_def (ds : list def) d : rev ds = d :: tl (rev ds) -> In d ds.
Proof. intros E. apply in_rev. rewrite E. left. reflexivity. Qed.

Theorem exec_plan_nodup ds : NoDup (exec_plan ds).
Proof.
  unfold exec_plan, exec_init. destruct (exec_pre_inv ds) as [Hnd [Hso Hin]].
  destruct (rev ds) as [|d r]; [rewrite app_nil_r; exact Hnd|].
  destruct (add_new_spec (d_init d) (fst (exec_pre ds)) []) as [ext [E [Hn He]]]. rewrite E. cbn [snd app].
  apply NoDup_app_iff_local; [exact Hnd|exact Hn|]. intros x Hx Hx'. apply He in Hx'. apply Hso in Hx. tauto.
Qed.

Theorem exec_pre_complete ds d p : In d ds -> In p (d_pre d) -> In p (snd (exec_pre ds)).
Proof. intros Hd Hp. destruct (exec_pre_inv ds) as [_ [_ Hin]]. apply Hin. exists d. tauto. Qed.

Theorem exec_pre_sound ds p : In p (snd (exec_pre ds)) -> exists d, In d ds /\ In p (d_pre d).
Proof. intros H. destruct (exec_pre_inv ds) as [_ [_ Hin]]. apply Hin. exact H. Qed.

(* only the init tasks of the task that runs (the last definition) are executed *)
Theorem exec_init_only_root ds t : In t (exec_init ds) -> exists d r, rev ds = d :: r /\ In t (d_init d).
Proof.
  unfold exec_init. destruct (rev ds) as [|d r]; [intros []|]. intros H. exists d, r. split; [reflexivity|].
  destruct (add_new_spec (d_init d) (fst (exec_pre ds)) []) as [ext [E [_ He]]]. rewrite E in H. cbn [snd app] in H.
  apply He in H. tauto.
Qed.

(* every init task of the task that runs is executed (as an init task, or earlier as a pre-task) *)
Theorem exec_init_complete ds d r t : rev ds = d :: r -> In t (d_init d) -> In t (exec_plan ds).
Proof.
  intros Er Ht. unfold exec_plan, exec_init. rewrite Er.
  destruct (exec_pre_inv ds) as [_ [Hso _]].
  destruct (add_new_spec (d_init d) (fst (exec_pre ds)) []) as [ext [E [_ He]]]. rewrite E. cbn [snd app].
  rewrite in_app_iff. destruct (in_dec Nat.eq_dec t (fst (exec_pre ds))) as [Hs|Hs].
  - left. apply Hso. exact Hs.
  - right. apply He. tauto.
Qed.

(* pre-tasks come first: the plan is the pre-task list followed by init tasks that are not pre-tasks *)
Theorem exec_init_disjoint ds t : In t (exec_init ds) -> ~ In t (snd (exec_pre ds)).
Proof.
  unfold exec_init. destruct (rev ds) as [|d r]; [intros []|]. intros H.
  destruct (exec_pre_inv ds) as [_ [Hso _]].
  destruct (add_new_spec (d_init d) (fst (exec_pre ds)) []) as [ext [E [_ He]]]. rewrite E in H. cbn [snd app] in H.
  apply He in H. intros Hp. apply Hso in Hp. tauto.
Qed.

(* the seeded variant (init tasks of every definition) executes an init task of another task *)
Definition plan_all_inits (ds : list def) : list nat :=
  snd (exec_pre ds) ++ snd (fold_left (fun st d => add_new (fst st) (snd st) (d_init d)) ds (fst (exec_pre ds), [])).

Definition xp_defs : list def :=
  [ {| d_id := 0; d_cls := 0; d_fields := []; d_pre := []; d_init := []; d_meta := None; d_task := None |};
    {| d_id := 1; d_cls := 0; d_fields := []; d_pre := []; d_init := [0]; d_meta := None; d_task := None |};
    {| d_id := 2; d_cls := 0; d_fields := []; d_pre := [0]; d_init := [0]; d_meta := None; d_task := None |};
    {| d_id := 3; d_cls := 0; d_fields := []; d_pre := []; d_init := [2; 2]; d_meta := None; d_task := None |} ].

Example exec_plan_example : exec_plan xp_defs = [0; 2].
Proof. vm_compute. reflexivity. Qed.

Example all_inits_runs_foreign_init :
  exists ds t, In t (plan_all_inits ds) /\ ~ In t (exec_plan ds).
Proof.
  exists [ {| d_id := 0; d_cls := 0; d_fields := []; d_pre := []; d_init := []; d_meta := None; d_task := None |};
           {| d_id := 1; d_cls := 0; d_fields := []; d_pre := []; d_init := [0]; d_meta := None; d_task := None |};
           {| d_id := 2; d_cls := 0; d_fields := []; d_pre := []; d_init := []; d_meta := None; d_task := None |} ], 0.
  split; [vm_compute; tauto|]. vm_compute. tauto.
Qed.
