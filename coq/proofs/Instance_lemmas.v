(* Proofs for C13 (model/Instance.v). *)
From Coq Require Import List NArith ZArith Bool Arith Lia.
From XV Require Import model.Walk model.Instance proofs.Walk_lemmas.
Import ListNotations.

(* ---- induction on values (nested lists) ----------------------------------------- *)
Section ValueInd.
  Variable P : value -> Prop.
  Hypothesis Hnone : P VNone.
  Hypothesis Hscalar : forall z, P (VScalar z).
  Hypothesis Hstr : forall s, P (VStr s).
  Hypothesis Href : forall n, P (VRef n).
  Hypothesis Hlist : forall l, Forall P l -> P (VList l).
  Hypothesis Hdict : forall l, Forall (fun kv => P (snd kv)) l -> P (VDict l).

  Fixpoint value_ind' (v : value) : P v :=
    match v with
    | VNone => Hnone
    | VScalar z => Hscalar z
    | VStr s => Hstr s
    | VRef n => Href n
    | VList l => Hlist l ((fix go (l : list value) : Forall P l :=
                             match l with [] => Forall_nil _ | x :: l' => Forall_cons _ (value_ind' x) (go l') end) l)
    | VDict l => Hdict l ((fix go (l : list (str * value)) : Forall (fun kv => P (snd kv)) l :=
                             match l with [] => Forall_nil _
                                     | kv :: l' => Forall_cons _ (value_ind' (snd kv)) (go l') end) l)
    end.
End ValueInd.

(* the objects named in image v are the targets of the edges of v *)
Lemma orefs_edges : forall v rel m, In m (orefs (image v)) <-> In m (map snd (edges_value rel v)).
Proof.
  induction v as [| | |n|l IH|l IH] using value_ind'; intros rel m; simpl; try tauto.
  - (* list *)
    generalize 0 at 1. induction l as [|x l IHl]; intros i; simpl; [tauto|].
    inversion IH; subst. rewrite in_app_iff, map_app, in_app_iff, (H1 (rel ++ [dec i]) m), (IHl H2 (S i)). tauto.
  - (* dict *)
    induction l as [|[k x] l IHl]; simpl; [tauto|].
    inversion IH; subst. simpl in H1.
    rewrite in_app_iff, map_app, in_app_iff, (H1 (rel ++ [k]) m), (IHl H2). tauto.
Qed.

Lemma fields_edges fs m :
  In m (flat_map (fun kv : str * value => orefs (image (snd kv))) fs) <-> In m (map snd (edges_fields fs)).
Proof.
  unfold edges_fields. induction fs as [|[k v] fs IH]; simpl; [tauto|].
  rewrite in_app_iff, map_app, in_app_iff, IH, (orefs_edges v [k] m). tauto.
Qed.

(* ---- dedup ------------------------------------------------------------------------ *)
Lemma dedup_spec : forall l seen,
  NoDup (dedup seen l) /\ forall x, In x (dedup seen l) <-> (In x l /\ ~ In x seen).
Proof.
  induction l as [|y l IH]; intros seen; simpl.
  - split; [constructor | intros x; tauto].
  - destruct (memb y seen) eqn:E.
    + destruct (IH seen) as [N I]. split; auto. intros x. rewrite I.
      apply memb_In in E. split; [tauto|]. intros [[<-|H] Hn]; tauto.
    + apply memb_false in E. destruct (IH (y :: seen)) as [N I]. split.
      * constructor; auto. rewrite I. simpl. tauto.
      * intros x. simpl. rewrite I. simpl.
        destruct (Nat.eq_dec y x) as [->|Hne]; [tauto|]. tauto.
Qed.

Lemma dedup_nil_spec l : NoDup (dedup [] l) /\ forall x, In x (dedup [] l) <-> In x l.
Proof. destruct (dedup_spec l []) as [N I]. split; auto. intros x. rewrite I. simpl. tauto. Qed.

(* executed lightweight tasks of a log, in order *)
Fixpoint execs (l : list call) : list nat :=
  match l with
  | [] => []
  | Execute p :: l' => p :: execs l'
  | _ :: l' => execs l'
  end.
Fixpoint posts (l : list call) : list nat :=
  match l with
  | [] => []
  | PostInit n _ :: l' => n :: posts l'
  | _ :: l' => posts l'
  end.

Lemma execs_app a b : execs (a ++ b) = execs a ++ execs b.
Proof. induction a as [|[]]; simpl; auto. f_equal; auto. Qed.
Lemma posts_app a b : posts (a ++ b) = posts a ++ posts b.
Proof. induction a as [|[]]; simpl; auto. f_equal; auto. Qed.
Lemma execs_Execute l : execs (map Execute l) = l.
Proof. induction l; simpl; congruence. Qed.
Lemma posts_Execute l : posts (map Execute l) = [].
Proof. induction l; simpl; auto. Qed.
Lemma execs_PostInit {A} (f : A -> nat) (g : A -> list str) l : execs (map (fun x => PostInit (f x) (g x)) l) = [].
Proof. induction l; simpl; auto. Qed.
Lemma posts_PostInit {A} (f : A -> nat) (g : A -> list str) l : posts (map (fun x => PostInit (f x) (g x)) l) = map f l.
Proof. induction l; simpl; congruence. Qed.

(* ---- running the calls (replay) ------------------------------------------------------ *)
Lemma replay_app a : forall b m,
  replay (a ++ b) m = (fst (replay b (fst (replay a m))), snd (replay a m) ++ snd (replay b (fst (replay a m)))).
Proof.
  induction a as [|e a IH]; intros b m; simpl.
  - destruct (replay b m); reflexivity.
  - destruct e; simpl; try apply IH; rewrite IH; destruct (replay a m) as [m1 l1]; simpl;
      destruct (replay b m1); reflexivity.
Qed.

Lemma replay_execs g : forall m, replay (map EExec g) m = (m, map Execute g).
Proof. induction g as [|x g IH]; intros m; simpl; auto. rewrite IH. reflexivity. Qed.

Lemma set_attr_fresh a k v : ~ In k (map fst a) -> set_attr a k v = a ++ [(k, v)].
Proof.
  induction a as [|[k' v'] a IH]; simpl; intros H; auto.
  destruct (str_eqb k k') eqn:E.
  - apply str_eqb_eq in E. subst. exfalso. apply H. left; auto.
  - f_equal. apply IH. intros G. apply H. right; auto.
Qed.

Lemma mem_get_set_same m n k v : mem_get (mem_set m n k v) n = set_attr (mem_get m n) k v.
Proof.
  induction m as [|[n' a] m IH]; simpl.
  - rewrite Nat.eqb_refl. reflexivity.
  - destruct (Nat.eqb n n') eqn:E; simpl; rewrite E; auto.
Qed.

Lemma mem_get_set_other m n k v n' : n' <> n -> mem_get (mem_set m n k v) n' = mem_get m n'.
Proof.
  induction m as [|[n0 a] m IH]; simpl; intros H.
  - destruct (Nat.eqb n' n) eqn:E; auto. apply Nat.eqb_eq in E. congruence.
  - destruct (Nat.eqb n n0) eqn:E; simpl.
    + apply Nat.eqb_eq in E. subst. destruct (Nat.eqb n' n0) eqn:E2; auto.
      apply Nat.eqb_eq in E2. congruence.
    + destruct (Nat.eqb n' n0); auto.
Qed.

(* the attribute copy of postprocess *)
Definition apply_sets (n : nat) (fs : list (str * value)) (m : mem) : mem :=
  fold_left (fun m kv => mem_set m n (fst kv) (image (snd kv))) fs m.

Lemma replay_sets n fs : forall m,
  replay (map (fun kv => ESet n (fst kv) (image (snd kv))) fs) m = (apply_sets n fs m, []).
Proof. induction fs as [|kv fs IH]; intros m; simpl; auto. Qed.

Lemma apply_sets_other n fs n' : n' <> n -> forall m, mem_get (apply_sets n fs m) n' = mem_get m n'.
Proof.
  intros H. unfold apply_sets. induction fs as [|kv fs IH]; intros m; simpl; auto.
  rewrite IH. apply mem_get_set_other; auto.
Qed.

Lemma apply_sets_same n fs : forall m, NoDup (map fst fs) ->
  (forall k, In k (map fst fs) -> ~ In k (map fst (mem_get m n))) ->
  mem_get (apply_sets n fs m) n = mem_get m n ++ map (fun kv => (fst kv, image (snd kv))) fs.
Proof.
  unfold apply_sets. induction fs as [|[k v] fs IH]; simpl; intros m N D.
  - rewrite List.app_nil_r. reflexivity.
  - inversion N; subst.
    assert (Fr : ~ In k (map fst (mem_get m n))) by (apply D; left; auto).
    rewrite IH; auto.
    + rewrite mem_get_set_same, set_attr_fresh by exact Fr. simpl. rewrite <- List.app_assoc. reflexivity.
    + intros k' Hk'. rewrite mem_get_set_same, set_attr_fresh by exact Fr.
      rewrite map_app, in_app_iff. simpl. intros [G|[G|[]]].
      * apply (D k'); auto.
      * subst. contradiction.
Qed.

Lemma flat_map_fst {A B C} (f : A -> list C) (l : list (A * B)) :
  flat_map (fun x => f (fst x)) l = flat_map f (map fst l).
Proof. induction l; simpl; congruence. Qed.

(* ---- instance() --------------------------------------------------------------------- *)
(* parameter names of every configuration are pairwise distinct (.values is a dict) *)
Definition fields_nodup (h : heap) : Prop :=
  forall n nd, nth_error h n = Some nd -> NoDup (map fst (fields nd)).

Lemma node_at_nodup h : fields_nodup h -> forall n, NoDup (map fst (fields (node_at h n))).
Proof.
  intros F n. unfold node_at. destruct (nth_error h n) as [nd|] eqn:E.
  - rewrite (nth_error_nth _ _ _ E). eapply F; eauto.
  - apply nth_error_None in E. rewrite nth_overflow by exact E. constructor.
Qed.

Section InstFacts.
  Variable h : heap.
  Variable constructed : list nat.

  Notation cut := (cut_constructed constructed).
  Notation E := (node_edges false).
  Notation reach := (reach h E cut).

  Lemma replay_node n m :
    replay (node_trace h false n) m =
    (apply_sets n (fields (node_at h n)) m,
     [PostInit n (map fst (mem_get (apply_sets n (fields (node_at h n)) m) n))]).
  Proof. unfold node_trace. rewrite replay_app, replay_sets. reflexivity. Qed.

  (* whatever the order of the two steps: one __post_init__ per configuration, in order, no execute *)
  Lemma replay_nodes_shape pf ids : forall m,
    posts (snd (replay (flat_map (node_trace h pf) ids) m)) = ids /\
    execs (snd (replay (flat_map (node_trace h pf) ids) m)) = [].
  Proof.
    induction ids as [|n ids IH]; intros m; cbn [flat_map]; [simpl; auto|].
    rewrite replay_app. cbn [fst snd]. rewrite posts_app, execs_app.
    destruct (IH (fst (replay (node_trace h pf n) m))) as [P X]. rewrite P, X.
    destruct pf.
    - unfold node_trace. simpl. rewrite replay_sets. simpl. auto.
    - rewrite replay_node. simpl. auto.
  Qed.

  (* the copy then __post_init__: every __post_init__ sees all the parameters of its own object set,
     and every object ends up with the images of its parameters - derived by running the calls     *)
  Lemma replay_nodes ids : forall m, NoDup ids -> (forall n, In n ids -> mem_get m n = []) ->
    (forall n, NoDup (map fst (fields (node_at h n)))) ->
    snd (replay (flat_map (node_trace h false) ids) m) = map (post_init_of h) ids /\
    (forall n, In n ids -> mem_get (fst (replay (flat_map (node_trace h false) ids) m)) n = o_attrs (object_of h n)) /\
    (forall n, ~ In n ids -> mem_get (fst (replay (flat_map (node_trace h false) ids) m)) n = mem_get m n).
  Proof.
    induction ids as [|n ids IH]; intros m N Z F; cbn [flat_map].
    - simpl. split; auto. split; [intros n []|auto].
    - inversion N as [|? ? Hn N']; subst. rewrite replay_app, replay_node. cbn [fst snd].
      set (m1 := apply_sets n (fields (node_at h n)) m).
      assert (Hm1 : mem_get m1 n = o_attrs (object_of h n)).
      { unfold m1. rewrite apply_sets_same; auto.
        - rewrite (Z n) by (left; auto). reflexivity.
        - intros k _. rewrite (Z n) by (left; auto). simpl. auto. }
      assert (Z1 : forall n', In n' ids -> mem_get m1 n' = []).
      { intros n' Hin. unfold m1. rewrite apply_sets_other; [apply Z; right; auto|].
        intros ->. contradiction. }
      destruct (IH m1 N' Z1 F) as [L [A O]]. split; [|split].
      + rewrite L, Hm1. unfold post_init_of, object_of. simpl. rewrite map_map. reflexivity.
      + intros n' [<-|Hin]; [|apply A; auto]. rewrite O; auto.
      + intros n' Hn'. rewrite O by (intros G; apply Hn'; right; auto).
        unfold m1. apply apply_sets_other. intros ->. apply Hn'. left; auto.
  Qed.

  (* shape of the result for both orders of the two steps (no hypothesis on the names) *)
  Lemma instantiate_gen_inv pf root r :
    instantiate_gen h constructed pf root = Some r ->
    exists evs, walk h E cut root = Some evs /\
      map o_id (r_objects r) = map fst evs /\
      r_log r = snd (replay (flat_map (node_trace h pf) (map fst evs)) []) ++ map Execute (gathered h evs) /\
      r_objects r = map (fun ev => {| o_id := fst ev;
                                      o_attrs := mem_get (fst (replay (flat_map (node_trace h pf) (map fst evs)) [])) (fst ev) |}) evs /\
      r_root r = root.
  Proof.
    unfold instantiate_gen, inst_events. destruct (walk h E cut root) as [evs|]; [|discriminate].
    unfold inst_trace. rewrite replay_app, replay_execs, flat_map_fst. simpl.
    intros Er. inversion Er; subst; simpl. exists evs. rewrite map_map. simpl. auto.
  Qed.

  (* with distinct parameter names: the objects and the log of the specification vocabulary *)
  Lemma instantiate_inv root r : fields_nodup h ->
    instantiate h constructed root = Some r ->
    exists evs, walk h E cut root = Some evs /\
      r_objects r = map (fun ev => object_of h (fst ev)) evs /\
      r_log r = map (fun ev => post_init_of h (fst ev)) evs ++ map Execute (gathered h evs) /\
      r_root r = root.
  Proof.
    intros F Er. destruct (instantiate_gen_inv _ _ _ Er) as [evs [Ew [_ [Hl [Ho Hr]]]]].
    exists evs. split; auto.
    destruct (walk_correct h E cut root) as [evs' [Ew' [Nd _]]].
    rewrite Ew in Ew'. inversion Ew'; subst evs'.
    destruct (replay_nodes (map fst evs) [] Nd (fun _ _ => eq_refl) (node_at_nodup h F)) as [L [A _]].
    split; [|split; auto].
    - rewrite Ho. apply map_ext_in. intros ev Hev. unfold object_of at 1.
      rewrite (A (fst ev)) by (apply in_map; auto). reflexivity.
    - rewrite Hl, L, map_map. reflexivity.
  Qed.

  Lemma created_ids evs : map o_id (map (fun ev : nat * list str => object_of h (fst ev)) evs) = map fst evs.
  Proof. rewrite map_map. apply map_ext. reflexivity. Qed.

  (* instance() always answers; exactly one object per configuration reachable through
     configurations not yet constructed, and none for any other                          *)
  Theorem one_object_per_node : forall root,
    exists r, instantiate h constructed root = Some r /\
      NoDup (map o_id (r_objects r)) /\
      (forall n, In n (map o_id (r_objects r)) <-> reach root n).
  Proof.
    intros root. destruct (walk_correct h E cut root) as [evs [Ew [Nd [Hr _]]]].
    destruct (instantiate_gen h constructed false root) as [r|] eqn:Er.
    - exists r. split; auto. destruct (instantiate_gen_inv _ _ _ Er) as [evs' [Ew' [Hi _]]].
      rewrite Ew in Ew'. inversion Ew'; subst evs'. rewrite Hi. auto.
    - exfalso. unfold instantiate_gen, inst_events in Er. rewrite Ew in Er.
      destruct (replay (inst_trace h false evs) []); discriminate.
  Qed.

  (* attribute k of the object of n is the image of the value of parameter k of n, and the
     objects it names were created by this call or constructed before: also through cycles *)
  Theorem wired_like_graph : fields_nodup h -> forall root r,
    instantiate h constructed root = Some r ->
    (forall o, In o (r_objects r) ->
       o_attrs o = map (fun kv => (fst kv, image (snd kv))) (fields (node_at h (o_id o)))) /\
    (forall o k ov m, In o (r_objects r) -> In (k, ov) (o_attrs o) -> In m (orefs ov) -> m < length h ->
       In m (map o_id (r_objects r)) \/ In m constructed).
  Proof.
    intros F root r Er. destruct (instantiate_inv _ _ F Er) as [evs [Ew [Ho [_ _]]]].
    destruct (walk_correct h E cut root) as [evs' [Ew' [Nd [Hr Hp]]]].
    rewrite Ew in Ew'. inversion Ew'; subst evs'. clear Ew'.
    rewrite Ho. split.
    - intros o Hin. apply in_map_iff in Hin. destruct Hin as [ev [<- _]]. reflexivity.
    - intros o k ov m Hin Hk Hm Hrange. rewrite created_ids.
      apply in_map_iff in Hin. destruct Hin as [[n pos] [<- Hev]]. simpl in Hk.
      apply in_map_iff in Hk. destruct Hk as [[k' v] [Ekv Hf]]. inversion Ekv; subst k ov. simpl in Hm.
      (* n is expanded; m is the target of one of its edges *)
      assert (Hpath := Hp _ _ Hev). assert (Hexp := path_end _ _ _ _ _ _ Hpath).
      destruct Hexp as [nd [End Hc]].
      assert (Hnd : node_at h n = nd).
      { unfold node_at. apply nth_error_nth with (d := empty_node) in End. auto. }
      rewrite Hnd in Hf.
      assert (Hedge : exists rel, In (rel, m) (out_edges h E n)).
      { unfold out_edges. rewrite End. unfold node_edges.
        assert (G : In m (map snd (edges_fields (fields nd)))).
        { apply fields_edges. apply in_flat_map. exists (k', v). split; auto. }
        apply in_map_iff in G. destruct G as [[rel m'] [Em Hin]]. simpl in Em. subst m'.
        exists rel. apply in_or_app. left; auto. }
      destruct Hedge as [rel Hedge].
      destruct (cut m) eqn:Hcm.
      + right. apply memb_In. exact Hcm.
      + left. apply Hr.
        assert (Hm' : expanded h cut m).
        { apply nth_error_range in Hrange. destruct (nth_error h m) as [ndm|] eqn:Em; [|congruence].
          exists ndm; auto. }
        eapply reach_step; eauto. exists pos; auto.
  Qed.
End InstFacts.

Section InstLog.
  Variable h : heap.
  Variable constructed : list nat.

  Notation cut := (cut_constructed constructed).
  Notation E := (node_edges false).
  Notation reach := (reach h E cut).

  (* the log of instance(): one __post_init__ per created object, called when all the
     parameters of that object (and only its own are claimed) are set; then the pre-tasks *)
  Theorem post_init_once_after_fields : fields_nodup h -> forall root r,
    instantiate h constructed root = Some r ->
    exists ids pres,
      r_log r = map (fun n => PostInit n (map fst (fields (node_at h n)))) ids ++ map Execute pres /\
      ids = map o_id (r_objects r) /\ NoDup ids /\ (forall n, In n ids <-> reach root n).
  Proof.
    intros F root r Er. destruct (instantiate_inv _ _ _ _ F Er) as [evs [Ew [Ho [Hl _]]]].
    destruct (walk_correct h E cut root) as [evs' [Ew' [Nd [Hr _]]]].
    rewrite Ew in Ew'. inversion Ew'; subst evs'.
    exists (map fst evs), (gathered h evs). rewrite Hl, Ho, created_ids, map_map.
    repeat split; auto; apply Hr.
  Qed.

  (* every pre-task attached to a created configuration is executed exactly once, whatever
     the number of configurations it is attached to; nothing else is executed              *)
  Theorem pretasks_once : forall root r,
    instantiate h constructed root = Some r ->
    NoDup (execs (r_log r)) /\
    (forall p, In p (execs (r_log r)) <-> exists n, reach root n /\ In p (pre (node_at h n))) /\
    (* after every __post_init__ *)
    (exists k, posts (firstn k (r_log r)) = posts (r_log r) /\ execs (skipn k (r_log r)) = execs (r_log r)).
  Proof.
    intros root r Er. destruct (instantiate_gen_inv _ _ _ _ _ Er) as [evs [Ew [_ [Hl _]]]].
    destruct (walk_correct h E cut root) as [evs' [Ew' [Nd [Hr _]]]].
    rewrite Ew in Ew'. inversion Ew'; subst evs'.
    destruct (replay_nodes_shape h false (map fst evs) []) as [P X].
    set (L := snd (replay (flat_map (node_trace h false) (map fst evs)) [])) in *.
    rewrite Hl, execs_app, execs_Execute, X. simpl.
    unfold gathered. destruct (dedup_nil_spec (flat_map (fun ev : nat * list str => pre (node_at h (fst ev))) evs)) as [N I].
    split; auto. split.
    - intros p. rewrite I, in_flat_map. split.
      + intros [[n pos] [Hev Hp]]. exists n. split; auto. apply Hr. apply in_map_iff. exists (n, pos); auto.
      + intros [n [Hn Hp]]. apply Hr in Hn. apply in_map_iff in Hn. destruct Hn as [[n' pos] [<- Hev]].
        exists (n', pos); auto.
    - exists (length L).
      rewrite firstn_app, skipn_app, Nat.sub_diag. simpl.
      rewrite firstn_all, skipn_all. simpl.
      rewrite List.app_nil_r, posts_app, posts_Execute, List.app_nil_r, execs_Execute. auto.
  Qed.

  (* the variant that calls __post_init__ before the copy is told apart by the statement above:
     its __post_init__ sees no parameter                                                        *)
  Lemma replay_node_post_first n m :
    snd (replay (node_trace h true n) m) = [PostInit n (map fst (mem_get m n))].
  Proof. unfold node_trace. simpl. rewrite replay_sets. reflexivity. Qed.
End InstLog.

(* ---- the parameter-file loader --------------------------------------------------- *)
Lemma nodupb_spec l : nodupb l = true -> NoDup l.
Proof.
  induction l as [|x l IH]; simpl; intros H; constructor.
  - apply andb_true_iff in H. destruct H as [H _]. apply negb_true_iff, memb_false in H. auto.
  - apply andb_true_iff in H. destruct H as [_ H]. auto.
Qed.

Lemma from_params_inv once defs r :
  from_params_gen once defs = Some r ->
  exists front last, defs = front ++ [last] /\ defs_ok defs = true /\
    r_objects r = map def_object defs /\
    r_log r = map (fun d => PostInit (d_id d) (map fst (d_fields d))) defs
              ++ map Execute (pretasks defs) ++ map Execute (inits once defs last) ++ [Body (d_id last)] /\
    r_root r = d_id last.
Proof.
  unfold from_params_gen. destruct (rev defs) as [|last rfront] eqn:Erev; [discriminate|].
  destruct (defs_ok defs) eqn:Eok; [|discriminate]. intros Er. inversion Er; subst; simpl.
  exists (rev rfront), last. repeat split; auto.
  rewrite <- (rev_involutive defs), Erev. reflexivity.
Qed.

(* one object per definition, wired like the definitions; identities are the ids *)
Theorem params_objects_gen : forall once defs r, from_params_gen once defs = Some r ->
  map o_id (r_objects r) = map d_id defs /\ NoDup (map o_id (r_objects r)) /\
  (forall d, In d defs -> In {| o_id := d_id d; o_attrs := map (fun kv => (fst kv, image (snd kv))) (d_fields d) |} (r_objects r)) /\
  (forall o k ov m, In o (r_objects r) -> In (k, ov) (o_attrs o) -> In m (orefs ov) ->
     In m (map o_id (r_objects r))).
Proof.
  intros once defs r Er. destruct (from_params_inv _ _ _ Er) as [front [last [Ed [Eok [Ho _]]]]].
  unfold defs_ok in Eok. apply andb_true_iff in Eok. destruct Eok as [Hn Hrefs].
  assert (Hids : map o_id (r_objects r) = map d_id defs).
  { rewrite Ho, map_map. apply map_ext. reflexivity. }
  split; auto. split; [rewrite Hids; apply nodupb_spec; auto|]. split.
  - intros d Hd. rewrite Ho. apply in_map_iff. exists d; auto.
  - intros o k ov m Hin Hk Hm. rewrite Hids. rewrite Ho in Hin.
    apply in_map_iff in Hin. destruct Hin as [d [<- Hd]]. simpl in Hk.
    rewrite forallb_forall in Hrefs. specialize (Hrefs d Hd). rewrite forallb_forall in Hrefs.
    apply memb_In. apply Hrefs. unfold def_refs. apply in_or_app. left.
    apply in_map_iff in Hk. destruct Hk as [[k' v] [Ekv Hf]].
    apply in_flat_map. exists (k', v). split; auto. inversion Ekv; subst. auto.
Qed.

Theorem params_objects : forall defs r, from_params defs = Some r ->
  map o_id (r_objects r) = map d_id defs /\ NoDup (map o_id (r_objects r)) /\
  (forall d, In d defs -> In {| o_id := d_id d; o_attrs := map (fun kv => (fst kv, image (snd kv))) (d_fields d) |} (r_objects r)) /\
  (forall o k ov m, In o (r_objects r) -> In (k, ov) (o_attrs o) -> In m (orefs ov) ->
     In m (map o_id (r_objects r))).
Proof. exact (params_objects_gen true). Qed.

(* the executed sequence: every __post_init__ (definition order, each after its own fields),
   then the distinct pre-tasks in definition order, then the init tasks of the last
   definition (inits once defs last), then the body                                          *)
Theorem init_after_pre_before_body_gen : forall once defs r, from_params_gen once defs = Some r ->
  exists front last, defs = front ++ [last] /\
    r_log r = map (fun d => PostInit (d_id d) (map fst (d_fields d))) defs
              ++ map Execute (pretasks defs) ++ map Execute (inits once defs last) ++ [Body (d_id last)] /\
    NoDup (pretasks defs) /\
    (forall p, In p (pretasks defs) <-> exists d, In d defs /\ In p (d_pre d)) /\
    execs (r_log r) = pretasks defs ++ inits once defs last /\
    posts (r_log r) = map d_id defs.
Proof.
  intros once defs r Er. destruct (from_params_inv _ _ _ Er) as [front [last [Ed [_ [_ [Hl _]]]]]].
  exists front, last. split; auto. split; auto.
  unfold pretasks. destruct (dedup_nil_spec (flat_map d_pre defs)) as [N I].
  split; auto. split.
  - intros p. rewrite I, in_flat_map. tauto.
  - rewrite Hl, !execs_app, !posts_app, execs_PostInit, posts_PostInit, !execs_Execute, !posts_Execute.
    simpl. rewrite !List.app_nil_r. auto.
Qed.

(* the repaired loader: every lightweight task - pre-task or init task - runs exactly once, all of them
   after every __post_init__ and before the body; an init task runs after the pre-tasks unless it is
   itself one of them                                                                          *)
Theorem init_after_pre_before_body : forall defs r, from_params defs = Some r ->
  exists front last, defs = front ++ [last] /\
    r_log r = map (fun d => PostInit (d_id d) (map fst (d_fields d))) defs
              ++ map Execute (pretasks defs) ++ map Execute (inits true defs last) ++ [Body (d_id last)] /\
    NoDup (pretasks defs) /\
    (forall p, In p (pretasks defs) <-> exists d, In d defs /\ In p (d_pre d)) /\
    execs (r_log r) = pretasks defs ++ inits true defs last /\
    posts (r_log r) = map d_id defs /\
    NoDup (inits true defs last) /\
    (forall p, In p (inits true defs last) <-> In p (d_init last) /\ ~ In p (pretasks defs)).
Proof.
  intros defs r Er.
  destruct (init_after_pre_before_body_gen true defs r Er) as [front [last [Ed [Hl [N [I [X P]]]]]]].
  exists front, last. repeat split; auto; try (apply I); try (apply (proj1 (dedup_spec (d_init last) (pretasks defs)))).
  - apply (proj2 (dedup_spec (d_init last) (pretasks defs))); auto.
  - apply (proj2 (dedup_spec (d_init last) (pretasks defs))); auto.
  - intros [A B]. apply (proj2 (dedup_spec (d_init last) (pretasks defs))). auto.
Qed.

Lemma nodup_app_disjoint {A} (a b : list A) :
  NoDup a -> NoDup b -> (forall x, In x b -> ~ In x a) -> NoDup (a ++ b).
Proof.
  induction a as [|x a IH]; simpl; intros Na Nb D; auto.
  inversion Na; subst. constructor.
  - rewrite in_app_iff. intros [H|H]; auto. apply (D x H). left; auto.
  - apply IH; auto. intros y Hy Hin. apply (D y Hy). right; auto.
Qed.

(* exactly once over the whole run: no hypothesis *)
Theorem params_each_once : forall defs r, from_params defs = Some r ->
  NoDup (execs (r_log r)) /\
  exists front last, defs = front ++ [last] /\
    forall p, In p (execs (r_log r)) <-> (In p (d_init last) \/ exists d, In d defs /\ In p (d_pre d)).
Proof.
  intros defs r Er.
  destruct (init_after_pre_before_body defs r Er) as [front [last [Ed [_ [Np [Ip [Hx [_ [Ni Ii]]]]]]]]].
  split.
  - rewrite Hx. apply nodup_app_disjoint; auto. intros x Hx' Hin. apply Ii in Hx'. tauto.
  - exists front, last. split; auto. intros p. rewrite Hx, in_app_iff, Ii. split.
    + intros [H|[H _]]; [right; apply Ip; auto | left; auto].
    + intros [H|H].
      * destruct (in_dec Nat.eq_dec p (pretasks defs)) as [Hin|Hout]; auto.
      * left. apply Ip; auto.
Qed.

(* the loader before fixes/C13-1.diff runs every ENTRY of the init-task list: exactly once only when the
   init tasks are pairwise distinct and none of them is also a pre-task                              *)
Theorem params_each_once_listed : forall defs r front last, from_params_listed defs = Some r ->
  defs = front ++ [last] -> NoDup (d_init last) ->
  (forall p, In p (d_init last) -> ~ In p (pretasks defs)) ->
  NoDup (execs (r_log r)).
Proof.
  intros defs r front last Er Ed Ni Hdis.
  destruct (init_after_pre_before_body_gen false _ _ Er) as [front' [last' [Ed' [_ [Np [_ [Hx _]]]]]]].
  rewrite Ed in Ed'. apply app_inj_tail in Ed'. destruct Ed' as [_ <-].
  rewrite Hx. simpl. clear - Ni Hdis Np.
  induction (pretasks defs) as [|x l IH]; simpl; auto.
  inversion Np; subst. constructor.
  - rewrite in_app_iff. intros [H|H]; auto. apply (Hdis x H). left; auto.
  - apply IH; auto. intros p Hp Hin. apply (Hdis p Hp). right; auto.
Qed.

(* ---- the parameter file of a graph: every reachable configuration is defined once,
   before the task itself, and loading it answers --------------------------------------- *)
Lemma nodupb_complete l : NoDup l -> nodupb l = true.
Proof.
  induction 1 as [|x l Hx _ IH]; simpl; auto.
  rewrite IH, andb_true_r. apply negb_true_iff, memb_false. auto.
Qed.

Section Load.
  Variable h : heap.
  Notation nocut := (fun _ : nat => false).
  Notation reach := (reach h (ser_edges) nocut).

  (* every reference of the heap is a position of the heap *)
  Definition wf_heap : Prop :=
    forall n nd, nth_error h n = Some nd -> forall e, In e (ser_edges n nd) -> snd e < length h.

  Lemma def_refs_edges n nd m : nth_error h n = Some nd ->
    In m (def_refs (def_of h n)) -> In m (map snd (ser_edges n nd)).
  Proof.
    intros En Hm. unfold def_refs, def_of in Hm. simpl in Hm.
    assert (Hnd : node_at h n = nd) by (unfold node_at; apply nth_error_nth; auto).
    rewrite Hnd in Hm. unfold ser_edges. rewrite !map_app, !map_map. simpl. rewrite !map_id.
    rewrite !in_app_iff in *. destruct Hm as [Hm|[Hm|Hm]]; auto.
    left. apply fields_edges in Hm. rewrite <- map_map with (f := snd) (g := fun x => x), map_id. auto.
  Qed.

  Theorem load_total_gen : forall once, wf_heap -> forall root, root < length h ->
    exists r, load_gen once h root = Some r /\
      NoDup (map o_id (r_objects r)) /\
      (forall n, In n (map o_id (r_objects r)) <-> reach root n) /\
      r_root r = root.
  Proof.
    intros once W root Hroot.
    destruct (walk_correct h ser_edges nocut root) as [evs [Ew [Nd [Hr Hp]]]].
    unfold load_gen, ser_order. rewrite Ew.
    assert (Hexp : forall n, n < length h -> expanded h nocut n).
    { intros n Hn. apply nth_error_range in Hn. destruct (nth_error h n) as [nd|] eqn:En; [|congruence].
      exists nd; auto. }
    assert (Hroot' : reach root root) by (exists []; constructor; auto).
    (* root is the last event: postprocess of the root comes last *)
    set (order := map fst evs) in *.
    assert (Hok : defs_ok (map (def_of h) order) = true).
    { unfold defs_ok. rewrite map_map. simpl. rewrite map_id.
      rewrite (nodupb_complete _ Nd). simpl.
      apply forallb_forall. intros d Hd. apply in_map_iff in Hd. destruct Hd as [n [<- Hn]].
      apply forallb_forall. intros m Hm. apply memb_In.
      assert (Hrn := proj1 (Hr n) Hn).
      destruct Hrn as [p Hpath]. assert (Hx := path_end _ _ _ _ _ _ Hpath). destruct Hx as [nd [En _]].
      assert (He := def_refs_edges n nd m En Hm).
      apply in_map_iff in He. destruct He as [[rel m'] [Em He]]. simpl in Em. subst m'.
      apply Hr. apply reach_step with (n := n) (rel := rel).
      - exists p; auto.
      - unfold out_edges. rewrite En. auto.
      - apply Hexp. apply (W n nd En (rel, m) He). }
    unfold from_params_gen. rewrite Hok.
    destruct (rev (map (def_of h) order)) as [|last rest] eqn:Erev.
    { exfalso. apply Hr in Hroot'. fold order in Hroot'.
      assert (El : map (def_of h) order = []) by (rewrite <- (rev_involutive (map _ order)), Erev; auto).
      destruct order; [destruct Hroot' | discriminate]. }
    eexists. split; [reflexivity|]. simpl.
    assert (Hids : map o_id (map def_object (map (def_of h) order)) = order).
    { rewrite !map_map. simpl. apply map_id. }
    rewrite Hids. split; auto. split; auto.
    (* the last definition is the root: the walk ends with the postprocess of its root *)
    destruct (walk_root_last h ser_edges nocut root evs Ew (Hexp root Hroot)) as [evs' Eevs].
    unfold order in Erev. rewrite Eevs, !map_app, rev_app_distr in Erev. simpl in Erev.
    inversion Erev. reflexivity.
  Qed.

  Theorem load_total : wf_heap -> forall root, root < length h ->
    exists r, load h root = Some r /\
      NoDup (map o_id (r_objects r)) /\
      (forall n, In n (map o_id (r_objects r)) <-> reach root n) /\
      r_root r = root.
  Proof. exact (load_total_gen true). Qed.
End Load.

(* decidable form of wf_heap *)
Definition wf_heapb (h : heap) : bool :=
  forallb (fun n => match nth_error h n with
                    | Some nd => forallb (fun e : edge => Nat.ltb (snd e) (length h)) (ser_edges n nd)
                    | None => true end) (seq 0 (length h)).

Lemma wf_heapb_sound h : wf_heapb h = true -> wf_heap h.
Proof.
  unfold wf_heapb, wf_heap. rewrite forallb_forall. intros H n nd En e He.
  assert (Hn : n < length h) by (apply nth_error_range; congruence).
  specialize (H n ltac:(apply in_seq; lia)). rewrite En in H. rewrite forallb_forall in H.
  apply Nat.ltb_lt. auto.
Qed.

(* ---- examples ------------------------------------------------------------------------ *)
Definition x_c : str := [99%N].
Definition x_l : str := [108%N].
Definition xn fs pr ini := {| cls := 0; fields := fs; pre := pr; init := ini; task := None; sealed := false |}.

(* 0 = task: c -> 1, l -> [3; 2], pre-task 5, init tasks [6];
   1 <-> 2 (cycle), both with pre-task 4 (shared), 2 also with 5;  4: c -> 3 (shared with the task) *)
Definition x_heap : heap :=
  [ xn [(x_c, VRef 1); (x_l, VList [VRef 3; VRef 2])] [5] [6];
    xn [(x_c, VRef 2)] [4] [];
    xn [(x_c, VRef 1)] [4; 5] [];
    xn [] [] [];
    xn [(x_c, VRef 3)] [] [];
    xn [] [] [];
    xn [] [] [] ].

Example x_wf : wf_heap x_heap.
Proof. apply wf_heapb_sound. vm_compute. reflexivity. Qed.

(* instance(): post-inits 3,4,5,2,1,0 (2 before 1: the cycle is entered at 1), then pre-tasks 4 and 5 once each *)
Example x_instance :
  option_map r_log (instantiate x_heap [] 0) =
  Some [ PostInit 3 []; PostInit 4 [x_c]; PostInit 5 []; PostInit 2 [x_c]; PostInit 1 [x_c];
         PostInit 6 []; PostInit 0 [x_c; x_l]; Execute 4; Execute 5 ].
Proof. vm_compute. reflexivity. Qed.

(* parameter file: definitions 3,4,5,2,1,6,0; pre-tasks 4,5 once each, then init task 6, then the body *)
Example x_load :
  option_map r_log (load x_heap 0) =
  Some [ PostInit 3 []; PostInit 4 [x_c]; PostInit 5 []; PostInit 2 [x_c]; PostInit 1 [x_c];
         PostInit 6 []; PostInit 0 [x_c; x_l]; Execute 4; Execute 5; Execute 6; Body 0 ].
Proof. vm_compute. reflexivity. Qed.

(* with an ObjectStore in which 2 (hence what it reaches) is already constructed *)
Example x_instance_store :
  option_map r_log (instantiate x_heap [2; 1; 3; 4; 5] 0) =
  Some [ PostInit 6 []; PostInit 0 [x_c; x_l]; Execute 5 ].
Proof. vm_compute. reflexivity. Qed.

(* the loader before fixes/C13-1.diff: an init task listed twice, or listed as init task and attached as
   pre-task, is executed twice; the repaired loader executes it once                           *)
Definition twice_defs : list def :=
  [ {| d_id := 1; d_fields := []; d_pre := []; d_init := [] |};
    {| d_id := 2; d_fields := []; d_pre := []; d_init := [] |};
    {| d_id := 0; d_fields := []; d_pre := [1]; d_init := [2; 1; 2] |} ].

Example init_listed_twice_runs_twice :
  exists defs r, from_params_listed defs = Some r /\ execs (r_log r) = [1; 2; 1; 2].
Proof. exists twice_defs. eexists. split; [vm_compute; reflexivity|]. reflexivity. Qed.

Theorem init_twice_refuted :
  exists defs r, from_params_listed defs = Some r /\ ~ NoDup (execs (r_log r)) /\
    exists r', from_params defs = Some r' /\ execs (r_log r') = [1; 2].
Proof.
  exists twice_defs. eexists. split; [vm_compute; reflexivity|]. split.
  - simpl. intros N. inversion N as [|? ? H _]; subst. apply H. simpl. auto.
  - eexists. split; [vm_compute; reflexivity|]. reflexivity.
Qed.

Example params_hyps_satisfiable :
  exists defs r front last, from_params_listed defs = Some r /\ defs = front ++ [last] /\
    NoDup (d_init last) /\ (forall p, In p (d_init last) -> ~ In p (pretasks defs)) /\ d_init last <> [] /\
    pretasks defs <> [].
Proof.
  exists (map (def_of x_heap) [3; 4; 5; 2; 1; 6; 0]).
  eexists. exists (map (def_of x_heap) [3; 4; 5; 2; 1; 6]), (def_of x_heap 0).
  split; [vm_compute; reflexivity|]. split; [reflexivity|].
  split; [simpl; constructor; [intros []|constructor]|].
  split; [|split; [simpl; discriminate | vm_compute; discriminate]].
  intros p Hp. simpl in Hp. destruct Hp as [<-|[]]. vm_compute. intros [H|[H|[]]]; discriminate.
Qed.

(* ---- ObjectStore / stub: a configuration keeps the object it was first given --------------- *)
Lemma stub_keeps {obj} (fresh o : obj) st n : retrieve st n = Some o -> stub fresh st n = (st, o).
Proof. unfold stub. intros ->. reflexivity. Qed.

Lemma stub_retrieve {obj} (fresh : obj) st n :
  retrieve (fst (stub fresh st n)) n = Some (snd (stub fresh st n)) /\
  forall m, m <> n -> retrieve (fst (stub fresh st n)) m = retrieve st m.
Proof.
  unfold stub. destruct (retrieve st n) as [o|] eqn:E; simpl.
  - split; auto.
  - rewrite Nat.eqb_refl. split; auto. intros m Hm.
    destruct (Nat.eqb n m) eqn:Enm; auto. apply Nat.eqb_eq in Enm. congruence.
Qed.

(* asking again (the gathering of a pre-task in postprocess, a later instance() call on the same
   store) answers the same object and leaves the store alone - whatever the object looks like   *)
Theorem stub_again : forall {obj} (f1 f2 : obj) st n,
  stub f2 (fst (stub f1 st n)) n = (fst (stub f1 st n), snd (stub f1 st n)).
Proof. intros. apply stub_keeps. apply (stub_retrieve f1 st n). Qed.

(* other configurations are never disturbed, so a store built by stub calls only holds at most
   one object per configuration: the first one                                                 *)
Fixpoint stubs {obj} (st : ostore obj) (reqs : list (nat * obj)) : ostore obj :=
  match reqs with [] => st | (n, fresh) :: reqs' => stubs (fst (stub fresh st n)) reqs' end.

Theorem stub_first_wins : forall {obj} (reqs : list (nat * obj)) st n o,
  retrieve st n = Some o -> retrieve (stubs st reqs) n = Some o.
Proof.
  induction reqs as [|[m f] reqs IH]; simpl; intros st n o H; auto.
  apply IH. destruct (Nat.eq_dec n m) as [->|Hnm].
  - rewrite (stub_keeps f o st m H). exact H.
  - rewrite (proj2 (stub_retrieve f st m) n Hnm). exact H.
Qed.

Theorem store_keeps_first_object : forall (obj : Type),
  (forall (f1 f2 : obj) st n,
     stub f2 (fst (stub f1 st n)) n = (fst (stub f1 st n), snd (stub f1 st n))) /\
  (forall (reqs : list (nat * obj)) st n o,
     retrieve st n = Some o -> retrieve (stubs st reqs) n = Some o).
Proof. intros obj. split; [apply @stub_again | apply @stub_first_wins]. Qed.

(* the truth-value variant: a second request for a configuration whose object is falsy answers
   another object                                                                              *)
Theorem stub_by_truth_refuted : exists (truthy : nat -> bool) f1 f2 st n,
  snd (stub_by_truth truthy f2 (fst (stub_by_truth truthy f1 st n)) n)
  <> snd (stub_by_truth truthy f1 st n).
Proof. exists (fun o => negb (Nat.eqb o 0)), 0, 1, [], 5. vm_compute. discriminate. Qed.

(* ... while it agrees with stub on stores that only hold truthy objects, up to the redundant
   re-binding (which is why ordinary classes do not show the difference)                       *)
Lemma stub_by_truth_truthy {obj} (truthy : obj -> bool) fresh st n :
  (forall o, retrieve st n = Some o -> truthy o = true) ->
  snd (stub_by_truth truthy fresh st n) = snd (stub fresh st n) /\
  forall m, retrieve (fst (stub_by_truth truthy fresh st n)) m = retrieve (fst (stub fresh st n)) m.
Proof.
  unfold stub_by_truth, stub. intros H. destruct (retrieve st n) as [o|] eqn:E; simpl.
  - rewrite (H o eq_refl). simpl. split; auto. intros m.
    destruct (Nat.eqb n m) eqn:Enm; auto. apply Nat.eqb_eq in Enm. subst. auto.
  - split; auto.
Qed.

(* ---- the classes are not an input ------------------------------------------------------- *)
Lemma fold_opt_ext_eq' {A S} (f g : A -> S -> option S) l :
  (forall x s, f x s = g x s) -> forall s, fold_opt f l s = fold_opt g l s.
Proof.
  intros H. induction l as [|x l IH]; simpl; intros s; auto.
  rewrite H. destruct (g x s); auto.
Qed.

Lemma visit_map (g : node -> node) (E : nat -> node -> list edge) cut h :
  (forall n nd, E n (g nd) = E n nd) ->
  forall fuel pos n st, visit (map g h) E cut fuel pos n st = visit h E cut fuel pos n st.
Proof.
  intros HE. induction fuel as [|f IH]; intros pos n st; simpl; auto.
  rewrite nth_error_map. destruct (nth_error h n) as [nd|]; simpl; auto.
  destruct (memb n (visited st)); auto. destruct (cut n); auto.
  rewrite HE.
  rewrite (fold_opt_ext_eq' _ (fun e s => visit h E cut f (pos ++ fst e) (snd e) s)); auto.
Qed.

Lemma walk_map (g : node -> node) E cut h root :
  (forall n nd, E n (g nd) = E n nd) -> walk (map g h) E cut root = walk h E cut root.
Proof. intros HE. unfold walk, fuel_bound. rewrite map_length, (visit_map g E cut h HE). reflexivity. Qed.

Lemma node_at_recls f h n :
  fields (node_at (map (recls f) h) n) = fields (node_at h n) /\
  pre (node_at (map (recls f) h) n) = pre (node_at h n) /\
  init (node_at (map (recls f) h) n) = init (node_at h n).
Proof.
  unfold node_at. destruct (nth_error h n) as [nd|] eqn:En.
  - rewrite (nth_error_nth _ _ _ En).
    assert (En' : nth_error (map (recls f) h) n = Some (recls f nd)) by (rewrite nth_error_map, En; reflexivity).
    rewrite (nth_error_nth _ _ _ En'). auto.
  - apply nth_error_None in En. rewrite !nth_overflow; auto. rewrite map_length. exact En.
Qed.

Lemma inst_trace_recls f h pf evs : inst_trace (map (recls f) h) pf evs = inst_trace h pf evs.
Proof.
  unfold inst_trace. f_equal.
  - apply flat_map_ext. intros ev. unfold node_trace. rewrite (proj1 (node_at_recls f h (fst ev))). reflexivity.
  - f_equal. unfold gathered. f_equal. apply flat_map_ext. intros ev.
    apply (proj1 (proj2 (node_at_recls f h (fst ev)))).
Qed.

Theorem instantiate_class_blind : forall f h constructed root,
  instantiate (map (recls f) h) constructed root = instantiate h constructed root.
Proof.
  intros f h c root. unfold instantiate, instantiate_gen, inst_events.
  rewrite (walk_map (recls f) (node_edges false) (cut_constructed c) h root) by reflexivity.
  destruct (walk h (node_edges false) (cut_constructed c) root) as [evs|]; auto.
  rewrite inst_trace_recls. reflexivity.
Qed.

Theorem load_gen_class_blind : forall once f h root, load_gen once (map (recls f) h) root = load_gen once h root.
Proof.
  intros once f h root. unfold load_gen, ser_order.
  rewrite (walk_map (recls f) ser_edges (fun _ => false) h root) by reflexivity.
  destruct (walk h ser_edges (fun _ => false) root) as [evs|]; auto.
  f_equal. apply map_ext. intros n. unfold def_of.
  destruct (node_at_recls f h n) as [A [B C]]. rewrite A, B, C. reflexivity.
Qed.

Theorem load_class_blind : forall f h root, load (map (recls f) h) root = load h root.
Proof. exact (load_gen_class_blind true). Qed.

(* two graphs that differ by the classes only (any classes): same objects, same log *)
Theorem class_blind : forall h h' constructed root,
  map (recls (fun _ => 0)) h = map (recls (fun _ => 0)) h' ->
  instantiate h constructed root = instantiate h' constructed root /\ load h root = load h' root.
Proof.
  intros h h' c root E. split.
  - rewrite <- (instantiate_class_blind (fun _ => 0) h), <- (instantiate_class_blind (fun _ => 0) h'), E. reflexivity.
  - rewrite <- (load_class_blind (fun _ => 0) h), <- (load_class_blind (fun _ => 0) h'), E. reflexivity.
Qed.

(* non-vacuity: x_heap with container-like / falsy / by-content classes (as harness/vpk_c13 has them) *)
Example x_class_blind :
  let h' := mapi_from (fun i nd => recls (fun _ => i) nd) 4 x_heap in
  map cls h' = [4; 5; 6; 7; 8; 9; 10] /\
  instantiate h' [] 0 = instantiate x_heap [] 0 /\ load h' 0 = load x_heap 0.
Proof. split; [reflexivity|]. apply class_blind. reflexivity. Qed.

(* ---- distinct parameter names: decidable form, non-vacuity; the order of copy and __post_init__ ---- *)
Lemma nodup_strb_spec l : nodup_strb l = true -> NoDup l.
Proof.
  induction l as [|k l IH]; simpl; intros H; constructor.
  - apply andb_true_iff in H. destruct H as [H _]. apply negb_true_iff in H.
    intros Hin. assert (X : existsb (str_eqb k) l = true).
    { apply existsb_exists. exists k. split; auto. apply str_eqb_eq. reflexivity. }
    congruence.
  - apply IH. apply andb_true_iff in H. tauto.
Qed.

Lemma fields_nodupb_sound h : fields_nodupb h = true -> fields_nodup h.
Proof.
  unfold fields_nodupb, fields_nodup. rewrite forallb_forall. intros H n nd En.
  apply nodup_strb_spec. apply H. eapply nth_error_In; eauto.
Qed.

Example x_fields_nodup : fields_nodup x_heap.
Proof. apply fields_nodupb_sound. vm_compute. reflexivity. Qed.

(* __post_init__ before the attribute copy: the call of the task's object sees none of its two
   parameters - the conclusion of post_init_once_after_fields fails for this variant          *)
Theorem post_first_refuted : exists h root r n,
  fields_nodup h /\ instantiate_post_first h [] root = Some r /\
  In (PostInit n []) (r_log r) /\ fields (node_at h n) <> [] /\
  ~ In (PostInit n (map fst (fields (node_at h n)))) (r_log r).
Proof.
  exists x_heap, 0. eexists. exists 0. split; [exact x_fields_nodup|].
  split; [vm_compute; reflexivity|]. split; [simpl; auto 10|]. split; [discriminate|].
  simpl. intros H. repeat (destruct H as [H|H]; [discriminate|]). exact H.
Qed.

(* ... while the objects end up wired the same way (the copy still happens): the two variants differ in
   the log only                                                                                 *)
Example post_first_same_objects :
  option_map r_objects (instantiate_post_first x_heap [] 0) = option_map r_objects (instantiate x_heap [] 0).
Proof. vm_compute. reflexivity. Qed.

(* ---- a store shared by two instance() calls: no pre-task is executed twice ------------------- *)
Lemma execs_filter executed l :
  execs (filter (not_executed executed) l) = filter (fun p => negb (memb p executed)) (execs l).
Proof.
  induction l as [|c l IH]; simpl; auto.
  destruct c; simpl; auto. destruct (negb (memb obj executed)); simpl; rewrite IH; auto.
Qed.

Theorem store_pretasks_once : forall h c e root1 root2 r1 r2,
  NoDup e ->
  instantiate_store h c e root1 = Some r1 ->
  instantiate_store h (c ++ map o_id (r_objects r1)) (e ++ execs (r_log r1)) root2 = Some r2 ->
  NoDup (e ++ execs (r_log r1) ++ execs (r_log r2)).
Proof.
  intros h c e root1 root2 r1 r2 Ne E1 E2. unfold instantiate_store in E1, E2.
  destruct (instantiate h c root1) as [x1|] eqn:I1; [|discriminate].
  destruct (instantiate h (c ++ map o_id (r_objects r1)) root2) as [x2|] eqn:I2; [|discriminate].
  inversion E1; subst r1. inversion E2; subst r2. simpl in *. clear E1 E2.
  destruct (pretasks_once h c root1 x1 I1) as [N1 _].
  destruct (pretasks_once h _ root2 x2 I2) as [N2 _].
  rewrite !execs_filter.
  set (a := filter (fun p => negb (memb p e)) (execs (r_log x1))).
  rewrite List.app_assoc. apply nodup_app_disjoint.
  - apply nodup_app_disjoint; auto.
    + apply NoDup_filter; auto.
    + intros x Hx Hin. apply filter_In in Hx. destruct Hx as [_ Hx]. apply negb_true_iff in Hx.
      apply memb_false in Hx. auto.
  - apply NoDup_filter; auto.
  - intros x Hx Hin. apply filter_In in Hx. destruct Hx as [_ Hx]. apply negb_true_iff in Hx.
    apply memb_false in Hx. auto.
Qed.

(* without the `executed` set: a pre-task attached to configurations created by two calls runs in both *)
Theorem store_pretask_twice_refuted : exists h root1 root2 r1 r2 p,
  instantiate h [] root1 = Some r1 /\ instantiate h (map o_id (r_objects r1)) root2 = Some r2 /\
  In p (execs (r_log r1)) /\ In p (execs (r_log r2)).
Proof.
  exists [ xn [(x_c, VRef 1)] [2] []; xn [] [2] []; xn [] [] [] ], 1, 0. eexists. eexists. exists 2.
  split; [vm_compute; reflexivity|]. split; [vm_compute; reflexivity|]. simpl. auto.
Qed.
