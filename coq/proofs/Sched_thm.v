(* Proofs about model/Sched.v, part 3: the property theorems of C04, C06, C07 (safety part). *)
From Coq Require Import ZArith List Bool Arith Lia ZifyBool.
From XV Require Import model.Sched proofs.Sched_lemmas proofs.Sched_inv.
Import ListNotations.
Open Scope Z_scope.
Set Implicit Arguments.

Definition reachable (W : workload) (s : state) : Prop := exists ls, steps W (init W) ls = Some s.

Lemma reachable_inv : forall W s, wf W = true -> reachable W s -> Inv W s.
Proof. intros W s WF (ls & H). eapply inv_reachable; eauto. Qed.

Lemma reachable_step : forall W s l s', reachable W s -> step W s l = Some s' -> reachable W s'.
Proof.
  intros W s l s' (ls & H) S. exists (ls ++ [l]). unfold steps in *.
  revert H. generalize (init W). induction ls as [|a ls IH]; simpl; intros s0 H.
  - inversion H; subst. unfold step in S. rewrite S. auto.
  - destruct (step_gen W all_fixed s0 a); [apply IH; auto|discriminate].
Qed.

(* ------------------------------------------------------------------ C06 final_absorbing *)
Theorem final_absorbing_step : forall W s l s' j, wf W = true -> reachable W s -> step W s l = Some s' ->
  past_loop (pc (jobs s j)) = true ->
  st (jobs s' j) = st (jobs s j) /\ past_loop (pc (jobs s' j)) = true /\ finished (st (jobs s j)) = true.
Proof.
  intros W s l s' j WF R S P. pose proof (reachable_inv WF R) as I.
  destruct (ext_step _ WF I S) as (_ & ST). destruct (ST j) as (A & B & C & _).
  pose proof (l_A (I_loc I j) P) as F.
  split; [|split; auto]. destruct (st (jobs s j)); simpl in F; try discriminate; symmetry; auto.
Qed.

Theorem final_absorbing : forall W ls s s' j, wf W = true -> reachable W s -> steps W s ls = Some s' ->
  past_loop (pc (jobs s j)) = true ->
  st (jobs s' j) = st (jobs s j) /\ past_loop (pc (jobs s' j)) = true.
Proof.
  intros W ls. induction ls as [|l ls IH]; intros s s' j WF R H P.
  - inversion H; subst; auto.
  - unfold steps in H. simpl in H. destruct (step_gen W all_fixed s l) as [s1|] eqn:E; [|discriminate].
    destruct (final_absorbing_step j WF R E P) as (A & B & _).
    destruct (IH s1 s' j WF (reachable_step R E) H B) as (C & D). split; congruence.
Qed.

(* the value returned by job.wait() is the final state and stays so *)
Theorem returned_stable : forall W ls s s' j r, wf W = true -> reachable W s -> steps W s ls = Some s' ->
  pc (jobs s j) = PReturned r -> pc (jobs s' j) = PReturned r /\ st (jobs s' j) = r /\ finished r = true.
Proof.
  intros W ls. induction ls as [|l ls IH]; intros s s' j r WF R H P.
  - inversion H; subst. pose proof (reachable_inv WF R) as I. split; auto.
    pose proof (l_RT (I_loc I j) P) as X. split; auto. rewrite <- X. apply (l_A (I_loc I j)). rewrite P. auto.
  - unfold steps in H. simpl in H. destruct (step_gen W all_fixed s l) as [s1|] eqn:E; [|discriminate].
    pose proof (reachable_inv WF R) as I. destruct (ext_step _ WF I E) as (_ & ST). destruct (ST j) as (_ & _ & _ & D & _).
    apply (IH s1 s' j r WF (reachable_step R E) H). auto.
Qed.

(* ------------------------------------------------------------------ C06 counter_exact *)
Theorem counter_exact : forall W s, wf W = true -> reachable W s ->
  unfinished s = Z.of_nat (length (filter (fun j => counted (pc (jobs s j))) (seq 0 (njobs W)))) /\ 0 <= unfinished s.
Proof.
  intros W s WF R. pose proof (I_cnt (reachable_inv WF R)) as C. split; [exact C|]. rewrite C. apply Nat2Z.is_nonneg.
Qed.

(* ------------------------------------------------------------------ C04 launch_after_deps *)
(* the step at which job j is launched (aio_run called) *)
Definition launch_step (s s' : state) (j : nat) : Prop := launches (jobs s' j) = S (launches (jobs s j)).

Theorem launch_after_deps : forall W s l s' j k, wf W = true -> reachable W s -> step W s l = Some s' ->
  launch_step s s' j -> In (DJob k) (deps W j) ->
  st (jobs s k) = DONE /\ st (jobs s' k) = DONE.
Proof.
  intros W s l s' j k WF R S L D. pose proof (reachable_inv WF R) as I.
  destruct (ext_step _ WF I S) as (I' & ST). destruct (ST j) as (_ & _ & _ & _ & [X|(_ & _ & P)]).
  - unfold launch_step in L. rewrite X in L. exfalso. clear - L. lia.
  - assert (A : st (jobs s k) = DONE) by (apply (I_RD I j k); auto; right; rewrite P; auto).
    split; auto. destruct (ST k) as (B & _). auto.
Qed.

(* in every reachable state, a job that has been launched has all its job dependencies DONE *)
Theorem launched_deps_done : forall W s j k, wf W = true -> reachable W s ->
  (launches (jobs s j) >= 1)%nat -> In (DJob k) (deps W j) -> st (jobs s k) = DONE.
Proof.
  intros W s j k WF R L D. pose proof (reachable_inv WF R) as I.
  pose proof (l_L1 (I_loc I j)) as L1. apply (I_LD I j k); auto. clear - L L1. lia.
Qed.

(* supporting invariants, as stated in DESIGN section 6 *)
Theorem unsatisfied_counts : forall W s j, wf W = true -> reachable W s -> started (pc (jobs s j)) = true ->
  length (cur (jobs s j)) = length (deps W j) /\ uns (jobs s j) = Z.of_nat (count_nok (cur (jobs s j))).
Proof. intros W s j WF R S. apply (l_CI (I_loc (reachable_inv WF R) j) S). Qed.

Theorem ok_means_done : forall W s j i k, wf W = true -> reachable W s -> started (pc (jobs s j)) = true ->
  nth_error (cur (jobs s j)) i = Some DOK -> nth_error (deps W j) i = Some (DJob k) -> st (jobs s k) = DONE.
Proof. intros W s j i k WF R. apply (I_CO (reachable_inv WF R)). Qed.

Theorem done_absorbing : forall W ls s s' k, wf W = true -> reachable W s -> steps W s ls = Some s' ->
  st (jobs s k) = DONE -> st (jobs s' k) = DONE.
Proof.
  intros W ls s s' k WF R H D. pose proof (reachable_inv WF R) as I.
  pose proof (l_D (I_loc I k) D) as P. destruct (final_absorbing k WF R H P) as (A & _). congruence.
Qed.

(* ------------------------------------------------------------------ C06 final_truthful *)
Theorem final_truthful : forall W s j r, wf W = true -> reachable W s -> pc (jobs s j) = PReturned r ->
  st (jobs s j) = r /\
  (r = DONE <-> (j_marker (spec W j) = true \/ ((launches (jobs s j) >= 1)%nat /\ j_code (spec W j) = 0))) /\
  (r <> DONE -> r = ERROR).
Proof.
  intros W s j r WF R P. pose proof (I_loc (reachable_inv WF R) j) as L. unfold jl in L.
  pose proof (l_RT L P) as RT. split; auto.
  assert (F : finished (st (jobs s j)) = true) by (apply (l_A L); rewrite P; auto).
  assert (ST : started (pc (jobs s j)) = true) by (rewrite P; auto).
  pose proof (l_L1 L) as L1.
  split; [split|].
  - intros D. rewrite <- RT in D. destruct (launches (jobs s j)) as [|[|n]] eqn:E; [| |exfalso; clear - L1; lia].
    + left. apply (l_L0 L); auto.
    + right. split; [clear; lia|]. destruct (l_L2 L E) as (_ & [X|(_ & X)]); [rewrite P in X; discriminate|].
      unfold code_state in X. destruct (j_code (spec W j) =? 0) eqn:C; [apply Z.eqb_eq; auto|congruence].
  - intros [M|(LA & C)].
    + rewrite <- RT. apply (l_mk L M ST).
    + assert (E : launches (jobs s j) = 1%nat) by (clear - LA L1; lia).
      destruct (l_L2 L E) as (_ & [X|(_ & X)]); [rewrite P in X; discriminate|].
      rewrite <- RT, X. unfold code_state. rewrite C. reflexivity.
  - intros N. rewrite <- RT in *. destruct (st (jobs s j)); simpl in F; try discriminate; auto. contradiction.
Qed.
