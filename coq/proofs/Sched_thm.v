(* Proofs about model/Sched.v, part 3: the property theorems of C04, C06, C07 (safety part). *)
From Coq Require Import ZArith List Bool Arith Lia ZifyBool.
From XV Require Import model.Sched proofs.Sched_lemmas proofs.Sched_inv.
Import ListNotations.
Open Scope Z_scope.

Definition reachable (W : workload) (s : state) : Prop := exists ls, steps W (init W) ls = Some s.

Lemma reachable_inv : forall W s, wf W = true -> reachable W s -> Inv W s.
Proof. intros W s WF (ls & H). eapply inv_reachable; eauto. Qed.

Lemma reachable_step : forall W s l s', reachable W s -> step W s l = Some s' -> reachable W s'.
Proof.
  intros W s l s' (ls & H) S. exists (ls ++ [l]). unfold steps in *.
  revert H. generalize (init W). induction ls as [|a ls IH]; simpl; intros s0 H.
  - inversion H; subst. unfold step in S. rewrite S. auto.
  - destruct (step_gen W all_fixed s0 a); [apply IH; auto|discriminate].
Qed.

(* ------------------------------------------------------------------ C06 final_absorbing *)
Theorem final_absorbing_step : forall W s l s' j, wf W = true -> reachable W s -> step W s l = Some s' ->
  past_loop (pc (jobs s j)) = true ->
  st (jobs s' j) = st (jobs s j) /\ past_loop (pc (jobs s' j)) = true /\ finished (st (jobs s j)) = true.
Proof.
  intros W s l s' j WF R S P. pose proof (reachable_inv W s WF R) as I.
  destruct (ext_step _ WF I S) as (_ & ST). destruct (ST j) as (A & B & C & _).
  pose proof (l_A (I_loc I j) P) as F.
  split; [|split; auto]. destruct (st (jobs s j)); simpl in F; try discriminate; [apply A|apply B]; reflexivity.
Qed.

Theorem final_absorbing : forall W ls s s' j, wf W = true -> reachable W s -> steps W s ls = Some s' ->
  past_loop (pc (jobs s j)) = true ->
  st (jobs s' j) = st (jobs s j) /\ past_loop (pc (jobs s' j)) = true.
Proof.
  intros W ls. induction ls as [|l ls IH]; intros s s' j WF R H P.
  - inversion H; subst; auto.
  - unfold steps in H. simpl in H. destruct (step_gen W all_fixed s l) as [s1|] eqn:E; [|discriminate].
    destruct (final_absorbing_step W s l s1 j WF R E P) as (A & B & _).
    destruct (IH s1 s' j WF (reachable_step W s l s1 R E) H B) as (C & D). split; congruence.
Qed.

(* the value returned by job.wait() is the final state and stays so *)
Theorem returned_stable : forall W ls s s' j r, wf W = true -> reachable W s -> steps W s ls = Some s' ->
  pc (jobs s j) = PReturned r -> pc (jobs s' j) = PReturned r /\ st (jobs s' j) = r /\ finished r = true.
Proof.
  intros W ls. induction ls as [|l ls IH]; intros s s' j r WF R H P.
  - inversion H; subst. pose proof (reachable_inv W s' WF R) as I. split; auto.
    pose proof (l_RT (I_loc I j) P) as X. split; auto. rewrite <- X. apply (l_A (I_loc I j)). rewrite P. auto.
  - unfold steps in H. simpl in H. destruct (step_gen W all_fixed s l) as [s1|] eqn:E; [|discriminate].
    pose proof (reachable_inv W s WF R) as I. destruct (ext_step _ WF I E) as (_ & ST). destruct (ST j) as (_ & _ & _ & D & _).
    apply (IH s1 s' j r WF (reachable_step W s l s1 R E) H). auto.
Qed.

(* ------------------------------------------------------------------ C06 counter_exact *)
Theorem counter_exact : forall W s, wf W = true -> reachable W s ->
  unfinished s = Z.of_nat (length (filter (fun j => counted (pc (jobs s j))) (seq 0 (njobs W)))) /\ 0 <= unfinished s.
Proof.
  intros W s WF R. pose proof (I_cnt (reachable_inv W s WF R)) as C. split; [exact C|]. rewrite C. apply Nat2Z.is_nonneg.
Qed.

(* ------------------------------------------------------------------ C04 launch_after_deps *)
(* the step at which job j is launched (aio_run called) *)
Definition launch_step (s s' : state) (j : nat) : Prop := launches (jobs s' j) = S (launches (jobs s j)).

Theorem launch_after_deps : forall W s l s' j k, wf W = true -> reachable W s -> step W s l = Some s' ->
  launch_step s s' j -> In (DJob k) (deps W j) ->
  st (jobs s k) = DONE /\ st (jobs s' k) = DONE.
Proof.
  intros W s l s' j k WF R S L D. pose proof (reachable_inv W s WF R) as I.
  destruct (ext_step _ WF I S) as (I' & ST). destruct (ST j) as (_ & _ & _ & _ & [X|(_ & _ & P)]).
  - unfold launch_step in L. rewrite X in L. exfalso. clear - L. lia.
  - assert (A : st (jobs s k) = DONE) by (apply (I_RD I j k); auto; right; rewrite P; auto).
    split; auto. destruct (ST k) as (B & _). auto.
Qed.

(* in every reachable state, a job that has been launched has all its job dependencies DONE *)
Theorem launched_deps_done : forall W s j k, wf W = true -> reachable W s ->
  (launches (jobs s j) >= 1)%nat -> In (DJob k) (deps W j) -> st (jobs s k) = DONE.
Proof.
  intros W s j k WF R L D. pose proof (reachable_inv W s WF R) as I.
  pose proof (l_L1 (I_loc I j)) as L1. apply (I_LD I j k); auto. clear - L L1. lia.
Qed.

(* supporting invariants, as stated in DESIGN section 6 *)
Theorem unsatisfied_counts : forall W s j, wf W = true -> reachable W s -> started (pc (jobs s j)) = true ->
  length (cur (jobs s j)) = length (deps W j) /\ uns (jobs s j) = Z.of_nat (count_nok (cur (jobs s j))).
Proof. intros W s j WF R S. apply (l_CI (I_loc (reachable_inv W s WF R) j) S). Qed.

Theorem ok_means_done : forall W s j i k, wf W = true -> reachable W s -> started (pc (jobs s j)) = true ->
  nth_error (cur (jobs s j)) i = Some DOK -> nth_error (deps W j) i = Some (DJob k) -> st (jobs s k) = DONE.
Proof. intros W s j i k WF R. apply (I_CO (reachable_inv W s WF R)). Qed.

Theorem done_absorbing : forall W ls s s' k, wf W = true -> reachable W s -> steps W s ls = Some s' ->
  st (jobs s k) = DONE -> st (jobs s' k) = DONE.
Proof.
  intros W ls s s' k WF R H D. pose proof (reachable_inv W s WF R) as I.
  pose proof (l_D (I_loc I k) D) as P. destruct (final_absorbing W ls s s' k WF R H P) as (A & _). congruence.
Qed.

(* ------------------------------------------------------------------ C06 final_truthful *)
Lemma final_truthful_inv : forall W s j r, Inv W s -> pc (jobs s j) = PReturned r ->
  st (jobs s j) = r /\
  match adopted W j with
  | Some v => r = v
  | None => r = DONE <-> (j_marker (spec W j) = true \/ ((launches (jobs s j) >= 1)%nat /\ j_code (spec W j) = 0))
  end /\
  (r <> DONE -> r = ERROR).
Proof.
  intros W s j r I P. pose proof (I_loc I j) as L. unfold jl in L.
  pose proof (l_RT L P) as RT. split; auto.
  assert (F : finished (st (jobs s j)) = true) by (apply (l_A L); rewrite P; auto).
  assert (ST : started (pc (jobs s j)) = true) by (rewrite P; auto).
  pose proof (l_L1 L) as L1.
  split.
  - destruct (adopted W j) as [v|] eqn:AD.
    + destruct (l_ad L) as [X|(_ & X)]; [discriminate|auto|rewrite P in X; discriminate|]. congruence.
    + split.
      * intros D. rewrite <- RT in D. destruct (launches (jobs s j)) as [|[|n]] eqn:E; [| |exfalso; clear - L1; lia].
        -- left. destruct (l_L0 L E D) as [(_ & X)|X]; [auto|discriminate].
        -- right. split; [clear; lia|]. destruct (l_L2 L E) as (_ & [X|(_ & X)]); [rewrite P in X; discriminate|].
           unfold code_state in X. destruct (j_code (spec W j) =? 0) eqn:C; [apply Z.eqb_eq; auto|congruence].
      * intros [M|(LA & C)].
        -- rewrite <- RT. apply (l_mk L M eq_refl ST).
        -- assert (E : launches (jobs s j) = 1%nat) by (clear - LA L1; lia).
           destruct (l_L2 L E) as (_ & [X|(_ & X)]); [rewrite P in X; discriminate|].
           rewrite <- RT, X. unfold code_state. rewrite C. reflexivity.
  - intros N. rewrite <- RT in *. destruct (st (jobs s j)); simpl in F; try discriminate; auto. contradiction.
Qed.

Theorem final_truthful : forall W s j r, wf W = true -> reachable W s -> pc (jobs s j) = PReturned r ->
  st (jobs s j) = r /\
  match adopted W j with
  | Some v => r = v
  | None => r = DONE <-> (j_marker (spec W j) = true \/ ((launches (jobs s j) >= 1)%nat /\ j_code (spec W j) = 0))
  end /\
  (r <> DONE -> r = ERROR).
Proof. intros W s j r WF R. apply final_truthful_inv. apply reachable_inv; auto. Qed.


(* ------------------------------------------------------------------ C07 failures are contained *)
(* j has an ancestor that ended in error, through jobs that were neither already successful in an
   earlier run (marker) nor still running from an earlier run (adopted process): such a job is
   decided by that earlier run, whatever happens to its own inputs now *)
Inductive fanc (W : workload) (s : state) : nat -> Prop :=
  | fa_direct : forall j k, In (DJob k) (deps W j) -> st (jobs s k) = ERROR -> fanc W s j
  | fa_step : forall j m, In (DJob m) (deps W j) -> j_marker (spec W m) = false -> adopted W m = None ->
                fanc W s m -> fanc W s j.

Lemma fanc_blocked : forall W s j, wf W = true -> reachable W s -> fanc W s j ->
  launches (jobs s j) = 0%nat /\ (j_marker (spec W j) = false -> adopted W j = None -> st (jobs s j) <> DONE).
Proof.
  intros W s j WF R F. pose proof (reachable_inv W s WF R) as I.
  assert (G : forall j, (exists k, In (DJob k) (deps W j) /\ st (jobs s k) <> DONE) ->
            launches (jobs s j) = 0%nat /\ (j_marker (spec W j) = false -> adopted W j = None -> st (jobs s j) <> DONE)).
  { intros x (k & D & N). assert (L0 : launches (jobs s x) = 0%nat).
    { destruct (launches (jobs s x)) as [|n] eqn:E; auto. exfalso. apply N.
      apply (launched_deps_done W s x k WF R); auto. rewrite E. clear. lia. }
    split; auto. intros M AD D'. destruct (l_L0 (I_loc I x) L0 D') as [(_ & X)|X]; congruence. }
  induction F as [j k D E|j m D M AD F IH].
  - apply G. exists k. split; auto. congruence.
  - apply G. exists m. split; auto. apply IH; auto.
Qed.

Theorem failed_ancestor_not_launched : forall W s j r, wf W = true -> reachable W s ->
  fanc W s j -> j_marker (spec W j) = false -> adopted W j = None ->
  launches (jobs s j) = 0%nat /\
  (pc (jobs s j) = PReturned r -> r = ERROR /\ fdep (jobs s j) = true).
Proof.
  intros W s j r WF R F M AD. destruct (fanc_blocked W s j WF R F) as (L0 & ND). split; auto.
  intros P. destruct (final_truthful W s j r WF R P) as (RT & _ & E).
  assert (X : r = ERROR) by (apply E; intros D; apply (ND M AD); congruence).
  split; auto. apply (l_E (I_loc (reachable_inv W s WF R) j)); congruence.
Qed.

(* a failed job, once returned, is a failed ancestor of its dependents *)
Lemma returned_error_fanc : forall W s j k, wf W = true -> reachable W s ->
  In (DJob k) (deps W j) -> pc (jobs s k) = PReturned ERROR -> fanc W s j.
Proof.
  intros W s j k WF R D P. apply fa_direct with (k := k); auto.
  apply (l_RT (I_loc (reachable_inv W s WF R) k) P).
Qed.

Theorem independent_unaffected : forall W s j r, wf W = true -> reachable W s ->
  pc (jobs s j) = PReturned r -> j_marker (spec W j) = false -> adopted W j = None ->
  (forall k, In (DJob k) (deps W j) -> st (jobs s k) = DONE) ->
  launches (jobs s j) = 1%nat /\ r = code_state (j_code (spec W j)).
Proof.
  intros W s j r WF R P M AD A. pose proof (reachable_inv W s WF R) as I.
  destruct (final_truthful W s j r WF R P) as (RT & _ & E).
  pose proof (l_L1 (I_loc I j)) as L1.
  destruct (launches (jobs s j)) as [|[|n]] eqn:LA; [| |exfalso; clear - L1; lia].
  - exfalso. assert (X : r = ERROR).
    { apply E. intros D. rewrite <- RT in D. destruct (l_L0 (I_loc I j) LA D) as [(_ & Y)|Y]; congruence. }
    assert (FD : fdep (jobs s j) = true) by (apply (l_E (I_loc I j)); congruence).
    destruct (I_FD I j FD) as (k & Dk & Ek). rewrite (A k Dk) in Ek. discriminate.
  - split; auto. destruct (l_L2 (I_loc I j) LA) as (_ & [X|(_ & X)]); [rewrite P in X; discriminate|congruence].
Qed.

(* ------------------------------------------------------------------ experiment.wait() *)
Lemma wst_check : forall W fx s j i, wst (check W fx s j i) = wst s /\ unfinished (check W fx s j i) = unfinished s
  /\ fdict (check W fx s j i) = fdict s.
Proof.
  intros. unfold check. destruct (nth_error (deps W j) i); auto.
  destruct (check_l (fx3 fx) (fx6 fx) (jobs s j) i (dep_status s d)) as [r w]. destruct w; auto.
Qed.
Lemma wst_commit : forall s j p, wst (commit s j p) = wst s /\ unfinished (commit s j p) = unfinished s.
Proof. intros. unfold commit. destruct (snd p); auto. Qed.

Definition waitres (s : state) : waitst :=
  if unfinished s =? 0 then (match fdict s with [] => WReturned | _ => WRaised end) else WBlocked.

(* how one transition may change the status of wait() *)
Lemma wst_step : forall W s l s', step W s l = Some s' ->
  wst s' = wst s \/ (wst s = WBlocked /\ wst s' = WWoken) \/ wst s' = WStarting
  \/ ((wst s = WStarting \/ wst s = WWoken) /\ wst s' = waitres s /\ jobs s' = jobs s /\ fdict s' = fdict s).
Proof.
  intros W s l s' H. unfold step in H. destruct l as [j|n|j|]; simpl in H.
  - destruct ((j <? njobs W)%nat && match pc (jobs s j) with PNot => true | _ => false end
              && forallb (dep_submitted s) (deps W j) && fits W j); [|discriminate].
    inversion H; subst s'. left. unfold submit. simpl.
    destruct (reg s (j_ident (spec W j))); [destruct (st (jobs s n))|]; reflexivity.
  - destruct (nth_error (queue s) n) as [c|]; [|discriminate]. inversion H; subst s'. clear H.
    set (s0 := s_queue s (remove_nth n (queue s))).
    assert (E0 : wst s0 = wst s /\ unfinished s0 = unfinished s /\ fdict s0 = fdict s /\ jobs s0 = jobs s) by (repeat split; reflexivity).
    destruct E0 as (E1 & E2 & E3 & E4). rewrite <- E1. unfold waitres. rewrite <- E2, <- E3, <- E4.
    generalize s0. clear. intros s. destruct c as [j|j|j i|j i| |]; simpl.
    + destruct (pc (jobs s j)); auto. left. unfold run_spawn. apply wst_commit.
    + unfold run_step. destruct (pc (jobs s j)); auto.
      * left. apply wst_commit.
      * destruct a; auto.
        -- left. unfold start_body. destruct (acquire_l (avail s) (held (jobs s j)) (deps W j) 0) as [[av hd] [i|]]; simpl; auto.
           rewrite (proj1 (wst_check _ _ _ _ _)). reflexivity.
        -- left. unfold abort_return. rewrite (proj1 (wst_commit _ _ _)). reflexivity.
        -- left. unfold proc_return. rewrite (proj1 (wst_commit _ _ _)). reflexivity.
        -- unfold done_return. simpl. unfold notify_exit. simpl. destruct (wst s) eqn:E; simpl; rewrite ?E; auto.
        -- left. unfold adopt_return. destruct (adopted W j); auto. apply wst_commit.
    + left. apply wst_check.
    + destruct (nth_error (deps W j) i) as [[k|t c]|]; auto. destruct (0 <? avail s t)%nat; auto. left. apply wst_check.
    + destruct (wst s) eqn:E; auto. right; right; right. unfold wait_check.
      destruct (unfinished s =? 0); simpl; auto.
    + destruct (wst s) eqn:E; auto. right; right; right. unfold wait_check.
      destruct (unfinished s =? 0); simpl; auto.
  - destruct (pc (jobs s j)); try discriminate. inversion H; subst s'. left. reflexivity.
  - destruct (wst s); try discriminate; inversion H; subst s'; right; right; left; reflexivity.
Qed.

Definition wait_done (w : waitst) : bool := match w with WReturned | WRaised => true | _ => false end.
(* every submitted job is final: it either has returned or stands for an already registered job *)
Definition all_final (s : state) : Prop := forall j, counted (pc (jobs s j)) = false.

Lemma unfinished_zero_all_final : forall W s, Inv W s -> unfinished s = 0 -> all_final s.
Proof.
  intros W s I U j. destruct (Nat.lt_ge_cases j (njobs W)) as [L|L].
  - pose proof (I_cnt I) as C. rewrite U in C.
    assert (Z0 : length (filter (cntf s) (seq 0 (njobs W))) = 0%nat) by (clear - C; lia).
    destruct (counted (pc (jobs s j))) eqn:E; auto. exfalso.
    assert (X : In j (filter (cntf s) (seq 0 (njobs W)))).
    { apply filter_In. split; [apply in_seq; clear - L; lia|exact E]. }
    destruct (filter (cntf s) (seq 0 (njobs W))); [contradiction|discriminate].
  - rewrite (I_out I L). reflexivity.
Qed.

(* the step at which experiment.wait() returns or raises *)
Definition wait_completes (s s' : state) : Prop := wait_done (wst s) = false /\ wait_done (wst s') = true.

Lemma wait_completes_inv : forall W s l s', step W s l = Some s' -> wait_completes s s' ->
  unfinished s = 0 /\ jobs s' = jobs s /\ fdict s' = fdict s /\
  wst s' = match fdict s with [] => WReturned | _ => WRaised end.
Proof.
  intros W s l s' S (N & D).
  destruct (wst_step W s l s' S) as [X|[(X&Y)|[X|(X & Y & Z & F)]]].
  - rewrite X in D. congruence.
  - rewrite Y in D. discriminate.
  - rewrite X in D. discriminate.
  - unfold waitres in Y. destruct (unfinished s =? 0) eqn:U; [|rewrite Y in D; discriminate].
    apply Z.eqb_eq in U. auto.
Qed.

Theorem wait_sound : forall W s l s', wf W = true -> reachable W s -> step W s l = Some s' ->
  wait_completes s s' -> all_final s /\ all_final s' /\ unfinished s = 0.
Proof.
  intros W s l s' WF R S C. pose proof (reachable_inv W s WF R) as I.
  destruct (wait_completes_inv W s l s' S C) as (U & Z & _).
  pose proof (unfinished_zero_all_final W s I U) as A.
  split; auto. split; auto. intros j. rewrite Z. apply A.
Qed.

(* ------------------------------------------------------------------ failedJobs (ccf82b1: dropped on re-submission) *)
(* what one transition does to failedJobs *)
Definition grows (s s' : state) : Prop :=
  exists d, failed s' = failed s ++ d /\ fdict s' = fdict s ++ d /\ reg s' = reg s.
Lemma grows_refl : forall s s', failed s' = failed s -> fdict s' = fdict s -> reg s' = reg s -> grows s s'.
Proof. intros s s' A B C. exists []. rewrite !app_nil_r. auto. Qed.
Lemma grows_trans : forall a b c, grows a b -> grows b c -> grows a c.
Proof.
  intros a b c (d1 & A1 & B1 & C1) (d2 & A2 & B2 & C2). exists (d1 ++ d2).
  rewrite A2, B2, C2, A1, B1, C1, !app_assoc. auto.
Qed.
Lemma grows_commit : forall s j p, grows s (commit s j p).
Proof.
  intros s j p. unfold commit. destruct (snd p); simpl.
  - exists [j]. auto.
  - apply grows_refl; reflexivity.
Qed.
Lemma grows_check : forall W fx s j i, grows s (check W fx s j i).
Proof.
  intros. apply grows_refl; unfold check; destruct (nth_error (deps W j) i); auto;
    destruct (check_l (fx3 fx) (fx6 fx) (jobs s j) i (dep_status s d)) as [r w]; destruct w; reflexivity.
Qed.
Lemma grows_release : forall W s j, grows s (release_all W s j).
Proof. intros. apply grows_refl; reflexivity. Qed.

Lemma grows_run_cb : forall W fx s c, grows s (run_cb W fx s c).
Proof.
  intros W fx s c. destruct c as [j|j|j i|j i| |]; simpl.
  - destruct (pc (jobs s j)); try (apply grows_refl; reflexivity). unfold run_spawn. apply grows_commit.
  - unfold run_step. destruct (pc (jobs s j)); try (apply grows_refl; reflexivity).
    + apply grows_commit.
    + destruct a.
      * unfold start_body. destruct (acquire_l (avail s) (held (jobs s j)) (deps W j) 0) as [[av hd] [i|]].
        -- eapply grows_trans; [|apply grows_check]. apply grows_refl; reflexivity.
        -- apply grows_refl; reflexivity.
      * unfold abort_return. eapply grows_trans; [apply grows_release|apply grows_commit].
      * apply grows_refl; reflexivity.
      * unfold proc_return. eapply grows_trans; [apply grows_release|apply grows_commit].
      * unfold done_return. apply grows_refl; simpl; unfold notify_exit; destruct (wst _); reflexivity.
      * unfold adopt_return. destruct (adopted W j); [apply grows_commit|apply grows_refl; reflexivity].
  - apply grows_check.
  - destruct (nth_error (deps W j) i) as [[k|t c]|]; try (apply grows_refl; reflexivity).
    destruct (0 <? avail s t)%nat; [apply grows_check|apply grows_refl; reflexivity].
  - destruct (wst s); try (apply grows_refl; reflexivity); unfold wait_check; destruct (unfinished s =? 0); apply grows_refl; reflexivity.
  - destruct (wst s); try (apply grows_refl; reflexivity); unfold wait_check; destruct (unfinished s =? 0); apply grows_refl; reflexivity.
Qed.

(* failedJobs holds failed jobs only, and holds every failed job that is the registered submission of its identifier *)
Definition fdict_ok (W : workload) (s : state) : Prop :=
  (forall x, In x (fdict s) -> In x (failed s)) /\
  (forall x, In x (failed s) -> reg s (j_ident (spec W x)) = Some x -> In x (fdict s)).

Lemma fdict_ok_grows : forall W s s', fdict_ok W s -> grows s s' -> fdict_ok W s'.
Proof.
  intros W s s' (A & B) (d & F & D & R). split.
  - intros x X. rewrite D in X. rewrite F. apply in_or_app. apply in_app_or in X. destruct X; auto.
  - intros x X RX. rewrite F in X. rewrite D. apply in_or_app. apply in_app_or in X. destruct X as [X|X]; auto.
    left. apply B; auto. rewrite <- R. exact RX.
Qed.

Lemma fdict_ok_step : forall W s l s', wf W = true -> Inv W s -> fdict_ok W s -> step W s l = Some s' -> fdict_ok W s'.
Proof.
  intros W s l s' WF I OK H. unfold step in H. destruct l as [j|n|j|]; simpl in H.
  - destruct ((j <? njobs W)%nat && match pc (jobs s j) with PNot => true | _ => false end
              && forallb (dep_submitted s) (deps W j) && fits W j) eqn:G; [|discriminate].
    inversion H; subst s'. clear H.
    assert (PN : pc (jobs s j) = PNot).
    { apply andb_true_iff in G. destruct G as (G & _). apply andb_true_iff in G. destruct G as (G & _).
      apply andb_true_iff in G. destruct G as (_ & G). destruct (pc (jobs s j)); try discriminate. reflexivity. }
    assert (NF : ~ In j (failed s)).
    { intros X. apply (I_failed I) in X. destruct X as (X & _). rewrite PN in X. discriminate. }
    destruct OK as (A & B). unfold submit.
    destruct (reg s (j_ident (spec W j))) as [k|] eqn:RG; [destruct (st (jobs s k)) eqn:SK|]; simpl;
      try (split; [exact A|exact B]).
    + (* re-submission *)
      split.
      * intros x X. apply filter_In in X. apply A. exact (proj1 X).
      * intros x X RX. simpl in X, RX. unfold upd in RX. destruct (Nat.eqb (j_ident (spec W x)) (j_ident (spec W j))) eqn:E.
        -- inversion RX; subst. exfalso. apply NF. exact X.
        -- apply filter_In. split; [apply B; auto|]. rewrite E. reflexivity.
    + (* first submission *)
      split; [exact A|]. intros x X RX. simpl in X, RX. unfold upd in RX.
      destruct (Nat.eqb (j_ident (spec W x)) (j_ident (spec W j))) eqn:E; [inversion RX; subst; exfalso; apply NF; exact X|auto].
  - destruct (nth_error (queue s) n) as [c|]; [|discriminate]. inversion H; subst s'.
    eapply fdict_ok_grows; [|apply grows_run_cb]. exact OK.
  - destruct (pc (jobs s j)); try discriminate. inversion H; subst s'. exact OK.
  - destruct (wst s); try discriminate; inversion H; subst s'; exact OK.
Qed.

Lemma fdict_ok_reachable : forall W s, wf W = true -> reachable W s -> fdict_ok W s.
Proof.
  intros W s WF (ls & H). unfold steps in H.
  assert (G : forall ls s0, Inv W s0 -> fdict_ok W s0 -> steps_gen W all_fixed s0 ls = Some s -> fdict_ok W s).
  { clear H ls. induction ls as [|l r IH]; simpl; intros s0 I OK H; [inversion H; subst; auto|].
    destruct (step_gen W all_fixed s0 l) as [s1|] eqn:S; [|discriminate].
    apply (IH s1); auto.
    - eapply inv_step; eauto.
    - eapply fdict_ok_step; eauto. }
  apply (G ls (init W)); auto; [apply inv_init|]. split; intros x []. 
Qed.

(* at the step where experiment.wait() completes: it raises exactly when failedJobs is not empty; then some job
   returned ERROR; and a job that returned ERROR and is the registered submission of its identifier (it was not
   submitted again since) makes it raise *)
Theorem exit_reports : forall W s l s', wf W = true -> reachable W s -> step W s l = Some s' ->
  wait_completes s s' ->
  (wst s' = WRaised <-> fdict s' <> []) /\
  (fdict s' <> [] -> exists j, pc (jobs s' j) = PReturned ERROR) /\
  (forall j, pc (jobs s' j) = PReturned ERROR -> reg s' (j_ident (spec W j)) = Some j -> fdict s' <> []).
Proof.
  intros W s l s' WF R S C.
  pose proof (reachable_step W s l s' R S) as R'.
  pose proof (reachable_inv W s' WF R') as I'.
  destruct (fdict_ok_reachable W s' WF R') as (A & B).
  destruct (wait_sound W s l s' WF R S C) as (_ & A' & _).
  destruct (wait_completes_inv W s l s' S C) as (_ & _ & F & Y).
  split; [|split].
  - rewrite Y, F. destruct (fdict s); split; intros X; try discriminate; auto. congruence.
  - intros N. destruct (fdict s') as [|x t] eqn:E; [congruence|].
    assert (X : In x (failed s')) by (apply A; try rewrite E; left; auto).
    apply (I_failed I') in X. destruct X as (P & ND). exists x.
    specialize (A' x). destruct (pc (jobs s' x)) eqn:PC; simpl in *; try discriminate.
    pose proof (l_RT (I_loc I' x) PC) as RT. pose proof (l_A (I_loc I' x)) as FA. rewrite PC in FA. specialize (FA eq_refl).
    rewrite RT in *. destruct r; simpl in FA; try discriminate; congruence.
  - intros j P RG E. assert (X : In j (failed s')).
    { apply (I_failed I'). rewrite P. split; auto. rewrite (l_RT (I_loc I' j) P). discriminate. }
    pose proof (B j X RG) as Y2. rewrite E in Y2. contradiction.
Qed.

(* ------------------------------------------------------------------ the three defects of the unchanged tree *)
(* schedules are written as the external events; the ready callbacks are run in queue order *)
Inductive ext := XSubmit (j : nat) | XDeliver (j : nat) | XWait.
Fixpoint drain_labels (W : workload) (fx : fixes) (s : state) (fuel : nat) : list label * state :=
  match fuel with
  | O => ([], s)
  | S f => match queue s with
           | [] => ([], s)
           | _ => match step_gen W fx s (LRun 0) with
                  | Some s' => let '(ls, s2) := drain_labels W fx s' f in (LRun 0 :: ls, s2)
                  | None => ([], s)
                  end
           end
  end.
Fixpoint expand (W : workload) (fx : fixes) (s : state) (xs : list ext) : list label :=
  match xs with
  | [] => []
  | x :: r =>
      let l := match x with XSubmit j => LSubmit j | XDeliver j => LDeliver j | XWait => LWait end in
      match step_gen W fx s l with
      | Some s1 => let '(ls, s2) := drain_labels W fx s1 50 in l :: ls ++ expand W fx s2 r
      | None => []
      end
  end.

Definition W_resubmit : workload :=
  {| w_jobs := [ {| j_deps := []; j_code := 1; j_marker := false; j_ident := 0; j_adopt := None |};
                 {| j_deps := []; j_code := 0; j_marker := false; j_ident := 0; j_adopt := None |} ]; w_tokens := [] |}.
Definition X_resubmit := [XSubmit 0; XDeliver 0; XDeliver 0; XDeliver 0; XDeliver 0; XSubmit 1;
                          XDeliver 1; XDeliver 1; XDeliver 1; XDeliver 1; XWait]%nat.

Definition W_overwrite : workload :=
  {| w_jobs := [ {| j_deps := [DTok 0 2]; j_code := 0; j_marker := false; j_ident := 0; j_adopt := None |};
                 {| j_deps := [DTok 0 1]; j_code := 0; j_marker := false; j_ident := 1; j_adopt := None |} ]; w_tokens := [3%nat] |}.
Definition X_overwrite := [XSubmit 0; XSubmit 1; XDeliver 0; XDeliver 1; XDeliver 0; XDeliver 1; XDeliver 1;
                           XDeliver 0; XDeliver 0; XDeliver 1; XWait]%nat.

Definition W_abort : workload :=
  {| w_jobs := [ {| j_deps := [DTok 0 1]; j_code := 0; j_marker := false; j_ident := 0; j_adopt := None |};
                 {| j_deps := [DTok 0 1]; j_code := 0; j_marker := false; j_ident := 1; j_adopt := None |} ]; w_tokens := [1%nat] |}.
Definition X_abort := [XSubmit 0; XSubmit 1; XDeliver 0; XDeliver 1; XDeliver 0; XDeliver 0; XDeliver 1; XDeliver 0; XWait]%nat.

Definition quiescent (W : workload) (s : state) : Prop := queue s = [] /\ has_pending s W = false.

Definition final (W : workload) (fx : fixes) (ls : list label) : state :=
  match steps_gen W fx (init W) ls with Some s => s | None => init W end.
Definition is_some {A} (o : option A) : bool := match o with Some _ => true | None => false end.
Lemma final_some : forall W fx ls, is_some (steps_gen W fx (init W) ls) = true ->
  steps_gen W fx (init W) ls = Some (final W fx ls).
Proof. intros W fx ls H. unfold final. destruct (steps_gen W fx (init W) ls); [reflexivity|discriminate]. Qed.

(* #2: re-submitting a failed job: the counter goes negative and wait() blocks for ever
   although every job has returned *)
Theorem resubmit_counter_refuted : exists W ls s, wf W = true /\ steps_prefix W (init W) ls = Some s /\
  unfinished s < 0 /\ quiescent W s /\ wst s = WBlocked /\
  (forall j, (j < njobs W)%nat -> exists r, pc (jobs s j) = PReturned r).
Proof.
  exists W_resubmit, (expand W_resubmit no_fix (init W_resubmit) X_resubmit).
  exists (final W_resubmit no_fix (expand W_resubmit no_fix (init W_resubmit) X_resubmit)).
  split; [reflexivity|]. split; [apply final_some; vm_compute; reflexivity|].
  split; [vm_compute; reflexivity|]. split; [split; vm_compute; reflexivity|]. split; [vm_compute; reflexivity|].
  intros j L. change (njobs W_resubmit) with 2%nat in L.
  destruct j as [|[|j]]; [eexists; vm_compute; reflexivity|eexists; vm_compute; reflexivity|exfalso; lia].
Qed.

(* #3: a finished job is put back to READY; job.wait() returns READY *)
Theorem ready_overwrite_refuted : exists W ls s j, wf W = true /\ steps_prefix W (init W) ls = Some s /\
  pc (jobs s j) = PReturned READY /\ launches (jobs s j) = 1%nat /\ j_code (spec W j) = 0.
Proof.
  exists W_overwrite, (expand W_overwrite no_fix (init W_overwrite) X_overwrite).
  exists (final W_overwrite no_fix (expand W_overwrite no_fix (init W_overwrite) X_overwrite)).
  exists 0%nat. split; [reflexivity|]. split; [apply final_some; vm_compute; reflexivity|].
  repeat split; vm_compute; reflexivity.
Qed.

(* #4: an aborted start overwrites READY: the job sleeps for ever with its token free *)
Theorem abort_race_refuted : exists W ls s j, wf W = true /\ steps_prefix W (init W) ls = Some s /\
  quiescent W s /\ pc (jobs s j) = PAwaitReady /\ st (jobs s j) = WAITING /\ uns (jobs s j) = 0 /\
  (forall t, avail s t = total W t) /\ wst s = WBlocked.
Proof.
  exists W_abort, (expand W_abort no_fix (init W_abort) X_abort).
  exists (final W_abort no_fix (expand W_abort no_fix (init W_abort) X_abort)).
  exists 1%nat. split; [reflexivity|]. split; [apply final_some; vm_compute; reflexivity|].
  split; [split; vm_compute; reflexivity|].
  split; [vm_compute; reflexivity|]. split; [vm_compute; reflexivity|]. split; [vm_compute; reflexivity|].
  split; [|vm_compute; reflexivity].
  intros t. destruct t as [|t]; vm_compute; reflexivity.
Qed.

(* the FAIL branch of dependencychanged before fb683b6 (it only tested finished()): while the process an
   earlier scheduler left for job 1 is still running, the failure of its input 0 shows job 1 ERROR; job 2,
   submitted in that window, is cancelled for good; then the old process ends well: job 1 returns DONE,
   job 2 has returned ERROR / DEPENDENCY although the only job it depends on is DONE *)
Definition fixed_but6 := {| fx2 := true; fx3 := true; fx4 := true; fx5 := true; fx6 := false; fx7 := true |}.
Definition W_adoptfail : workload :=
  {| w_jobs := [ {| j_deps := []; j_code := 1; j_marker := false; j_ident := 0; j_adopt := None |};
                 {| j_deps := [DJob 0]; j_code := 0; j_marker := false; j_ident := 1; j_adopt := Some (Some 0, true) |};
                 {| j_deps := [DJob 1]; j_code := 0; j_marker := false; j_ident := 2; j_adopt := None |} ];
     w_tokens := [] |}.
Definition X_adoptfail := [XSubmit 0; XSubmit 1; XDeliver 0; XDeliver 0; XDeliver 0; XDeliver 0; XSubmit 2;
                           XDeliver 1; XDeliver 1; XDeliver 2]%nat.

Theorem adoption_error_refuted : exists W ls s s1, wf W = true /\
  steps_gen W fixed_but6 (init W) ls = Some s /\
  (exists ls1, steps_gen W fixed_but6 (init W) ls1 = Some s1 /\ st (jobs s1 1) = ERROR /\ pc (jobs s1 1) = PExt AAdopt) /\
  pc (jobs s 1) = PReturned DONE /\
  pc (jobs s 2) = PReturned ERROR /\ fdep (jobs s 2) = true /\ launches (jobs s 2) = 0%nat /\
  (forall k, In (DJob k) (deps W 2) -> st (jobs s k) = DONE).
Proof.
  exists W_adoptfail, (expand W_adoptfail fixed_but6 (init W_adoptfail) X_adoptfail).
  exists (final W_adoptfail fixed_but6 (expand W_adoptfail fixed_but6 (init W_adoptfail) X_adoptfail)).
  exists (final W_adoptfail fixed_but6 (expand W_adoptfail fixed_but6 (init W_adoptfail) (firstn 6 X_adoptfail))).
  split; [reflexivity|]. split; [apply final_some; vm_compute; reflexivity|].
  split.
  { exists (expand W_adoptfail fixed_but6 (init W_adoptfail) (firstn 6 X_adoptfail)).
    split; [apply final_some; vm_compute; reflexivity|]. split; vm_compute; reflexivity. }
  split; [vm_compute; reflexivity|]. split; [vm_compute; reflexivity|]. split; [vm_compute; reflexivity|].
  split; [vm_compute; reflexivity|].
  intros k D. vm_compute in D. destruct D as [D|[]]. inversion D; subst. vm_compute. reflexivity.
Qed.

(* on the repaired scheduler the same schedule leaves job 1 RUNNING until its process ends and lets job 2 run *)
Example adoption_repaired :
  let s := final W_adoptfail all_fixed (expand W_adoptfail all_fixed (init W_adoptfail)
             (X_adoptfail ++ [XDeliver 2; XDeliver 2; XDeliver 2; XDeliver 2])) in
  pc (jobs s 1) = PReturned DONE /\ pc (jobs s 2) = PReturned DONE /\ launches (jobs s 2) = 1%nat.
Proof. cbv zeta. repeat split; vm_compute; reflexivity. Qed.

(* the same schedules on the repaired scheduler end well *)
Example repaired_runs_end_well :
  (let s := final W_resubmit all_fixed (expand W_resubmit all_fixed (init W_resubmit) (X_resubmit ++ [XDeliver 1])) in
     unfinished s = 0) /\
  (let s := final W_overwrite all_fixed (expand W_overwrite all_fixed (init W_overwrite) X_overwrite) in
     pc (jobs s 0) = PReturned DONE /\ wst s = WReturned) /\
  (let s := final W_abort all_fixed (expand W_abort all_fixed (init W_abort)
       (X_abort ++ [XDeliver 1; XDeliver 1; XDeliver 1; XDeliver 1])) in
     pc (jobs s 1) = PReturned DONE /\ wst s = WReturned).
Proof. repeat split; vm_compute; reflexivity. Qed.

(* ------------------------------------------------------------------ the hypotheses of the theorems are satisfiable *)
Definition W_fail : workload :=
  {| w_jobs := [ {| j_deps := []; j_code := 1; j_marker := false; j_ident := 0; j_adopt := None |};
                 {| j_deps := [DJob 0; DTok 0 1]; j_code := 0; j_marker := false; j_ident := 1; j_adopt := None |};
                 {| j_deps := [DTok 0 2]; j_code := 0; j_marker := false; j_ident := 2; j_adopt := None |};
                 {| j_deps := [DJob 2]; j_code := 0; j_marker := false; j_ident := 3; j_adopt := None |} ]; w_tokens := [2%nat] |}.
Definition X_fail := [XSubmit 0; XSubmit 1; XSubmit 2; XSubmit 3; XDeliver 0; XDeliver 2; XDeliver 0; XDeliver 2;
                      XDeliver 2; XDeliver 0; XDeliver 2; XDeliver 0; XDeliver 1; XDeliver 3]%nat.
Definition L_fail := expand W_fail all_fixed (init W_fail) X_fail.
Definition L_fail_end := expand W_fail all_fixed (final W_fail all_fixed L_fail)
                           [XDeliver 3; XDeliver 3; XWait; XDeliver 3]%nat.

Lemma reachable_final : forall W ls, is_some (steps W (init W) ls) = true -> reachable W (final W all_fixed ls).
Proof. intros W ls H. exists ls. apply final_some. exact H. Qed.

Lemma steps_app : forall W ls1 ls2 s, steps W s (ls1 ++ ls2) =
  match steps W s ls1 with Some s1 => steps W s1 ls2 | None => None end.
Proof.
  intros W ls1. induction ls1 as [|l r IH]; simpl; intros; auto.
  unfold steps in *. simpl. destruct (step_gen W all_fixed s l); auto.
Qed.

(* a well-formed workload with a failure, a cancelled dependent, an independent chain, tokens;
   a reachable state in which jobs have returned (final_truthful, final_absorbing, returned_stable,
   failed_ancestor_not_launched, independent_unaffected, counter_exact have non-trivial instances) *)
Example ex_reachable_fail :
  let s := final W_fail all_fixed L_fail in
  wf W_fail = true /\ reachable W_fail s /\
  pc (jobs s 0) = PReturned ERROR /\ launches (jobs s 0) = 1%nat /\
  pc (jobs s 1) = PReturned ERROR /\ launches (jobs s 1) = 0%nat /\ fdep (jobs s 1) = true /\ fanc W_fail s 1 /\
  pc (jobs s 2) = PReturned DONE /\ launches (jobs s 2) = 1%nat /\
  past_loop (pc (jobs s 2)) = true /\ unfinished s = 1.
Proof.
  cbv zeta. split; [reflexivity|]. split; [apply reachable_final; vm_compute; reflexivity|].
  repeat split; try (vm_compute; reflexivity).
  apply fa_direct with (k := 0%nat); [vm_compute; auto|vm_compute; reflexivity].
Qed.

Definition after (W : workload) (s : state) (l : label) : state :=
  match step W s l with Some s' => s' | None => s end.
Lemma after_some : forall W s l, is_some (step W s l) = true -> step W s l = Some (after W s l).
Proof. intros W s l H. unfold after. destruct (step W s l); [reflexivity|discriminate]. Qed.

(* a launch step whose job has a job dependency (launch_after_deps), and a step at which wait()
   completes by raising (wait_sound, exit_reports) *)
Example ex_launch_and_wait :
  exists s1 s3 l1 l2,
    reachable W_fail s1 /\ is_some (step W_fail s1 l1) = true /\ launch_step s1 (after W_fail s1 l1) 3 /\
    In (DJob 2) (deps W_fail 3) /\
    reachable W_fail s3 /\ is_some (step W_fail s3 l2) = true /\ wait_completes s3 (after W_fail s3 l2) /\
    wst (after W_fail s3 l2) = WRaised.
Proof.
  set (la := removelast L_fail).
  set (lb := L_fail ++ L_fail_end).
  exists (final W_fail all_fixed la), (final W_fail all_fixed (removelast lb)), (LRun 0), (LRun 0).
  split; [apply reachable_final; vm_compute; reflexivity|].
  split; [vm_compute; reflexivity|]. split; [vm_compute; reflexivity|]. split; [vm_compute; auto|].
  split; [apply reachable_final; vm_compute; reflexivity|].
  split; [vm_compute; reflexivity|]. split; [split; vm_compute; reflexivity|vm_compute; reflexivity].
Qed.

(* ------------------------------------------------------------------ a Dependency object used again (round 4) *)
(* The model gives every submission fresh Dependency objects (`spawn_l`: the recorded statuses start at
   WAIT, as `unsatisfied = len(dependencies)` assumes).  The code of 36bcb7f did not reset the recorded
   status of an object that had been attached before: registration of one token dependency whose object
   still says OK while the token is available - `check()` sees no change - leaves the job asleep with
   unsatisfied = 1; with a fresh object (or the status reset, fixes/C06-5.diff) it is READY and goes to
   its start *)
Definition reg_stale (olds news : list dstatus) : jst :=
  let r0 := w_st (w_ev (w_pc jst0 PSpawned) false) WAITING in
  reg_l true true (w_cur (w_uns r0 (Z.of_nat (length news))) olds) news 0.

Theorem reused_dependency_refuted :
  (let r := reg_stale [DOK] [DOK] in
   uns r = 1 /\ st r = WAITING /\ ev r = false /\ pc (fst (main_loop_l r)) = PAwaitReady) /\
  (let r := reg_stale [DWAIT] [DOK] in
   uns r = 0 /\ st r = READY /\ pc (fst (main_loop_l r)) = PExt ALockIn).
Proof. cbv zeta. repeat split; vm_compute; reflexivity. Qed.

(* ------------------------------------------------------------------ the reading of "unless it had already succeeded in an earlier run" (round 4) *)
(* chain A <- B <- C; B has its success marker from an earlier run, A is run again and fails, C has never
   run: B is DONE by its marker, so C - whose only dependency is DONE - is launched once and ends DONE,
   and leaving the experiment raises (A failed).  A job decided by an earlier run cuts the chain: this is
   what `fanc` says and what the oracle accepts. *)
Definition W_cut : workload :=
  {| w_jobs := [ {| j_deps := []; j_code := 1; j_marker := false; j_ident := 0; j_adopt := None |};
                 {| j_deps := [DJob 0]; j_code := 0; j_marker := true; j_ident := 1; j_adopt := None |};
                 {| j_deps := [DJob 1]; j_code := 0; j_marker := false; j_ident := 2; j_adopt := None |} ];
     w_tokens := [] |}.
Definition X_cut := [XSubmit 0; XSubmit 1; XSubmit 2; XDeliver 0; XDeliver 0; XDeliver 0; XDeliver 0; XDeliver 1;
                     XDeliver 2; XDeliver 2; XDeliver 2; XDeliver 2; XWait]%nat.
Example marker_cuts_chain :
  let s := final W_cut all_fixed (expand W_cut all_fixed (init W_cut) X_cut) in
  wf W_cut = true /\
  is_some (steps_gen W_cut all_fixed (init W_cut) (expand W_cut all_fixed (init W_cut) X_cut)) = true /\
  queue s = [] /\ has_pending s W_cut = false /\
  pc (jobs s 0) = PReturned ERROR /\
  pc (jobs s 1) = PReturned DONE /\ launches (jobs s 1) = 0%nat /\
  pc (jobs s 2) = PReturned DONE /\ launches (jobs s 2) = 1%nat /\ wst s = WRaised.
Proof. cbv zeta. repeat (split; [vm_compute; reflexivity|]). vm_compute; reflexivity. Qed.
