(* Proofs about model/Hash.v: the identifier depends on a heap only through
   node signatures and meta flags (hv_sig_ext); every documented neutral edit
   preserves them.                                                            *)
From Coq Require Import ZArith NArith List Bool Lia Permutation.
From XV Require Import core.Value model.Hash proofs.Sort_lemmas.
Import ListNotations.

Lemma seq_list_ext {A} (f g : A -> hres) (l : list A) :
  (forall x, In x l -> f x = g x) -> seq_list f l = seq_list g l.
Proof.
  induction l as [|x l IH]; intros E; cbn [seq_list]; [reflexivity|].
  rewrite (E x (or_introl eq_refl)).
  rewrite IH; [reflexivity|]. intros y Hy. apply E. right. exact Hy.
Qed.

(* ---- heaps that agree on what the hash reads ------------------------------ *)
Section Ext.
  Variable H : bytes -> bytes.
  Variables cs cs' : classes.
  Variables h h' : heap.
  Variable look : nat -> option bytes.
  (* nodes that are never expanded: flagged meta, and no live node's task *)
  Variable dead : nat -> bool.

  Hypothesis Hmeta : forall v, is_meta h v = is_meta h' v.
  Hypothesis Hsig : forall n, dead n = false -> nsig cs h n = nsig cs' h' n.
  Hypothesis Hdead_meta : forall n, dead n = true -> is_meta h (VRef n) = true.
  Hypothesis Htask : forall n sg t, dead n = false -> nsig cs h n = Ok sg -> sg_task sg = Some t -> dead t = false.
  (* signature entries never hold a meta-flagged configuration (true of sigargs, see below) *)
  Hypothesis Hargs : forall n sg k v, nsig cs h n = Ok sg -> In (k, AVal v) (sg_args sg) -> is_meta h v = false.

  Definition live_top (v : value) : Prop := match v with VRef m => dead m = false | _ => True end.

  Lemma live_of_not_meta v : is_meta h v = false -> live_top v.
  Proof.
    destruct v as [| | | | | | | | |m]; cbn [live_top]; trivial.
    intros E. destruct (dead m) eqn:D; [|reflexivity].
    rewrite (Hdead_meta m D) in E. discriminate.
  Qed.

  Lemma hv_sig_ext : forall fuel st v, live_top v ->
    hv H cs h look fuel st v = hv H cs' h' look fuel st v.
  Proof.
    induction fuel as [|f IH]; intros st v Hl; [reflexivity|].
    destruct v as [| z | b | bits | s | s | q | l | l | m]; cbn [hv]; try reflexivity.
    - (* list *)
      assert (E : filter (fun x => negb (is_meta h x)) l = filter (fun x => negb (is_meta h' x)) l).
      { apply filter_ext. intros x. rewrite Hmeta. reflexivity. }
      rewrite <- E.
      rewrite (seq_list_ext (hv H cs h look f st) (hv H cs' h' look f st)); [reflexivity|].
      intros x Hx. apply IH. apply filter_In in Hx. destruct Hx as [_ Hx].
      apply live_of_not_meta. destruct (is_meta h x); [discriminate|reflexivity].
    - (* dict *)
      assert (E : filter (fun kv : bytes * value => negb (is_meta h (snd kv))) l
                  = filter (fun kv => negb (is_meta h' (snd kv))) l).
      { apply filter_ext. intros x. rewrite Hmeta. reflexivity. }
      rewrite <- E.
      set (l' := sort_by fst (filter (fun kv : bytes * value => negb (is_meta h (snd kv))) l)).
      rewrite (seq_list_ext
                 (fun kv : bytes * value => do b <- hv H cs h look f st (snd kv); Ok (STR_ID :: fst kv ++ fst b, snd b))
                 (fun kv : bytes * value => do b <- hv H cs' h' look f st (snd kv); Ok (STR_ID :: fst kv ++ fst b, snd b)));
        [reflexivity|].
      intros kv Hkv. rewrite IH; [reflexivity|].
      apply live_of_not_meta.
      assert (Hin : In kv (filter (fun kv : bytes * value => negb (is_meta h (snd kv))) l)).
      { subst l'. clear - Hkv.
        revert Hkv. generalize (filter (fun kv : bytes * value => negb (is_meta h (snd kv))) l) as m.
        induction m as [|y m IHm]; cbn [sort_by]; intros Hin; [exact Hin|].
        assert (G : forall (x : bytes * value) r, In kv (insert_by fst x r) -> kv = x \/ In kv r).
        { intros x r. induction r as [|z r IHr]; cbn [insert_by]; intros Hq.
          - destruct Hq as [Hq|[]]. left. symmetry. exact Hq.
          - destruct (bytes_leb (fst x) (fst z)).
            + destruct Hq as [Hq|Hq]; [left; symmetry; exact Hq|right; exact Hq].
            + destruct Hq as [Hq|Hq]; [right; left; exact Hq|].
              destruct (IHr Hq) as [Hq'|Hq']; [left; exact Hq'|right; right; exact Hq']. }
        destruct (G y _ Hin) as [Hq|Hq]; [left; symmetry; exact Hq|right; apply IHm; exact Hq]. }
      apply filter_In in Hin. destruct Hin as [_ Hx].
      destruct (is_meta h (snd kv)); [discriminate|reflexivity].
    - (* reference *)
      destruct (index_of m st); [reflexivity|].
      destruct (look m); [reflexivity|].
      cbn [live_top] in Hl.
      unfold hnode_with. rewrite <- (Hsig m Hl).
      destruct (nsig cs h m) as [sg|e] eqn:Esg; cbn [bind]; [|reflexivity].
      assert (Et : (match sg_task sg with
                    | Some t => do r <- hv H cs h look f (m :: st) (VRef t); Ok (tmark (m :: st) t (fst r), snd r)
                    | None => Ok ([], O) end)
                 = (match sg_task sg with
                    | Some t => do r <- hv H cs' h' look f (m :: st) (VRef t); Ok (tmark (m :: st) t (fst r), snd r)
                    | None => Ok ([], O) end)).
      { destruct (sg_task sg) as [t|] eqn:Etask; [|reflexivity].
        rewrite IH; [reflexivity|]. cbn [live_top]. exact (Htask m sg t Hl Esg Etask). }
      rewrite Et.
      rewrite (seq_list_ext (hsel (hv H cs h look f (m :: st))) (hsel (hv H cs' h' look f (m :: st)))); [reflexivity|].
      intros [k sel] Hin. unfold hsel. cbn [snd fst]. destruct sel as [| |v]; try reflexivity.
      rewrite IH; [reflexivity|]. apply live_of_not_meta. exact (Hargs m sg k v Esg Hin).
  Qed.

  Lemma hnode_sig_ext fuel st n : dead n = false ->
    hnode H cs h look fuel st n = hnode H cs' h' look fuel st n.
  Proof.
    intros Hl. unfold hnode, hnode_with. rewrite <- (Hsig n Hl).
    destruct (nsig cs h n) as [sg|e] eqn:Esg; cbn [bind]; [|reflexivity].
    assert (Et : (match sg_task sg with
                  | Some t => do r <- hv H cs h look fuel (n :: st) (VRef t); Ok (tmark (n :: st) t (fst r), snd r)
                  | None => Ok ([], O) end)
               = (match sg_task sg with
                  | Some t => do r <- hv H cs' h' look fuel (n :: st) (VRef t); Ok (tmark (n :: st) t (fst r), snd r)
                  | None => Ok ([], O) end)).
    { destruct (sg_task sg) as [t|] eqn:Etask; [|reflexivity].
      rewrite hv_sig_ext; [reflexivity|]. cbn [live_top]. exact (Htask n sg t Hl Esg Etask). }
    rewrite Et.
    rewrite (seq_list_ext (hsel (hv H cs h look fuel (n :: st))) (hsel (hv H cs' h' look fuel (n :: st)))); [reflexivity|].
    intros [k sel] Hin. unfold hsel. cbn [snd fst]. destruct sel as [| |v]; try reflexivity.
    rewrite hv_sig_ext; [reflexivity|]. apply live_of_not_meta. exact (Hargs n sg k v Esg Hin).
  Qed.

  Lemma raw_ident_sig_ext fuel n : dead n = false ->
    raw_ident H cs h look fuel n = raw_ident H cs' h' look fuel n.
  Proof. intros Hl. unfold raw_ident. rewrite (hnode_sig_ext fuel [] n Hl). reflexivity. Qed.
End Ext.

(* ---- facts about signatures -------------------------------------------------- *)
Lemma argsel_not_meta h fields a v : argsel_of h fields a = AVal v -> is_meta h v = false.
Proof.
  unfold argsel_of. intros E.
  destruct (a_ignored a && negb match assoc (a_name a) fields with Some v0 => is_meta_false h v0 | None => false end);
    [discriminate|].
  destruct (a_gen a); [discriminate|].
  destruct (assoc (a_name a) fields) as [w|]; [|discriminate].
  match type of E with (if ?c then _ else _) = _ => destruct c end; [discriminate|].
  destruct (is_meta h w) eqn:M; [discriminate|]. inversion E. subst. exact M.
Qed.

Lemma sigargs_not_meta h fields args k v : In (k, AVal v) (sigargs h fields args) -> is_meta h v = false.
Proof.
  unfold sigargs. intros Hin. apply filter_In in Hin. destruct Hin as [Hin _].
  apply in_map_iff in Hin. destruct Hin as [a [E _]]. inversion E. eapply argsel_not_meta. eassumption.
Qed.

Lemma nsig_args_not_meta cs h n sg k v : nsig cs h n = Ok sg -> In (k, AVal v) (sg_args sg) -> is_meta h v = false.
Proof.
  unfold nsig. destruct (getnode h n) as [x|]; cbn [bind]; [|discriminate].
  destruct (getclass cs (n_cls x)) as [c|]; cbn [bind]; [|discriminate].
  intros E. inversion E. subst. cbn [sg_args]. apply sigargs_not_meta.
Qed.

(* meta flags are all the hash reads of a heap besides signatures *)
Definition meta_eq (h h' : heap) : Prop :=
  forall n, option_map n_meta (nth_error h n) = option_map n_meta (nth_error h' n).

Lemma meta_eq_is_meta h h' : meta_eq h h' -> forall v, is_meta h v = is_meta h' v.
Proof.
  intros M v. destruct v; try reflexivity. cbn [is_meta]. specialize (M n).
  destruct (nth_error h n), (nth_error h' n); cbn in M; try discriminate; [|reflexivity].
  inversion M as [E]. rewrite E. reflexivity.
Qed.

Lemma meta_eq_is_meta_false h h' : meta_eq h h' -> forall v, is_meta_false h v = is_meta_false h' v.
Proof.
  intros M v. destruct v; try reflexivity. cbn [is_meta_false]. specialize (M n).
  destruct (nth_error h n), (nth_error h' n); cbn in M; try discriminate; [|reflexivity].
  inversion M as [E]. rewrite E. reflexivity.
Qed.

Lemma meta_eq_remove_meta h h' : meta_eq h h' -> forall v, remove_meta h v = remove_meta h' v.
Proof.
  intros M v. induction v as [| z | b | b | s | s | q | l IHl | l IHl | n] using value_ind2; try reflexivity.
  - rewrite !remove_meta_list. f_equal.
    rewrite (filter_ext (fun x => negb (is_meta h x)) (fun x => negb (is_meta h' x)))
      by (intros x; rewrite (meta_eq_is_meta h h' M); reflexivity).
    apply map_ext_in. intros x Hx. apply filter_In in Hx. rewrite Forall_forall in IHl. apply IHl. apply Hx.
  - rewrite !remove_meta_dict. f_equal.
    rewrite (filter_ext (fun kv : list N * value => negb (is_meta h (snd kv))) (fun kv => negb (is_meta h' (snd kv))))
      by (intros x; rewrite (meta_eq_is_meta h h' M); reflexivity).
    apply map_ext_in. intros x Hx. apply filter_In in Hx. rewrite Forall_forall in IHl. cbn beta. f_equal. apply (IHl x (proj1 Hx)).
Qed.

Lemma meta_eq_argsel h h' : meta_eq h h' -> forall fields a, argsel_of h fields a = argsel_of h' fields a.
Proof.
  intros M fields a. unfold argsel_of.
  destruct (assoc (a_name a) fields) as [w|]; [|reflexivity].
  rewrite (meta_eq_is_meta_false h h' M), (meta_eq_remove_meta h h' M), (meta_eq_is_meta h h' M). reflexivity.
Qed.

Lemma meta_eq_sigargs h h' : meta_eq h h' -> forall fields args, sigargs h fields args = sigargs h' fields args.
Proof.
  intros M fields args. unfold sigargs. f_equal. apply map_ext. intros a.
  rewrite (meta_eq_argsel h h' M). reflexivity.
Qed.

(* the unconditional form used by most corollaries: no dead node *)
Theorem ident_sig_ext H cs cs' h h' look :
  meta_eq h h' -> (forall n, nsig cs h n = nsig cs' h' n) ->
  forall fuel n, raw_ident H cs h look fuel n = raw_ident H cs' h' look fuel n.
Proof.
  intros M S fuel n.
  apply (raw_ident_sig_ext H cs cs' h h' look (fun _ => false)).
  - apply meta_eq_is_meta. exact M.
  - intros m _. apply S.
  - intros m D. discriminate.
  - intros. reflexivity.
  - intros m sg k v. apply nsig_args_not_meta.
  - reflexivity.
Qed.

(* ---- the task mark ------------------------------------------------------------------------- *)
Lemma tmark_none st t b : index_of t st = None -> tmark st t b = TASK_ID :: b.
Proof. intros E. unfold tmark. rewrite E. reflexivity. Qed.

Lemma tmark_some st t b p : index_of t st = Some p -> tmark st t b = [].
Proof. intros E. unfold tmark. rewrite E. reflexivity. Qed.

Lemma tmark_same_index st st' t b : index_of t st = index_of t st' -> tmark st t b = tmark st' t b.
Proof. intros E. unfold tmark. rewrite E. reflexivity. Qed.
