(* Proofs about model/XpIndex.v (property C16). *)
From Coq Require Import ZArith List Bool Lia Arith.
From XV Require Import model.XpIndex.
Import ListNotations.
Open Scope Z_scope.

(* ------------------------------------------------------------------ basics *)
Lemma memz_iff n l : memz n l = true <-> In n l.
Proof.
  unfold memz. rewrite existsb_exists. split.
  - intros [x [H E]]. apply Z.eqb_eq in E. subst. exact H.
  - intros H. exists n. split; [exact H | apply Z.eqb_refl].
Qed.

Lemma has_iff n l : has n l = true <-> In n (names l).
Proof.
  unfold has, names. rewrite existsb_exists, in_map_iff. split.
  - intros [x [H E]]. apply Z.eqb_eq in E. exists x. auto.
  - intros [x [E H]]. exists x. split; [exact H | apply Z.eqb_eq; exact E].
Qed.

Lemma has_false n l : has n l = false -> ~ In n (names l).
Proof. intros H C. apply has_iff in C. congruence. Qed.

Lemma in_unlink x n l : In x (unlink n l) <-> In x l /\ fst x <> n.
Proof.
  unfold unlink. rewrite filter_In. split; intros [H E]; split; auto.
  - cbv beta in E. apply negb_true_iff in E. apply Z.eqb_neq in E. exact E.
  - cbv beta. apply negb_true_iff. apply Z.eqb_neq. exact E.
Qed.

Lemma in_names_unlink x n l : In x (names (unlink n l)) <-> In x (names l) /\ x <> n.
Proof.
  unfold names. rewrite !in_map_iff. split.
  - intros [y [E H]]. apply in_unlink in H. destruct H as [H N]. subst x. split; [exists y; auto | exact N].
  - intros [[y [E H]] N]. exists y. split; [exact E|]. apply in_unlink. subst x. auto.
Qed.

Lemma find_link_some n l x : find_link n l = Some x -> In x l /\ fst x = n.
Proof.
  unfold find_link. intros H. apply find_some in H. destruct H as [H E].
  apply Z.eqb_eq in E. auto.
Qed.

Lemma nodup_names_unlink n l : NoDup (names l) -> NoDup (names (unlink n l)).
Proof.
  induction l as [|a l IH]; simpl; intros H.
  - constructor.
  - inversion H; subst. fold (unlink n l).
    match goal with |- context [if ?c then _ else _] => destruct c end; simpl.
    + constructor; [|auto]. intro C. apply in_names_unlink in C. tauto.
    + auto.
Qed.

Lemma upd_eq f p v : upd f p v p = v.
Proof. unfold upd. rewrite Nat.eqb_refl. reflexivity. Qed.
Lemma upd_neq f p v q : q <> p -> upd f p v q = f q.
Proof. unfold upd. intros H. apply Nat.eqb_neq in H. rewrite H. reflexivity. Qed.

Lemma release_self p : release p (Some p) = None.
Proof. unfold release. rewrite Nat.eqb_refl. reflexivity. Qed.

Lemma run_snoc s tr e : run s (tr ++ [e]) = ostep (run s tr) e.
Proof. unfold run. rewrite fold_left_app. reflexivity. Qed.
Lemma ghost_snoc tr e : ghost (tr ++ [e]) = keep_step (ghost tr) e.
Proof. unfold ghost. rewrite fold_left_app. reflexivity. Qed.
Lemma subs_snoc p tr e : subs_of p (tr ++ [e]) = subs_step p (subs_of p tr) e.
Proof. unfold subs_of. rewrite fold_left_app. reflexivity. Qed.
Lemma kept_snoc tr e : kept (tr ++ [e]) = snd (keep_step (ghost tr) e).
Proof. unfold kept. rewrite ghost_snoc. reflexivity. Qed.

(* ------------------------------------------------------------------ invariant *)
Definition same_set (a b : list jobid) : Prop := incl a b /\ incl b a.

Definition common (cur subs : list jobid) (jl : list link) (sub linked : list jobid) : Prop :=
  same_set subs sub /\ incl linked sub /\ same_set (names jl) linked /\ incl cur linked.

Definition PInv (cur keep subs : list jobid) (jl : list link) (b : option (list link)) (f : phase) : Prop :=
  match f with
  | Out => False
  | Locked | Moving => cur = [] /\ subs = []
  | Inside sub linked => common cur subs jl sub linked
  | ExitRm sub linked => common cur subs jl sub linked /\ incl keep (names jl)
  | ExitWait sub linked => common cur subs jl sub linked /\ incl keep (names jl) /\ b = None
  | ExitFin _ _ => False       (* never reached by the code as it is *)
  | GenIn => True
  end.

Definition Inv (tr : list event) (s : st) : Prop :=
  (forall l, In l (jobs s ++ bakl s) -> snd l = dir_of (fst l)) /\
  incl (kept tr) (names (jobs s) ++ names (bakl s)) /\
  NoDup (names (jobs s)) /\ NoDup (names (bakl s)) /\
  match lock s with
  | None => forall p, ph s p = Out
  | Some p => (forall q, q <> p -> ph s q = Out) /\
              PInv (fst (ghost tr)) (kept tr) (subs_of p tr) (jobs s) (bak s) (ph s p)
  end.

Lemma inv_init : Inv [] init.
Proof.
  unfold Inv, init; simpl. repeat split; auto; try constructor.
  - intros l [].
  - intros x [].
Qed.

(* an event of process p that needs p to be inside can only be an event of the lock holder *)
Lemma holder_is tr s p : Inv tr s -> is_out (ph s p) = false ->
  lock s = Some p /\ (forall q, q <> p -> ph s q = Out) /\
  PInv (fst (ghost tr)) (kept tr) (subs_of p tr) (jobs s) (bak s) (ph s p).
Proof.
  intros (_ & _ & _ & _ & HL) HO. destruct (lock s) as [h|].
  - destruct HL as [HQ HP]. destruct (Nat.eq_dec p h) as [->|N].
    + auto.
    + rewrite (HQ p N) in HO. discriminate.
  - rewrite HL in HO. discriminate.
Qed.

Ltac inv_some H := injection H as H; rewrite <- H; clear H.

Lemma incl_app_l {A} (a b c : list A) : incl a b -> incl a (b ++ c).
Proof. intros H x Hx. apply in_or_app. left. auto. Qed.

Lemma names_app (a b : list link) : names (a ++ b) = names a ++ names b.
Proof. apply map_app. Qed.

Lemma unlink_keep_all n (jl : list link) (b : list link) (K : list jobid) :
  incl K (names jl ++ names b) -> In n (names b) ->
  incl K (names (unlink n jl) ++ names b).
Proof.
  intros H Hn x Hx. specialize (H x Hx). apply in_app_or in H. apply in_or_app.
  destruct H as [H|H]; [|auto]. destruct (Z.eq_dec x n) as [->|N]; [auto|].
  left. apply in_names_unlink. auto.
Qed.

Lemma step_inv tr s e s' : Inv tr s -> step s e = Some s' -> Inv (tr ++ [e]) s'.
Proof.
  intros HI HS. pose proof HI as (HT & HK & HN1 & HN2 & HL).
  destruct e as [p|p|p n|p|p j|p j|p|p n|p|p|p c|p|p|p|j|j|p|p r]; simpl in HS.
  - (* Lock *)
    destruct (lock s) eqn:L; [discriminate|]. destruct (ph s p) eqn:P; try discriminate. inv_some HS.
    unfold Inv; simpl. rewrite kept_snoc, ghost_snoc, subs_snoc; simpl. rewrite Nat.eqb_refl.
    repeat split; auto.
    + intros q N. rewrite upd_neq by exact N. apply HL.
    + rewrite upd_eq. simpl. auto.
  - (* MkBak *)
    destruct (ph s p) eqn:P; try discriminate. inv_some HS.
    assert (HO : is_out (ph s p) = false) by (rewrite P; reflexivity).
    destruct (holder_is _ _ _ HI HO) as (L & HQ & HP). rewrite P in HP. simpl in HP. destruct HP as [HP1 HP2].
    unfold Inv; simpl. unfold bakl at 1 2 3; simpl. fold (bakl s). rewrite kept_snoc, ghost_snoc; simpl. fold (kept tr). rewrite L.
    rewrite subs_snoc; simpl.
    repeat split; auto.
    + intros q N. rewrite upd_neq by exact N. auto.
    + rewrite upd_eq. simpl. auto.
  - (* Move *)
    destruct (ph s p) eqn:P; try discriminate. destruct (bak s) as [b|] eqn:B; try discriminate.
    destruct (find_link n (jobs s)) as [l|] eqn:F; try discriminate.
    assert (HO : is_out (ph s p) = false) by (rewrite P; reflexivity).
    destruct (holder_is _ _ _ HI HO) as (L & HQ & HP). rewrite P in HP. simpl in HP. destruct HP as [HP1 HP2].
    apply find_link_some in F. destruct F as [Fin Ffst].
    assert (Hb : bakl s = b) by (unfold bakl; rewrite B; reflexivity). rewrite Hb in *.
    destruct (has n b) eqn:Hh; inv_some HS; unfold Inv; simpl; unfold bakl; simpl;
      rewrite kept_snoc, ghost_snoc; simpl; fold (kept tr); rewrite L, subs_snoc; simpl; rewrite P.
    + repeat split; auto.
      * intros x Hx. apply HT. apply in_app_or in Hx. apply in_or_app. destruct Hx as [Hx|Hx]; [|auto].
        apply in_unlink in Hx. tauto.
      * apply unlink_keep_all; [exact HK|]. apply has_iff. exact Hh.
      * apply nodup_names_unlink. exact HN1.
    + repeat split; auto.
      * intros x Hx. apply HT. apply in_app_or in Hx. apply in_or_app. destruct Hx as [Hx|Hx].
        -- apply in_unlink in Hx. tauto.
        -- destruct Hx as [<-|Hx]; auto.
      * apply (unlink_keep_all n (jobs s) (l :: b)).
        -- intros x Hx. specialize (HK x Hx). apply in_app_or in HK. apply in_or_app. simpl. tauto.
        -- simpl. auto.
      * apply nodup_names_unlink. exact HN1.
      * simpl. constructor; [|exact HN2]. rewrite Ffst. apply has_false. exact Hh.
  - (* Ready *)
    destruct (ph s p) eqn:P; try discriminate. destruct (isnil (jobs s)) eqn:E; try discriminate. inv_some HS.
    assert (HO : is_out (ph s p) = false) by (rewrite P; reflexivity).
    destruct (holder_is _ _ _ HI HO) as (L & HQ & HP). rewrite P in HP. simpl in HP. destruct HP as [HC HSb].
    unfold Inv; simpl. unfold bakl; simpl. fold (bakl s). rewrite kept_snoc, ghost_snoc; simpl. fold (kept tr). rewrite L, subs_snoc; simpl.
    repeat split; auto.
    + intros q N. rewrite upd_neq by exact N. auto.
    + rewrite upd_eq. simpl. rewrite HC, HSb. destruct (jobs s); [|discriminate].
      unfold common, same_set; simpl. repeat split; apply incl_refl.
  - (* Submit *)
    destruct (ph s p) eqn:P; try discriminate. inv_some HS.
    assert (HO : is_out (ph s p) = false) by (rewrite P; reflexivity).
    destruct (holder_is _ _ _ HI HO) as (L & HQ & HP). rewrite P in HP. simpl in HP.
    destruct HP as ((S1 & S2) & HLs & (J1 & J2) & HC).
    unfold Inv; simpl. unfold bakl; simpl. fold (bakl s). rewrite kept_snoc, ghost_snoc; simpl. fold (kept tr). rewrite L, subs_snoc; simpl.
    rewrite Nat.eqb_refl.
    repeat split; auto.
    + intros q N. rewrite upd_neq by exact N. auto.
    + rewrite upd_eq. simpl. unfold common, same_set. destruct (memz j sub) eqn:M.
      * apply memz_iff in M. repeat split; auto.
        -- intros x [<-|Hx]; auto.
        -- intros x Hx. right. auto.
      * repeat split; auto.
        -- intros x [<-|Hx]; [left; auto | right; auto].
        -- intros x [<-|Hx]; [left; auto | right; auto].
        -- intros x Hx. right. auto.
  - (* Link *)
    assert (HLink : forall s'' sub linked (mkp : list jobid -> list jobid -> phase),
      (forall a b, is_out (mkp a b) = false) ->
      ph s p = mkp sub linked -> memz j sub = true ->
      s'' = mk (do_link j (jobs s)) (bak s) (lock s) (upd (ph s) p (mkp sub (j :: linked))) (dirs s) ->
      (forall cur keep subs jl b, PInv cur keep subs jl b (mkp sub linked) ->
         common cur subs jl sub linked /\
         (common (j :: cur) subs (do_link j jl) sub (j :: linked) ->
          (incl keep (names jl) -> incl (j :: keep) (names (do_link j jl))) ->
          PInv (j :: cur) (j :: keep) subs (do_link j jl) b (mkp sub (j :: linked)))) ->
      Inv (tr ++ [Link p j]) s'').
    { intros s'' sub linked mkp Hout P M -> HPI.
      assert (HO : is_out (ph s p) = false) by (rewrite P; apply Hout).
      destruct (holder_is _ _ _ HI HO) as (L & HQ & HP). rewrite P in HP.
      destruct (HPI _ _ _ _ _ HP) as (HCm & Hback).
      destruct HCm as ((S1 & S2) & HLs & (J1 & J2) & HC).
      apply memz_iff in M.
      assert (HJ1 : incl (names (do_link j (jobs s))) (j :: linked)).
      { intros x Hx. simpl in Hx. destruct Hx as [<-|Hx]; [left; auto|]. apply in_names_unlink in Hx. right. apply J1. tauto. }
      assert (HJ2 : incl (j :: linked) (names (do_link j (jobs s)))).
      { intros x [<-|Hx]; simpl; [left; auto|]. destruct (Z.eq_dec j x) as [->|N]; [left; auto|].
        right. apply in_names_unlink. split; [apply J2; exact Hx | auto]. }
      unfold Inv; simpl. unfold bakl; simpl. fold (bakl s). rewrite kept_snoc, ghost_snoc; simpl. fold (kept tr). rewrite L, subs_snoc; simpl.
      split; [|split; [|split; [|split; [exact HN2|split]]]].
      + intros x [<-|Hx]; [reflexivity|]. apply HT. apply in_app_or in Hx. apply in_or_app.
        destruct Hx as [Hx|Hx]; [|auto]. apply in_unlink in Hx. tauto.
      + intros x [<-|Hx]; [left; reflexivity|]. specialize (HK x Hx). apply in_app_or in HK.
        destruct HK as [HK|HK].
        * destruct (Z.eq_dec j x) as [->|N]; [left; reflexivity|]. right. apply in_or_app. left.
          apply in_names_unlink. auto.
        * right. apply in_or_app. right. exact HK.
      + constructor; [|apply nodup_names_unlink; exact HN1]. intro C. apply in_names_unlink in C. tauto.
      + intros q N. rewrite upd_neq by exact N. auto.
      + rewrite upd_eq. apply Hback.
        * unfold common, same_set. repeat split; auto.
          -- intros x [<-|Hx]; auto.
          -- intros x [<-|Hx]; [left; auto | right; auto].
        * intros Hkeep x [<-|Hx]; [left; reflexivity|]. simpl. destruct (Z.eq_dec j x) as [->|N]; [left; reflexivity|].
          right. apply in_names_unlink. auto. }
    destruct (ph s p) eqn:P; try discriminate; destruct (memz j sub) eqn:M; try discriminate; inv_some HS.
    + apply (HLink _ sub linked Inside); auto; intros cur keep subs jl b H; simpl in *; tauto.
    + apply (HLink _ sub linked ExitRm); auto; intros cur keep subs jl b H; simpl in *; tauto.
    + apply (HLink _ sub linked ExitWait); auto; intros cur keep subs jl b H; simpl in *; tauto.
  - (* EndOk *)
    destruct (ph s p) eqn:P; try discriminate. inv_some HS.
    assert (HO : is_out (ph s p) = false) by (rewrite P; reflexivity).
    destruct (holder_is _ _ _ HI HO) as (L & HQ & HP). rewrite P in HP. simpl in HP.
    pose proof HP as ((S1 & S2) & HLs & (J1 & J2) & HC).
    unfold Inv; simpl. unfold bakl; simpl. fold (bakl s). rewrite kept_snoc, ghost_snoc; simpl. rewrite L, subs_snoc; simpl.
    assert (HCJ : incl (fst (ghost tr)) (names (jobs s))) by (intros x Hx; auto).
    repeat split; auto.
    + apply incl_app_l. exact HCJ.
    + intros q N. rewrite upd_neq by exact N. auto.
    + rewrite upd_eq. simpl. split; auto.
  - (* RmEntry *)
    destruct (ph s p) eqn:P; try discriminate. destruct (bak s) as [b|] eqn:B; try discriminate.
    destruct (has n b) eqn:Hh; try discriminate. inv_some HS.
    assert (HO : is_out (ph s p) = false) by (rewrite P; reflexivity).
    destruct (holder_is _ _ _ HI HO) as (L & HQ & HP). rewrite P in HP. simpl in HP. destruct HP as [HCm HKJ]. pose proof HCm as ((S1 & S2) & HLs & (J1 & J2) & HC).
    assert (Hb : bakl s = b) by (unfold bakl; rewrite B; reflexivity). rewrite Hb in *.
    unfold Inv; simpl. unfold bakl; simpl. rewrite kept_snoc, ghost_snoc; simpl. fold (kept tr). rewrite L, subs_snoc; simpl. rewrite P.
    repeat split; auto.
    + intros x Hx. apply HT. apply in_app_or in Hx. apply in_or_app. destruct Hx as [Hx|Hx]; [auto|].
      apply in_unlink in Hx. tauto.
    + apply incl_app_l. exact HKJ.
    + apply nodup_names_unlink. exact HN2.
  - (* RmBakDir *)
    destruct (ph s p) eqn:P; try discriminate.
    assert (HO : is_out (ph s p) = false) by (rewrite P; reflexivity).
    destruct (holder_is _ _ _ HI HO) as (L & HQ & HP). rewrite P in HP. simpl in HP. destruct HP as [HCm HKJ]. pose proof HCm as ((S1 & S2) & HLs & (J1 & J2) & HC).
    assert (s' = mk (jobs s) None (lock s) (upd (ph s) p (ExitWait sub linked)) (dirs s)) as ->.
    { destruct (bak s) as [[|x b]|]; try discriminate; inv_some HS; reflexivity. }
    unfold Inv; simpl. unfold bakl; simpl. rewrite kept_snoc, ghost_snoc; simpl. fold (kept tr). rewrite L, subs_snoc; simpl.
    repeat split; auto.
    + intros x Hx. apply HT. rewrite app_nil_r in Hx. apply in_or_app. auto.
    + rewrite app_nil_r. exact HKJ.
    + constructor.
    + intros q N. rewrite upd_neq by exact N. auto.
    + rewrite upd_eq. simpl. auto.
  - (* Done *)
    destruct (ph s p) eqn:P; try discriminate. destruct (forallb (fun j : Z => memz j linked) sub) eqn:F; try discriminate. inv_some HS.
    assert (HO : is_out (ph s p) = false) by (rewrite P; reflexivity).
    destruct (holder_is _ _ _ HI HO) as (L & HQ & HP).
    unfold Inv; simpl. unfold bakl; simpl. fold (bakl s). rewrite kept_snoc, ghost_snoc; simpl. fold (kept tr). rewrite L, release_self.
    repeat split; auto.
    intros q. destruct (Nat.eq_dec q p) as [->|N]; [apply upd_eq | rewrite upd_neq by exact N; auto].
  - (* EndExc *)
    destruct (ph s p) eqn:P; try discriminate. inv_some HS.
    assert (HO : is_out (ph s p) = false) by (rewrite P; reflexivity).
    destruct (holder_is _ _ _ HI HO) as (L & HQ & HP).
    unfold Inv; simpl. unfold bakl; simpl. fold (bakl s). rewrite kept_snoc, ghost_snoc; simpl. fold (kept tr). rewrite L, release_self.
    repeat split; auto.
    intros q. destruct (Nat.eq_dec q p) as [->|N]; [apply upd_eq | rewrite upd_neq by exact N; auto].
  - (* Kill *)
    destruct (is_out (ph s p)) eqn:HO; try discriminate. inv_some HS.
    destruct (holder_is _ _ _ HI HO) as (L & HQ & HP).
    unfold Inv; simpl. unfold bakl; simpl. fold (bakl s). rewrite kept_snoc, ghost_snoc; simpl. fold (kept tr). rewrite L, release_self.
    repeat split; auto.
    intros q. destruct (Nat.eq_dec q p) as [->|N]; [apply upd_eq | rewrite upd_neq by exact N; auto].
  - (* WaitFail *)
    destruct (ph s p) eqn:P; try discriminate. inv_some HS.
    assert (HO : is_out (ph s p) = false) by (rewrite P; reflexivity).
    destruct (holder_is _ _ _ HI HO) as (L & HQ & HP).
    unfold Inv; simpl. unfold bakl; simpl. fold (bakl s). rewrite kept_snoc, ghost_snoc; simpl. fold (kept tr). rewrite L, release_self.
    repeat split; auto.
    intros q. destruct (Nat.eq_dec q p) as [->|N]; [apply upd_eq | rewrite upd_neq by exact N; auto].
  - (* WaitOk: not a step of the code as it is *)
    discriminate.
  - (* MkJobDir *)
    inv_some HS. unfold Inv; simpl. unfold bakl; simpl. fold (bakl s). rewrite kept_snoc, ghost_snoc; simpl. fold (kept tr).
    repeat split; auto. destruct (lock s); auto. rewrite subs_snoc; simpl. auto.
  - (* RmJobDir *)
    inv_some HS. unfold Inv; simpl. unfold bakl; simpl. fold (bakl s). rewrite kept_snoc, ghost_snoc; simpl. fold (kept tr).
    repeat split; auto. destruct (lock s); auto. rewrite subs_snoc; simpl. auto.
  - (* LockGen *)
    destruct (lock s) eqn:L; [discriminate|]. destruct (ph s p) eqn:P; try discriminate. inv_some HS.
    unfold Inv; simpl. unfold bakl; simpl. fold (bakl s). rewrite kept_snoc, ghost_snoc; simpl. fold (kept tr).
    repeat split; auto.
    + intros q N. rewrite upd_neq by exact N. apply HL.
    + rewrite upd_eq. exact I.
  - (* EndGen *)
    destruct (ph s p) eqn:P; try discriminate. inv_some HS.
    assert (HO : is_out (ph s p) = false) by (rewrite P; reflexivity).
    destruct (holder_is _ _ _ HI HO) as (L & HQ & HP).
    unfold Inv; simpl. unfold bakl; simpl. fold (bakl s). rewrite kept_snoc, ghost_snoc; simpl. fold (kept tr). rewrite L, release_self.
    repeat split; auto.
    intros q. destruct (Nat.eq_dec q p) as [->|N]; [apply upd_eq | rewrite upd_neq by exact N; auto].
Qed.

Lemma run_inv tr : forall s, run init tr = Some s -> Inv tr s.
Proof.
  induction tr as [|e tr IH] using rev_ind; intros s H.
  - unfold run in H; simpl in H. inv_some H. apply inv_init.
  - rewrite run_snoc in H. destruct (run init tr) as [s0|] eqn:R; simpl in H; [|discriminate].
    eapply step_inv; [apply IH; reflexivity | exact H].
Qed.

(* ------------------------------------------------------------------ theorems *)

(* (1) a run whose __exit__ returns after a block that ended without exception *)
Theorem completed_exact : forall tr p s,
  run init (tr ++ [Done p]) = Some s ->
  same_set (names (jobs s)) (subs_of p (tr ++ [Done p])) /\ NoDup (names (jobs s)) /\
  (forall l, In l (jobs s) -> snd l = dir_of (fst l)) /\
  bak s = None /\ lock s = None.
Proof.
  intros tr p s H. rewrite run_snoc in H. destruct (run init tr) as [s0|] eqn:R; simpl in H; [|discriminate].
  pose proof (run_inv _ _ R) as HI. pose proof HI as (HT & HK & HN1 & HN2 & HL).
  destruct (ph s0 p) eqn:P; try discriminate.
  destruct (forallb (fun j : Z => memz j linked) sub) eqn:F; try discriminate.
  assert (HO : is_out (ph s0 p) = false) by (rewrite P; reflexivity).
  destruct (holder_is _ _ _ HI HO) as (L & HQ & HP). rewrite P in HP. simpl in HP.
  destruct HP as (((S1 & S2) & HLs & (J1 & J2) & HC) & HKJ & HB).
  injection H as <-. simpl. rewrite subs_snoc. simpl.
  assert (SL : incl sub linked).
  { intros x Hx. rewrite forallb_forall in F. apply memz_iff. apply F. exact Hx. }
  repeat split; auto.
  - intros x Hx. apply S2, HLs, J1, Hx.
  - intros x Hx. apply J2, SL, S1, Hx.
  - intros l Hl. apply HT. apply in_or_app. auto.
  - rewrite L. apply release_self.
Qed.

(* (2) nothing that must be kept ever leaves jobs + jobs.bak *)
Theorem backup_keeps : forall tr s, run init tr = Some s ->
  incl (kept tr) (names (jobs s) ++ names (bakl s)).
Proof. intros tr s H. apply run_inv in H. apply H. Qed.

Lemma existsb_false_forall {A} (f : A -> bool) l : existsb f l = false -> forall x, In x l -> f x = false.
Proof.
  intros H x Hx. destruct (f x) eqn:E; auto.
  assert (existsb f l = true) by (apply existsb_exists; exists x; auto). congruence.
Qed.

(* (3) ... hence the orphans command never lists them *)
Theorem never_orphan : forall tr s j, run init tr = Some s -> In j (kept tr) -> ~ In j (orphans s).
Proof.
  intros tr s j H Hj Ho. pose proof (run_inv _ _ H) as (HT & HK & _).
  unfold orphans in Ho. apply filter_In in Ho. destruct Ho as [Hd Hn].
  apply negb_true_iff in Hn. unfold live_name in Hn.
  specialize (HK j Hj). rewrite <- names_app in HK. unfold names in HK. apply in_map_iff in HK.
  destruct HK as [l [El Hl]].
  pose proof (existsb_false_forall _ _ Hn l Hl) as E. cbv beta in E.
  pose proof (HT l Hl) as T. destruct l as [a b]. simpl in *. unfold dir_of in T. subst a b.
  rewrite Z.eqb_refl in E. simpl in E. apply memz_iff in Hd. congruence.
Qed.

(* (4) only the rmtree of an exit without exception ever forgets a link: every other step,
   including being killed anywhere and leaving through an exception, keeps jobs + jobs.bak *)
Theorem only_ok_exit_forgets : forall s e s', step s e = Some s' ->
  (forall p n, e <> RmEntry p n) ->
  incl (names (jobs s) ++ names (bakl s)) (names (jobs s') ++ names (bakl s')).
Proof.
  intros s e s' HS HE.
  destruct e as [p|p|p n|p|p j|p j|p|p n|p|p|p c|p|p|p|j|j|p|p r]; simpl in HS.
  - destruct (lock s); [discriminate|]. destruct (ph s p); try discriminate. inv_some HS. apply incl_refl.
  - destruct (ph s p); try discriminate. inv_some HS. unfold bakl at 2. simpl. apply incl_refl.
  - destruct (ph s p); try discriminate. destruct (bak s) as [b|] eqn:B; try discriminate.
    destruct (find_link n (jobs s)) as [l|] eqn:F; try discriminate.
    apply find_link_some in F. destruct F as [Fin Ffst].
    assert (Hb : bakl s = b) by (unfold bakl; rewrite B; reflexivity). rewrite Hb.
    destruct (has n b) eqn:Hh; inv_some HS; unfold bakl; simpl.
    + apply unlink_keep_all; [apply incl_refl | apply has_iff; exact Hh].
    + apply (unlink_keep_all n (jobs s) (l :: b)).
      * intros x Hx. apply in_app_or in Hx. apply in_or_app. simpl. tauto.
      * simpl. auto.
  - destruct (ph s p); try discriminate. destruct (isnil (jobs s)); try discriminate. inv_some HS. apply incl_refl.
  - destruct (ph s p); try discriminate. inv_some HS. apply incl_refl.
  - assert (HL : incl (names (jobs s) ++ names (bakl s)) (names (do_link j (jobs s)) ++ names (bakl s))).
    { intros x Hx. apply in_app_or in Hx. apply in_or_app. destruct Hx as [Hx|Hx]; [|auto]. left. simpl.
      destruct (Z.eq_dec j x) as [->|N]; [left; reflexivity|]. right. apply in_names_unlink. auto. }
    destruct (ph s p); try discriminate; destruct (memz j sub); try discriminate; inv_some HS; exact HL.
  - destruct (ph s p); try discriminate. inv_some HS. apply incl_refl.
  - exfalso. apply (HE p n). reflexivity.
  - destruct (ph s p); try discriminate. destruct (bak s) as [[|x b]|] eqn:B; try discriminate; inv_some HS;
      unfold bakl; simpl; rewrite B; apply incl_refl.
  - destruct (ph s p); try discriminate. destruct (forallb (fun j : Z => memz j linked) sub); try discriminate.
    inv_some HS. apply incl_refl.
  - destruct (ph s p); try discriminate. inv_some HS. apply incl_refl.
  - destruct (is_out (ph s p)); try discriminate. inv_some HS. apply incl_refl.
  - destruct (ph s p); try discriminate. inv_some HS. apply incl_refl.
  - discriminate.
  - inv_some HS. apply incl_refl.
  - inv_some HS. apply incl_refl.
  - destruct (lock s); [discriminate|]. destruct (ph s p); try discriminate. inv_some HS. apply incl_refl.
  - destruct (ph s p); try discriminate. inv_some HS. apply incl_refl.
Qed.

(* (5) exclusivity *)
Theorem exclusive : forall tr s p q, run init tr = Some s ->
  is_out (ph s p) = false -> is_out (ph s q) = false -> p = q.
Proof.
  intros tr s p q H Hp Hq. apply run_inv in H.
  destruct (holder_is _ _ _ H Hp) as (L1 & _). destruct (holder_is _ _ _ H Hq) as (L2 & _). congruence.
Qed.

Theorem inside_iff_holder : forall tr s p, run init tr = Some s ->
  (is_out (ph s p) = false <-> lock s = Some p).
Proof.
  intros tr s p H. apply run_inv in H. split.
  - intros Hp. apply (holder_is _ _ _ H Hp).
  - intros L. destruct H as (_ & _ & _ & _ & HL). rewrite L in HL. destruct HL as [_ HP].
    destruct (ph s p); simpl in *; auto; contradiction.
Qed.

Theorem enter_needs_free_lock : forall s p s', step s (Lock p) = Some s' -> lock s = None /\ lock s' = Some p.
Proof.
  intros s p s' H. simpl in H. destruct (lock s); [discriminate|]. destruct (ph s p); try discriminate.
  inv_some H. auto.
Qed.

Theorem enter_blocked_while_held : forall s p q, lock s = Some q -> step s (Lock p) = None.
Proof. intros s p q L. simpl. rewrite L. reflexivity. Qed.

(* every change of jobs/ or jobs.bak/ is made by the process that holds the lock *)
Theorem index_changes_under_lock : forall tr s e s', run init tr = Some s -> step s e = Some s' ->
  (jobs s' <> jobs s \/ bak s' <> bak s) -> exists p, actor e = Some p /\ lock s = Some p.
Proof.
  intros tr s e s' H HS HC. apply run_inv in H.
  assert (HA : forall p, actor e = Some p -> is_out (ph s p) = false -> exists p, actor e = Some p /\ lock s = Some p).
  { intros p A O. exists p. split; [exact A|]. apply (holder_is _ _ _ H O). }
  destruct e as [p|p|p n|p|p j|p j|p|p n|p|p|p c|p|p|p|j|j|p|p r]; simpl in HS.
  - destruct (lock s); [discriminate|]. destruct (ph s p); try discriminate. injection HS as <-. simpl in HC. tauto.
  - destruct (ph s p) eqn:P; try discriminate. apply (HA p); auto. rewrite P; reflexivity.
  - destruct (ph s p) eqn:P; try discriminate. apply (HA p); auto. rewrite P; reflexivity.
  - destruct (ph s p) eqn:P; try discriminate. apply (HA p); auto. rewrite P; reflexivity.
  - destruct (ph s p) eqn:P; try discriminate. apply (HA p); auto. rewrite P; reflexivity.
  - destruct (ph s p) eqn:P; try discriminate; apply (HA p); auto; rewrite P; reflexivity.
  - destruct (ph s p) eqn:P; try discriminate. apply (HA p); auto. rewrite P; reflexivity.
  - destruct (ph s p) eqn:P; try discriminate. apply (HA p); auto. rewrite P; reflexivity.
  - destruct (ph s p) eqn:P; try discriminate. apply (HA p); auto. rewrite P; reflexivity.
  - destruct (ph s p) eqn:P; try discriminate. apply (HA p); auto. rewrite P; reflexivity.
  - destruct (ph s p) eqn:P; try discriminate. apply (HA p); auto. rewrite P; reflexivity.
  - destruct (is_out (ph s p)) eqn:P; try discriminate. apply (HA p); auto.
  - destruct (ph s p) eqn:P; try discriminate. apply (HA p); auto. rewrite P; reflexivity.
  - discriminate.
  - injection HS as <-. simpl in HC. tauto.
  - injection HS as <-. simpl in HC. tauto.
  - destruct (lock s); [discriminate|]. destruct (ph s p); try discriminate. injection HS as <-. simpl in HC. tauto.
  - destruct (ph s p) eqn:P; try discriminate. apply (HA p); auto. rewrite P; reflexivity.
Qed.

(* (6) the theorem depends on what __enter__ does with an existing backup: a variant that
   starts a fresh backup (instead of merging into the old one) loses the last completed plan
   after two aborted runs in a row.  This is NOT the code; it shows backup_keeps is not vacuous. *)
Definition tr_two_aborts : list event :=
  [ MkJobDir 1; Lock 0%nat; MkBak 0%nat; Ready 0%nat; Submit 0%nat 1; Link 0%nat 1; EndOk 0%nat; RmBakDir 0%nat; Done 0%nat;
    Lock 1%nat; MkBak 1%nat; Move 1%nat 1; Ready 1%nat; EndExc 1%nat ExcError;
    Lock 2%nat; MkBak 2%nat; Ready 2%nat; EndExc 2%nat ExcExit ].

Theorem replace_variant_refuted : exists tr s,
  run_replace init tr = Some s /\ ~ incl (kept tr) (names (jobs s) ++ names (bakl s)) /\ In 1 (orphans s).
Proof.
  exists tr_two_aborts. eexists. split; [vm_compute; reflexivity|]. split.
  - intros H. specialize (H 1). vm_compute in H. apply H. left. reflexivity.
  - vm_compute. left. reflexivity.
Qed.

(* ------------------------------------------------------------------ the hypotheses are satisfiable *)
(* a history with a completed run {1,2}, an aborted run that linked 3 and was killed, an aborted
   run that raised after linking 2 again: all of 1,2,3 are still in jobs + jobs.bak *)
Definition tr_example : list event :=
  [ MkJobDir 1; MkJobDir 2; MkJobDir 3; MkJobDir 4;
    Lock 0%nat; MkBak 0%nat; Ready 0%nat; Submit 0%nat 1; Submit 0%nat 2; Link 0%nat 2; EndOk 0%nat; RmBakDir 0%nat; Link 0%nat 1; Done 0%nat;
    Lock 1%nat; MkBak 1%nat; Move 1%nat 2; Move 1%nat 1; Ready 1%nat; Submit 1%nat 3; Link 1%nat 3; Kill 1%nat;
    Lock 2%nat; MkBak 2%nat; Move 2%nat 3; Ready 2%nat; Submit 2%nat 2; Link 2%nat 2; EndExc 2%nat ExcExit ].

Example ex_run : exists s, run init tr_example = Some s /\ kept tr_example = [2; 3; 1; 2] /\
  names (jobs s) = [2] /\ names (bakl s) = [3; 1; 2] /\ orphans s = [4].
Proof. eexists. split; [vm_compute; reflexivity|]. vm_compute. repeat split. Qed.

Example ex_completed : exists s, run init (firstn 13 tr_example ++ [Done 0%nat]) = Some s /\
  subs_of 0%nat (firstn 13 tr_example ++ [Done 0%nat]) = [2; 1].
Proof. eexists. split; vm_compute; reflexivity. Qed.

Example ex_two_inside_impossible : exists s, run init [Lock 0%nat; MkBak 0%nat] = Some s /\
  step s (Lock 1%nat) = None /\ is_out (ph s 0%nat) = false.
Proof. eexists. split; [vm_compute; reflexivity|]. split; reflexivity. Qed.

Example ex_change_under_lock : exists s s', run init (firstn 9 tr_example) = Some s /\
  step s (Link 0%nat 2) = Some s' /\ jobs s' <> jobs s.
Proof. eexists. eexists. split; [vm_compute; reflexivity|]. split; [vm_compute; reflexivity|]. vm_compute. discriminate. Qed.

Example ex_forget : exists s s', run init (firstn 18 tr_example) = Some s /\
  step s (Kill 1%nat) = Some s' /\ names (jobs s) ++ names (bakl s) = [1; 2].
Proof. eexists. eexists. split; [vm_compute; reflexivity|]. split; vm_compute; reflexivity. Qed.

(* (7) leaving the block through an exception: the class of the exception does not matter, and in
   every reachable state the step changes neither jobs/ nor jobs.bak/, the backup directory exists
   (it was made by __enter__), the lock is released.  "If the block raises, the previous index is
   kept as backup" - whether it raises an Exception or sys.exit()/KeyboardInterrupt/...          *)
Theorem abort_class_irrelevant : forall s p c c', step s (EndExc p c) = step s (EndExc p c').
Proof. reflexivity. Qed.

(* while a process is moving links or inside the block, jobs.bak exists *)
Definition BInv (s : st) : Prop :=
  forall p, match ph s p with Moving | Inside _ _ => bak s <> None | _ => True end.

Lemma binv_init : BInv init.
Proof. intros p. exact I. Qed.

Lemma binv_upd_other s (b : option (list link)) p v :
  (forall q, match ph s q with Moving | Inside _ _ => b <> None | _ => True end) ->
  match v with Moving | Inside _ _ => b <> None | _ => True end ->
  forall q, match upd (ph s) p v q with Moving | Inside _ _ => b <> None | _ => True end.
Proof.
  intros H Hv q. destruct (Nat.eq_dec q p) as [->|N]; [rewrite upd_eq; exact Hv | rewrite upd_neq by exact N; apply H].
Qed.

Lemma step_binv tr s e s' : Inv tr s -> BInv s -> step s e = Some s' -> BInv s'.
Proof.
  intros HI HB HS.
  destruct e as [p|p|p n|p|p j|p j|p|p n|p|p|p c|p|p|p|j|j|p|p r]; simpl in HS.
  - destruct (lock s); [discriminate|]. destruct (ph s p); try discriminate. inv_some HS.
    unfold BInv; simpl. apply binv_upd_other; [exact HB | exact I].
  - destruct (ph s p); try discriminate. inv_some HS. unfold BInv; simpl.
    apply binv_upd_other; [|discriminate]. intros q. destruct (ph s q); auto; discriminate.
  - destruct (ph s p); try discriminate. destruct (bak s) as [b|] eqn:B; try discriminate.
    destruct (find_link n (jobs s)); try discriminate.
    destruct (has n b); inv_some HS; unfold BInv; simpl; intros q; destruct (ph s q); auto; discriminate.
  - destruct (ph s p) eqn:P; try discriminate. destruct (isnil (jobs s)); try discriminate. inv_some HS.
    unfold BInv; simpl. apply binv_upd_other; [exact HB|]. specialize (HB p). rewrite P in HB. exact HB.
  - destruct (ph s p) eqn:P; try discriminate. inv_some HS.
    unfold BInv; simpl. apply binv_upd_other; [exact HB|]. specialize (HB p). rewrite P in HB. exact HB.
  - pose proof (HB p) as HBp.
    destruct (ph s p) eqn:P; try discriminate; destruct (memz j sub); try discriminate; inv_some HS;
      unfold BInv; simpl; apply binv_upd_other; try exact HB; try exact I. exact HBp.
  - destruct (ph s p); try discriminate. inv_some HS.
    unfold BInv; simpl. apply binv_upd_other; [exact HB | exact I].
  - destruct (ph s p); try discriminate. destruct (bak s) as [b|] eqn:B; try discriminate.
    destruct (has n b); try discriminate. inv_some HS.
    unfold BInv; simpl. intros q. destruct (ph s q); auto; discriminate.
  - (* RmBakDir: the only step that makes jobs.bak disappear; every other process is outside *)
    destruct (ph s p) eqn:P; try discriminate.
    assert (HO : is_out (ph s p) = false) by (rewrite P; reflexivity).
    destruct (holder_is _ _ _ HI HO) as (L & HQ & _).
    assert (s' = mk (jobs s) None (lock s) (upd (ph s) p (ExitWait sub linked)) (dirs s)) as ->.
    { destruct (bak s) as [[|x b]|]; try discriminate; inv_some HS; reflexivity. }
    unfold BInv; simpl. intros q. destruct (Nat.eq_dec q p) as [->|N].
    + rewrite upd_eq. exact I.
    + rewrite upd_neq by exact N. rewrite (HQ q N). exact I.
  - destruct (ph s p); try discriminate. destruct (forallb (fun j : Z => memz j linked) sub); try discriminate.
    inv_some HS. unfold BInv; simpl. apply binv_upd_other; [exact HB | exact I].
  - destruct (ph s p); try discriminate. inv_some HS.
    unfold BInv; simpl. apply binv_upd_other; [exact HB | exact I].
  - destruct (is_out (ph s p)); try discriminate. inv_some HS.
    unfold BInv; simpl. apply binv_upd_other; [exact HB | exact I].
  - destruct (ph s p); try discriminate. inv_some HS.
    unfold BInv; simpl. apply binv_upd_other; [exact HB | exact I].
  - discriminate.
  - inv_some HS. exact HB.
  - inv_some HS. exact HB.
  - destruct (lock s); [discriminate|]. destruct (ph s p); try discriminate. inv_some HS.
    unfold BInv; simpl. apply binv_upd_other; [exact HB | exact I].
  - destruct (ph s p); try discriminate. inv_some HS.
    unfold BInv; simpl. apply binv_upd_other; [exact HB | exact I].
Qed.

Lemma run_binv tr : forall s, run init tr = Some s -> BInv s.
Proof.
  induction tr as [|e tr IH] using rev_ind; intros s H.
  - unfold run in H; simpl in H. inv_some H. apply binv_init.
  - rewrite run_snoc in H. destruct (run init tr) as [s0|] eqn:R; simpl in H; [|discriminate].
    eapply step_binv; [apply run_inv; exact R | apply IH; reflexivity | exact H].
Qed.

Theorem raise_keeps_index : forall tr s p c s', run init tr = Some s -> step s (EndExc p c) = Some s' ->
  jobs s' = jobs s /\ bak s' = bak s /\ (exists b, bak s' = Some b) /\ lock s' = None /\ ph s' p = Out /\
  incl (kept (tr ++ [EndExc p c])) (names (jobs s') ++ names (bakl s')).
Proof.
  intros tr s p c s' H HS.
  assert (H' : run init (tr ++ [EndExc p c]) = Some s') by (rewrite run_snoc, H; exact HS).
  pose proof (run_inv _ _ H) as HI. pose proof (run_binv _ _ H p) as HB.
  pose proof (backup_keeps _ _ H') as HK. clear H'. revert HK.
  simpl in HS. destruct (ph s p) eqn:P; try discriminate. inv_some HS. simpl. intros HK.
  assert (HO : is_out (ph s p) = false) by (rewrite P; reflexivity).
  destruct (holder_is _ _ _ HI HO) as (L & _).
  repeat split.
  - destruct (bak s) as [b|]; [exists b; reflexivity | contradiction].
  - rewrite L. apply release_self.
  - apply upd_eq.
  - exact HK.
Qed.

(* the theorem depends on the guard of __exit__ being "no exception at all": with a guard that only
   counts instances of Exception as a failure (NOT the code), a run left through sys.exit() or
   KeyboardInterrupt before it re-submitted job 1 drops the index of the last completed plan     *)
Definition tr_sysexit : list event :=
  [ MkJobDir 1; MkJobDir 2;
    Lock 0%nat; MkBak 0%nat; Ready 0%nat; Submit 0%nat 1; Link 0%nat 1; EndOk 0%nat; RmBakDir 0%nat; Done 0%nat;
    Lock 1%nat; MkBak 1%nat; Move 1%nat 1; Ready 1%nat; Submit 1%nat 2; Link 1%nat 2; EndExc 1%nat ExcExit ].

Theorem exception_only_variant_refuted : exists tr s,
  run_exconly init tr = Some s /\ ~ incl (kept tr) (names (jobs s) ++ names (bakl s)) /\ In 1 (orphans s).
Proof.
  exists tr_sysexit. eexists. split; [vm_compute; reflexivity|]. split.
  - intros H. assert (X : In 1 (kept tr_sysexit)) by (vm_compute; right; left; reflexivity).
    apply H in X. vm_compute in X. destruct X as [X|[]]. discriminate X.
  - vm_compute. left. reflexivity.
Qed.

(* the same history on the code's step function: the backup is there and nothing is an orphan *)
Example ex_sysexit : exists s, run init tr_sysexit = Some s /\ kept tr_sysexit = [2; 1] /\
  names (jobs s) = [2] /\ bak s = Some [(1, 1)] /\ orphans s = [] /\
  step_exconly s (Lock 2%nat) = step s (Lock 2%nat).
Proof. eexists. split; [vm_compute; reflexivity|]. vm_compute. repeat split. Qed.

Example ex_raise_keeps : exists s s', run init (firstn 16 tr_sysexit) = Some s /\
  step s (EndExc 1%nat ExcExit) = Some s' /\ step s (EndExc 1%nat ExcError) = Some s' /\ bak s' = Some [(1, 1)].
Proof. eexists. eexists. split; [vm_compute; reflexivity|]. repeat split. Qed.

(* ------------------------------------------------------------------ "completed" = wait() returned *)
(* (8) With "last completed plan" read as "last run whose wait() returned" (kept_w), the code as it is
   does NOT keep what it must: __exit__ removes the backup before wait().  Run A completes {1}; run B
   moves 1 to the backup, links 2, its block ends, rmtree(jobs.bak), then B is killed while waiting for
   its jobs (or wait() raises): job 1 - of the last plan that ever completed - is in no index and is
   reported as an orphan.  Found by the audit (Audit_C16.au_killed_in_exit_forgets_everything);
   reproduced on the implementation by the harness (key C16:backup-dropped-before-wait).          *)
Definition tr_killed_waiting : list event :=
  [ MkJobDir 1; MkJobDir 2;
    Lock 0%nat; MkBak 0%nat; Ready 0%nat; Submit 0%nat 1; Link 0%nat 1; EndOk 0%nat; RmBakDir 0%nat; Done 0%nat;
    Lock 1%nat; MkBak 1%nat; Move 1%nat 1; Ready 1%nat; Submit 1%nat 2; Link 1%nat 2; EndOk 1%nat;
    RmEntry 1%nat 1; RmBakDir 1%nat; Kill 1%nat ].

Theorem wait_based_keep_refuted : exists tr s,
  run init tr = Some s /\ ~ incl (kept_w tr) (names (jobs s) ++ names (bakl s)) /\ In 1 (orphans s).
Proof.
  exists tr_killed_waiting. eexists. split; [vm_compute; reflexivity|]. split.
  - intros H. assert (X : In 1 (kept_w tr_killed_waiting)) by (vm_compute; right; left; reflexivity).
    apply H in X. vm_compute in X. destruct X as [X|[]]. discriminate X.
  - vm_compute. left. reflexivity.
Qed.

(* the same with wait() raising instead of the process being killed *)
Example ex_wait_fails_forgets : exists s,
  run init (firstn 19 tr_killed_waiting ++ [WaitFail 1%nat]) = Some s /\
  kept_w (firstn 19 tr_killed_waiting ++ [WaitFail 1%nat]) = [2; 1] /\ names (jobs s) = [2] /\ bak s = None /\
  orphans s = [1] /\ lock s = None.
Proof. eexists. split; [vm_compute; reflexivity|]. vm_compute. repeat split. Qed.

(* (9) the repaired order (step_late: wait() first, rmtree after): the invariant with kept_w *)
Lemma runl_snoc s tr e : run_late s (tr ++ [e]) = ostep_late (run_late s tr) e.
Proof. unfold run_late. rewrite fold_left_app. reflexivity. Qed.
Lemma ghostw_snoc tr e : ghostw (tr ++ [e]) = keepw_step (ghostw tr) e.
Proof. unfold ghostw. rewrite fold_left_app. reflexivity. Qed.
Lemma keptw_snoc tr e : kept_w (tr ++ [e]) = snd (keepw_step (ghostw tr) e).
Proof. unfold kept_w. rewrite ghostw_snoc. reflexivity. Qed.

Definition PInvL (cur keep subs : list jobid) (jl : list link) (b : option (list link)) (f : phase) : Prop :=
  match f with
  | Out => False
  | Locked | Moving => cur = [] /\ subs = []
  | Inside sub linked => common cur subs jl sub linked
  | ExitWait sub linked => common cur subs jl sub linked
  | ExitRm sub linked => common cur subs jl sub linked /\ incl keep (names jl) /\ incl sub linked
  | ExitFin sub linked => common cur subs jl sub linked /\ incl keep (names jl) /\ incl sub linked /\ b = None
  | GenIn => True
  end.

Definition InvL (tr : list event) (s : st) : Prop :=
  (forall l, In l (jobs s ++ bakl s) -> snd l = dir_of (fst l)) /\
  incl (kept_w tr) (names (jobs s) ++ names (bakl s)) /\
  NoDup (names (jobs s)) /\ NoDup (names (bakl s)) /\
  match lock s with
  | None => forall p, ph s p = Out
  | Some p => (forall q, q <> p -> ph s q = Out) /\
              PInvL (fst (ghostw tr)) (kept_w tr) (subs_of p tr) (jobs s) (bak s) (ph s p)
  end.

Lemma invl_init : InvL [] init.
Proof.
  unfold InvL, init; simpl. repeat split; auto; try constructor.
  - intros l [].
  - intros x [].
Qed.

Lemma holder_isL tr s p : InvL tr s -> is_out (ph s p) = false ->
  lock s = Some p /\ (forall q, q <> p -> ph s q = Out) /\
  PInvL (fst (ghostw tr)) (kept_w tr) (subs_of p tr) (jobs s) (bak s) (ph s p).
Proof.
  intros (_ & _ & _ & _ & HL) HO. destruct (lock s) as [h|].
  - destruct HL as [HQ HP]. destruct (Nat.eq_dec p h) as [->|N].
    + auto.
    + rewrite (HQ p N) in HO. discriminate.
  - rewrite HL in HO. discriminate.
Qed.

Lemma step_late_inv tr s e s' : InvL tr s -> step_late s e = Some s' -> InvL (tr ++ [e]) s'.
Proof.
  intros HI HS. pose proof HI as (HT & HK & HN1 & HN2 & HL).
  destruct e as [p|p|p n|p|p j|p j|p|p n|p|p|p c|p|p|p|j|j|p|p r]; simpl in HS.
  - (* Lock *)
    destruct (lock s) eqn:L; [discriminate|]. destruct (ph s p) eqn:P; try discriminate. inv_some HS.
    unfold InvL; simpl. rewrite keptw_snoc, ghostw_snoc, subs_snoc; simpl. rewrite Nat.eqb_refl.
    repeat split; auto.
    + intros q N. rewrite upd_neq by exact N. apply HL.
    + rewrite upd_eq. simpl. auto.
  - (* MkBak *)
    destruct (ph s p) eqn:P; try discriminate. inv_some HS.
    assert (HO : is_out (ph s p) = false) by (rewrite P; reflexivity).
    destruct (holder_isL _ _ _ HI HO) as (L & HQ & HP). rewrite P in HP. simpl in HP. destruct HP as [HP1 HP2].
    unfold InvL; simpl. unfold bakl at 1 2 3; simpl. fold (bakl s). rewrite keptw_snoc, ghostw_snoc; simpl. fold (kept_w tr). rewrite L.
    rewrite subs_snoc; simpl.
    repeat split; auto.
    + intros q N. rewrite upd_neq by exact N. auto.
    + rewrite upd_eq. simpl. auto.
  - (* Move *)
    destruct (ph s p) eqn:P; try discriminate. destruct (bak s) as [b|] eqn:B; try discriminate.
    destruct (find_link n (jobs s)) as [l|] eqn:F; try discriminate.
    assert (HO : is_out (ph s p) = false) by (rewrite P; reflexivity).
    destruct (holder_isL _ _ _ HI HO) as (L & HQ & HP). rewrite P in HP. simpl in HP. destruct HP as [HP1 HP2].
    apply find_link_some in F. destruct F as [Fin Ffst].
    assert (Hb : bakl s = b) by (unfold bakl; rewrite B; reflexivity). rewrite Hb in *.
    destruct (has n b) eqn:Hh; inv_some HS; unfold InvL; simpl; unfold bakl; simpl;
      rewrite keptw_snoc, ghostw_snoc; simpl; fold (kept_w tr); rewrite L, subs_snoc; simpl; rewrite P.
    + repeat split; auto.
      * intros x Hx. apply HT. apply in_app_or in Hx. apply in_or_app. destruct Hx as [Hx|Hx]; [|auto].
        apply in_unlink in Hx. tauto.
      * apply unlink_keep_all; [exact HK|]. apply has_iff. exact Hh.
      * apply nodup_names_unlink. exact HN1.
    + repeat split; auto.
      * intros x Hx. apply HT. apply in_app_or in Hx. apply in_or_app. destruct Hx as [Hx|Hx].
        -- apply in_unlink in Hx. tauto.
        -- destruct Hx as [<-|Hx]; auto.
      * apply (unlink_keep_all n (jobs s) (l :: b)).
        -- intros x Hx. specialize (HK x Hx). apply in_app_or in HK. apply in_or_app. simpl. tauto.
        -- simpl. auto.
      * apply nodup_names_unlink. exact HN1.
      * simpl. constructor; [|exact HN2]. rewrite Ffst. apply has_false. exact Hh.
  - (* Ready *)
    destruct (ph s p) eqn:P; try discriminate. destruct (isnil (jobs s)) eqn:E; try discriminate. inv_some HS.
    assert (HO : is_out (ph s p) = false) by (rewrite P; reflexivity).
    destruct (holder_isL _ _ _ HI HO) as (L & HQ & HP). rewrite P in HP. simpl in HP. destruct HP as [HC HSb].
    unfold InvL; simpl. unfold bakl; simpl. fold (bakl s). rewrite keptw_snoc, ghostw_snoc; simpl. fold (kept_w tr). rewrite L, subs_snoc; simpl.
    repeat split; auto.
    + intros q N. rewrite upd_neq by exact N. auto.
    + rewrite upd_eq. simpl. rewrite HC, HSb. destruct (jobs s); [|discriminate].
      unfold common, same_set; simpl. repeat split; apply incl_refl.
  - (* Submit *)
    destruct (ph s p) eqn:P; try discriminate. inv_some HS.
    assert (HO : is_out (ph s p) = false) by (rewrite P; reflexivity).
    destruct (holder_isL _ _ _ HI HO) as (L & HQ & HP). rewrite P in HP. simpl in HP.
    destruct HP as ((S1 & S2) & HLs & (J1 & J2) & HC).
    unfold InvL; simpl. unfold bakl; simpl. fold (bakl s). rewrite keptw_snoc, ghostw_snoc; simpl. fold (kept_w tr). rewrite L, subs_snoc; simpl.
    rewrite Nat.eqb_refl.
    repeat split; auto.
    + intros q N. rewrite upd_neq by exact N. auto.
    + rewrite upd_eq. simpl. unfold common, same_set. destruct (memz j sub) eqn:M.
      * apply memz_iff in M. repeat split; auto.
        -- intros x [<-|Hx]; auto.
        -- intros x Hx. right. auto.
      * repeat split; auto.
        -- intros x [<-|Hx]; [left; auto | right; auto].
        -- intros x [<-|Hx]; [left; auto | right; auto].
        -- intros x Hx. right. auto.
  - (* Link *)
    assert (HLink : forall s'' sub linked (mkp : list jobid -> list jobid -> phase),
      (forall a b, is_out (mkp a b) = false) ->
      ph s p = mkp sub linked -> memz j sub = true ->
      s'' = mk (do_link j (jobs s)) (bak s) (lock s) (upd (ph s) p (mkp sub (j :: linked))) (dirs s) ->
      (forall cur keep subs jl b, PInvL cur keep subs jl b (mkp sub linked) ->
         common cur subs jl sub linked /\
         (common (j :: cur) subs (do_link j jl) sub (j :: linked) ->
          (incl keep (names jl) -> incl (j :: keep) (names (do_link j jl))) ->
          PInvL (j :: cur) (j :: keep) subs (do_link j jl) b (mkp sub (j :: linked)))) ->
      InvL (tr ++ [Link p j]) s'').
    { intros s'' sub linked mkp Hout P M -> HPI.
      assert (HO : is_out (ph s p) = false) by (rewrite P; apply Hout).
      destruct (holder_isL _ _ _ HI HO) as (L & HQ & HP). rewrite P in HP.
      destruct (HPI _ _ _ _ _ HP) as (HCm & Hback).
      destruct HCm as ((S1 & S2) & HLs & (J1 & J2) & HC).
      apply memz_iff in M.
      assert (HJ1 : incl (names (do_link j (jobs s))) (j :: linked)).
      { intros x Hx. simpl in Hx. destruct Hx as [<-|Hx]; [left; auto|]. apply in_names_unlink in Hx. right. apply J1. tauto. }
      assert (HJ2 : incl (j :: linked) (names (do_link j (jobs s)))).
      { intros x [<-|Hx]; simpl; [left; auto|]. destruct (Z.eq_dec j x) as [->|N]; [left; auto|].
        right. apply in_names_unlink. split; [apply J2; exact Hx | auto]. }
      unfold InvL; simpl. unfold bakl; simpl. fold (bakl s). rewrite keptw_snoc, ghostw_snoc; simpl. fold (kept_w tr). rewrite L, subs_snoc; simpl.
      split; [|split; [|split; [|split; [exact HN2|split]]]].
      + intros x [<-|Hx]; [reflexivity|]. apply HT. apply in_app_or in Hx. apply in_or_app.
        destruct Hx as [Hx|Hx]; [|auto]. apply in_unlink in Hx. tauto.
      + intros x [<-|Hx]; [left; reflexivity|]. specialize (HK x Hx). apply in_app_or in HK.
        destruct HK as [HK|HK].
        * destruct (Z.eq_dec j x) as [->|N]; [left; reflexivity|]. right. apply in_or_app. left.
          apply in_names_unlink. auto.
        * right. apply in_or_app. right. exact HK.
      + constructor; [|apply nodup_names_unlink; exact HN1]. intro C. apply in_names_unlink in C. tauto.
      + intros q N. rewrite upd_neq by exact N. auto.
      + rewrite upd_eq. apply Hback.
        * unfold common, same_set. repeat split; auto.
          -- intros x [<-|Hx]; auto.
          -- intros x [<-|Hx]; [left; auto | right; auto].
        * intros Hkeep x [<-|Hx]; [left; reflexivity|]. simpl. destruct (Z.eq_dec j x) as [->|N]; [left; reflexivity|].
          right. apply in_names_unlink. auto. }
    destruct (ph s p) eqn:P; try discriminate; destruct (memz j sub) eqn:M; try discriminate; inv_some HS.
    + apply (HLink _ sub linked Inside); auto; intros cur keep subs jl b H; simpl in *; tauto.
    + apply (HLink _ sub linked ExitRm); auto. intros cur keep subs jl b H; simpl in *.
      destruct H as (H1 & H2 & H3). split; [exact H1|]. intros C K.
      split; [exact C | split; [apply K; exact H2 | apply incl_tl; exact H3]].
    + apply (HLink _ sub linked ExitWait); auto; intros cur keep subs jl b H; simpl in *; tauto.
  - (* EndOk: the block ended, __exit__ starts waiting; nothing is forgotten yet *)
    destruct (ph s p) eqn:P; try discriminate. inv_some HS.
    assert (HO : is_out (ph s p) = false) by (rewrite P; reflexivity).
    destruct (holder_isL _ _ _ HI HO) as (L & HQ & HP). rewrite P in HP. simpl in HP.
    unfold InvL; simpl. unfold bakl; simpl. fold (bakl s). rewrite keptw_snoc, ghostw_snoc; simpl. fold (kept_w tr). rewrite L, subs_snoc; simpl.
    repeat split; auto.
    + intros q N. rewrite upd_neq by exact N. auto.
    + rewrite upd_eq. simpl. exact HP.
  - (* RmEntry *)
    destruct (ph s p) eqn:P; try discriminate. destruct (bak s) as [b|] eqn:B; try discriminate.
    destruct (has n b) eqn:Hh; try discriminate. inv_some HS.
    assert (HO : is_out (ph s p) = false) by (rewrite P; reflexivity).
    destruct (holder_isL _ _ _ HI HO) as (L & HQ & HP). rewrite P in HP. simpl in HP. destruct HP as (HCm & HKJ & HSL). pose proof HCm as ((S1 & S2) & HLs & (J1 & J2) & HC).
    assert (Hb : bakl s = b) by (unfold bakl; rewrite B; reflexivity). rewrite Hb in *.
    unfold InvL; simpl. unfold bakl; simpl. rewrite keptw_snoc, ghostw_snoc; simpl. fold (kept_w tr). rewrite L, subs_snoc; simpl. rewrite P.
    repeat split; auto.
    + intros x Hx. apply HT. apply in_app_or in Hx. apply in_or_app. destruct Hx as [Hx|Hx]; [auto|].
      apply in_unlink in Hx. tauto.
    + apply incl_app_l. exact HKJ.
    + apply nodup_names_unlink. exact HN2.
  - (* RmBakDir *)
    destruct (ph s p) eqn:P; try discriminate.
    assert (HO : is_out (ph s p) = false) by (rewrite P; reflexivity).
    destruct (holder_isL _ _ _ HI HO) as (L & HQ & HP). rewrite P in HP. simpl in HP. destruct HP as (HCm & HKJ & HSL). pose proof HCm as ((S1 & S2) & HLs & (J1 & J2) & HC).
    assert (s' = mk (jobs s) None (lock s) (upd (ph s) p (ExitFin sub linked)) (dirs s)) as ->.
    { destruct (bak s) as [[|x b]|]; try discriminate; inv_some HS; reflexivity. }
    unfold InvL; simpl. unfold bakl; simpl. rewrite keptw_snoc, ghostw_snoc; simpl. fold (kept_w tr). rewrite L, subs_snoc; simpl.
    repeat split; auto.
    + intros x Hx. apply HT. rewrite app_nil_r in Hx. apply in_or_app. auto.
    + rewrite app_nil_r. exact HKJ.
    + constructor.
    + intros q N. rewrite upd_neq by exact N. auto.
    + rewrite upd_eq. simpl. auto.
  - (* Done: the finally-clause releases the lock; this run's links are what must be kept from now on *)
    destruct (ph s p) eqn:P; try discriminate. inv_some HS.
    assert (HO : is_out (ph s p) = false) by (rewrite P; reflexivity).
    destruct (holder_isL _ _ _ HI HO) as (L & HQ & HP). rewrite P in HP. simpl in HP.
    destruct HP as (((S1 & S2) & HLs & (J1 & J2) & HC) & HKJ & HSL & HB).
    unfold InvL; simpl. unfold bakl; simpl. fold (bakl s). rewrite keptw_snoc, ghostw_snoc; simpl. rewrite L, release_self.
    repeat split; auto.
    + apply incl_app_l. intros x Hx. apply J2, HC, Hx.
    + intros q. destruct (Nat.eq_dec q p) as [->|N]; [apply upd_eq | rewrite upd_neq by exact N; auto].
  - (* EndExc *)
    destruct (ph s p) eqn:P; try discriminate. inv_some HS.
    assert (HO : is_out (ph s p) = false) by (rewrite P; reflexivity).
    destruct (holder_isL _ _ _ HI HO) as (L & HQ & HP).
    unfold InvL; simpl. unfold bakl; simpl. fold (bakl s). rewrite keptw_snoc, ghostw_snoc; simpl. fold (kept_w tr). rewrite L, release_self.
    repeat split; auto.
    intros q. destruct (Nat.eq_dec q p) as [->|N]; [apply upd_eq | rewrite upd_neq by exact N; auto].
  - (* Kill *)
    destruct (is_out (ph s p)) eqn:HO; try discriminate. inv_some HS.
    destruct (holder_isL _ _ _ HI HO) as (L & HQ & HP).
    unfold InvL; simpl. unfold bakl; simpl. fold (bakl s). rewrite keptw_snoc, ghostw_snoc; simpl. fold (kept_w tr). rewrite L, release_self.
    repeat split; auto.
    intros q. destruct (Nat.eq_dec q p) as [->|N]; [apply upd_eq | rewrite upd_neq by exact N; auto].
  - (* WaitFail *)
    destruct (ph s p) eqn:P; try discriminate. inv_some HS.
    assert (HO : is_out (ph s p) = false) by (rewrite P; reflexivity).
    destruct (holder_isL _ _ _ HI HO) as (L & HQ & HP).
    unfold InvL; simpl. unfold bakl; simpl. fold (bakl s). rewrite keptw_snoc, ghostw_snoc; simpl. fold (kept_w tr). rewrite L, release_self.
    repeat split; auto.
    intros q. destruct (Nat.eq_dec q p) as [->|N]; [apply upd_eq | rewrite upd_neq by exact N; auto].
  - (* WaitOk: wait() returned - the plan has completed; the backup may go now *)
    destruct (ph s p) eqn:P; try discriminate. destruct (forallb (fun j : Z => memz j linked) sub) eqn:F; try discriminate. inv_some HS.
    assert (HO : is_out (ph s p) = false) by (rewrite P; reflexivity).
    destruct (holder_isL _ _ _ HI HO) as (L & HQ & HP). rewrite P in HP. simpl in HP.
    pose proof HP as ((S1 & S2) & HLs & (J1 & J2) & HC).
    assert (SL : incl sub linked).
    { intros x Hx. rewrite forallb_forall in F. apply memz_iff. apply F. exact Hx. }
    assert (HCJ : incl (fst (ghostw tr)) (names (jobs s))) by (intros x Hx; auto).
    unfold InvL; simpl. unfold bakl; simpl. fold (bakl s). rewrite keptw_snoc, ghostw_snoc; simpl. rewrite L, subs_snoc; simpl.
    repeat split; auto.
    + apply incl_app_l. exact HCJ.
    + intros q N. rewrite upd_neq by exact N. auto.
    + rewrite upd_eq. simpl. repeat split; auto.
  - (* MkJobDir *)
    inv_some HS. unfold InvL; simpl. unfold bakl; simpl. fold (bakl s). rewrite keptw_snoc, ghostw_snoc; simpl. fold (kept_w tr).
    repeat split; auto. destruct (lock s); auto. rewrite subs_snoc; simpl. auto.
  - (* RmJobDir *)
    inv_some HS. unfold InvL; simpl. unfold bakl; simpl. fold (bakl s). rewrite keptw_snoc, ghostw_snoc; simpl. fold (kept_w tr).
    repeat split; auto. destruct (lock s); auto. rewrite subs_snoc; simpl. auto.
  - (* LockGen *)
    destruct (lock s) eqn:L; [discriminate|]. destruct (ph s p) eqn:P; try discriminate. inv_some HS.
    unfold InvL; simpl. unfold bakl; simpl. fold (bakl s). rewrite keptw_snoc, ghostw_snoc; simpl. fold (kept_w tr).
    repeat split; auto.
    + intros q N. rewrite upd_neq by exact N. apply HL.
    + rewrite upd_eq. exact I.
  - (* EndGen *)
    destruct (ph s p) eqn:P; try discriminate. inv_some HS.
    assert (HO : is_out (ph s p) = false) by (rewrite P; reflexivity).
    destruct (holder_isL _ _ _ HI HO) as (L & HQ & HP).
    unfold InvL; simpl. unfold bakl; simpl. fold (bakl s). rewrite keptw_snoc, ghostw_snoc; simpl. fold (kept_w tr). rewrite L, release_self.
    repeat split; auto.
    intros q. destruct (Nat.eq_dec q p) as [->|N]; [apply upd_eq | rewrite upd_neq by exact N; auto].
Qed.

Lemma run_invL tr : forall s, run_late init tr = Some s -> InvL tr s.
Proof.
  induction tr as [|e tr IH] using rev_ind; intros s H.
  - unfold run_late in H; simpl in H. inv_some H. apply invl_init.
  - rewrite runl_snoc in H. destruct (run_late init tr) as [s0|] eqn:R; simpl in H; [|discriminate].
    eapply step_late_inv; [apply IH; reflexivity | exact H].
Qed.

(* with the repaired order, after ANY history - kills anywhere, including anywhere inside __exit__,
   wait() raising, exceptions of any class - the links made by the last run whose wait() returned and
   every link made since are still in jobs/ or jobs.bak/ ...                                       *)
Theorem late_backup_keeps : forall tr s, run_late init tr = Some s ->
  incl (kept_w tr) (names (jobs s) ++ names (bakl s)).
Proof. intros tr s H. apply run_invL in H. apply H. Qed.

(* ... and are never reported by the orphans command *)
Theorem late_never_orphan : forall tr s j, run_late init tr = Some s -> In j (kept_w tr) -> ~ In j (orphans s).
Proof.
  intros tr s j H Hj Ho. pose proof (run_invL _ _ H) as (HT & HK & _).
  unfold orphans in Ho. apply filter_In in Ho. destruct Ho as [Hd Hn].
  apply negb_true_iff in Hn. unfold live_name in Hn.
  specialize (HK j Hj). rewrite <- names_app in HK. unfold names in HK. apply in_map_iff in HK.
  destruct HK as [l [El Hl]].
  pose proof (existsb_false_forall _ _ Hn l Hl) as E. cbv beta in E.
  pose proof (HT l Hl) as T. destruct l as [a b]. simpl in *. unfold dir_of in T. subst a b.
  rewrite Z.eqb_refl in E. simpl in E. apply memz_iff in Hd. congruence.
Qed.

(* the first clause of the property is unchanged by the repair *)
Theorem late_completed_exact : forall tr p s,
  run_late init (tr ++ [Done p]) = Some s ->
  same_set (names (jobs s)) (subs_of p (tr ++ [Done p])) /\ NoDup (names (jobs s)) /\
  (forall l, In l (jobs s) -> snd l = dir_of (fst l)) /\
  bak s = None /\ lock s = None.
Proof.
  intros tr p s H. rewrite runl_snoc in H. destruct (run_late init tr) as [s0|] eqn:R; simpl in H; [|discriminate].
  pose proof (run_invL _ _ R) as HI. pose proof HI as (HT & HK & HN1 & HN2 & HL).
  destruct (ph s0 p) eqn:P; try discriminate.
  assert (HO : is_out (ph s0 p) = false) by (rewrite P; reflexivity).
  destruct (holder_isL _ _ _ HI HO) as (L & HQ & HP). rewrite P in HP. simpl in HP.
  destruct HP as (((S1 & S2) & HLs & (J1 & J2) & HC) & HKJ & SL & HB).
  injection H as <-. simpl. rewrite subs_snoc. simpl.
  repeat split; auto.
  - intros x Hx. apply S2, HLs, J1, Hx.
  - intros x Hx. apply J2, SL, S1, Hx.
  - intros l Hl. apply HT. apply in_or_app. auto.
  - rewrite L. apply release_self.
Qed.

Theorem late_exclusive : forall tr s p q, run_late init tr = Some s ->
  is_out (ph s p) = false -> is_out (ph s q) = false -> p = q.
Proof.
  intros tr s p q H Hp Hq. apply run_invL in H.
  destruct (holder_isL _ _ _ H Hp) as (L1 & _). destruct (holder_isL _ _ _ H Hq) as (L2 & _). congruence.
Qed.

(* only the rmtree that follows a successful wait() ever forgets a link *)
Theorem late_only_completed_exit_forgets : forall s e s', step_late s e = Some s' ->
  (forall p n, e <> RmEntry p n) ->
  incl (names (jobs s) ++ names (bakl s)) (names (jobs s') ++ names (bakl s')).
Proof.
  intros s e s' HS HE.
  destruct e as [p|p|p n|p|p j|p j|p|p n|p|p|p c|p|p|p|j|j|p|p r];
    try (exact (only_ok_exit_forgets s _ s' HS HE)); simpl in HS.
  - destruct (ph s p); try discriminate. inv_some HS. apply incl_refl.
  - destruct (ph s p); try discriminate. destruct (bak s) as [[|x b]|] eqn:B; try discriminate; inv_some HS;
      unfold bakl; simpl; rewrite B; apply incl_refl.
  - destruct (ph s p); try discriminate. inv_some HS. apply incl_refl.
  - destruct (ph s p); try discriminate. destruct (forallb (fun j : Z => memz j linked) sub); try discriminate.
    inv_some HS. apply incl_refl.
Qed.

(* the history of (8) in the repaired order: the process can only be killed (or wait() can only fail)
   with the backup intact; 1 and 2 are kept, nothing is an orphan *)
Definition tr_late_prefix : list event :=
  [ MkJobDir 1; MkJobDir 2;
    Lock 0%nat; MkBak 0%nat; Ready 0%nat; Submit 0%nat 1; Link 0%nat 1; EndOk 0%nat; WaitOk 0%nat; RmBakDir 0%nat; Done 0%nat;
    Lock 1%nat; MkBak 1%nat; Move 1%nat 1; Ready 1%nat; Submit 1%nat 2; Link 1%nat 2; EndOk 1%nat ].
Definition tr_killed_waiting_late : list event := tr_late_prefix ++ [Kill 1%nat].

Example ex_late_killed_waiting : exists s, run_late init tr_killed_waiting_late = Some s /\
  kept_w tr_killed_waiting_late = [2; 1] /\ names (jobs s) = [2] /\ bak s = Some [(1, 1)] /\ orphans s = [] /\ lock s = None.
Proof. eexists. split; [vm_compute; reflexivity|]. vm_compute. repeat split. Qed.

Example ex_late_wait_fails : exists s, run_late init (tr_late_prefix ++ [WaitFail 1%nat]) = Some s /\
  bak s = Some [(1, 1)] /\ orphans s = [] /\ lock s = None.
Proof. eexists. split; [vm_compute; reflexivity|]. vm_compute. repeat split. Qed.

(* ... and a run in the repaired order killed in the middle of the rmtree that follows wait(): its plan {2}
   has completed, 1 is no longer to be kept; then the same run going to the end *)
Example ex_late_completed : exists s s',
  run_late init (tr_late_prefix ++ [WaitOk 1%nat; RmEntry 1%nat 1; Kill 1%nat]) = Some s /\
  kept_w (tr_late_prefix ++ [WaitOk 1%nat; RmEntry 1%nat 1; Kill 1%nat]) = [2] /\ bak s = Some [] /\
  run_late init (tr_late_prefix ++ [WaitOk 1%nat; RmEntry 1%nat 1; RmBakDir 1%nat; Done 1%nat]) = Some s' /\
  names (jobs s') = [2] /\ bak s' = None /\ orphans s' = [1].
Proof.
  eexists. eexists. split; [vm_compute; reflexivity|]. split; [vm_compute; reflexivity|].
  split; [vm_compute; reflexivity|]. split; [vm_compute; reflexivity|]. vm_compute. repeat split.
Qed.

(* ------------------------------------------------------------------ run kinds other than NORMAL *)
(* (10) a generate-only run holds the lock but never changes the index: whatever it does (enter, leave
   normally or by an exception, die), jobs/ and jobs.bak/ stay as they were - in the code as it was and
   in the repaired order.  All the theorems above quantify over histories in which such runs (and dry
   runs, which have no event) are interleaved with normal ones.                                        *)
Theorem generate_only_keeps_index : forall s p e s', ph s p = GenIn -> actor e = Some p ->
  step s e = Some s' -> jobs s' = jobs s /\ bak s' = bak s.
Proof.
  intros s p e s' HP HA HS.
  destruct e; simpl in HA; try discriminate; injection HA as ->; simpl in HS; rewrite HP in HS;
    try discriminate; try (destruct (lock s); discriminate); simpl in HS; injection HS as <-; split; reflexivity.
Qed.

Theorem generate_only_keeps_index_late : forall s p e s', ph s p = GenIn -> actor e = Some p ->
  step_late s e = Some s' -> jobs s' = jobs s /\ bak s' = bak s.
Proof.
  intros s p e s' HP HA HS.
  destruct e; simpl in HA; try discriminate; injection HA as ->; simpl in HS; rewrite HP in HS;
    try discriminate; try (destruct (lock s); discriminate); simpl in HS; injection HS as <-; split; reflexivity.
Qed.

Theorem generate_only_enters_alone : forall s p s', step s (LockGen p) = Some s' -> lock s = None /\ lock s' = Some p.
Proof.
  intros s p s' H. simpl in H. destruct (lock s); [discriminate|]. destruct (ph s p); try discriminate.
  inv_some H. auto.
Qed.

(* sensitivity (NOT the code): an __exit__ that removes jobs.bak whenever the lock is held.  Run 0 completes
   {1,2}; run 1 re-submits 1 and raises; a generate-only run ends normally: job 2 is in no index. *)
Definition tr_gen_after_abort : list event :=
  [ MkJobDir 1; MkJobDir 2;
    Lock 0%nat; MkBak 0%nat; Ready 0%nat; Submit 0%nat 1; Submit 0%nat 2; Link 0%nat 1; Link 0%nat 2;
    EndOk 0%nat; WaitOk 0%nat; RmBakDir 0%nat; Done 0%nat;
    Lock 1%nat; MkBak 1%nat; Move 1%nat 1; Move 1%nat 2; Ready 1%nat; Submit 1%nat 1; Link 1%nat 1; EndExc 1%nat ExcError;
    LockGen 2%nat; MkJobDir 3; EndGen 2%nat false ].

Theorem genrm_variant_refuted : exists tr s,
  run_genrm init tr = Some s /\ ~ incl (kept_w tr) (names (jobs s) ++ names (bakl s)) /\ In 2 (orphans s).
Proof.
  exists tr_gen_after_abort. eexists. split; [vm_compute; reflexivity|]. split.
  - intros H. assert (X : In 2 (kept_w tr_gen_after_abort)) by (vm_compute; right; left; reflexivity).
    apply H in X. vm_compute in X. destruct X as [X|[]]. discriminate X.
  - vm_compute. right. left. reflexivity.
Qed.

(* the same history on the code: the backup is still there, 1 and 2 are not orphans; the folder 3 that the
   generate-only run prepared is referenced by no index (that mode schedules nothing) and is listed *)
Example ex_gen_after_abort : exists s, run_late init tr_gen_after_abort = Some s /\
  kept_w tr_gen_after_abort = [1; 2; 1] /\ names (jobs s) = [1] /\ names (bakl s) = [2; 1] /\ orphans s = [3] /\ lock s = None.
Proof. eexists. split; [vm_compute; reflexivity|]. vm_compute. repeat split. Qed.

Example ex_gen_blocks_normal : exists s, run_late init (firstn 22 tr_gen_after_abort) = Some s /\
  ph s 2%nat = GenIn /\ step_late s (Lock 3%nat) = None /\ step_late s (LockGen 3%nat) = None.
Proof. eexists. split; [vm_compute; reflexivity|]. repeat split. Qed.

(* ------------------------------------------------------------------ the lock file behind `lock` *)
Lemma updh_eq {A} (f : nat -> option A) k v : updh f k v k = v.
Proof. unfold updh. rewrite Nat.eqb_refl. reflexivity. Qed.
Lemma updh_neq {A} (f : nat -> option A) k v q : q <> k -> updh f k v q = f q.
Proof. unfold updh. intros H. apply Nat.eqb_neq in H. rewrite H. reflexivity. Qed.

Definition LInv (s : lf) : Prop :=
  (forall p i, lf_handle s p = Some i -> lf_path s = Some i) /\
  (forall i p, lf_holder s i = Some p -> lf_handle s p = Some i).

Lemma linv_init : LInv lf_init.
Proof. split; intros ? ? H; discriminate H. Qed.

Opaque updh.
Lemma lf_step_inv s e s' : LInv s -> lf_step s e = Some s' -> LInv s'.
Proof.
  intros [I1 I2] H. unfold lf_step, lf_step_gen in H. destruct e as [p|p|p|p|p].
  - (* LOpen *)
    destruct (lf_handle s p) eqn:Hp; [discriminate|]. destruct (lf_path s) as [i|] eqn:P; injection H as <-; unfold LInv; simpl.
    + split.
      * intros q j Hq. destruct (Nat.eq_dec q p) as [->|N].
        -- rewrite updh_eq in Hq. congruence.
        -- rewrite updh_neq in Hq by exact N. eauto.
      * intros j q Hq. pose proof (I2 _ _ Hq) as Hh. destruct (Nat.eq_dec q p) as [->|N]; [congruence|].
        rewrite updh_neq by exact N. exact Hh.
    + split.
      * intros q j Hq. destruct (Nat.eq_dec q p) as [->|N].
        -- rewrite updh_eq in Hq. congruence.
        -- rewrite updh_neq in Hq by exact N. apply I1 in Hq. congruence.
      * intros j q Hq. pose proof (I2 _ _ Hq) as Hh. destruct (Nat.eq_dec q p) as [->|N]; [congruence|].
        rewrite updh_neq by exact N. exact Hh.
  - (* LAcquire *)
    destruct (lf_handle s p) as [i|] eqn:Hp; [|discriminate]. destruct (lf_holder s i) eqn:Hi; [discriminate|].
    injection H as <-; unfold LInv; simpl. split; [exact I1|].
    intros j q Hq. destruct (Nat.eq_dec j i) as [->|N].
    + rewrite updh_eq in Hq. congruence.
    + rewrite updh_neq in Hq by exact N. eauto.
  - (* LRelease *)
    destruct (lf_handle s p) as [i|] eqn:Hp; [|discriminate]. destruct (lf_holder s i) as [q|] eqn:Hi; [|discriminate].
    destruct (Nat.eqb q p) eqn:E; [|discriminate]. apply Nat.eqb_eq in E. subst q.
    injection H as <-; unfold LInv; simpl. split.
    + intros q j Hq. destruct (Nat.eq_dec q p) as [->|N].
      * rewrite updh_eq in Hq. discriminate.
      * rewrite updh_neq in Hq by exact N. eauto.
    + intros j q Hq. destruct (Nat.eq_dec j i) as [->|N].
      * rewrite updh_eq in Hq. discriminate.
      * rewrite updh_neq in Hq by exact N. pose proof (I2 _ _ Hq) as Hh.
        destruct (Nat.eq_dec q p) as [->|N2]; [congruence|]. rewrite updh_neq by exact N2. exact Hh.
  - discriminate.
  - (* LDie *)
    destruct (lf_handle s p) as [i|] eqn:Hp; [|discriminate]. injection H as <-; unfold LInv; simpl. split.
    + intros q j Hq. destruct (Nat.eq_dec q p) as [->|N].
      * rewrite updh_eq in Hq. discriminate.
      * rewrite updh_neq in Hq by exact N. eauto.
    + assert (HH : forall j q, q <> p -> lf_holder s j = Some q -> updh (lf_handle s) p None q = Some j).
      { intros j q N Hq. rewrite updh_neq by exact N. eauto. }
      intros j q Hq. destruct (lf_holder s i) as [r|] eqn:Hi.
      * destruct (Nat.eqb r p) eqn:E.
        -- apply Nat.eqb_eq in E. subst r. destruct (Nat.eq_dec j i) as [->|N].
           ++ rewrite updh_eq in Hq. discriminate.
           ++ rewrite updh_neq in Hq by exact N. apply HH; [|exact Hq]. intros ->.
              pose proof (I2 _ _ Hq) as Hh. congruence.
        -- apply Nat.eqb_neq in E. apply HH; [|exact Hq]. intros ->. pose proof (I2 _ _ Hq) as Hh.
           assert (j = i) by congruence. subst j. congruence.
      * apply HH; [|exact Hq]. intros ->. pose proof (I2 _ _ Hq) as Hh.
        assert (j = i) by congruence. subst j. congruence.
Qed.

Transparent updh.

Lemma lf_run_inv tr : forall s, lf_run lf_init tr = Some s -> LInv s.
Proof.
  induction tr as [|e tr IH] using rev_ind; intros s H.
  - injection H as <-. apply linv_init.
  - unfold lf_run, lf_run_gen in H. rewrite fold_left_app in H. simpl in H.
    fold (lf_run_gen false lf_init tr) in H. destruct (lf_run_gen false lf_init tr) as [s0|] eqn:R; [|discriminate].
    eapply lf_step_inv; [apply IH; exact R | exact H].
Qed.

(* as long as nobody removes the lock file, at most one process holds "the" lock *)
Theorem lockfile_exclusive : forall tr s i j p q, lf_run lf_init tr = Some s ->
  lf_holder s i = Some p -> lf_holder s j = Some q -> i = j /\ p = q.
Proof.
  intros tr s i j p q H Hp Hq. apply lf_run_inv in H. destruct H as [I1 I2].
  pose proof (I1 _ _ (I2 _ _ Hp)) as P1. pose proof (I1 _ _ (I2 _ _ Hq)) as P2.
  assert (i = j) by congruence. subst j. split; congruence.
Qed.

(* with an exit that unlinks the lock file after releasing it: A inside, B waiting on the old
   file, A leaves, B gets the (now nameless) old file, C creates and locks a new one *)
Definition tr_unlink : list lf_event :=
  [ LOpen 0%nat; LAcquire 0%nat; LOpen 1%nat; LReleaseUnlink 0%nat; LAcquire 1%nat; LOpen 2%nat; LAcquire 2%nat ].

Theorem unlink_variant_refuted : exists tr s i j p q, lf_run_unlink lf_init tr = Some s /\
  lf_holder s i = Some p /\ lf_holder s j = Some q /\ p <> q.
Proof.
  exists tr_unlink. eexists. exists 0%nat, 1%nat, 1%nat, 2%nat.
  split; [vm_compute; reflexivity|]. repeat split; try reflexivity. discriminate.
Qed.

Example ex_lockfile : exists s, lf_run lf_init [LOpen 0%nat; LAcquire 0%nat; LOpen 1%nat; LRelease 0%nat; LAcquire 1%nat; LOpen 2%nat] = Some s /\
  lf_holder s 0%nat = Some 1%nat /\ lf_step s (LAcquire 2%nat) = None.
Proof. eexists. split; [vm_compute; reflexivity|]. split; reflexivity. Qed.
