(* Identifier cache: context independence on acyclic graphs, and the record of
   defect #1 (the pinned commit's cache test never saw the loop flag).         *)
From Coq Require Import ZArith NArith List Bool Lia.
From XV Require Import core.Value model.Hash model.Cache proofs.Sort_lemmas proofs.Hash_lemmas.
Import ListNotations.

(* ---- acyclic graphs: every reference points to an earlier node -------------- *)
Definition ordered (h : heap) : Prop :=
  forall n x, nth_error h n = Some x ->
    (forall k v, In (k, v) (n_fields x) -> forall m, In m (refs_of v) -> m < n) /\
    (forall t, n_task x = Some t -> t <= n).

Definition below (k : nat) (v : value) : Prop := forall m, In m (refs_of v) -> m < k.
Definition above (k : nat) (st : list nat) : Prop := forall s, In s st -> k <= s.

Lemma index_of_none n st : ~ In n st -> index_of n st = None.
Proof.
  induction st as [|x st IH]; cbn [index_of]; intros Hn; [reflexivity|].
  destruct (Nat.eqb n x) eqn:E; [apply Nat.eqb_eq in E; subst; exfalso; apply Hn; left; reflexivity|].
  rewrite IH; [reflexivity|]. intros Hin. apply Hn. right. exact Hin.
Qed.

Lemma argsel_val_in h fields a v : argsel_of h fields a = AVal v -> In (a_name a, v) fields.
Proof.
  unfold argsel_of. intros E.
  destruct (a_ignored a && negb match assoc (a_name a) fields with Some v0 => is_meta_false h v0 | None => false end);
    [discriminate|].
  destruct (a_gen a); [discriminate|].
  destruct (assoc (a_name a) fields) as [w|] eqn:Ea; [|discriminate].
  match type of E with (if ?c then _ else _) = _ => destruct c end; [discriminate|].
  destruct (is_meta h w); [discriminate|]. inversion E. subst. apply assoc_some_in. exact Ea.
Qed.

Lemma sigargs_val_in h fields args k v : In (k, AVal v) (sigargs h fields args) -> In (k, v) fields.
Proof.
  unfold sigargs. intros Hin. apply filter_In in Hin. destruct Hin as [Hin _].
  apply in_map_iff in Hin. destruct Hin as [a [E _]]. inversion E. subst. apply argsel_val_in with (h := h). assumption.
Qed.

Lemma seq_list_indep {A} (f g : A -> hres) (l : list A) :
  (forall x, In x l -> f x = g x /\ forall b e, f x = Ok (b, e) -> e = 0) ->
  seq_list f l = seq_list g l /\ forall b e, seq_list f l = Ok (b, e) -> e = 0.
Proof.
  induction l as [|x l IH]; intros Hx; cbn [seq_list]; [split; [reflexivity|intros b e E; inversion E; reflexivity]|].
  destruct (Hx x (or_introl eq_refl)) as [E1 Z1].
  destruct IH as [E2 Z2]; [intros y Hy; apply Hx; right; exact Hy|].
  rewrite <- E1, <- E2. split; [reflexivity|].
  intros b e E. destruct (f x) as [[b1 e1]|] eqn:R1; cbn [bind] in E; [|discriminate].
  destruct (seq_list f l) as [[b2 e2]|] eqn:R2; cbn [bind] in E; [|discriminate].
  pose proof (Z1 b1 e1 eq_refl) as Y1. pose proof (Z2 b2 e2 eq_refl) as Y2.
  inversion E. subst. reflexivity.
Qed.

Section Acyclic.
  Variable H : bytes -> bytes.
  Variable cs : classes.
  Variable h : heap.
  Variable look : nat -> option bytes.
  Hypothesis Hord : ordered h.

  (* on an acyclic graph no cycle reference is ever emitted and the result does not
     depend on the context stack                                                   *)
  Lemma hv_ctx_independent : forall fuel k st st' v,
    below k v -> above k st -> above k st' ->
    hv H cs h look fuel st v = hv H cs h look fuel st' v /\
    (forall b e, hv H cs h look fuel st v = Ok (b, e) -> e = 0).
  Proof.
    induction fuel as [|f IH]; intros k st st' v Hb Ha Ha'; [split; [reflexivity|intros; discriminate]|].
    destruct v as [| z | b | bits | s | s | q | l | l | m]; cbn [hv];
      try (split; [reflexivity|intros b0 e0 E; try discriminate; try (inversion E; reflexivity);
                               try (destruct (pack_q _); cbn [bind] in E; [inversion E; reflexivity|discriminate])]).
    - (* list *)
      set (l' := filter (fun x => negb (is_meta h x)) l).
      destruct (seq_list_indep (hv H cs h look f st) (hv H cs h look f st') l') as [E Z].
      { intros x Hx. apply (IH k); try assumption.
        intros m Hm. apply Hb. cbn [refs_of]. apply in_flat_map. exists x. split; [|exact Hm].
        subst l'. apply filter_In in Hx. tauto. }
      rewrite <- E. split; [reflexivity|].
      intros b e R. destruct (seq_list (hv H cs h look f st) l') as [[b2 e2]|] eqn:R2; cbn [bind] in R; [|discriminate].
      pose proof (Z b2 e2 eq_refl) as Z0. inversion R. subst. reflexivity.
    - (* dict *)
      set (l' := sort_by fst (filter (fun kv : bytes * value => negb (is_meta h (snd kv))) l)).
      destruct (seq_list_indep
                  (fun kv : list N * value => do b <- hv H cs h look f st (snd kv); Ok (STR_ID :: fst kv ++ fst b, snd b))
                  (fun kv : list N * value => do b <- hv H cs h look f st' (snd kv); Ok (STR_ID :: fst kv ++ fst b, snd b))
                  l') as [E Z].
      { intros kv Hx.
        destruct (IH k st st' (snd kv)) as [E1 Z1]; try assumption.
        { intros m Hm. apply Hb. cbn [refs_of]. apply in_flat_map. exists kv. split; [|exact Hm].
          subst l'. eapply Permutation.Permutation_in in Hx; [|apply Permutation.Permutation_sym, sort_perm].
          apply filter_In in Hx. tauto. }
        rewrite <- E1. split; [reflexivity|].
        intros b e R. destruct (hv H cs h look f st (snd kv)) as [[b1 e1]|] eqn:R1; cbn [bind] in R; [|discriminate].
        pose proof (Z1 b1 e1 eq_refl) as Z0. inversion R. subst. reflexivity. }
      rewrite <- E. split; [reflexivity|].
      intros b e R.
      match type of R with (bind ?t _) = _ => destruct t as [[bb2 ee2]|] eqn:R2 end; cbn [bind] in R; [|discriminate].
      pose proof (Z bb2 ee2 eq_refl) as Z0. inversion R. subst. reflexivity.
    - (* reference *)
      assert (Hm : m < k) by (apply Hb; cbn; left; reflexivity).
      assert (N1 : ~ In m st) by (intros Hin; specialize (Ha m Hin); lia).
      assert (N2 : ~ In m st') by (intros Hin; specialize (Ha' m Hin); lia).
      rewrite (index_of_none m st N1), (index_of_none m st' N2).
      destruct (look m) as [dg|]; [split; [reflexivity|intros b e E; inversion E; reflexivity]|].
      unfold hnode_with.
      destruct (nsig cs h m) as [sg|er] eqn:Esg; cbn [bind]; [|split; [reflexivity|intros; discriminate]].
      assert (A1 : above m (m :: st)) by (intros s [<-|Hs]; [lia|specialize (Ha s Hs); lia]).
      assert (A2 : above m (m :: st')) by (intros s [<-|Hs]; [lia|specialize (Ha' s Hs); lia]).
      unfold nsig, getnode in Esg. destruct (nth_error h m) as [x|] eqn:Ex; cbn [bind] in Esg; [|discriminate].
      destruct (getclass cs (n_cls x)) as [c|]; cbn [bind] in Esg; [|discriminate].
      destruct (Hord m x Ex) as [Of Ot].
      injection Esg as Esg'.
      (* the producing task *)
      assert (GT : (match sg_task sg with
                    | Some t => do r <- hv H cs h look f (m :: st) (VRef t); Ok (tmark (m :: st) t (fst r), snd r)
                    | None => Ok ([], 0) end)
                 = (match sg_task sg with
                    | Some t => do r <- hv H cs h look f (m :: st') (VRef t); Ok (tmark (m :: st') t (fst r), snd r)
                    | None => Ok ([], 0) end) /\
                   forall b e, (match sg_task sg with
                    | Some t => do r <- hv H cs h look f (m :: st) (VRef t); Ok (tmark (m :: st) t (fst r), snd r)
                    | None => Ok ([], 0) end) = Ok (b, e) -> e = 0).
      { destruct (sg_task sg) as [t|] eqn:Et; [|split; [reflexivity|intros b e E; inversion E; reflexivity]].
        assert (Ht : t < m).
        { rewrite <- Esg' in Et. cbn [sg_task] in Et. destruct (n_task x) as [t'|] eqn:Ett; [|discriminate].
          destruct (Nat.eqb t' m) eqn:Eq; [discriminate|]. inversion Et. subst t'.
          apply Nat.eqb_neq in Eq. specialize (Ot t eq_refl). lia. }
        destruct (IH m (m :: st) (m :: st') (VRef t)) as [E1 Z1]; try assumption.
        { intros q [<-|[]]. exact Ht. }
        assert (M1 : index_of t (m :: st) = None) by (apply index_of_none; intros Hin; specialize (A1 t Hin); lia).
        assert (M2 : index_of t (m :: st') = None) by (apply index_of_none; intros Hin; specialize (A2 t Hin); lia).
        rewrite <- E1. split; [destruct (hv H cs h look f (m :: st) (VRef t)) as [r|]; cbn [bind]; [|reflexivity];
                               rewrite (tmark_none _ _ _ M1), (tmark_none _ _ _ M2); reflexivity|].
        intros b e E. destruct (hv H cs h look f (m :: st) (VRef t)) as [[b1 e1]|] eqn:R1; cbn [bind] in E; [|discriminate].
        pose proof (Z1 b1 e1 eq_refl) as Z0. inversion E. subst. reflexivity. }
      destruct GT as [ET ZT]. rewrite <- ET.
      (* the arguments *)
      destruct (seq_list_indep (hsel (hv H cs h look f (m :: st))) (hsel (hv H cs h look f (m :: st'))) (sg_args sg))
        as [EA ZA].
      { intros [kk sel] Hp. unfold hsel. cbn [snd fst].
        destruct sel as [| |v]; try (split; [reflexivity|intros; discriminate]).
        assert (Hbv : below m v).
        { rewrite <- Esg' in Hp. cbn [sg_args] in Hp. apply sigargs_val_in in Hp.
          intros q Hq. eapply Of; eassumption. }
        destruct (IH m (m :: st) (m :: st') v Hbv A1 A2) as [E1 Z1]. rewrite <- E1. split; [reflexivity|].
        intros b e E. destruct (hv H cs h look f (m :: st) v) as [[b1 e1]|] eqn:R1; cbn [bind] in E; [|discriminate].
        pose proof (Z1 b1 e1 eq_refl) as Z0. inversion E. subst. reflexivity. }
      rewrite <- EA. split; [reflexivity|].
      intros b e E.
      match type of E with (bind (bind ?t _) _) = _ => destruct t as [[bt et]|] eqn:RT end; cbn [bind] in E; [|discriminate].
      match type of E with (bind (bind ?t _) _) = _ => destruct t as [[ba ea]|] eqn:RA end; cbn [bind] in E; [|discriminate].
      pose proof (ZT bt et eq_refl) as Y1. pose proof (ZA ba ea eq_refl) as Y2.
      inversion E. subst. reflexivity.
  Qed.

  (* the identifier computed for a node inside any context equals the one computed
     with an empty context, and carries no loop flag                               *)
  Theorem hnode_ctx_independent : forall fuel st n,
    above (S n) st ->
    hnode H cs h look (S fuel) st n = hnode H cs h look (S fuel) [] n.
  Proof.
    intros fuel st n Ha.
    assert (E : hv H cs h (fun m => if Nat.eqb m n then None else look m) (S (S fuel)) st (VRef n) = Ok ([], 0) -> True) by trivial.
    clear E.
    (* unfold one level through hv on VRef n with a cache that misses n *)
    unfold hnode, hnode_with.
    destruct (nsig cs h n) as [sg|er] eqn:Esg; cbn [bind]; [|reflexivity].
    assert (A1 : above n (n :: st)) by (intros s [<-|Hs]; [lia|specialize (Ha s Hs); lia]).
    assert (A2 : above n [n]) by (intros s [<-|[]]; lia).
    unfold nsig, getnode in Esg. destruct (nth_error h n) as [x|] eqn:Ex; cbn [bind] in Esg; [|discriminate].
    destruct (getclass cs (n_cls x)) as [c|]; cbn [bind] in Esg; [|discriminate].
    destruct (Hord n x Ex) as [Of Ot]. injection Esg as Esg'.
    assert (ET : (match sg_task sg with
                  | Some t => do r <- hv H cs h look (S fuel) (n :: st) (VRef t); Ok (tmark (n :: st) t (fst r), snd r)
                  | None => Ok ([], 0) end)
               = (match sg_task sg with
                  | Some t => do r <- hv H cs h look (S fuel) [n] (VRef t); Ok (tmark [n] t (fst r), snd r)
                  | None => Ok ([], 0) end)).
    { destruct (sg_task sg) as [t|] eqn:Et; [|reflexivity].
      assert (Ht : t < n).
      { rewrite <- Esg' in Et. cbn [sg_task] in Et. destruct (n_task x) as [t'|] eqn:Ett; [|discriminate].
        destruct (Nat.eqb t' n) eqn:Eq; [discriminate|]. inversion Et. subst t'.
        apply Nat.eqb_neq in Eq. specialize (Ot t eq_refl). lia. }
      destruct (hv_ctx_independent (S fuel) n (n :: st) [n] (VRef t)) as [E1 _]; try assumption.
      { intros q [<-|[]]. exact Ht. }
      rewrite E1. destruct (hv H cs h look (S fuel) [n] (VRef t)) as [r|]; cbn [bind]; [|reflexivity].
      rewrite (tmark_same_index (n :: st) [n] t); [reflexivity|].
      rewrite (index_of_none t (n :: st)), (index_of_none t [n]); [reflexivity| |].
      - intros Hin. specialize (A2 t Hin). lia.
      - intros Hin. specialize (A1 t Hin). lia. }
    rewrite ET.
    rewrite (seq_list_ext (hsel (hv H cs h look (S fuel) (n :: st))) (hsel (hv H cs h look (S fuel) [n]))); [reflexivity|].
    intros [kk sel] Hp. unfold hsel. cbn [snd fst]. destruct sel as [| |v]; try reflexivity.
    assert (Hbv : below n v).
    { rewrite <- Esg' in Hp. cbn [sg_args] in Hp. apply sigargs_val_in in Hp. intros q Hq. eapply Of; eassumption. }
    destruct (hv_ctx_independent (S fuel) n (n :: st) [n] v Hbv A1 A2) as [E1 _]. rewrite E1. reflexivity.
  Qed.
End Acyclic.

(* ---- the record of defect #1 -------------------------------------------------
   a -> b -> c -> a through one non-ignored parameter "c"; H := identity, so an
   identifier is the byte stream itself.                                         *)
Definition cyc_class : class :=
  {| c_tid := [110]%N;
     c_args := [{| a_name := [99]%N; a_ignored := false; a_gen := false; a_const := false;
                   a_required := false; a_default := None |}] |}.
Definition cyc_node (next : nat) : node :=
  {| n_cls := 0; n_fields := [([99]%N, VRef next)]; n_meta := None; n_task := None; n_pre := []; n_init := [] |}.
Definition cyc_heap : heap := [cyc_node 1; cyc_node 2; cyc_node 0].
Definition idH (b : bytes) : bytes := b.
Definition cyc_run (fixflag : bool) (ops : list op) : list answer :=
  run idH [cyc_class] cyc_heap 20 fixflag (map centry0 [false; false; false]) ops.

Lemma cache_prefix_order_dependent :
  exists ops1 ops2 d1 d2,
    nth 3 (cyc_run false ops1) ASealed = ADigest d1 /\
    nth 1 (cyc_run false ops2) ASealed = ADigest d2 /\
    nth_error ops1 3 = Some (OpRaw 1) /\ nth_error ops2 1 = Some (OpRaw 1) /\ d1 <> d2.
Proof.
  exists [OpSeal 0; OpRaw 0; OpRaw 2; OpRaw 1; OpRaw 0], [OpSeal 0; OpRaw 1].
  eexists. eexists. split; [vm_compute; reflexivity|]. split; [vm_compute; reflexivity|].
  split; [reflexivity|]. split; [reflexivity|]. intros E. discriminate E.
Qed.

(* the same two histories on the repaired machine agree *)
Example cache_fixed_same_answer :
  nth 3 (cyc_run true [OpSeal 0; OpRaw 0; OpRaw 2; OpRaw 1; OpRaw 0]) ASealed
  = nth 1 (cyc_run true [OpSeal 0; OpRaw 1]) ASealed.
Proof. vm_compute. reflexivity. Qed.

(* non-vacuity: an acyclic two-level graph with a shared child meets `ordered` *)
Example ordered_example :
  ordered [ {| n_cls := 0; n_fields := []; n_meta := None; n_task := None; n_pre := []; n_init := [] |};
            {| n_cls := 0; n_fields := [([99]%N, VList [VRef 0; VRef 0])]; n_meta := None; n_task := Some 0;
               n_pre := []; n_init := [] |} ].
Proof.
  intros n x E. destruct n as [|[|n]]; cbn in E; inversion E; subst; cbn; split.
  - intros k v [].
  - intros t Ht. discriminate.
  - intros k v [Hk|[]] m Hm. inversion Hk. subst. cbn in Hm. destruct Hm as [<-|[<-|[]]]; lia.
  - intros t Ht. inversion Ht. lia.
  - destruct n; discriminate.
  - destruct n; discriminate.
Qed.
