(* Coherence of the seal-gated identifier cache UNDER EDITS (C01 + C14):
   1. frame lemma: the identifier of a node depends only on the nodes reachable from it;
   2. the machine of model/Seal.v (assignments, meta flags, pre-tasks - accepted on unsealed
      nodes, rejected on sealed ones - seals and identifier requests, in any order): every
      identifier answered is the identifier, computed afresh, of the graph AS IT IS at that time. *)
From Coq Require Import ZArith NArith List Bool Lia Permutation.
From XV Require Import core.Value model.Hash model.Cache model.Edits model.Seal model.HashReach
  proofs.Sort_lemmas proofs.Hash_lemmas proofs.Neutral_lemmas proofs.Cache_lemmas proofs.Spec_lemmas proofs.Seal_lemmas
  proofs.Walk_reach_lemmas proofs.Cyclic_lemmas.
Import ListNotations.

Lemma seq_list_ext {A} (f g : A -> hres) (l : list A) :
  (forall x, In x l -> f x = g x) -> seq_list f l = seq_list g l.
Proof.
  induction l as [|x l IH]; intros E; cbn [seq_list]; [reflexivity|].
  rewrite (E x (or_introl eq_refl)). rewrite IH; [reflexivity|]. intros y Hy. apply E. right. exact Hy.
Qed.

Lemma filter_ext_in' {A} (f g : A -> bool) (l : list A) : (forall x, In x l -> f x = g x) -> filter f l = filter g l.
Proof.
  induction l as [|x l IH]; intros E; cbn [filter]; [reflexivity|].
  rewrite (E x (or_introl eq_refl)), IH; [reflexivity|]. intros y Hy. apply E. right. exact Hy.
Qed.

Section Frame.
  Variable H : bytes -> bytes.
  Variable cs : classes.
  Variables h h' : heap.
  Variable look : nat -> option bytes.
  Variable R : nat -> Prop.
  Hypothesis Ragree : forall m, R m -> nth_error h m = nth_error h' m.
  Hypothesis Rclosed : forall m x, R m -> nth_error h m = Some x -> forall k, In k (succs x) -> R k.

  Definition inR (v : value) : Prop := forall y, In y (refs_of v) -> R y.

  Lemma inR_list l x : inR (VList l) -> In x l -> inR x.
  Proof. intros I Hx y Hy. apply I. cbn [refs_of]. apply in_flat_map. exists x. split; assumption. Qed.
  Lemma inR_dict l kv : inR (VDict l) -> In kv l -> inR (snd kv).
  Proof. intros I Hx y Hy. apply I. cbn [refs_of]. apply in_flat_map. exists kv. split; assumption. Qed.

  Lemma is_meta_frame v : inR v -> is_meta h v = is_meta h' v.
  Proof.
    destruct v; try reflexivity. intros I. cbn [is_meta]. rewrite (Ragree n); [reflexivity|].
    apply I. cbn. left. reflexivity.
  Qed.
  Lemma is_meta_false_frame v : inR v -> is_meta_false h v = is_meta_false h' v.
  Proof.
    destruct v; try reflexivity. intros I. cbn [is_meta_false]. rewrite (Ragree n); [reflexivity|].
    apply I. cbn. left. reflexivity.
  Qed.
  Lemma remove_meta_frame v : inR v -> remove_meta h v = remove_meta h' v.
  Proof.
    induction v as [| z | b | b | s | s | q | l IHl | l IHl | n] using value_ind2; try reflexivity; intros I.
    - rewrite !remove_meta_list. f_equal.
      rewrite (filter_ext_in' (fun x => negb (is_meta h x)) (fun x => negb (is_meta h' x)) l)
        by (intros x Hx; f_equal; apply is_meta_frame, (inR_list l x I Hx)).
      apply map_ext_in. intros x Hx. apply filter_In in Hx. rewrite Forall_forall in IHl.
      apply (IHl x (proj1 Hx)). apply (inR_list l x I (proj1 Hx)).
    - rewrite !remove_meta_dict. f_equal.
      rewrite (filter_ext_in' (fun kv : list N * value => negb (is_meta h (snd kv))) (fun kv : list N * value => negb (is_meta h' (snd kv))) l)
        by (intros x Hx; f_equal; apply is_meta_frame, (inR_dict l x I Hx)).
      apply map_ext_in. intros x Hx. apply filter_In in Hx. rewrite Forall_forall in IHl. cbn beta. f_equal.
      apply (IHl x (proj1 Hx)). apply (inR_dict l x I (proj1 Hx)).
  Qed.

  Lemma argsel_of_frame fields a : (forall k v, In (k, v) fields -> inR v) ->
    argsel_of h fields a = argsel_of h' fields a.
  Proof.
    intros F. unfold argsel_of. destruct (assoc (a_name a) fields) as [v|] eqn:E; [|reflexivity].
    pose proof (F _ _ (assoc_some_in _ _ _ E)) as I.
    rewrite (is_meta_false_frame v I), (remove_meta_frame v I), (is_meta_frame v I). reflexivity.
  Qed.

  Lemma argsel_val_stored g fields a v : argsel_of g fields a = AVal v -> assoc (a_name a) fields = Some v.
  Proof.
    unfold argsel_of. destruct (a_ignored a && _); [discriminate|]. destruct (a_gen a); [discriminate|].
    destruct (assoc (a_name a) fields) as [w|]; [|discriminate].
    destruct (negb (a_const a) && _); [discriminate|]. destruct (is_meta g w); [discriminate|].
    intros E. inversion E. reflexivity.
  Qed.

  Lemma sigargs_frame fields args : (forall k v, In (k, v) fields -> inR v) ->
    sigargs h fields args = sigargs h' fields args.
  Proof.
    intros F. unfold sigargs. f_equal. apply map_ext. intros a. rewrite (argsel_of_frame fields a F). reflexivity.
  Qed.

  Lemma sigargs_val g fields args k v : In (k, AVal v) (sigargs g fields args) -> exists k', In (k', v) fields.
  Proof.
    unfold sigargs. intros I. apply filter_In in I. destruct I as [I _]. apply in_map_iff in I.
    destruct I as [a [E _]]. inversion E as [[Ek Ea]]. exists (a_name a).
    apply assoc_some_in. apply (argsel_val_stored g). exact Ea.
  Qed.

  Lemma fields_inR m x : R m -> nth_error h m = Some x -> forall k v, In (k, v) (n_fields x) -> inR v.
  Proof.
    intros Rm E k v I y Hy. apply (Rclosed m x Rm E). unfold succs. apply in_or_app. left.
    apply in_flat_map. exists (k, v). split; [exact I|exact Hy].
  Qed.

  Lemma nsig_frame m : R m -> nsig cs h m = nsig cs h' m.
  Proof.
    intros Rm. unfold nsig, getnode. rewrite <- (Ragree m Rm). destruct (nth_error h m) as [x|] eqn:E; [|reflexivity].
    cbn [bind]. destruct (getclass cs (n_cls x)) as [c|]; [|reflexivity]. cbn [bind].
    rewrite (sigargs_frame _ _ (fields_inR m x Rm E)). reflexivity.
  Qed.

  Lemma nsig_inR m sg : R m -> nsig cs h m = Ok sg ->
    (forall t, sg_task sg = Some t -> R t) /\ (forall k v, In (k, AVal v) (sg_args sg) -> inR v).
  Proof.
    intros Rm. unfold nsig, getnode. destruct (nth_error h m) as [x|] eqn:E; [|discriminate]. cbn [bind].
    destruct (getclass cs (n_cls x)) as [c|]; [|discriminate]. cbn [bind]. intros Es. inversion Es. subst sg. cbn [sg_task sg_args].
    split.
    - intros t Et. apply (Rclosed m x Rm E). unfold succs. apply in_or_app. right. apply in_or_app. right. apply in_or_app. right.
      destruct (n_task x) as [t'|]; [|discriminate]. destruct (Nat.eqb t' m); [discriminate|]. inversion Et. left. reflexivity.
    - intros k v I. destruct (sigargs_val _ _ _ _ _ I) as [k' I']. apply (fields_inR m x Rm E k' v I').
  Qed.

  Lemma hv_frame : forall fuel st v, inR v -> hv H cs h look fuel st v = hv H cs h' look fuel st v.
  Proof.
    induction fuel as [|f IH]; intros st v I; [reflexivity|].
    destruct v as [| | | | | | |l|l|m]; try reflexivity.
    - rewrite !hv_list.
      rewrite (filter_ext_in' (fun x => negb (is_meta h x)) (fun x => negb (is_meta h' x)) l)
        by (intros x Hx; f_equal; apply is_meta_frame, (inR_list l x I Hx)).
      rewrite (seq_list_ext (hv H cs h look f st) (hv H cs h' look f st)); [reflexivity|].
      intros x Hx. apply IH. apply filter_In in Hx. apply (inR_list l x I (proj1 Hx)).
    - rewrite !hv_dict.
      rewrite (filter_ext_in' (fun kv : list N * value => negb (is_meta h (snd kv))) (fun kv : list N * value => negb (is_meta h' (snd kv))) l)
        by (intros x Hx; f_equal; apply is_meta_frame, (inR_dict l x I Hx)).
      match goal with |- bind (seq_list ?F ?L) _ = bind (seq_list ?G _) _ => rewrite (seq_list_ext F G L) end; [reflexivity|].
      intros x Hx. rewrite IH; [reflexivity|].
      apply (Permutation_in _ (Permutation_sym (sort_perm fst _))) in Hx. apply filter_In in Hx.
      apply (inR_dict l x I (proj1 Hx)).
    - rewrite !hv_ref. destruct (index_of m st); [reflexivity|]. destruct (look m); [reflexivity|].
      assert (Rm : R m) by (apply I; cbn; left; reflexivity).
      unfold hnode_with. rewrite <- (nsig_frame m Rm). destruct (nsig cs h m) as [sg|] eqn:Es; [|reflexivity].
      destruct (nsig_inR m sg Rm Es) as [Rt Ra]. cbn [bind].
      assert (Et : (match sg_task sg with
                    | Some t => do r <- hv H cs h look f (m :: st) (VRef t); Ok (tmark (m :: st) t (fst r), snd r)
                    | None => Ok ([], O) end)
                 = (match sg_task sg with
                    | Some t => do r <- hv H cs h' look f (m :: st) (VRef t); Ok (tmark (m :: st) t (fst r), snd r)
                    | None => Ok ([], O) end)).
      { destruct (sg_task sg) as [t|]; [|reflexivity]. rewrite IH; [reflexivity|].
        intros y [<-|[]]. apply Rt. reflexivity. }
      rewrite Et.
      rewrite (seq_list_ext (hsel (hv H cs h look f (m :: st))) (hsel (hv H cs h' look f (m :: st))) (sg_args sg)); [reflexivity|].
      intros [k a] Hx. unfold hsel. cbn [snd fst]. destruct a as [| |v]; try reflexivity.
      rewrite IH; [reflexivity|]. apply (Ra k v Hx).
  Qed.

  Lemma hnode_frame fuel st m : R m -> hnode H cs h look fuel st m = hnode H cs h' look fuel st m.
  Proof.
    intros Rm. destruct fuel as [|f].
    - unfold hnode, hnode_with. rewrite <- (nsig_frame m Rm). destruct (nsig cs h m) as [sg|]; [|reflexivity]. cbn [bind].
      destruct (sg_task sg); [reflexivity|]. cbn [bind].
      rewrite (seq_list_ext (hsel (hv H cs h look 0 (m :: st))) (hsel (hv H cs h' look 0 (m :: st))) (sg_args sg)); [reflexivity|].
      intros [k a] _. unfold hsel. cbn [snd]. destruct a; reflexivity.
    - unfold hnode, hnode_with. rewrite <- (nsig_frame m Rm). destruct (nsig cs h m) as [sg|] eqn:Es; [|reflexivity].
      destruct (nsig_inR m sg Rm Es) as [Rt Ra]. cbn [bind].
      assert (Et : (match sg_task sg with
                    | Some t => do r <- hv H cs h look (S f) (m :: st) (VRef t); Ok (tmark (m :: st) t (fst r), snd r)
                    | None => Ok ([], O) end)
                 = (match sg_task sg with
                    | Some t => do r <- hv H cs h' look (S f) (m :: st) (VRef t); Ok (tmark (m :: st) t (fst r), snd r)
                    | None => Ok ([], O) end)).
      { destruct (sg_task sg) as [t|]; [|reflexivity]. rewrite hv_frame; [reflexivity|].
        intros y [<-|[]]. apply Rt. reflexivity. }
      rewrite Et.
      rewrite (seq_list_ext (hsel (hv H cs h look (S f) (m :: st))) (hsel (hv H cs h' look (S f) (m :: st))) (sg_args sg)); [reflexivity|].
      intros [k a] Hx. unfold hsel. cbn [snd fst]. destruct a as [| |v]; try reflexivity.
      rewrite hv_frame; [reflexivity|]. apply (Ra k v Hx).
  Qed.
End Frame.

(* ---- the same for reachability, the pre-task collection and the full identifier -------------------- *)
Section Frame2.
  Variable H : bytes -> bytes.
  Variable cs : classes.
  Variables h h' : heap.
  Variable R : nat -> Prop.
  Hypothesis Ragree : forall m, R m -> nth_error h m = nth_error h' m.
  Hypothesis Rclosed : forall m x, R m -> nth_error h m = Some x -> forall k, In k (succs x) -> R k.

  Lemma reach_frame n m : reach h n m -> R n -> reach h' n m /\ R m.
  Proof.
    intros Re. induction Re as [n|n x k m Ex Hk Re IH]; intros Rn; [split; [apply reach_refl|exact Rn]|].
    destruct (IH (Rclosed n x Rn Ex k Hk)) as [Re' Rm]. split; [|exact Rm].
    eapply reach_step; [rewrite <- (Ragree n Rn); exact Ex|exact Hk|exact Re'].
  Qed.

  Lemma reach_frame_rev n m : reach h' n m -> R n -> reach h n m /\ R m.
  Proof.
    intros Re. induction Re as [n|n x k m Ex Hk Re IH]; intros Rn; [split; [apply reach_refl|exact Rn]|].
    rewrite <- (Ragree n Rn) in Ex.
    destruct (IH (Rclosed n x Rn Ex k Hk)) as [Re' Rm]. split; [|exact Rm].
    eapply reach_step; [exact Ex|exact Hk|exact Re'].
  Qed.

  Lemma pre_tasks_in n p : wf_heap h -> n < length h -> In p (pre_tasks_of h n) ->
    exists m x, reach h n m /\ nth_error h m = Some x /\ In p (n_pre x).
  Proof.
    intros W Ln Hp. unfold pre_tasks_of in Hp.
    destruct (dedup_spec (flat_map (fun m => match nth_error h m with Some x => n_pre x | None => [] end)
                            (walk h (walk_fuel h) [n] [])) [] (NoDup_nil _)) as [_ S1].
    apply S1 in Hp. destruct Hp as [[]|Hp]. apply in_flat_map in Hp. destruct Hp as [m [Hm Hp]].
    apply (walk_reach h n W Ln) in Hm. destruct (nth_error h m) as [x|] eqn:Ex; [|destruct Hp].
    exists m, x. auto.
  Qed.

  Lemma pre_tasks_inR n p : wf_heap h -> n < length h -> R n -> In p (pre_tasks_of h n) -> R p.
  Proof.
    intros W Ln Rn Hp. destruct (pre_tasks_in n p W Ln Hp) as [m [x [Re [Ex Hx]]]].
    destruct (reach_frame n m Re Rn) as [_ Rm]. apply (Rclosed m x Rm Ex). unfold succs.
    apply in_or_app. right. apply in_or_app. left. exact Hx.
  Qed.

  Lemma pre_tasks_frame n : wf_heap h -> wf_heap h' -> length h = length h' -> n < length h -> R n ->
    Permutation (pre_tasks_of h n) (pre_tasks_of h' n).
  Proof.
    intros W W' L Ln Rn. unfold pre_tasks_of.
    destruct (dedup_spec (flat_map (fun m => match nth_error h m with Some x => n_pre x | None => [] end)
                            (walk h (walk_fuel h) [n] [])) [] (NoDup_nil _)) as [N1 S1].
    destruct (dedup_spec (flat_map (fun m => match nth_error h' m with Some x => n_pre x | None => [] end)
                            (walk h' (walk_fuel h') [n] [])) [] (NoDup_nil _)) as [N2 S2].
    apply NoDup_Permutation; [exact N1|exact N2|]. intros p. rewrite S1, S2. cbn [In].
    rewrite !in_flat_map. split; intros [[]|[m [Hm Hp]]]; right; exists m.
    - apply (walk_reach h n W Ln) in Hm. destruct (reach_frame n m Hm Rn) as [Re' Rm].
      split; [apply (walk_reach h' n W' ltac:(lia)); exact Re'|]. rewrite <- (Ragree m Rm). exact Hp.
    - apply (walk_reach h' n W' ltac:(lia)) in Hm. destruct (reach_frame_rev n m Hm Rn) as [Re' Rm].
      split; [apply (walk_reach h n W Ln); exact Re'|]. rewrite (Ragree m Rm). exact Hp.
  Qed.

  Lemma pure_id_frame n d e : R n -> pure_id H cs h n d e -> pure_id H cs h' n d e.
  Proof.
    intros Rn [f E]. exists f. rewrite <- (hnode_frame H cs h h' (fun _ => None) R Ragree Rclosed f [] n Rn). exact E.
  Qed.

  Lemma pure_ids_frame l ds : (forall p, In p l -> R p) -> pure_ids H cs h l ds -> pure_ids H cs h' l ds.
  Proof.
    intros Rl F. induction F as [|p d l ds [e P] F IH]; constructor.
    - exists e. apply pure_id_frame; [apply Rl; left; reflexivity|exact P].
    - apply IH. intros q Hq. apply Rl. right. exact Hq.
  Qed.

  Lemma pure_full_frame n d : wf_heap h -> wf_heap h' -> length h = length h' -> R n ->
    pure_full H cs h n d -> pure_full H cs h' n d.
  Proof.
    intros W W' L Rn [x [raw [e [pre [ini [Ex [Pr [Pp [Pi ->]]]]]]]]].
    assert (Ln : n < length h) by (apply nth_error_Some; congruence).
    pose proof (pure_ids_frame _ _ (fun p Hp => pre_tasks_inR n p W Ln Rn Hp) Pp) as Pp'.
    destruct (Permutation_Forall2 (pre_tasks_frame n W W' L Ln Rn) Pp') as [pre' [Perm Pp'']].
    exists x, raw, e, pre', ini. split; [rewrite <- (Ragree n Rn); exact Ex|].
    split; [apply pure_id_frame; assumption|]. split; [exact Pp''|]. split.
    - apply pure_ids_frame; [|exact Pi]. intros p Hp. apply (Rclosed n x Rn Ex). unfold succs.
      apply in_or_app. right. apply in_or_app. right. apply in_or_app. left. exact Hp.
    - unfold full_of. rewrite (sort_id_perm pre pre' Perm). reflexivity.
  Qed.
End Frame2.

(* ---- the machine with edits ------------------------------------------------------------------------- *)
Definition only_sealed_cached (s : cstate) : Prop :=
  forall n, sealed_in s n = false -> k_raw (cget s n) = None /\ k_full (cget s n) = None.

Lemma osc_cupd s n f : only_sealed_cached s ->
  (k_sealed (f (cget s n)) = false -> k_raw (f (cget s n)) = None /\ k_full (f (cget s n)) = None) ->
  only_sealed_cached (cupd s n f).
Proof.
  intros O F m Hm. unfold sealed_in in Hm. destruct (cget_cupd_cases s n f m) as [E|[-> E]]; rewrite E in *.
  - apply O. exact Hm.
  - apply F. exact Hm.
Qed.

Lemma osc_init flags : only_sealed_cached (map centry0 flags).
Proof.
  intros n _. unfold cget. revert n; induction flags as [|b fl IH]; intros [|n]; cbn; auto.
Qed.

Lemma set_field_refs k v : forall l m, In m (flat_map (fun kv : bytes * value => refs_of (snd kv)) (set_field k v l)) ->
  In m (flat_map (fun kv : bytes * value => refs_of (snd kv)) l) \/ In m (refs_of v).
Proof.
  induction l as [|[k' v'] l IH]; intros m Hm; cbn [set_field] in Hm.
  - cbn in Hm. rewrite app_nil_r in Hm. right. exact Hm.
  - destruct (bytes_eqb k k').
    + cbn [flat_map snd] in *. apply in_app_or in Hm. destruct Hm as [Hm|Hm]; [right; exact Hm|left; apply in_or_app; right; exact Hm].
    + cbn [flat_map snd] in *. apply in_app_or in Hm. destruct Hm as [Hm|Hm]; [left; apply in_or_app; left; exact Hm|].
      destruct (IH m Hm) as [Hl|Hr]; [left; apply in_or_app; right; exact Hl|right; exact Hr].
Qed.

Section Coherent.
  Variable H : bytes -> bytes.
  Variable cs : classes.
  Variable fuel : nat.

  Definition ginv (g : gstate) : Prop :=
    wf_heap (fst g) /\ length (snd g) = length (fst g) /\ closed (fst g) (snd g) /\
    only_sealed_cached (snd g) /\ csound_c H cs (fst g) (snd g).

  (* values written by an accepted edit refer to configurations of the graph *)
  Definition op_ok (N : nat) (o : sop) : Prop :=
    match o with
    | SAssign _ _ v => forall y, In y (refs_of v) -> y < N
    | SAddPre _ p => forall y, In y p -> y < N
    | _ => True
    end.

  (* what an answer must be, against the graph h and seal flags s at the time of the operation *)
  Definition sanswer_ok (h : heap) (s : cstate) (o : sop) (a : sans) : Prop :=
    match o, a with
    | SRaw n, AId d => exists e, pure_id H cs h n d e
    | SFull n, AId d => pure_full H cs h n d
    | SAssign n _ _, ARejected | SSetMeta n _, ARejected | SAddPre n _, ARejected => sealed_in s n = true
    | SAssign n _ _, AOk | SSetMeta n _, AOk | SAddPre n _, AOk => sealed_in s n = false
    | SSeal _, AOk => True
    | _, AFail => True
    | _, _ => False
    end.

  (* -- requests keep the shape of the state -- *)
  Lemma req_raw_shape h s n s' d : req_raw H cs h fuel true s n = Ok (s', d) ->
    length s' = length s /\ (only_sealed_cached s -> only_sealed_cached s').
  Proof.
    unfold req_raw. destruct (if k_sealed (cget s n) then k_raw (cget s n) else None) as [[d0 fl]|].
    - intros E. inversion E. subst. auto.
    - destruct (hnode H cs h (look_of s) fuel [] n) as [r|]; cbn [bind]; [|discriminate]. intros E.
      destruct (k_sealed (cget s n)) eqn:K; inversion E; subst; [|auto].
      split; [apply cupd_length|]. intros O. apply osc_cupd; [exact O|]. cbn [k_sealed]. rewrite K. discriminate.
  Qed.

  Lemma req_raws_shape h : forall l s s' ds, req_raws H cs h fuel true s l = Ok (s', ds) ->
    length s' = length s /\ (only_sealed_cached s -> only_sealed_cached s').
  Proof.
    induction l as [|n l IH]; intros s s' ds E; cbn [req_raws] in E.
    - inversion E. subst. auto.
    - destruct (req_raw H cs h fuel true s n) as [[s1 d1]|] eqn:R1; cbn [bind] in E; [|discriminate].
      destruct (req_raw_shape h s n s1 d1 R1) as [L1 O1]. cbn [fst snd] in E.
      destruct (req_raws H cs h fuel true s1 l) as [[s2 d2]|] eqn:R2; cbn [bind] in E; [|discriminate].
      destruct (IH s1 s2 d2 R2) as [L2 O2]. cbn [fst snd] in E. inversion E. subst.
      split; [congruence|auto].
  Qed.

  Lemma req_full_shape h s n s' d : req_full H cs h fuel true s n = Ok (s', d) ->
    length s' = length s /\ (only_sealed_cached s -> only_sealed_cached s').
  Proof.
    unfold req_full, getnode. destruct (nth_error h n) as [x|]; cbn [bind]; [|discriminate].
    destruct (req_raw H cs h fuel true s n) as [[s1 d1]|] eqn:R1; cbn [bind]; [|discriminate].
    destruct (req_raw_shape h s n s1 d1 R1) as [L1 O1]. cbn [fst snd].
    destruct (if k_sealed (cget s1 n) then k_full (cget s1 n) else None) as [d0|].
    - intros E. inversion E. subst. auto.
    - destruct (req_raws H cs h fuel true s1 (pre_tasks_of h n)) as [[s2 p]|] eqn:R2; cbn [bind]; [|discriminate].
      destruct (req_raws_shape h _ s1 s2 p R2) as [L2 O2]. cbn [fst snd].
      destruct (req_raws H cs h fuel true s2 (n_init x)) as [[s3 i]|] eqn:R3; cbn [bind]; [|discriminate].
      destruct (req_raws_shape h _ s2 s3 i R3) as [L3 O3]. cbn [fst snd]. intros E.
      destruct (k_sealed (cget s3 n)) eqn:K; inversion E; subst; [|split; [congruence|auto]].
      split; [rewrite cupd_length; congruence|]. intros O. apply osc_cupd; [auto|]. cbn [k_sealed]. rewrite K. discriminate.
  Qed.

  Lemma closed_sealed_eq h s s' : (forall m, sealed_in s' m = sealed_in s m) -> closed h s -> closed h s'.
  Proof. intros E C n x Ex Sn m Hm. rewrite E in *. apply (C n x Ex Sn m Hm). Qed.

  Lemma seal_walk_osc h : forall f todo s, only_sealed_cached s -> only_sealed_cached (seal_walk h f todo s).
  Proof.
    induction f as [|f IH]; intros todo s O; cbn [seal_walk]; [exact O|].
    destruct todo as [|n todo]; [exact O|]. destruct (k_sealed (cget s n)); [apply IH; exact O|].
    destruct (nth_error h n); [|apply IH; exact O]. apply IH. apply osc_cupd; [exact O|]. cbn [k_sealed]. discriminate.
  Qed.

  (* -- an accepted edit on an unsealed node keeps the invariant -- *)
  Lemma edit_inv h s n x x' : ginv (h, s) -> sealed_in s n = false -> nth_error h n = Some x ->
    (forall m, In m (succs x') -> m < length h) -> ginv (upd_nth h n x', s).
  Proof.
    intros [W [L [C [O S]]]] Un Ex Hx'. cbn [fst snd] in *.
    assert (Ln : n < length h) by (apply nth_error_Some; congruence).
    assert (W' : wf_heap (upd_nth h n x')).
    { intros m y Ey k Hk. rewrite upd_nth_length_eq. destruct (Nat.eq_dec n m) as [<-|Ne].
      - rewrite nth_upd_same in Ey by exact Ln. inversion Ey. subst y. apply Hx'. exact Hk.
      - rewrite nth_upd_other in Ey by exact Ne. apply (W m y Ey k Hk). }
    assert (Ragree : forall m, sealed_in s m = true -> nth_error h m = nth_error (upd_nth h n x') m).
    { intros m Sm. rewrite nth_upd_other; [reflexivity|]. intros ->. congruence. }
    assert (Rclosed : forall m y, sealed_in s m = true -> nth_error h m = Some y -> forall k, In k (succs y) -> sealed_in s k = true).
    { intros m y Sm Ey k Hk. apply (C m y Ey Sm k Hk). }
    unfold ginv. cbn [fst snd]. split; [exact W'|]. split; [rewrite upd_nth_length_eq; exact L|]. split.
    - intros m y Ey Sm k Hk. rewrite <- (Ragree m Sm) in Ey. apply (C m y Ey Sm k Hk).
    - split; [exact O|]. intros m. destruct (sealed_in s m) eqn:Sm.
      + destruct (S m) as [Sr Sf]. split.
        * intros d fl E. destruct (Sr d fl E) as [es [P Fl]]. exists es. split; [|exact Fl].
          apply (pure_id_frame H cs h (upd_nth h n x') (fun m => sealed_in s m = true) Ragree Rclosed m d es Sm P).
        * intros d E. apply (pure_full_frame H cs h (upd_nth h n x') (fun m => sealed_in s m = true) Ragree Rclosed m d W W'
                               ltac:(rewrite upd_nth_length_eq; reflexivity) Sm (Sf d E)).
      + destruct (O m Sm) as [E1 E2]. split; [rewrite E1|rewrite E2]; intros; discriminate.
  Qed.

  Lemma step_coherent g o : ginv g -> op_ok (length (fst g)) o ->
    let r := sstep H cs fuel g o in
    ginv (fst r) /\ length (fst (fst r)) = length (fst g) /\ sanswer_ok (fst g) (snd g) o (snd r) /\
    (forall m, sealed_in (snd g) m = true -> sealed_in (snd (fst r)) m = true /\ nth_error (fst (fst r)) m = nth_error (fst g) m).
  Proof.
    destruct g as [h s]. intros G Ok. cbn [fst snd] in Ok. pose proof G as [W [L [C [O S]]]]. cbn [fst snd] in *.
    destruct o as [n k v|n f|n p|n|n|n]; cbn [sstep].
    - destruct (sealed_in s n) eqn:Sn; [cbn [fst snd sanswer_ok]; auto|].
      destruct (nth_error h n) as [x|] eqn:Ex; cbn [fst snd sanswer_ok]; [|auto].
      split; [|split; [apply upd_nth_length_eq|split; [exact Sn|]]].
      + apply (edit_inv h s n x _ G Sn Ex). intros m Hm. unfold succs in Hm. cbn [n_fields n_pre n_init n_task with_fields] in Hm.
        apply in_app_or in Hm. destruct Hm as [Hm|Hm].
        * destruct (set_field_refs k v _ m Hm) as [Hl|Hr]; [|apply Ok; exact Hr].
          apply (W n x Ex m). unfold succs. apply in_or_app. left. exact Hl.
        * apply (W n x Ex m). unfold succs. apply in_or_app. right. exact Hm.
      + intros m Sm. split; [exact Sm|]. apply nth_upd_other. intros ->. congruence.
    - destruct (sealed_in s n) eqn:Sn; [cbn [fst snd sanswer_ok]; auto|].
      destruct (nth_error h n) as [x|] eqn:Ex; cbn [fst snd sanswer_ok]; [|auto].
      split; [|split; [apply upd_nth_length_eq|split; [exact Sn|]]].
      + apply (edit_inv h s n x _ G Sn Ex). intros m Hm. apply (W n x Ex m). exact Hm.
      + intros m Sm. split; [exact Sm|]. apply nth_upd_other. intros ->. congruence.
    - destruct (sealed_in s n) eqn:Sn; [cbn [fst snd sanswer_ok]; auto|].
      destruct (nth_error h n) as [x|] eqn:Ex; cbn [fst snd sanswer_ok]; [|auto].
      split; [|split; [apply upd_nth_length_eq|split; [exact Sn|]]].
      + apply (edit_inv h s n x _ G Sn Ex). intros m Hm. unfold succs in Hm. cbn [n_fields n_pre n_init n_task with_pre] in Hm.
        apply in_app_or in Hm. destruct Hm as [Hm|Hm]; [apply (W n x Ex m); unfold succs; apply in_or_app; left; exact Hm|].
        apply in_app_or in Hm. destruct Hm as [Hm|Hm].
        * apply in_app_or in Hm. destruct Hm as [Hm|Hm]; [|apply Ok; exact Hm].
          apply (W n x Ex m). unfold succs. apply in_or_app. right. apply in_or_app. left. exact Hm.
        * apply (W n x Ex m). unfold succs. apply in_or_app. right. apply in_or_app. right. exact Hm.
      + intros m Sm. split; [exact Sm|]. apply nth_upd_other. intros ->. congruence.
    - cbn [fst snd sanswer_ok]. destruct (seal_closes h W s n L C) as [C' [Mono [_ L']]].
      split; [|split; [reflexivity|split; [exact I|]]].
      + unfold ginv. cbn [fst snd]. split; [exact W|]. split; [exact L'|]. split; [exact C'|].
        split; [apply seal_walk_osc; exact O|apply seal_walk_sound_c; exact S].
      + intros m Sm. split; [apply Mono; exact Sm|reflexivity].
    - destruct (req_raw H cs h fuel true s n) as [[s' d]|] eqn:R; cbn [fst snd sanswer_ok]; [|auto].
      destruct (req_raw_sound_c H cs h fuel s n s' d S R) as [P S']. destruct (req_raw_shape h s n s' d R) as [L' O'].
      pose proof (fun m => req_raw_sealed H cs fuel h true s n s' d m R) as Se.
      split; [|split; [reflexivity|split; [exact P|]]].
      + unfold ginv. cbn [fst snd]. split; [exact W|]. split; [congruence|]. split; [apply (closed_sealed_eq h s s' Se C)|].
        split; [apply O'; exact O|exact S'].
      + intros m Sm. split; [rewrite Se; exact Sm|reflexivity].
    - destruct (req_full H cs h fuel true s n) as [[s' d]|] eqn:R; cbn [fst snd sanswer_ok]; [|auto].
      destruct (req_full_sound_c H cs h fuel s n s' d S R) as [P S']. destruct (req_full_shape h s n s' d R) as [L' O'].
      pose proof (fun m => req_full_sealed H cs fuel h true s n s' d m R) as Se.
      split; [|split; [reflexivity|split; [exact P|]]].
      + unfold ginv. cbn [fst snd]. split; [exact W|]. split; [congruence|]. split; [apply (closed_sealed_eq h s s' Se C)|].
        split; [apply O'; exact O|exact S'].
      + intros m Sm. split; [rewrite Se; exact Sm|reflexivity].
  Qed.

  Fixpoint answers_ok (g : gstate) (ops : list sop) (ans : list sans) : Prop :=
    match ops, ans with
    | [], [] => True
    | o :: ops', a :: ans' => sanswer_ok (fst g) (snd g) o a /\ answers_ok (fst (sstep H cs fuel g o)) ops' ans'
    | _, _ => False
    end.

  Lemma srun_cons g o ops : srun H cs fuel g (o :: ops) =
    (fst (srun H cs fuel (fst (sstep H cs fuel g o)) ops), snd (sstep H cs fuel g o) :: snd (srun H cs fuel (fst (sstep H cs fuel g o)) ops)).
  Proof. cbn [srun]. destruct (sstep H cs fuel g o) as [g1 a]. cbn [fst snd]. destruct (srun H cs fuel g1 ops) as [g2 l]. reflexivity. Qed.

  (* every history of edits (accepted exactly on unsealed configurations), seals and identifier
     requests, on any graph: each identifier answered is the identifier computed afresh, with no
     cache, of the graph as it is when the request is made                                       *)
  Theorem coherent_under_edits : forall ops g, ginv g -> (forall o, In o ops -> op_ok (length (fst g)) o) ->
    answers_ok g ops (snd (srun H cs fuel g ops)).
  Proof.
    induction ops as [|o ops IH]; intros g G Ok; [exact I|].
    rewrite srun_cons. cbn [snd answers_ok].
    destruct (step_coherent g o G (Ok o (or_introl eq_refl))) as [G' [L' [A _]]].
    split; [exact A|]. apply IH; [exact G'|]. intros o' Ho'. rewrite L'. apply Ok. right. exact Ho'.
  Qed.

  Lemma run_inv : forall ops g, ginv g -> (forall o, In o ops -> op_ok (length (fst g)) o) ->
    let g' := fst (srun H cs fuel g ops) in
    ginv g' /\ length (fst g') = length (fst g) /\
    (forall m, sealed_in (snd g) m = true -> sealed_in (snd g') m = true /\ nth_error (fst g') m = nth_error (fst g) m).
  Proof.
    induction ops as [|o ops IH]; intros g G Ok; [cbn [srun fst]; auto|].
    rewrite srun_cons. cbn [fst].
    destruct (step_coherent g o G (Ok o (or_introl eq_refl))) as [G' [L' [_ K]]].
    destruct (IH _ G' ltac:(intros o' Ho'; rewrite L'; apply Ok; right; exact Ho')) as [G2 [L2 K2]].
    split; [exact G2|]. split; [congruence|]. intros m Sm. destruct (K m Sm) as [S1 E1]. destruct (K2 m S1) as [S2 E2].
    split; [exact S2|congruence].
  Qed.

  (* a sealed configuration keeps its content, its identifier and its full identifier (job directory)
     through every such history - whatever is assigned, flagged or added elsewhere in the graph    *)
  Theorem sealed_identity_stable : forall ops g, ginv g -> (forall o, In o ops -> op_ok (length (fst g)) o) ->
    forall m, sealed_in (snd g) m = true ->
    let g' := fst (srun H cs fuel g ops) in
    sealed_in (snd g') m = true /\ nth_error (fst g') m = nth_error (fst g) m /\
    (forall d e, pure_id H cs (fst g) m d e -> pure_id H cs (fst g') m d e) /\
    (forall d, pure_full H cs (fst g) m d -> pure_full H cs (fst g') m d).
  Proof.
    intros ops g G Ok m Sm. destruct (run_inv ops g G Ok) as [G' [L' K]]. cbn zeta.
    destruct (K m Sm) as [S' E']. split; [exact S'|]. split; [exact E'|].
    destruct G as [W [L [C _]]]. destruct G' as [W' _].
    assert (Ragree : forall k, sealed_in (snd g) k = true -> nth_error (fst g) k = nth_error (fst (fst (srun H cs fuel g ops))) k).
    { intros k Sk. symmetry. apply (K k Sk). }
    assert (Rclosed : forall k y, sealed_in (snd g) k = true -> nth_error (fst g) k = Some y ->
                      forall j, In j (succs y) -> sealed_in (snd g) j = true).
    { intros k y Sk Ey j Hj. apply (C k y Ey Sk j Hj). }
    split.
    - intros d e P. apply (pure_id_frame H cs _ _ (fun k => sealed_in (snd g) k = true) Ragree Rclosed m d e Sm P).
    - intros d P. apply (pure_full_frame H cs _ _ (fun k => sealed_in (snd g) k = true) Ragree Rclosed m d W W' (eq_sym L') Sm P).
  Qed.

  Lemma ginv_init h flags : wf_heap h -> length flags = length h -> closed h (map centry0 flags) ->
    ginv (h, map centry0 flags).
  Proof.
    intros W L C. unfold ginv. cbn [fst snd]. split; [exact W|]. split; [rewrite map_length; exact L|]. split; [exact C|].
    split; [apply osc_init|apply csound_c_init].
  Qed.
End Coherent.

(* non-vacuity: node 0 -> 1 <- 2 and 3 alone.  Node 0 is sealed (hence 1); the assignment on the
   unsealed node 2 is accepted, the one on the sealed node 1 rejected; the identifier of 0 is
   answered before and after, and the identifier of 2 changes with its content.               *)
Definition ex_heap : heap :=
  [cyc_node 1; {| n_cls := 0; n_fields := [([99]%N, VInt 5)]; n_meta := None; n_task := None; n_pre := []; n_init := [] |};
   cyc_node 1; {| n_cls := 0; n_fields := [([99]%N, VInt 7)]; n_meta := None; n_task := None; n_pre := []; n_init := [] |}].
Definition ex_ops : list sop :=
  [SSeal 0; SRaw 0; SRaw 2; SAssign 2 [99]%N (VRef 3); SAssign 1 [99]%N (VInt 6); SRaw 2; SRaw 0; SFull 0].
Example ex_edits_run :
  snd (srun idH [cyc_class] 20 (ex_heap, map centry0 [false; false; false; false]) ex_ops) =
  match snd (srun idH [cyc_class] 20 (ex_heap, map centry0 [false; false; false; false]) ex_ops) with
  | [AOk; AId a; AId b; AOk; ARejected; AId c; AId a'; AId f] =>
      if bytes_eqb a a' && negb (bytes_eqb b c) then [AOk; AId a; AId b; AOk; ARejected; AId c; AId a'; AId f] else []
  | _ => []
  end.
Proof. vm_compute. reflexivity. Qed.
Example ex_edits_ginv : ginv idH [cyc_class] (ex_heap, map centry0 [false; false; false; false])
  /\ forall o, In o ex_ops -> op_ok (length ex_heap) o.
Proof.
  split.
  - apply ginv_init; [|reflexivity|].
    + intros n x E m Hm. destruct n as [|[|[|[|n]]]]; cbn in E.
      1-4: injection E as <-; cbn in Hm; cbn; intuition lia.
      destruct n; discriminate.
    + intros n x _ Sn. rewrite sealed_init_false in Sn; [discriminate|]. cbn. intuition congruence.
  - intros o Ho. cbn in Ho. repeat (destruct Ho as [<-|Ho]; [cbn; try exact I; intros y Hy; cbn in Hy; try tauto; lia|]). destruct Ho.
Qed.

(* ---- the executable invariant is sound ---------------------------------------------------------- *)
From XV Require Import model.StateInv.

Section StateInvSound.
  Variable H : bytes -> bytes.
  Variable cs : classes.
  Variable fuel : nat.

  Lemma raw_ident_pure h n d fl : raw_ident H cs h (fun _ => None) fuel n = Ok (d, fl) ->
    exists e, pure_id H cs h n d e /\ fl = Nat.leb 1 e.
  Proof.
    unfold raw_ident. destruct (hnode H cs h (fun _ => None) fuel [] n) as [[d0 e0]|] eqn:E; cbn [bind]; [|discriminate].
    intros Eq. inversion Eq. subst. exists e0. split; [exists fuel; exact E|reflexivity].
  Qed.

  Lemma all_ok_raw_pure h : forall l ds, all_ok (map (raw_pure H cs h fuel) l) = Ok ds -> pure_ids H cs h l ds.
  Proof.
    induction l as [|m l IH]; intros ds E; cbn [map all_ok] in E; [inversion E; constructor|].
    destruct (raw_pure H cs h fuel m) as [d|] eqn:Rm; [|discriminate].
    destruct (all_ok (map (raw_pure H cs h fuel) l)) as [r|] eqn:Rl; cbn [bind] in E; [|discriminate].
    inversion E. subst. constructor; [|apply IH; reflexivity].
    unfold raw_pure in Rm. destruct (raw_ident H cs h (fun _ => None) fuel m) as [[d0 fl]|] eqn:Ri; cbn [bind] in Rm; [|discriminate].
    cbn [fst] in Rm. injection Rm as <-. destruct (raw_ident_pure h m d0 fl Ri) as [e [P _]]. exists e. exact P.
  Qed.

  Lemma full_pure_is_pure_full h n d : full_pure H cs h fuel n = Ok d -> pure_full H cs h n d.
  Proof.
    unfold full_pure, getnode. destruct (nth_error h n) as [x|] eqn:Ex; cbn [bind]; [|discriminate].
    destruct (raw_pure H cs h fuel n) as [raw|] eqn:Rr; cbn [bind]; [|discriminate].
    destruct (all_ok (map (raw_pure H cs h fuel) (pre_tasks_of h n))) as [pre|] eqn:Rp; cbn [bind]; [|discriminate].
    destruct (all_ok (map (raw_pure H cs h fuel) (n_init x))) as [ini|] eqn:Rn; cbn [bind]; [|discriminate].
    intros E. inversion E. subst.
    unfold raw_pure in Rr. destruct (raw_ident H cs h (fun _ => None) fuel n) as [[d0 fl]|] eqn:Ri; cbn [bind] in Rr; [|discriminate].
    cbn [fst] in Rr. injection Rr as <-. destruct (raw_ident_pure h n d0 fl Ri) as [e [P _]].
    exists x, d0, e, pre, ini. split; [exact Ex|]. split; [exact P|].
    split; [apply all_ok_raw_pure; exact Rp|]. split; [apply all_ok_raw_pure; exact Rn|reflexivity].
  Qed.

  Lemma entry_ok_sound h s n : entry_ok H cs fuel h s n = true ->
    sound_entry_c H cs h n (cget s n) /\ (sealed_in s n = false -> k_raw (cget s n) = None /\ k_full (cget s n) = None).
  Proof.
    unfold entry_ok, sealed_in. intros E. apply andb_prop in E. destruct E as [E E3]. apply andb_prop in E. destruct E as [E1 E2].
    split; [split|].
    - intros d fl Er. rewrite Er in E2.
      destruct (raw_ident H cs h (fun _ => None) fuel n) as [[d' fl']|] eqn:Ri; [|discriminate].
      apply andb_prop in E2. destruct E2 as [Ed Ef]. apply bytes_eqb_eq in Ed. apply Bool.eqb_prop in Ef. subst d' fl'.
      apply (raw_ident_pure h n d fl Ri).
    - intros d Ef. rewrite Ef in E3. destruct (full_pure H cs h fuel n) as [d'|] eqn:Fp; [|discriminate].
      apply bytes_eqb_eq in E3. subst d'. apply (full_pure_is_pure_full h n d Fp).
    - intros Un. rewrite Un in E1. destruct (k_raw (cget s n)), (k_full (cget s n)); try discriminate. auto.
  Qed.

  Theorem ginv_b_sound g : ginv_b H cs fuel g = true -> ginv H cs g.
  Proof.
    destruct g as [h s]. unfold ginv_b, ginv. cbn [fst snd]. intros E.
    apply andb_prop in E. destruct E as [E E4]. apply andb_prop in E. destruct E as [E E3]. apply andb_prop in E. destruct E as [E1 E2].
    apply Nat.eqb_eq in E2. rewrite forallb_forall in E4.
    assert (Ent : forall n, sound_entry_c H cs h n (cget s n) /\ (sealed_in s n = false -> k_raw (cget s n) = None /\ k_full (cget s n) = None)).
    { intros n. destruct (Nat.lt_ge_cases n (length s)) as [Ln|Ge].
      - apply entry_ok_sound. apply E4. apply in_seq. lia.
      - unfold sealed_in, cget. rewrite (nth_overflow s (centry0 false) Ge). cbn. split; [split; intros; discriminate|auto]. }
    split; [|split; [exact E2|split; [|split]]].
    - unfold wf_heap_b in E1. rewrite forallb_forall in E1. intros n x Ex m Hm.
      pose proof (E1 x (nth_error_In _ _ Ex)) as F. rewrite forallb_forall in F. apply Nat.ltb_lt. apply F. exact Hm.
    - unfold closed_b in E3. rewrite forallb_forall in E3. intros n x Ex Sn m Hm.
      assert (Ln : n < length h) by (apply nth_error_Some; congruence).
      pose proof (E3 n ltac:(apply in_seq; lia)) as F. rewrite Ex, Sn in F. rewrite forallb_forall in F. apply F. exact Hm.
    - intros n. apply (Ent n).
    - intros n. apply (Ent n).
  Qed.
End StateInvSound.
