(* On acyclic graphs every successful computation of the model - in any context,
   with any fuel, with any sound cache - returns the table identifier (model/Spec.v);
   the cache machine is sound for every request history (C01, C14).              *)
From Coq Require Import ZArith NArith List Bool Lia Permutation.
From XV Require Import core.Value model.Hash model.Cache model.Spec
  proofs.Sort_lemmas proofs.Hash_lemmas proofs.Cache_lemmas.
Import ListNotations.


(* ---- sorting commutes with a key-preserving map --------------------------------------- *)
Lemma insert_by_map {A B} (ka : A -> bytes) (kb : B -> bytes) (f : A -> B) :
  (forall x, kb (f x) = ka x) ->
  forall x l, insert_by kb (f x) (map f l) = map f (insert_by ka x l).
Proof.
  intros K x l. induction l as [|y l IH]; cbn [map insert_by]; [reflexivity|].
  rewrite !K. destruct (bytes_leb (ka x) (ka y)); cbn [map]; [reflexivity|]. rewrite IH. reflexivity.
Qed.

Lemma sort_by_map {A B} (ka : A -> bytes) (kb : B -> bytes) (f : A -> B) :
  (forall x, kb (f x) = ka x) -> forall l, sort_by kb (map f l) = map f (sort_by ka l).
Proof.
  intros K l. induction l as [|x l IH]; cbn [map sort_by]; [reflexivity|].
  rewrite IH. apply insert_by_map. exact K.
Qed.

Lemma filter_map_comm {A B} (f : A -> B) (p : B -> bool) (l : list A) :
  filter p (map f l) = map f (filter (fun x => p (f x)) l).
Proof.
  induction l as [|x l IH]; cbn [map filter]; [reflexivity|]. destruct (p (f x)); cbn [map]; rewrite IH; reflexivity.
Qed.

Lemma flat_map_ext_in' {A B} (f g : A -> list B) l : (forall x, In x l -> f x = g x) -> flat_map f l = flat_map g l.
Proof.
  induction l as [|x l IH]; intros E; cbn [flat_map]; [reflexivity|].
  rewrite (E x (or_introl eq_refl)), IH; [reflexivity|]. intros y Hy. apply E. right. exact Hy.
Qed.

Lemma flat_map_filter_if {A B} (p : A -> bool) (f : A -> list B) (l : list A) :
  flat_map (fun x => if p x then [] else f x) l = flat_map f (filter (fun x => negb (p x)) l).
Proof.
  induction l as [|x l IH]; cbn [flat_map filter]; [reflexivity|].
  destruct (p x); cbn [negb flat_map app]; rewrite IH; reflexivity.
Qed.

Section SpecLemmas.
  Variable H : bytes -> bytes.
  Variable cs : classes.
  Variable h : heap.

  (* the dict clause of spec_v in the order hv computes it *)
  Lemma spec_v_dict tab l :
    spec_v h tab (VDict l)
    = DICT_ID :: flat_map (fun kv : bytes * value => STR_ID :: fst kv ++ spec_v h tab (snd kv))
                   (sort_by fst (filter (fun kv : bytes * value => negb (is_meta h (snd kv))) l)).
  Proof.
    cbn [spec_v]. f_equal.
    set (f := fun kv : bytes * value => (fst kv, (is_meta h (snd kv), spec_v h tab (snd kv)))).
    rewrite (filter_map_comm f (fun p : bytes * (bool * bytes) => negb (fst (snd p)))).
    cbn [f fst snd].
    rewrite (sort_by_map (fun kv : bytes * value => fst kv) (fun p : bytes * (bool * bytes) => fst p) f)
      by (intros x; reflexivity).
    rewrite flat_map_concat_map, map_map, <- flat_map_concat_map. reflexivity.
  Qed.

  Lemma spec_v_list tab l :
    spec_v h tab (VList l)
    = LIST_ID :: pack_len (length (filter (fun x => negb (is_meta h x)) l))
      ++ flat_map (spec_v h tab) (filter (fun x => negb (is_meta h x)) l).
  Proof. cbn [spec_v]. rewrite flat_map_filter_if. reflexivity. Qed.

  (* spec_v reads the table only at the references of the value *)
  Lemma spec_v_ext tab tab' : forall v,
    (forall m, In m (refs_of v) -> nth m tab [] = nth m tab' []) -> spec_v h tab v = spec_v h tab' v.
  Proof.
    induction v as [| z | b | b | s | s | q | l IHl | l IHl | n] using value_ind2; intros E; try reflexivity.
    - rewrite !spec_v_list. f_equal. f_equal. apply flat_map_ext_in'. intros x Hx.
      apply filter_In in Hx. destruct Hx as [Hx _]. rewrite Forall_forall in IHl. apply IHl; [exact Hx|].
      intros m Hm. apply E. cbn [refs_of]. apply in_flat_map. exists x. split; assumption.
    - rewrite !spec_v_dict. f_equal. apply flat_map_ext_in'. intros kv Hkv. f_equal. f_equal.
      eapply Permutation_in in Hkv; [|apply Permutation_sym, sort_perm].
      apply filter_In in Hkv. destruct Hkv as [Hkv _]. rewrite Forall_forall in IHl. apply IHl; [exact Hkv|].
      intros m Hm. apply E. cbn [refs_of]. apply in_flat_map. exists kv. split; assumption.
    - cbn [spec_v]. f_equal. apply E. left. reflexivity.
  Qed.

  Lemma spec_arg_ext tab tab' p :
    (forall v, snd p = AVal v -> forall m, In m (refs_of v) -> nth m tab [] = nth m tab' []) ->
    spec_arg h tab p = spec_arg h tab' p.
  Proof.
    intros E. unfold spec_arg. destruct (snd p) as [| |v] eqn:Ep; try reflexivity.
    f_equal. f_equal. f_equal. apply spec_v_ext. apply E. reflexivity.
  Qed.

  (* ---- the table ----------------------------------------------------------------------- *)
  Lemma table_length k : length (table H cs h k) = k.
  Proof. induction k as [|k IH]; cbn [table]; [reflexivity|]. rewrite app_length, IH. cbn. lia. Qed.

  Lemma table_prefix k m : m < k -> nth m (table H cs h k) [] = nth m (table H cs h (S m)) [].
  Proof.
    induction k as [|k IH]; intros L; [lia|].
    destruct (Nat.eq_dec m k) as [->|D]; [reflexivity|].
    cbn [table]. rewrite app_nth1 by (rewrite table_length; lia). apply IH. lia.
  Qed.

  Lemma table_nth m : nth m (table H cs h (S m)) [] = spec_node H cs h (table H cs h m) m.
  Proof. cbn [table]. rewrite app_nth2 by (rewrite table_length; lia). rewrite table_length, Nat.sub_diag. reflexivity. Qed.

  Hypothesis Hord : ordered h.

  Definition T := table H cs h (length h).

  (* the table is a fixpoint: the identifier of node m is computed from the full table *)
  Lemma table_fix m : m < length h -> nth m T [] = spec_node H cs h T m.
  Proof.
    intros L. unfold T. rewrite (table_prefix (length h) m L), table_nth.
    unfold spec_node. destruct (nsig cs h m) as [sg|] eqn:Esg; [|reflexivity].
    unfold nsig, getnode in Esg. destruct (nth_error h m) as [x|] eqn:Ex; cbn [bind] in Esg; [|discriminate].
    destruct (getclass cs (n_cls x)) as [c|]; cbn [bind] in Esg; [|discriminate].
    destruct (Hord m x Ex) as [Of Ot]. injection Esg as Esg'.
    assert (Agree : forall j, j < m -> nth j (table H cs h m) [] = nth j (table H cs h (length h)) []).
    { intros j Lj. rewrite (table_prefix m j Lj), (table_prefix (length h) j) by lia. reflexivity. }
    f_equal. f_equal. f_equal; [|f_equal].
    - destruct (sg_task sg) as [t|] eqn:Et; [|reflexivity]. f_equal. cbn [spec_v]. f_equal. apply Agree.
      rewrite <- Esg' in Et. cbn [sg_task] in Et. destruct (n_task x) as [t'|] eqn:Ett; [|discriminate].
      destruct (Nat.eqb t' m) eqn:Eq; [discriminate|]. inversion Et. subst t'.
      apply Nat.eqb_neq in Eq. specialize (Ot t eq_refl). lia.
    - apply flat_map_ext_in'. intros [kk sel] Hp. apply spec_arg_ext. cbn [snd]. intros v Ev j Hj. subst sel.
      apply Agree. rewrite <- Esg' in Hp. cbn [sg_args] in Hp. apply sigargs_val_in in Hp. eapply Of; eassumption.
  Qed.

  (* ---- every successful computation returns the table value ---------------------------- *)
  Lemma seq_list_spec {A} (f : A -> hres) (g : A -> bytes) (l : list A) :
    (forall x, In x l -> forall b e, f x = Ok (b, e) -> b = g x /\ e = 0) ->
    forall bs e, seq_list f l = Ok (bs, e) -> bs = flat_map g l /\ e = 0.
  Proof.
    induction l as [|x l IH]; intros Hx bs e E; cbn [seq_list] in E.
    - inversion E. split; reflexivity.
    - destruct (f x) as [[b1 e1]|] eqn:R1; cbn [bind] in E; [|discriminate].
      destruct (seq_list f l) as [[b2 e2]|] eqn:R2; cbn [bind] in E; [|discriminate].
      destruct (Hx x (or_introl eq_refl) b1 e1 R1) as [-> ->].
      destruct (IH (fun y Hy => Hx y (or_intror Hy)) b2 e2 eq_refl) as [-> ->].
      inversion E. cbn [fst snd flat_map]. split; reflexivity.
  Qed.

  Lemma pack_q_q8t z p : pack_q z = Ok p -> p = q8t z.
  Proof. unfold pack_q, q8t. destruct (Z.leb (- two63) z && Z.ltb z two63)%bool; intros E; [inversion E; reflexivity|discriminate]. Qed.

  Lemma node_spec (rec : list nat -> value -> hres) st m d e :
    m < length h -> above m st ->
    (forall v b e, below m v -> rec (m :: st) v = Ok (b, e) -> b = spec_v h T v /\ e = 0) ->
    hnode_with H cs h rec st m = Ok (d, e) -> d = nth m T [] /\ e = 0.
  Proof.
    intros Lm Hab Hrec E. rewrite (table_fix m Lm). unfold spec_node. unfold hnode_with in E.
    destruct (nsig cs h m) as [sg|] eqn:Esg; cbn [bind] in E; [|discriminate].
    pose proof Esg as Esg0.
    unfold nsig, getnode in Esg. destruct (nth_error h m) as [x|] eqn:Ex; cbn [bind] in Esg; [|discriminate].
    destruct (getclass cs (n_cls x)) as [c|]; cbn [bind] in Esg; [|discriminate].
    destruct (Hord m x Ex) as [Of Ot]. injection Esg as Esg'.
    match type of E with (bind ?t _) = _ => destruct t as [[bt et]|] eqn:RT end; cbn [bind] in E; [|discriminate].
    match type of E with (bind ?t _) = _ => destruct t as [[ba ea]|] eqn:RA end; cbn [bind] in E; [|discriminate].
    assert (GT : bt = (match sg_task sg with Some t => TASK_ID :: spec_v h T (VRef t) | None => [] end) /\ et = 0).
    { destruct (sg_task sg) as [t|] eqn:Et; [|inversion RT; split; reflexivity].
      destruct (rec (m :: st) (VRef t)) as [[b1 e1]|] eqn:R1; cbn [bind] in RT; [|discriminate].
      assert (Ht : t < m).
      { rewrite <- Esg' in Et. cbn [sg_task] in Et. destruct (n_task x) as [t'|] eqn:Ett; [|discriminate].
        destruct (Nat.eqb t' m) eqn:Eq; [discriminate|]. inversion Et. subst t'.
        apply Nat.eqb_neq in Eq. specialize (Ot t eq_refl). lia. }
      destruct (Hrec (VRef t) b1 e1) as [-> ->]; [intros q [<-|[]]; exact Ht|exact R1|].
      rewrite tmark_none in RT.
      2:{ apply index_of_none. intros [->|Hin]; [lia|]. specialize (Hab t Hin). lia. }
      inversion RT. split; reflexivity. }
    destruct GT as [-> ->].
    destruct (seq_list_spec (hsel (rec (m :: st))) (spec_arg h T) (sg_args sg)) with (bs := ba) (e := ea) as [-> ->]; [|exact RA|].
    { intros [kk sel] Hp b0 e0 R. unfold hsel in R. cbn [snd fst] in R. unfold spec_arg. cbn [snd fst].
      destruct sel as [| |v]; try discriminate.
      destruct (rec (m :: st) v) as [[b1 e1]|] eqn:R1; cbn [bind] in R; [|discriminate].
      assert (Hbv : below m v).
      { rewrite <- Esg' in Hp. cbn [sg_args] in Hp. apply sigargs_val_in in Hp. intros q Hq. eapply Of; eassumption. }
      destruct (Hrec v b1 e1 Hbv R1) as [-> ->]. inversion R. split; reflexivity. }
    inversion E. split; reflexivity.
  Qed.

  Variable look : nat -> option bytes.
  Hypothesis Hlook : forall m d, look m = Some d -> d = nth m T [].

  Lemma hv_spec : forall fuel k st v b e, below k v -> above k st -> k <= length h ->
    hv H cs h look fuel st v = Ok (b, e) -> b = spec_v h T v /\ e = 0.
  Proof.
    induction fuel as [|f IH]; intros k st v b e Hb Ha Lk E; [discriminate|].
    destruct v as [| z | bb | bits | s | s | q | l | l | m]; cbn [hv] in E.
    - inversion E. split; reflexivity.
    - destruct (pack_q z) as [p|] eqn:P; cbn [bind] in E; [|discriminate]. rewrite (pack_q_q8t z p P) in E.
      inversion E. split; reflexivity.
    - destruct (pack_q (zb bb)) as [p|] eqn:P; cbn [bind] in E; [|discriminate]. rewrite (pack_q_q8t _ p P) in E.
      inversion E. split; reflexivity.
    - inversion E. split; reflexivity.
    - inversion E. split; reflexivity.
    - discriminate.
    - inversion E. split; reflexivity.
    - (* list *)
      match type of E with (bind ?t _) = _ => destruct t as [[bs es]|] eqn:R end; cbn [bind] in E; [|discriminate].
      destruct (seq_list_spec (hv H cs h look f st) (spec_v h T) (filter (fun x => negb (is_meta h x)) l))
        with (bs := bs) (e := es) as [-> ->]; [|exact R|].
      { intros x Hx b0 e0 R0. apply (IH k st x b0 e0); try assumption.
        intros q Hq. apply Hb. cbn [refs_of]. apply in_flat_map. exists x. split; [|exact Hq].
        apply filter_In in Hx. tauto. }
      inversion E. rewrite spec_v_list. split; reflexivity.
    - (* dict *)
      match type of E with (bind ?t _) = _ => destruct t as [[bs es]|] eqn:R end; cbn [bind] in E; [|discriminate].
      destruct (seq_list_spec
                  (fun kv : list N * value => do b0 <- hv H cs h look f st (snd kv); Ok (STR_ID :: fst kv ++ fst b0, snd b0))
                  (fun kv : list N * value => STR_ID :: fst kv ++ spec_v h T (snd kv))
                  (sort_by fst (filter (fun kv : list N * value => negb (is_meta h (snd kv))) l))) with (bs := bs) (e := es)
        as [-> ->]; [|exact R|].
      { intros kv Hx b0 e0 R0.
        destruct (hv H cs h look f st (snd kv)) as [[b1 e1]|] eqn:R1; cbn [bind] in R0; [|discriminate].
        destruct (IH k st (snd kv) b1 e1) as [-> ->]; try assumption.
        { intros q Hq. apply Hb. cbn [refs_of]. apply in_flat_map. exists kv. split; [|exact Hq].
          eapply Permutation_in in Hx; [|apply Permutation_sym, sort_perm]. apply filter_In in Hx. tauto. }
        inversion R0. split; reflexivity. }
      inversion E. rewrite spec_v_dict. split; reflexivity.
    - (* reference *)
      assert (Hm : m < k) by (apply Hb; cbn; left; reflexivity).
      assert (N1 : ~ In m st) by (intros Hin; specialize (Ha m Hin); lia).
      rewrite (index_of_none m st N1) in E.
      destruct (look m) as [dg|] eqn:Elk.
      + inversion E. cbn [spec_v]. rewrite (Hlook m dg Elk). split; reflexivity.
      + match type of E with (bind ?t _) = _ => destruct t as [[d0 e0]|] eqn:R end; cbn [bind] in E; [|discriminate].
        destruct (node_spec (hv H cs h look f) st m d0 e0) as [-> ->]; [lia|intros s0 Hs0; specialize (Ha s0 Hs0); lia| |exact R|].
        { intros v b1 e1 Hbv R1. apply (IH m (m :: st) v b1 e1); try assumption; [|lia].
          intros s [<-|Hs]; [lia|specialize (Ha s Hs); lia]. }
        inversion E. cbn [spec_v]. split; reflexivity.
  Qed.

  Theorem hnode_spec fuel n d e :
    hnode H cs h look fuel [] n = Ok (d, e) -> d = spec_id H cs h n /\ e = 0.
  Proof.
    intros E. unfold spec_id. fold T.
    assert (Ln : n < length h).
    { unfold hnode, hnode_with in E. destruct (nsig cs h n) as [sg|] eqn:Esg; cbn [bind] in E; [|discriminate].
      unfold nsig, getnode in Esg. destruct (nth_error h n) eqn:Ex; cbn [bind] in Esg; [|discriminate].
      apply nth_error_Some. congruence. }
    apply (node_spec (hv H cs h look fuel) [] n d e Ln); [intros s0 []| |exact E].
    intros v b1 e1 Hbv R1. apply (hv_spec fuel n [n] v b1 e1); try assumption; [|lia].
    intros s [<-|[]]. lia.
  Qed.
End SpecLemmas.

(* ---- the cache machine is sound on acyclic graphs, for every request history ------------ *)
Lemma cget_cupd_cases s n f m :
  cget (cupd s n f) m = cget s m \/ (m = n /\ cget (cupd s n f) m = f (cget s n)).
Proof.
  revert n m; induction s as [|e s IH]; intros n m; [left; destruct n; reflexivity|].
  destruct n as [|n], m as [|m]; cbn [cupd].
  - right. split; reflexivity.
  - left. reflexivity.
  - left. reflexivity.
  - unfold cget. cbn [nth]. destruct (IH n m) as [E|[-> E]]; [left; exact E|right; split; [reflexivity|exact E]].
Qed.

Section MachineSound.
  Variable H : bytes -> bytes.
  Variable cs : classes.
  Variable h : heap.
  Hypothesis Hord : ordered h.
  Variable fuel : nat.
  Variable fixflag : bool.

  Definition sound_entry (n : nat) (e : centry) : Prop :=
    (forall d fl, k_raw e = Some (d, fl) -> d = spec_id H cs h n /\ fl = false) /\
    (forall d, k_full e = Some d -> d = spec_full H cs h n).
  Definition csound (s : cstate) : Prop := forall n, sound_entry n (cget s n).

  Lemma csound_cupd s n f : csound s -> (forall e, sound_entry n e -> sound_entry n (f e)) -> csound (cupd s n f).
  Proof.
    intros S F m. destruct (cget_cupd_cases s n f m) as [E|[-> E]]; rewrite E; [apply S|apply F, S].
  Qed.

  Lemma look_of_sound s : csound s -> forall m d, look_of s m = Some d -> d = nth m (T H cs h) [].
  Proof.
    intros S m d E. unfold look_of in E. destruct (k_sealed (cget s m)); [|discriminate].
    destruct (k_raw (cget s m)) as [[d' [|]]|] eqn:R; try discriminate. inversion E. subst d'.
    destruct (S m) as [Sr _]. destruct (Sr d false R) as [-> _]. reflexivity.
  Qed.

  Lemma req_raw_sound s n s' d : csound s ->
    req_raw H cs h fuel fixflag s n = Ok (s', d) -> d = spec_id H cs h n /\ csound s'.
  Proof.
    intros S E. unfold req_raw in E.
    destruct (if k_sealed (cget s n) then k_raw (cget s n) else None) as [[d0 fl]|] eqn:C.
    - injection E as Es Ed. rewrite <- Es, <- Ed. split; [|exact S].
      destruct (k_sealed (cget s n)); [|discriminate]. destruct (S n) as [Sr _]. apply (Sr d0 fl C).
    - destruct (hnode H cs h (look_of s) fuel [] n) as [[d0 e0]|] eqn:R; cbn [bind] in E; [|discriminate].
      destruct (hnode_spec H cs h Hord (look_of s) (look_of_sound s S) fuel n d0 e0 R) as [-> ->].
      cbn [fst snd] in E. injection E as Es Ed. rewrite <- Es, <- Ed. split; [reflexivity|].
      destruct (k_sealed (cget s n)); [|exact S].
      apply csound_cupd; [exact S|]. intros e [Sr Sf]. split; cbn [k_raw k_full]; [|exact Sf].
      intros d1 fl Ed1. inversion Ed1. rewrite andb_false_r. split; reflexivity.
  Qed.

  Lemma req_raws_sound : forall l s s' ds, csound s ->
    req_raws H cs h fuel fixflag s l = Ok (s', ds) -> ds = map (spec_id H cs h) l /\ csound s'.
  Proof.
    induction l as [|n l IH]; intros s s' ds S E; cbn [req_raws] in E.
    - injection E as Es Ed. rewrite <- Es, <- Ed. split; [reflexivity|exact S].
    - destruct (req_raw H cs h fuel fixflag s n) as [[s1 d1]|] eqn:R1; cbn [bind] in E; [|discriminate].
      destruct (req_raw_sound s n s1 d1 S R1) as [-> S1]. cbn [fst snd] in E.
      destruct (req_raws H cs h fuel fixflag s1 l) as [[s2 d2]|] eqn:R2; cbn [bind] in E; [|discriminate].
      destruct (IH s1 s2 d2 S1 R2) as [-> S2]. cbn [fst snd] in E. injection E as Es Ed. rewrite <- Es, <- Ed.
      split; [reflexivity|exact S2].
  Qed.

  Lemma req_full_sound s n s' d : csound s ->
    req_full H cs h fuel fixflag s n = Ok (s', d) -> d = spec_full H cs h n /\ csound s'.
  Proof.
    intros S E. unfold req_full, getnode in E. destruct (nth_error h n) as [x|] eqn:Ex; cbn [bind] in E; [|discriminate].
    destruct (req_raw H cs h fuel fixflag s n) as [[s1 d1]|] eqn:R1; cbn [bind] in E; [|discriminate].
    destruct (req_raw_sound s n s1 d1 S R1) as [-> S1]. cbn [fst snd] in E.
    destruct (if k_sealed (cget s1 n) then k_full (cget s1 n) else None) as [d0|] eqn:C.
    - injection E as Es Ed. rewrite <- Es, <- Ed. split; [|exact S1].
      destruct (k_sealed (cget s1 n)); [|discriminate]. destruct (S1 n) as [_ Sf]. apply (Sf d0 C).
    - destruct (req_raws H cs h fuel fixflag s1 (pre_tasks_of h n)) as [[s2 p]|] eqn:R2; cbn [bind] in E; [|discriminate].
      destruct (req_raws_sound _ s1 s2 p S1 R2) as [-> S2]. cbn [fst snd] in E.
      destruct (req_raws H cs h fuel fixflag s2 (n_init x)) as [[s3 i]|] eqn:R3; cbn [bind] in E; [|discriminate].
      destruct (req_raws_sound _ s2 s3 i S2 R3) as [-> S3]. cbn [fst snd] in E.
      assert (Ed : full_of H (spec_id H cs h n) (map (spec_id H cs h) (pre_tasks_of h n)) (map (spec_id H cs h) (n_init x))
                   = spec_full H cs h n) by (unfold spec_full; rewrite Ex; reflexivity).
      rewrite Ed in E. injection E as Es Ed2. rewrite <- Es, <- Ed2. split; [reflexivity|].
      destruct (k_sealed (cget s3 n)); [|exact S3].
      apply csound_cupd; [exact S3|]. intros e [Sr Sf]. split; cbn [k_raw k_full]; [exact Sr|].
      intros d1 Ed'. inversion Ed'. reflexivity.
  Qed.

  Lemma seal_walk_sound : forall f todo s, csound s -> csound (seal_walk h f todo s).
  Proof.
    induction f as [|f IH]; intros todo s S; cbn [seal_walk]; [exact S|].
    destruct todo as [|n todo]; [exact S|]. destruct (k_sealed (cget s n)); [apply IH; exact S|].
    destruct (nth_error h n); [|apply IH; exact S]. apply IH. apply csound_cupd; [exact S|].
    intros e Se. exact Se.
  Qed.

  Definition answer_spec (o : op) (a : answer) : Prop :=
    match a, o with
    | ADigest d, OpRaw n => d = spec_id H cs h n
    | ADigest d, OpFull n => d = spec_full H cs h n
    | ADigest _, OpSeal _ => False
    | _, _ => True
    end.

  Lemma step_sound s o : csound s ->
    answer_spec o (snd (step H cs h fuel fixflag s o)) /\ csound (fst (step H cs h fuel fixflag s o)).
  Proof.
    intros S. destruct o as [n|n|n]; cbn [step].
    - destruct (req_raw H cs h fuel fixflag s n) as [[s' d]|] eqn:R; cbn [fst snd answer_spec]; [|split; [exact I|exact S]].
      destruct (req_raw_sound s n s' d S R) as [-> S']. split; [reflexivity|exact S'].
    - destruct (req_full H cs h fuel fixflag s n) as [[s' d]|] eqn:R; cbn [fst snd answer_spec]; [|split; [exact I|exact S]].
      destruct (req_full_sound s n s' d S R) as [-> S']. split; [reflexivity|exact S'].
    - cbn [fst snd answer_spec]. split; [exact I|apply seal_walk_sound; exact S].
  Qed.

  (* every identifier answered, at any point of any history of requests and seals, is the
     table identifier of the requested node: it does not depend on the history            *)
  Theorem cache_sound : forall ops s, csound s ->
    Forall2 answer_spec ops (run H cs h fuel fixflag s ops).
  Proof.
    induction ops as [|o ops IH]; intros s S; cbn [run]; [constructor|].
    destruct (step_sound s o S) as [A S']. constructor; [exact A|apply IH; exact S'].
  Qed.

  Lemma csound_init flags : csound (map centry0 flags).
  Proof.
    intros n. unfold cget. assert (E : k_raw (nth n (map centry0 flags) (centry0 false)) = None /\
                                       k_full (nth n (map centry0 flags) (centry0 false)) = None).
    { revert n; induction flags as [|b fl IH]; intros [|n]; cbn; auto. }
    destruct E as [E1 E2]. split; [rewrite E1|rewrite E2]; intros; discriminate.
  Qed.
End MachineSound.
