(* Soundness of the repaired identifier cache on CYCLIC graphs (C01):
   fuel monotonicity, "a false loop flag means no hash cycle through the node",
   context independence of such nodes, and the cache machine invariant.        *)
From Coq Require Import ZArith NArith List Bool Lia Permutation.
From XV Require Import core.Value model.Hash model.Cache model.HashReach
  proofs.Sort_lemmas proofs.Hash_lemmas proofs.Cache_lemmas proofs.Spec_lemmas.
Import ListNotations.

(* ---- seq_list ---------------------------------------------------------------------- *)
Lemma seq_list_mono {A} (f g : A -> hres) (l : list A) :
  (forall x r, In x l -> f x = Ok r -> g x = Ok r) ->
  forall r, seq_list f l = Ok r -> seq_list g l = Ok r.
Proof.
  induction l as [|x l IH]; intros M r E; cbn [seq_list] in *; [exact E|].
  destruct (f x) as [a|] eqn:Fa; cbn [bind] in E; [|discriminate].
  rewrite (M x a (or_introl eq_refl) Fa). cbn [bind].
  destruct (seq_list f l) as [b|] eqn:Fb; cbn [bind] in E; [|discriminate].
  rewrite (IH (fun y r0 Hy => M y r0 (or_intror Hy)) b eq_refl). exact E.
Qed.

Lemma seq_list_elem {A} (f : A -> hres) (l : list A) bs e :
  seq_list f l = Ok (bs, e) -> forall x, In x l -> exists bx ex, f x = Ok (bx, ex) /\ ex <= e.
Proof.
  revert bs e; induction l as [|y l IH]; intros bs e E x Hx; [destruct Hx|].
  cbn [seq_list] in E. destruct (f y) as [[b1 e1]|] eqn:F1; cbn [bind] in E; [|discriminate].
  destruct (seq_list f l) as [[b2 e2]|] eqn:F2; cbn [bind] in E; [|discriminate].
  inversion E. subst. cbn [fst snd].
  destruct Hx as [<-|Hx].
  - exists b1, e1. split; [exact F1|lia].
  - destruct (IH b2 e2 eq_refl x Hx) as [bx [ex [Fx Le]]]. exists bx, ex. split; [exact Fx|lia].
Qed.

Lemma kv_mono (f g : value -> hres) :
  (forall v r, f v = Ok r -> g v = Ok r) ->
  forall (kv : list N * value) r,
    (do b <- f (snd kv); Ok (STR_ID :: fst kv ++ fst b, snd b)) = Ok r ->
    (do b <- g (snd kv); Ok (STR_ID :: fst kv ++ fst b, snd b)) = Ok r.
Proof.
  intros M kv r E. destruct (f (snd kv)) as [b0|] eqn:Rb; cbn [bind] in E; [|discriminate].
  rewrite (M _ _ Rb). exact E.
Qed.

Lemma hsel_mono (f g : value -> hres) :
  (forall v r, f v = Ok r -> g v = Ok r) -> forall p r, hsel f p = Ok r -> hsel g p = Ok r.
Proof.
  intros M p r E. unfold hsel in *. destruct (snd p) as [| |v]; try exact E.
  destruct (f v) as [b0|] eqn:Rb; cbn [bind] in E; [|discriminate]. rewrite (M _ _ Rb). exact E.
Qed.

Section Mono.
  Variable H : bytes -> bytes.
  Variable cs : classes.
  Variable h : heap.
  Variable look : nat -> option bytes.

  (* one-step unfoldings (cbn would unfold the inner, partially applied, fixpoint as well) *)
  Lemma hv_list f st l : hv H cs h look (S f) st (VList l) =
    (do r <- seq_list (hv H cs h look f st) (filter (fun x => negb (is_meta h x)) l);
     Ok (LIST_ID :: pack_len (length (filter (fun x => negb (is_meta h x)) l)) ++ fst r, snd r)).
  Proof. reflexivity. Qed.
  Lemma hv_dict f st l : hv H cs h look (S f) st (VDict l) =
    (do r <- seq_list (fun kv : list N * value => do b <- hv H cs h look f st (snd kv); Ok (STR_ID :: fst kv ++ fst b, snd b))
               (sort_by fst (filter (fun kv : list N * value => negb (is_meta h (snd kv))) l));
     Ok (DICT_ID :: fst r, snd r)).
  Proof. reflexivity. Qed.
  Lemma hv_ref f st m : hv H cs h look (S f) st (VRef m) =
    match index_of m st with
    | Some pos => do p <- pack_q (Z.of_nat (S pos)); Ok (OBJECT_ID :: CYCLE_REFERENCE :: p, S pos)
    | None => match look m with
              | Some d => Ok (OBJECT_ID :: d, O)
              | None => do r <- hnode_with H cs h (hv H cs h look f) st m; Ok (OBJECT_ID :: fst r, Nat.pred (snd r))
              end
    end.
  Proof. reflexivity. Qed.

  Lemma hv_mono_S : forall f st v r, hv H cs h look f st v = Ok r -> hv H cs h look (S f) st v = Ok r.
  Proof.
    induction f as [|f IH]; intros st v r E; [discriminate|].
    destruct v as [| z | b | bits | s | s | q | l | l | m]; try exact E.
    - rewrite hv_list in E |- *.
      destruct (seq_list (hv H cs h look f st) (filter (fun x => negb (is_meta h x)) l)) as [r0|] eqn:R; cbn [bind] in E; [|discriminate].
      rewrite (seq_list_mono _ (hv H cs h look (S f) st) _ (fun x r1 _ => IH st x r1) r0 R). exact E.
    - rewrite hv_dict in E |- *.
      match type of E with (bind ?t _) = _ => destruct t as [r0|] eqn:R end; cbn [bind] in E; [|discriminate].
      rewrite (seq_list_mono _ (fun kv : list N * value => do b <- hv H cs h look (S f) st (snd kv); Ok (STR_ID :: fst kv ++ fst b, snd b)) _
                 (fun kv r1 _ => kv_mono _ _ (IH st) kv r1) r0 R). exact E.
    - rewrite hv_ref in E |- *.
      destruct (index_of m st); [exact E|]. destruct (look m); [exact E|].
      match type of E with (bind ?t _) = _ => destruct t as [r0|] eqn:R end; cbn [bind] in E; [|discriminate].
      assert (R' : hnode_with H cs h (hv H cs h look (S f)) st m = Ok r0).
      { unfold hnode_with in *. destruct (nsig cs h m) as [sg|]; cbn [bind] in *; [|discriminate].
        match type of R with (bind ?t _) = _ => destruct t as [rt|] eqn:RT end; cbn [bind] in R; [|discriminate].
        assert (RT' : (match sg_task sg with
                       | Some t => do r1 <- hv H cs h look (S f) (m :: st) (VRef t); Ok (tmark (m :: st) t (fst r1), snd r1)
                       | None => Ok ([], 0) end) = Ok rt).
        { destruct (sg_task sg) as [t|]; [|exact RT].
          destruct (hv H cs h look f (m :: st) (VRef t)) as [r1|] eqn:R1; cbn [bind] in RT; [|discriminate].
          rewrite (IH _ _ r1 R1). exact RT. }
        rewrite RT'. cbn [bind].
        match type of R with (bind ?t _) = _ => destruct t as [ra|] eqn:RA end; cbn [bind] in R; [|discriminate].
        rewrite (seq_list_mono _ (hsel (hv H cs h look (S f) (m :: st))) _ (fun p r1 _ => hsel_mono _ _ (IH (m :: st)) p r1) ra RA).
        exact R. }
      rewrite R'. exact E.
  Qed.

  Lemma hv_mono : forall f f' st v r, f <= f' -> hv H cs h look f st v = Ok r -> hv H cs h look f' st v = Ok r.
  Proof. intros f f' st v r L E. induction L as [|f' L IH]; [exact E|apply hv_mono_S; exact IH]. Qed.

  Lemma hnode_mono : forall f f' st n r, f <= f' -> hnode H cs h look f st n = Ok r -> hnode H cs h look f' st n = Ok r.
  Proof.
    intros f f' st n r L E. unfold hnode, hnode_with in *.
    destruct (nsig cs h n) as [sg|]; cbn [bind] in *; [|discriminate].
    match type of E with (bind ?t _) = _ => destruct t as [rt|] eqn:RT end; cbn [bind] in E; [|discriminate].
    assert (RT' : (match sg_task sg with
                   | Some t => do r1 <- hv H cs h look f' (n :: st) (VRef t); Ok (tmark (n :: st) t (fst r1), snd r1)
                   | None => Ok ([], 0) end) = Ok rt).
    { destruct (sg_task sg) as [t|]; [|exact RT].
      destruct (hv H cs h look f (n :: st) (VRef t)) as [r1|] eqn:R1; cbn [bind] in RT; [|discriminate].
      rewrite (hv_mono f f' _ _ r1 L R1). exact RT. }
    rewrite RT'. cbn [bind].
    match type of E with (bind ?t _) = _ => destruct t as [ra|] eqn:RA end; cbn [bind] in E; [|discriminate].
    rewrite (seq_list_mono _ (hsel (hv H cs h look f' (n :: st))) _
               (fun p r1 _ => hsel_mono _ _ (fun v r2 => hv_mono f f' (n :: st) v r2 L) p r1) ra RA).
    exact E.
  Qed.
End Mono.

(* ---- reachability avoiding a set: cutting a path at its last visit of a node ---------------- *)
Lemma reach_cut cs h A w z y1 :
  reach_avoid cs h A w z -> reach_avoid cs h (y1 :: A) w z \/ reach_avoid cs h (y1 :: A) y1 z.
Proof.
  induction 1 as [x z E|x y z E Hn R IH].
  - left. apply ra_edge. exact E.
  - destruct IH as [IH|IH]; [|right; exact IH].
    destruct (Nat.eq_dec y y1) as [->|D]; [right; exact IH|].
    left. eapply ra_step; [exact E| |exact IH]. intros [Hy|Hy]; [congruence|exact (Hn Hy)].
Qed.

Lemma reach_cut_self cs h A y z : reach_avoid cs h A y z -> reach_avoid cs h (y :: A) y z.
Proof. intros R. destruct (reach_cut cs h A y z y R) as [X|X]; exact X. Qed.

Lemma hrefs_list h l y : In y (hrefs h (VList l)) <-> exists x, In x l /\ is_meta h x = false /\ In y (hrefs h x).
Proof.
  cbn [hrefs]. rewrite in_flat_map. split.
  - intros [x [Hx Hy]]. exists x. destruct (is_meta h x) eqn:M; [destruct Hy|]. auto.
  - intros [x [Hx [M Hy]]]. exists x. rewrite M. auto.
Qed.

Lemma hrefs_dict h l y : In y (hrefs h (VDict l)) <-> exists kv, In kv l /\ is_meta h (snd kv) = false /\ In y (hrefs h (snd kv)).
Proof.
  cbn [hrefs]. rewrite in_flat_map. split.
  - intros [x [Hx Hy]]. exists x. destruct (is_meta h (snd x)) eqn:M; [destruct Hy|]. auto.
  - intros [x [Hx [M Hy]]]. exists x. rewrite M. auto.
Qed.

Lemma index_of_some_in n l p : index_of n l = Some p -> In n l.
Proof.
  revert p; induction l as [|x l IH]; intros p E; cbn [index_of] in E; [discriminate|].
  destruct (Nat.eqb n x) eqn:Q; [apply Nat.eqb_eq in Q; left; symmetry; exact Q|].
  destruct (index_of n l) as [q|]; [|discriminate]. right. apply (IH q). reflexivity.
Qed.

Lemma index_of_cons_other n x l p : n <> x -> index_of n (x :: l) = Some (S p) <-> index_of n l = Some p.
Proof.
  intros D. cbn [index_of]. destruct (Nat.eqb n x) eqn:Q; [apply Nat.eqb_eq in Q; congruence|].
  destruct (index_of n l) as [q|]; cbn; split; intros E; inversion E; reflexivity.
Qed.

(* ---- a loop flag is truthful: every hash path back to a stack entry shows in `esc` ------------- *)
Section Esc.
  Variable H : bytes -> bytes.
  Variable cs : classes.
  Variable h : heap.
  Let pure := hv H cs h (fun _ => None).

  Definition esc_val (fuel : nat) : Prop :=
    forall F v b e, pure fuel F v = Ok (b, e) ->
    forall z p, index_of z F = Some p ->
    forall y, In y (hrefs h v) -> (y = z \/ (~ In y F /\ reach_avoid cs h F y z)) -> S p <= e.

  Lemma esc_node fuel : esc_val fuel ->
    forall S x d e, hnode_with H cs h (pure fuel) S x = Ok (d, e) ->
    forall z p, index_of z (x :: S) = Some p -> reach_avoid cs h (x :: S) x z -> Datatypes.S p <= e.
  Proof.
    intros EV S x d e E z p Ez R. unfold hnode_with in E.
    destruct (nsig cs h x) as [sg|] eqn:Esg; cbn [bind] in E; [|discriminate].
    match type of E with (bind ?t _) = _ => destruct t as [[bt et]|] eqn:RT end; cbn [bind] in E; [|discriminate].
    match type of E with (bind ?t _) = _ => destruct t as [[ba ea]|] eqn:RA end; cbn [bind] in E; [|discriminate].
    inversion E. subst. cbn [fst snd].
    (* the first edge of the path *)
    assert (First : exists y, In y (sig_edges h sg) /\ (y = z \/ (~ In y (x :: S) /\ reach_avoid cs h (x :: S) y z))).
    { inversion R as [? ? Ed|? y ? Ed Hn R']; subst; unfold node_edges in Ed; rewrite Esg in Ed.
      - exists z. split; [exact Ed|left; reflexivity].
      - exists y. split; [exact Ed|right; split; assumption]. }
    destruct First as [y [Hy Cy]]. unfold sig_edges in Hy. apply in_app_or in Hy. destruct Hy as [Hy|Hy].
    - (* through the producing task *)
      destruct (sg_task sg) as [t|]; [|destruct Hy]. destruct Hy as [<-|[]].
      destruct (pure fuel (x :: S) (VRef t)) as [[b1 e1]|] eqn:R1; cbn [bind] in RT; [|discriminate].
      pose proof (EV (x :: S) (VRef t) b1 e1 R1 z p Ez t (or_introl eq_refl) Cy) as K.
      inversion RT. subst. cbn [snd]. lia.
    - apply in_flat_map in Hy. destruct Hy as [[k sel] [Hp Hy]]. cbn [snd] in Hy. destruct sel as [| |v]; try destruct Hy.
      destruct (seq_list_elem _ _ _ _ RA (k, AVal v) Hp) as [bx [ex [Fx Le]]].
      unfold hsel in Fx. cbn [snd fst] in Fx.
      destruct (pure fuel (x :: S) v) as [[b1 e1]|] eqn:R1; cbn [bind] in Fx; [|discriminate].
      pose proof (EV (x :: S) v b1 e1 R1 z p Ez y Hy Cy) as K.
      inversion Fx. subst. cbn [snd] in Le. lia.
  Qed.

  Lemma esc_all : forall fuel, esc_val fuel.
  Proof.
    induction fuel as [|f IH]; intros F v b e E z p Ez y Hy Cy; [discriminate|].
    destruct v as [| zz | bb | bits | s | s | q | l | l | m]; try (destruct Hy; fail).
    - (* list *)
      unfold pure in E. rewrite hv_list in E.
      match type of E with (bind ?t _) = _ => destruct t as [[bs es]|] eqn:R end; cbn [bind] in E; [|discriminate].
      inversion E. subst. cbn [snd].
      apply hrefs_list in Hy. destruct Hy as [x [Hx [M Hy]]].
      assert (Hf : In x (filter (fun x0 => negb (is_meta h x0)) l)) by (apply filter_In; split; [exact Hx|rewrite M; reflexivity]).
      destruct (seq_list_elem _ _ _ _ R x Hf) as [bx [ex [Fx Le]]].
      pose proof (IH F x bx ex Fx z p Ez y Hy Cy). lia.
    - (* dict *)
      unfold pure in E. rewrite hv_dict in E.
      match type of E with (bind ?t _) = _ => destruct t as [[bs es]|] eqn:R end; cbn [bind] in E; [|discriminate].
      inversion E. subst. cbn [snd].
      apply hrefs_dict in Hy. destruct Hy as [kv [Hx [M Hy]]].
      assert (Hf : In kv (sort_by fst (filter (fun kv0 : list N * value => negb (is_meta h (snd kv0))) l))).
      { eapply Permutation_in; [apply sort_perm|]. apply filter_In. split; [exact Hx|cbv beta; unfold bytes in *; rewrite M; reflexivity]. }
      destruct (seq_list_elem _ _ _ _ R kv Hf) as [bx [ex [Fx Le]]]. cbv beta in Fx.
      match type of Fx with (bind ?t _) = _ => destruct t as [[b1 e1]|] eqn:R1 end; cbn [bind] in Fx; [|discriminate].
      pose proof (IH F (snd kv) b1 e1 R1 z p Ez y Hy Cy) as K.
      inversion Fx. subst. cbn [snd] in Le. lia.
    - (* reference *)
      cbn [hrefs] in Hy. destruct Hy as [<-|[]].
      unfold pure in E. rewrite hv_ref in E.
      destruct Cy as [->|[Hn R]].
      + rewrite Ez in E. destruct (pack_q (Z.of_nat (S p))); cbn [bind] in E; [|discriminate]. inversion E. lia.
      + rewrite (index_of_none m F Hn) in E.
        match type of E with (bind ?t _) = _ => destruct t as [[d1 e1]|] eqn:R1 end; cbn [bind] in E; [|discriminate].
        assert (Ez' : index_of z (m :: F) = Some (S p)).
        { apply index_of_cons_other; [|exact Ez]. intros ->. apply Hn. eapply index_of_some_in. exact Ez. }
        pose proof (esc_node f IH F m d1 e1 R1 z (S p) Ez' (reach_cut_self cs h F m z R)) as K.
        inversion E. subst. cbn [snd]. lia.
  Qed.

  (* a top-level identifier computed without loop flag: no hash cycle goes through the node *)
  Theorem flag_false_no_cycle fuel n d :
    hnode H cs h (fun _ => None) fuel [] n = Ok (d, 0) -> ~ reach_avoid cs h [n] n n.
  Proof.
    intros E R. unfold hnode in E.
    assert (Ez : index_of n [n] = Some 0) by (cbn; rewrite Nat.eqb_refl; reflexivity).
    pose proof (esc_node fuel (esc_all fuel) [] n d 0 E n 0 Ez R). lia.
  Qed.
End Esc.

(* ---- a node that is on no hash cycle is identified the same in every context -------------------- *)
Lemma reach_trans cs h x y z : reach_avoid cs h [] x y -> reach_avoid cs h [] y z -> reach_avoid cs h [] x z.
Proof.
  induction 1 as [x y E|x w y E Hn R IH]; intros R2.
  - eapply ra_step; [exact E|intros []|exact R2].
  - eapply ra_step; [exact E|intros []|apply IH; exact R2].
Qed.

Lemma chain_reach cs h m : forall st, chain cs h (m :: st) -> forall s, In s st -> reach_avoid cs h [] s m.
Proof.
  intros st. revert m. induction st as [|y st IH]; intros m C s Hs; [destruct Hs|].
  cbn [chain] in C. destruct C as [E C]. destruct Hs as [<-|Hs].
  - apply ra_edge. exact E.
  - eapply reach_trans; [apply (IH y C s Hs)|apply ra_edge; exact E].
Qed.

Lemma index_of_app_l n l1 l2 : In n l1 -> index_of n (l1 ++ l2) = index_of n l1.
Proof.
  induction l1 as [|x l1 IH]; intros Hin; [destruct Hin|]. cbn [app index_of].
  destruct (Nat.eqb n x) eqn:Q; [reflexivity|]. rewrite IH; [reflexivity|].
  destruct Hin as [->|Hin]; [rewrite Nat.eqb_refl in Q; discriminate|exact Hin].
Qed.

Lemma index_of_in_some n l : In n l -> exists p, index_of n l = Some p.
Proof.
  induction l as [|x l IH]; intros Hin; [destruct Hin|]. cbn [index_of].
  destruct (Nat.eqb n x) eqn:Q; [exists 0; reflexivity|].
  destruct Hin as [->|Hin]; [rewrite Nat.eqb_refl in Q; discriminate|].
  destruct (IH Hin) as [p E]. rewrite E. exists (S p). reflexivity.
Qed.

Lemma index_of_app_notin n l1 l2 : ~ In n l2 -> index_of n (l1 ++ l2) = index_of n l1.
Proof.
  intros Hn. destruct (in_dec Nat.eq_dec n l1) as [Hin|Hn1]; [apply index_of_app_l; exact Hin|].
  rewrite (index_of_none n l1 Hn1). apply index_of_none. intros Hin. apply in_app_or in Hin. tauto.
Qed.

(* rewriting the task mark under the binder of a bind *)
Lemma bind_tmark_ext (x : hres) st st' t :
  index_of t st = index_of t st' ->
  (do r <- x; Ok (tmark st t (fst r), snd r)) = (do r <- x; Ok (tmark st' t (fst r), snd r)).
Proof. intros E. destruct x as [r|]; cbn [bind]; [|reflexivity]. rewrite (tmark_same_index st st' t _ E). reflexivity. Qed.

Lemma in_hrefs_list h l x y : In x l -> is_meta h x = false -> In y (hrefs h x) -> In y (hrefs h (VList l)).
Proof. intros. apply hrefs_list. exists x. auto. Qed.

Section Lockstep.
  Variable H : bytes -> bytes.
  Variable cs : classes.
  Variable h : heap.
  Let pure := hv H cs h (fun _ => None).
  Variable m : nat.
  Variable st : list nat.
  (* nothing on the outer stack is read (transitively) by m *)
  Hypothesis NR : forall s, In s st -> ~ reach_avoid cs h [] m s.

  Lemma lockstep : forall fuel L v, (forall y, In y (hrefs h v) -> reach_avoid cs h [] m y) ->
    pure fuel ((L ++ [m]) ++ st) v = pure fuel (L ++ [m]) v.
  Proof.
    induction fuel as [|f IH]; intros L v Hr; [reflexivity|].
    destruct v as [| zz | bb | bits | s | s | q | l | l | y]; try reflexivity; unfold pure in *.
    - rewrite !hv_list.
      rewrite (seq_list_ext (hv H cs h (fun _ => None) f ((L ++ [m]) ++ st)) (hv H cs h (fun _ => None) f (L ++ [m]))); [reflexivity|].
      intros x Hx. apply IH. intros y Hy. apply Hr. apply filter_In in Hx. destruct Hx as [Hx M].
      apply (in_hrefs_list h l x y Hx); [destruct (is_meta h x); [discriminate|reflexivity]|exact Hy].
    - rewrite !hv_dict.
      rewrite (seq_list_ext
                 (fun kv : list N * value => do b <- hv H cs h (fun _ => None) f ((L ++ [m]) ++ st) (snd kv); Ok (STR_ID :: fst kv ++ fst b, snd b))
                 (fun kv : list N * value => do b <- hv H cs h (fun _ => None) f (L ++ [m]) (snd kv); Ok (STR_ID :: fst kv ++ fst b, snd b)));
        [reflexivity|].
      intros kv Hkv. rewrite IH; [reflexivity|]. intros y Hy. apply Hr.
      eapply Permutation_in in Hkv; [|apply Permutation_sym, sort_perm]. apply filter_In in Hkv. destruct Hkv as [Hkv M].
      apply hrefs_dict. exists kv. split; [exact Hkv|split; [|exact Hy]]. cbv beta in M. unfold bytes in *.
      destruct (is_meta h (snd kv)); [discriminate|reflexivity].
    - rewrite !hv_ref.
      assert (Ry : reach_avoid cs h [] m y) by (apply Hr; left; reflexivity).
      destruct (in_dec Nat.eq_dec y (L ++ [m])) as [Hin|Hn].
      + rewrite (index_of_app_l y (L ++ [m]) st Hin). destruct (index_of_in_some y _ Hin) as [p Ep]. rewrite Ep. reflexivity.
      + assert (Hn2 : ~ In y ((L ++ [m]) ++ st)).
        { intros Hin. apply in_app_or in Hin. destruct Hin as [Hin|Hin]; [exact (Hn Hin)|exact (NR y Hin Ry)]. }
        rewrite (index_of_none y _ Hn), (index_of_none y _ Hn2).
        unfold hnode_with. destruct (nsig cs h y) as [sg|] eqn:Esg; cbn [bind]; [|reflexivity].
        assert (Edge : forall t, In t (sig_edges h sg) -> reach_avoid cs h [] m t).
        { intros t Ht. eapply reach_trans; [exact Ry|]. apply ra_edge. unfold node_edges. rewrite Esg. exact Ht. }
        change (y :: (L ++ [m]) ++ st) with (((y :: L) ++ [m]) ++ st).
        change (y :: L ++ [m]) with ((y :: L) ++ [m]).
        assert (ET : (match sg_task sg with
                      | Some t => do r <- hv H cs h (fun _ => None) f (((y :: L) ++ [m]) ++ st) (VRef t); Ok (tmark (((y :: L) ++ [m]) ++ st) t (fst r), snd r)
                      | None => Ok ([], 0) end)
                   = (match sg_task sg with
                      | Some t => do r <- hv H cs h (fun _ => None) f ((y :: L) ++ [m]) (VRef t); Ok (tmark ((y :: L) ++ [m]) t (fst r), snd r)
                      | None => Ok ([], 0) end)).
        { destruct (sg_task sg) as [t|] eqn:Et; [|reflexivity].
          assert (Rt : reach_avoid cs h [] m t) by (apply Edge; unfold sig_edges; rewrite Et; left; reflexivity).
          rewrite (IH (y :: L) (VRef t)); [|intros t' [<-|[]]; exact Rt].
          apply bind_tmark_ext. apply index_of_app_notin. intros Hin. exact (NR t Hin Rt). }
        rewrite ET.
        rewrite (seq_list_ext (hsel (hv H cs h (fun _ => None) f (((y :: L) ++ [m]) ++ st))) (hsel (hv H cs h (fun _ => None) f ((y :: L) ++ [m])))); [reflexivity|].
        intros [k sel] Hp. unfold hsel. cbn [snd fst]. destruct sel as [| |v]; try reflexivity.
        rewrite (IH (y :: L) v); [reflexivity|].
        intros t Ht. apply Edge. unfold sig_edges. apply in_or_app. right. apply in_flat_map. exists (k, AVal v). split; [exact Hp|exact Ht].
  Qed.

  Theorem hnode_lockstep fuel : hnode H cs h (fun _ => None) fuel st m = hnode H cs h (fun _ => None) fuel [] m.
  Proof.
    unfold hnode, hnode_with. destruct (nsig cs h m) as [sg|] eqn:Esg; cbn [bind]; [|reflexivity].
    assert (Edge : forall t, In t (sig_edges h sg) -> reach_avoid cs h [] m t).
    { intros t Ht. apply ra_edge. unfold node_edges. rewrite Esg. exact Ht. }
    assert (ET : (match sg_task sg with
                  | Some t => do r <- hv H cs h (fun _ => None) fuel (m :: st) (VRef t); Ok (tmark (m :: st) t (fst r), snd r)
                  | None => Ok ([], 0) end)
               = (match sg_task sg with
                  | Some t => do r <- hv H cs h (fun _ => None) fuel [m] (VRef t); Ok (tmark [m] t (fst r), snd r)
                  | None => Ok ([], 0) end)).
    { destruct (sg_task sg) as [t|] eqn:Et; [|reflexivity].
      assert (Rt : reach_avoid cs h [] m t) by (apply Edge; unfold sig_edges; rewrite Et; left; reflexivity).
      pose proof (lockstep fuel [] (VRef t)) as K. cbn [app] in K. unfold pure in K. rewrite K; [|intros t' [<-|[]]; exact Rt].
      apply bind_tmark_ext. change (m :: st) with ([m] ++ st). apply index_of_app_notin. intros Hin. exact (NR t Hin Rt). }
    rewrite ET.
    rewrite (seq_list_ext (hsel (hv H cs h (fun _ => None) fuel (m :: st))) (hsel (hv H cs h (fun _ => None) fuel [m]))); [reflexivity|].
    intros [k sel] Hp. unfold hsel. cbn [snd fst]. destruct sel as [| |v]; try reflexivity.
    pose proof (lockstep fuel [] v) as K. cbn [app] in K. unfold pure in K. rewrite K; [reflexivity|].
    intros t Ht. apply Edge. unfold sig_edges. apply in_or_app. right. apply in_flat_map. exists (k, AVal v). split; [exact Hp|exact Ht].
  Qed.
End Lockstep.

(* a cached identifier without loop flag is the identifier in every context the hash can be in *)
Theorem flag_false_context_independent H cs h fuel0 n d st :
  hnode H cs h (fun _ => None) fuel0 [] n = Ok (d, 0) -> chain cs h (n :: st) ->
  forall fuel, hnode H cs h (fun _ => None) fuel st n = hnode H cs h (fun _ => None) fuel [] n.
Proof.
  intros E C fuel. apply hnode_lockstep.
  intros s Hs R. apply (flag_false_no_cycle H cs h fuel0 n d E).
  apply reach_cut_self. eapply reach_trans; [exact R|apply (chain_reach cs h n st C s Hs)].
Qed.

(* ---- a computation that uses sound cache entries is a pure computation --------------------------- *)
Lemma seq_list_fuel {A} (f : A -> hres) (g : nat -> A -> hres) (l : list A) :
  (forall n n' x r, n <= n' -> g n x = Ok r -> g n' x = Ok r) ->
  (forall x r, In x l -> f x = Ok r -> exists n, g n x = Ok r) ->
  forall r, seq_list f l = Ok r -> exists n, seq_list (g n) l = Ok r.
Proof.
  intros Mono. induction l as [|x l IH]; intros Ex r E; cbn [seq_list] in *; [exists 0; exact E|].
  destruct (f x) as [a|] eqn:Fa; cbn [bind] in E; [|discriminate].
  destruct (seq_list f l) as [b|] eqn:Fb; cbn [bind] in E; [|discriminate].
  destruct (Ex x a (or_introl eq_refl) Fa) as [n1 G1].
  destruct (IH (fun y r0 Hy => Ex y r0 (or_intror Hy)) b eq_refl) as [n2 G2].
  exists (Nat.max n1 n2).
  rewrite (Mono n1 (Nat.max n1 n2) x a (Nat.le_max_l _ _) G1). cbn [bind].
  rewrite (seq_list_mono (g n2) (g (Nat.max n1 n2)) l (fun y r0 _ => Mono n2 _ y r0 (Nat.le_max_r _ _)) b G2). exact E.
Qed.

Section CacheIsPure.
  Variable H : bytes -> bytes.
  Variable cs : classes.
  Variable h : heap.
  Variable look : nat -> option bytes.
  Let pure := hv H cs h (fun _ => None).
  (* every entry the cache test lets through is a top-level identifier computed without loop flag *)
  Hypothesis Hlook : forall m d, look m = Some d -> exists f0, hnode H cs h (fun _ => None) f0 [] m = Ok (d, 0).

  Definition cache_val (fuel : nat) : Prop :=
    forall top st v r, chain cs h (top :: st) -> (forall y, In y (hrefs h v) -> In y (node_edges cs h top)) ->
      hv H cs h look fuel (top :: st) v = Ok r -> exists f', pure f' (top :: st) v = Ok r.

  Lemma cache_node fuel : cache_val fuel ->
    forall st n r, chain cs h (n :: st) -> hnode_with H cs h (hv H cs h look fuel) st n = Ok r ->
      exists f', hnode_with H cs h (pure f') st n = Ok r.
  Proof.
    intros CV st n r C E. unfold hnode_with in *.
    destruct (nsig cs h n) as [sg|] eqn:Esg; cbn [bind] in *; [|discriminate].
    assert (Edge : forall t, In t (sig_edges h sg) -> In t (node_edges cs h n)) by (intros t Ht; unfold node_edges; rewrite Esg; exact Ht).
    match type of E with (bind ?t _) = _ => destruct t as [rt|] eqn:RT end; cbn [bind] in E; [|discriminate].
    match type of E with (bind ?t _) = _ => destruct t as [ra|] eqn:RA end; cbn [bind] in E; [|discriminate].
    (* the task *)
    assert (GT : exists f1, (match sg_task sg with
                             | Some t => do r1 <- pure f1 (n :: st) (VRef t); Ok (tmark (n :: st) t (fst r1), snd r1)
                             | None => Ok ([], 0) end) = Ok rt).
    { destruct (sg_task sg) as [t|] eqn:Et; [|exists 0; exact RT].
      destruct (hv H cs h look fuel (n :: st) (VRef t)) as [r1|] eqn:R1; cbn [bind] in RT; [|discriminate].
      destruct (CV n st (VRef t) r1 C) as [f1 G1]; [|exact R1|].
      { intros y [<-|[]]. apply Edge. unfold sig_edges. rewrite Et. left. reflexivity. }
      exists f1. rewrite G1. exact RT. }
    destruct GT as [f1 GT].
    (* the arguments *)
    destruct (seq_list_fuel (hsel (hv H cs h look fuel (n :: st))) (fun k => hsel (pure k (n :: st))) (sg_args sg)) with (r := ra) as [f2 GA].
    { intros k k' p r0 L. apply hsel_mono. intros v r1. apply hv_mono. exact L. }
    { intros [kk sel] r0 Hp Es. unfold hsel in *. cbn [snd fst] in *. destruct sel as [| |v]; try discriminate.
      destruct (hv H cs h look fuel (n :: st) v) as [r1|] eqn:R1; cbn [bind] in Es; [|discriminate].
      destruct (CV n st v r1 C) as [f3 G3]; [|exact R1|].
      { intros y Hy. apply Edge. unfold sig_edges. apply in_or_app. right. apply in_flat_map. exists (kk, AVal v). split; [exact Hp|exact Hy]. }
      exists f3. rewrite G3. exact Es. }
    { exact RA. }
    exists (Nat.max f1 f2).
    assert (GT' : (match sg_task sg with
                   | Some t => do r1 <- pure (Nat.max f1 f2) (n :: st) (VRef t); Ok (tmark (n :: st) t (fst r1), snd r1)
                   | None => Ok ([], 0) end) = Ok rt).
    { destruct (sg_task sg) as [t|]; [|exact GT].
      destruct (pure f1 (n :: st) (VRef t)) as [r1|] eqn:R1; cbn [bind] in GT; [|discriminate].
      unfold pure in *. rewrite (hv_mono H cs h _ f1 (Nat.max f1 f2) _ _ r1 (Nat.le_max_l _ _) R1). exact GT. }
    rewrite GT'. cbn [bind].
    rewrite (seq_list_mono (hsel (pure f2 (n :: st))) (hsel (pure (Nat.max f1 f2) (n :: st))) (sg_args sg)
               (fun p r0 _ => hsel_mono _ _ (fun v r1 => hv_mono H cs h _ f2 (Nat.max f1 f2) (n :: st) v r1 (Nat.le_max_r _ _)) p r0) ra GA).
    exact E.
  Qed.

  Lemma cache_all : forall fuel, cache_val fuel.
  Proof.
    induction fuel as [|f IH]; intros top st v r C Hr E; [discriminate|].
    destruct v as [| zz | bb | bits | s | s | q | l | l | y]; try (exists 1; exact E).
    - (* list *)
      rewrite hv_list in E.
      match type of E with (bind ?t _) = _ => destruct t as [r0|] eqn:R end; cbn [bind] in E; [|discriminate].
      destruct (seq_list_fuel (hv H cs h look f (top :: st)) (fun k => pure k (top :: st)) (filter (fun x => negb (is_meta h x)) l)) with (r := r0) as [f1 G1]; [| |exact R|].
      { intros k k' x r1 L. apply hv_mono. exact L. }
      { intros x r1 Hx Ex. apply (IH top st x r1 C); [|exact Ex]. intros y Hy. apply Hr.
        apply filter_In in Hx. destruct Hx as [Hx M]. apply (in_hrefs_list h l x y Hx); [destruct (is_meta h x); [discriminate|reflexivity]|exact Hy]. }
      exists (S f1). unfold pure. rewrite hv_list. fold (pure f1). rewrite G1. exact E.
    - (* dict *)
      rewrite hv_dict in E.
      match type of E with (bind ?t _) = _ => destruct t as [r0|] eqn:R end; cbn [bind] in E; [|discriminate].
      destruct (seq_list_fuel
                  (fun kv : list N * value => do b <- hv H cs h look f (top :: st) (snd kv); Ok (STR_ID :: fst kv ++ fst b, snd b))
                  (fun k (kv : list N * value) => do b <- pure k (top :: st) (snd kv); Ok (STR_ID :: fst kv ++ fst b, snd b))
                  (sort_by fst (filter (fun kv : list N * value => negb (is_meta h (snd kv))) l)))
        with (r := r0) as [f1 G1]; [| |exact R|].
      { intros k k' kv r1 L. apply kv_mono. intros v r2. apply hv_mono. exact L. }
      { intros kv r1 Hkv Ex. cbv beta in Ex.
        match type of Ex with (bind ?t _) = _ => destruct t as [b1|] eqn:R1 end; cbn [bind] in Ex; [|discriminate].
        destruct (IH top st (snd kv) b1 C) as [f3 G3]; [|exact R1|].
        { intros y Hy. apply Hr. eapply Permutation_in in Hkv; [|apply Permutation_sym, sort_perm].
          apply filter_In in Hkv. destruct Hkv as [Hkv M]. apply hrefs_dict. exists kv. split; [exact Hkv|split; [|exact Hy]].
          cbv beta in M. unfold bytes in *. destruct (is_meta h (snd kv)); [discriminate|reflexivity]. }
        exists f3. cbv beta. rewrite G3. exact Ex. }
      exists (S f1). unfold pure. rewrite hv_dict. fold (pure f1). cbv beta in G1. rewrite G1. exact E.
    - (* reference *)
      rewrite hv_ref in E.
      assert (Hy : In y (node_edges cs h top)) by (apply Hr; left; reflexivity).
      destruct (index_of y (top :: st)) as [p|] eqn:Ei.
      + exists 1. unfold pure. rewrite hv_ref, Ei. exact E.
      + destruct (look y) as [d|] eqn:El.
        * destruct (Hlook y d El) as [f0 G0].
          assert (C' : chain cs h (y :: top :: st)) by (cbn [chain]; split; [exact Hy|exact C]).
          exists (S f0). unfold pure. rewrite hv_ref, Ei.
          fold (hnode H cs h (fun _ => None) f0 (top :: st) y).
          rewrite (flag_false_context_independent H cs h f0 y d (top :: st) G0 C' f0), G0. exact E.
        * match type of E with (bind ?t _) = _ => destruct t as [r0|] eqn:R end; cbn [bind] in E; [|discriminate].
          assert (C' : chain cs h (y :: top :: st)) by (cbn [chain]; split; [exact Hy|exact C]).
          destruct (cache_node f IH (top :: st) y r0 C' R) as [f1 G1].
          exists (S f1). unfold pure. rewrite hv_ref, Ei. fold (pure f1). rewrite G1. exact E.
  Qed.

  (* the identifier computed for a node at top level with the cache is the one computed without it *)
  Theorem cached_hnode_is_pure fuel n r :
    hnode H cs h look fuel [] n = Ok r -> exists f', hnode H cs h (fun _ => None) f' [] n = Ok r.
  Proof. intros E. apply (cache_node fuel (cache_all fuel) [] n r I E). Qed.
End CacheIsPure.

(* ---- the repaired cache machine on arbitrary (cyclic) graphs ---------------------------------------- *)
Section MachineCyclic.
  Variable H : bytes -> bytes.
  Variable cs : classes.
  Variable h : heap.
  Variable fuel : nat.

  (* "d is the identifier of n computed afresh (no cache), e its loop information" *)
  Definition pure_id (n : nat) (d : bytes) (e : nat) : Prop :=
    exists f, hnode H cs h (fun _ => None) f [] n = Ok (d, e).

  Lemma pure_id_fun n d e d' e' : pure_id n d e -> pure_id n d' e' -> d = d' /\ e = e'.
  Proof.
    intros [f E] [f' E'].
    pose proof (hnode_mono H cs h _ f (Nat.max f f') [] n _ (Nat.le_max_l _ _) E) as G.
    pose proof (hnode_mono H cs h _ f' (Nat.max f f') [] n _ (Nat.le_max_r _ _) E') as G'.
    rewrite G in G'. inversion G'. split; reflexivity.
  Qed.

  Definition pure_ids (l : list nat) (ds : list bytes) : Prop := Forall2 (fun m d => exists e, pure_id m d e) l ds.

  Definition pure_full (n : nat) (d : bytes) : Prop :=
    exists x raw e pre ini, nth_error h n = Some x /\ pure_id n raw e /\
      pure_ids (pre_tasks_of h n) pre /\ pure_ids (n_init x) ini /\ d = full_of H raw pre ini.

  Lemma pure_ids_fun l ds ds' : pure_ids l ds -> pure_ids l ds' -> ds = ds'.
  Proof.
    intros F. revert ds'. induction F as [|m d l ds [e P] F IH]; intros ds' F'; inversion F' as [|? d' ? ds'' [e' P'] F'']; subst; [reflexivity|].
    destruct (pure_id_fun m d e d' e' P P') as [-> _]. f_equal. apply IH. exact F''.
  Qed.

  Lemma pure_full_fun n d d' : pure_full n d -> pure_full n d' -> d = d'.
  Proof.
    intros [x [raw [e [pre [ini [Ex [Pr [Pp [Pi ->]]]]]]]]] [x' [raw' [e' [pre' [ini' [Ex' [Pr' [Pp' [Pi' ->]]]]]]]]].
    rewrite Ex in Ex'. inversion Ex'. subst x'.
    destruct (pure_id_fun n raw e raw' e' Pr Pr') as [-> _].
    rewrite (pure_ids_fun _ pre pre' Pp Pp'), (pure_ids_fun _ ini ini' Pi Pi'). reflexivity.
  Qed.

  Definition sound_entry_c (n : nat) (e : centry) : Prop :=
    (forall d fl, k_raw e = Some (d, fl) -> exists es, pure_id n d es /\ fl = Nat.leb 1 es) /\
    (forall d, k_full e = Some d -> pure_full n d).
  Definition csound_c (s : cstate) : Prop := forall n, sound_entry_c n (cget s n).

  Lemma csound_c_cupd s n f : csound_c s -> (forall e, sound_entry_c n e -> sound_entry_c n (f e)) -> csound_c (cupd s n f).
  Proof.
    intros S F m. destruct (cget_cupd_cases s n f m) as [E|[-> E]]; rewrite E; [apply S|apply F, S].
  Qed.

  Lemma look_of_sound_c s : csound_c s ->
    forall m d, look_of s m = Some d -> exists f0, hnode H cs h (fun _ => None) f0 [] m = Ok (d, 0).
  Proof.
    intros S m d E. unfold look_of in E. destruct (k_sealed (cget s m)); [|discriminate].
    destruct (k_raw (cget s m)) as [[d' [|]]|] eqn:R; try discriminate. inversion E. subst d'.
    destruct (S m) as [Sr _]. destruct (Sr d false R) as [es [[f0 P] Fl]].
    destruct es as [|es]; [exists f0; exact P|cbn in Fl; discriminate].
  Qed.

  Lemma req_raw_sound_c s n s' d : csound_c s ->
    req_raw H cs h fuel true s n = Ok (s', d) -> (exists e, pure_id n d e) /\ csound_c s'.
  Proof.
    intros S E. unfold req_raw in E.
    destruct (if k_sealed (cget s n) then k_raw (cget s n) else None) as [[d0 fl]|] eqn:C.
    - injection E as Es Ed. rewrite <- Es, <- Ed. split; [|exact S].
      destruct (k_sealed (cget s n)); [|discriminate]. destruct (S n) as [Sr _].
      destruct (Sr d0 fl C) as [es [P _]]. exists es. exact P.
    - destruct (hnode H cs h (look_of s) fuel [] n) as [[d0 e0]|] eqn:R; cbn [bind] in E; [|discriminate].
      destruct (cached_hnode_is_pure H cs h (look_of s) (look_of_sound_c s S) fuel n (d0, e0) R) as [f' P].
      cbn [fst snd] in E. injection E as Es Ed. rewrite <- Es, <- Ed. split; [exists e0, f'; exact P|].
      destruct (k_sealed (cget s n)); [|exact S].
      apply csound_c_cupd; [exact S|]. intros e [Sr Sf]. split; cbn [k_raw k_full]; [|exact Sf].
      intros d1 fl Ed1. inversion Ed1. subst. exists e0. split; [exists f'; exact P|reflexivity].
  Qed.

  Lemma req_raws_sound_c : forall l s s' ds, csound_c s ->
    req_raws H cs h fuel true s l = Ok (s', ds) -> pure_ids l ds /\ csound_c s'.
  Proof.
    induction l as [|n l IH]; intros s s' ds S E; cbn [req_raws] in E.
    - injection E as Es Ed. rewrite <- Es, <- Ed. split; [constructor|exact S].
    - destruct (req_raw H cs h fuel true s n) as [[s1 d1]|] eqn:R1; cbn [bind] in E; [|discriminate].
      destruct (req_raw_sound_c s n s1 d1 S R1) as [P1 S1]. cbn [fst snd] in E.
      destruct (req_raws H cs h fuel true s1 l) as [[s2 d2]|] eqn:R2; cbn [bind] in E; [|discriminate].
      destruct (IH s1 s2 d2 S1 R2) as [P2 S2]. cbn [fst snd] in E. injection E as Es Ed. rewrite <- Es, <- Ed.
      split; [constructor; assumption|exact S2].
  Qed.

  Lemma req_full_sound_c s n s' d : csound_c s ->
    req_full H cs h fuel true s n = Ok (s', d) -> pure_full n d /\ csound_c s'.
  Proof.
    intros S E. unfold req_full, getnode in E. destruct (nth_error h n) as [x|] eqn:Ex; cbn [bind] in E; [|discriminate].
    destruct (req_raw H cs h fuel true s n) as [[s1 d1]|] eqn:R1; cbn [bind] in E; [|discriminate].
    destruct (req_raw_sound_c s n s1 d1 S R1) as [[e1 P1] S1]. cbn [fst snd] in E.
    destruct (if k_sealed (cget s1 n) then k_full (cget s1 n) else None) as [d0|] eqn:C.
    - injection E as Es Ed. rewrite <- Es, <- Ed. split; [|exact S1].
      destruct (k_sealed (cget s1 n)); [|discriminate]. destruct (S1 n) as [_ Sf]. apply (Sf d0 C).
    - destruct (req_raws H cs h fuel true s1 (pre_tasks_of h n)) as [[s2 p]|] eqn:R2; cbn [bind] in E; [|discriminate].
      destruct (req_raws_sound_c _ s1 s2 p S1 R2) as [Pp S2]. cbn [fst snd] in E.
      destruct (req_raws H cs h fuel true s2 (n_init x)) as [[s3 i]|] eqn:R3; cbn [bind] in E; [|discriminate].
      destruct (req_raws_sound_c _ s2 s3 i S2 R3) as [Pi S3]. cbn [fst snd] in E.
      assert (PF : pure_full n (full_of H d1 p i)) by (exists x, d1, e1, p, i; auto).
      injection E as Es Ed. rewrite <- Es, <- Ed. split; [exact PF|].
      destruct (k_sealed (cget s3 n)); [|exact S3].
      apply csound_c_cupd; [exact S3|]. intros e [Sr Sf]. split; cbn [k_raw k_full]; [exact Sr|].
      intros d2 Ed'. inversion Ed'. subst. exact PF.
  Qed.

  Lemma seal_walk_sound_c : forall f todo s, csound_c s -> csound_c (seal_walk h f todo s).
  Proof.
    induction f as [|f IH]; intros todo s S; cbn [seal_walk]; [exact S|].
    destruct todo as [|n todo]; [exact S|]. destruct (k_sealed (cget s n)); [apply IH; exact S|].
    destruct (nth_error h n); [|apply IH; exact S]. apply IH. apply csound_c_cupd; [exact S|].
    intros e Se. exact Se.
  Qed.

  Definition answer_pure (o : op) (a : answer) : Prop :=
    match a, o with
    | ADigest d, OpRaw n => exists e, pure_id n d e
    | ADigest d, OpFull n => pure_full n d
    | ADigest _, OpSeal _ => False
    | _, _ => True
    end.

  (* the repaired cache machine, on ANY graph (cycles included): every identifier answered, at any
     point of any history of requests and seals, is the identifier computed afresh without any cache *)
  Theorem cache_sound_cyclic : forall ops s, csound_c s ->
    Forall2 answer_pure ops (run H cs h fuel true s ops).
  Proof.
    induction ops as [|o ops IH]; intros s S; cbn [run]; [constructor|].
    assert (Step : answer_pure o (snd (step H cs h fuel true s o)) /\ csound_c (fst (step H cs h fuel true s o))).
    { destruct o as [n|n|n]; cbn [step].
      - destruct (req_raw H cs h fuel true s n) as [[s' d]|] eqn:R; cbn [fst snd answer_pure]; [|split; [exact I|exact S]].
        destruct (req_raw_sound_c s n s' d S R) as [P S']. split; assumption.
      - destruct (req_full H cs h fuel true s n) as [[s' d]|] eqn:R; cbn [fst snd answer_pure]; [|split; [exact I|exact S]].
        destruct (req_full_sound_c s n s' d S R) as [P S']. split; assumption.
      - cbn [fst snd answer_pure]. split; [exact I|apply seal_walk_sound_c; exact S]. }
    destruct Step as [A S']. constructor; [exact A|apply IH; exact S'].
  Qed.

  Lemma csound_c_init flags : csound_c (map centry0 flags).
  Proof.
    intros n. unfold cget.
    assert (E : k_raw (nth n (map centry0 flags) (centry0 false)) = None /\ k_full (nth n (map centry0 flags) (centry0 false)) = None).
    { revert n; induction flags as [|b fl IH]; intros [|n]; cbn; auto. }
    destruct E as [E1 E2]. split; [rewrite E1|rewrite E2]; intros; discriminate.
  Qed.
End MachineCyclic.

(* ---- the user-facing corollary: answers do not depend on the history ---------------------------------- *)
Lemma Forall2_nth_error {A B} (P : A -> B -> Prop) l l' : Forall2 P l l' ->
  forall i a b, nth_error l i = Some a -> nth_error l' i = Some b -> P a b.
Proof.
  intros F. induction F as [|x y l l' Pxy F IH]; intros [|i] a b Ea Eb; cbn in *; try discriminate.
  - inversion Ea; inversion Eb; subst; exact Pxy.
  - eapply IH; eassumption.
Qed.

Theorem history_independent_cyclic H cs h : forall fuel1 fuel2 ops1 ops2 s1 s2 i j o d1 d2,
  csound_c H cs h s1 -> csound_c H cs h s2 ->
  nth_error ops1 i = Some o -> nth_error ops2 j = Some o ->
  nth_error (run H cs h fuel1 true s1 ops1) i = Some (ADigest d1) ->
  nth_error (run H cs h fuel2 true s2 ops2) j = Some (ADigest d2) ->
  d1 = d2.
Proof.
  intros fuel1 fuel2 ops1 ops2 s1 s2 i j o d1 d2 S1 S2 O1 O2 A1 A2.
  pose proof (Forall2_nth_error _ _ _ (cache_sound_cyclic H cs h fuel1 ops1 s1 S1) i _ _ O1 A1) as P1.
  pose proof (Forall2_nth_error _ _ _ (cache_sound_cyclic H cs h fuel2 ops2 s2 S2) j _ _ O2 A2) as P2.
  destruct o as [n|n|n]; cbn [answer_pure] in P1, P2.
  - destruct P1 as [e1 P1], P2 as [e2 P2]. apply (pure_id_fun H cs h n d1 e1 d2 e2 P1 P2).
  - apply (pure_full_fun H cs h n d1 d2 P1 P2).
  - destruct P1.
Qed.

(* non-vacuity: on the three-node cycle the repaired machine answers digests after a seal, and the
   two histories that the unrepaired machine answered differently (cache_prefix_order_dependent) agree *)
Definition is_digest (a : answer) : bool := match a with ADigest _ => true | _ => false end.
Example cyclic_machine_answers :
  forallb is_digest (skipn 1 (cyc_run true [OpSeal 0; OpRaw 0; OpRaw 2; OpRaw 1; OpRaw 0; OpFull 1; OpFull 0])) = true.
Proof. vm_compute. reflexivity. Qed.
