(* Proofs about model/LauncherParse.v (C18): the character-level grammar of textual requirements. *)
From Coq Require Import ZArith NArith List Bool Lia.
From XV Require Import model.Launcher model.LauncherParse proofs.Launcher_lemmas.
Import ListNotations.

(* ---- numbers ------------------------------------------------------------- *)
Local Open Scope Z_scope.

Lemma num_of_snoc : forall s d, num_of (s ++ [d]) = num_of s * 10 + (Z.of_N d - 48).
Proof. intros. unfold num_of. rewrite fold_left_app. reflexivity. Qed.

Lemma rdigits_value : forall fuel n, 0 <= n < 10 ^ Z.of_nat fuel -> num_of (rev (rdigits fuel n)) = n.
Proof.
  induction fuel as [|f IH]; intros n H.
  - cbn in H. assert (n = 0) by lia. subst. reflexivity.
  - cbn [rdigits rev]. rewrite num_of_snoc.
    assert (Hm : 0 <= n mod 10 < 10) by (apply Z.mod_pos_bound; lia).
    rewrite Z2N.id by lia.
    destruct (n <? 10) eqn:E.
    + apply Z.ltb_lt in E. change (num_of (rev [])) with 0. rewrite Z.mod_small by lia. lia.
    + apply Z.ltb_ge in E. rewrite IH.
      * pose proof (Z.div_mod n 10). lia.
      * rewrite Nat2Z.inj_succ, Z.pow_succ_r in H by lia. split.
        -- apply Z.div_pos; lia.
        -- apply Z.div_lt_upper_bound; lia.
Qed.

Lemma rdigits_digits : forall fuel n, 0 <= n -> forallb is_digit (rdigits fuel n) = true.
Proof.
  induction fuel as [|f IH]; intros n H; [reflexivity|]. cbn [rdigits forallb].
  assert (Hm : 0 <= n mod 10 < 10) by (apply Z.mod_pos_bound; lia).
  apply andb_true_iff. split.
  - unfold is_digit. apply andb_true_iff. split; apply N.leb_le; lia.
  - destruct (n <? 10); [reflexivity|]. apply IH. apply Z.div_pos; lia.
Qed.

Lemma fuel_enough : forall n, 0 <= n -> n < 10 ^ Z.of_nat (S (Z.to_nat (Z.log2 n))).
Proof.
  intros n H. rewrite Nat2Z.inj_succ, Z2Nat.id by apply Z.log2_nonneg.
  destruct (Z.eq_dec n 0) as [->|Hn]; [cbn; lia|].
  assert (Hp : 0 < n) by lia. destruct (Z.log2_spec n Hp) as [_ Hu].
  eapply Z.lt_le_trans; [exact Hu|]. apply Z.pow_le_mono_l. lia.
Qed.

Lemma pr_num_value : forall n, 0 <= n -> num_of (pr_num n) = n.
Proof. intros n H. unfold pr_num. apply rdigits_value. split; [assumption|apply fuel_enough; assumption]. Qed.
Lemma pr_num_digits : forall n, 0 <= n -> forallb is_digit (pr_num n) = true.
Proof.
  intros n H. unfold pr_num. rewrite forallb_forall. intros c Hc. apply in_rev in Hc.
  pose proof (rdigits_digits (S (Z.to_nat (Z.log2 n))) n H) as Hd. rewrite forallb_forall in Hd. auto.
Qed.
Lemma pr_num_nonempty : forall n, pr_num n <> [].
Proof.
  intros n H. unfold pr_num in H. cbn [rdigits rev] in H. destruct (rev _) in H; discriminate.
Qed.

(* ---- print then parse ------------------------------------------------------ *)
Local Open Scope N_scope.

Arguments pr_num : simpl never.
Arguments lit : simpl never.

Lemma digit_not_ws : forall c, is_digit c = true -> is_ws c = false.
Proof.
  intros c H. unfold is_digit in H. apply andb_true_iff in H. destruct H as [H1 H2].
  apply N.leb_le in H1. apply N.leb_le in H2. unfold is_ws.
  repeat (rewrite (proj2 (N.eqb_neq _ _)) by lia). reflexivity.
Qed.

Lemma skip_nonws : forall c s, is_ws c = false -> skip (c :: s) = c :: s.
Proof. intros c s H. cbn. rewrite H. reflexivity. Qed.
Lemma skip_space : forall s, skip (32 :: s) = skip s.
Proof. reflexivity. Qed.

Lemma strip_prefix_app : forall w r, strip_prefix w (w ++ r) = Some r.
Proof. induction w as [|a w IH]; intros r; cbn; [reflexivity|]. rewrite N.eqb_refl. apply IH. Qed.

Lemma lit_space : forall w s, lit w (32 :: s) = lit w s.
Proof. reflexivity. Qed.
Lemma lit_here : forall c w r, is_ws c = false -> lit (c :: w) ((c :: w) ++ r) = Some r.
Proof.
  intros c w r H. unfold lit. change ((c :: w) ++ r) with (c :: (w ++ r)). rewrite (skip_nonws _ _ H).
  change (c :: w ++ r) with ((c :: w) ++ r). apply strip_prefix_app.
Qed.
Lemma lit_fail : forall c w d r, is_ws d = false -> (c =? d) = false -> lit (c :: w) (d :: r) = None.
Proof. intros c w d r H Hcd. unfold lit. rewrite (skip_nonws _ _ H). cbn. rewrite Hcd. reflexivity. Qed.
Lemma lit_nil : forall c w, lit (c :: w) [] = None.
Proof. reflexivity. Qed.

(* what may follow a number: nothing, or a character that is not a digit *)
Definition nodigit (r : text) : Prop := r = [] \/ exists c r', r = c :: r' /\ is_digit c = false.

Lemma take_digits_app : forall ds r, forallb is_digit ds = true -> nodigit r -> take_digits (ds ++ r) = (ds, r).
Proof.
  induction ds as [|c ds IH]; intros r Hd Hr; cbn.
  - destruct Hr as [->|(c & r' & -> & Hc)]; cbn; [reflexivity|]. rewrite Hc. reflexivity.
  - cbn in Hd. apply andb_true_iff in Hd. destruct Hd as [Hc Hd]. rewrite Hc, (IH r Hd Hr). reflexivity.
Qed.

Lemma p_number_print : forall n r, (0 <= n)%Z -> nodigit r -> p_number (pr_num n ++ r) = Some (n, r).
Proof.
  intros n r Hn Hr. unfold p_number.
  pose proof (pr_num_digits n Hn) as Hd. pose proof (pr_num_nonempty n) as Hne.
  destruct (pr_num n) as [|c ds] eqn:E; [congruence|].
  assert (Hc : is_digit c = true) by (cbn in Hd; apply andb_true_iff in Hd; tauto).
  change ((c :: ds) ++ r) with (c :: (ds ++ r)). rewrite (skip_nonws _ _ (digit_not_ws c Hc)).
  change (c :: ds ++ r) with ((c :: ds) ++ r). rewrite (take_digits_app (c :: ds) r Hd Hr).
  rewrite <- E. rewrite (pr_num_value n Hn). reflexivity.
Qed.
Lemma p_number_space : forall s, p_number (32 :: s) = p_number s.
Proof. reflexivity. Qed.

(* what follows an item inside the brackets: a comma or the closing bracket *)
Definition follows (r : text) : Prop := exists c r', r = c :: r' /\ (c = 44 \/ c = 41).
Lemma follows_nodigit : forall r, follows r -> nodigit r.
Proof. intros r (c & r' & -> & [-> | ->]); right; eexists; eexists; split; reflexivity. Qed.

Definition pr_unit (u : munit) : text := match u with UNone => [] | UG => [71] | UM => [77] end.

Lemma p_size_print : forall n u r, (0 <= n)%Z -> follows r ->
  p_size (pr_num n ++ pr_unit u ++ r) = Some (n, u, r).
Proof.
  intros n u r Hn Hr. unfold p_size. rewrite p_number_print; [|assumption|].
  - destruct u; cbn [pr_unit app]; [|reflexivity|reflexivity].
    destruct Hr as (c & r' & -> & [-> | ->]); reflexivity.
  - destruct u; cbn [pr_unit app]; [apply follows_nodigit; assumption| |];
      right; eexists; eexists; split; reflexivity.
Qed.

Lemma pr_item_mem : forall n u, pr_item (IMem n u) = k_mem ++ [61] ++ pr_num n ++ pr_unit u.
Proof. intros n u. destruct u; reflexivity. Qed.

Lemma p_mem_print : forall n u r, (0 <= n)%Z -> follows r ->
  p_mem (pr_item (IMem n u) ++ r) = Some (IMem n u, r).
Proof.
  intros n u r Hn Hr. unfold p_mem. rewrite pr_item_mem. rewrite <- !app_assoc.
  rewrite (lit_here 109 [101; 109] _ eq_refl).
  rewrite (lit_here 61 [] _ eq_refl).
  rewrite (p_size_print n u r Hn Hr). reflexivity.
Qed.

Lemma p_cores_print : forall n r, (0 <= n)%Z -> follows r ->
  p_cores (pr_item (ICores n) ++ r) = Some (ICores n, r).
Proof.
  intros n r Hn Hr. unfold p_cores, pr_item. rewrite <- !app_assoc.
  rewrite (lit_here 99 [111; 114; 101; 115] _ eq_refl).
  rewrite (lit_here 61 [] _ eq_refl).
  rewrite (p_number_print n r Hn (follows_nodigit r Hr)). reflexivity.
Qed.

Lemma p_mem_on_cores : forall n r, p_mem (pr_item (ICores n) ++ r) = None.
Proof. intros. unfold p_mem, lit, pr_item. cbn. reflexivity. Qed.

Lemma p_mem_space : forall s, p_mem (32 :: s) = p_mem s.
Proof. reflexivity. Qed.
Lemma p_cpu_item_space : forall s, p_cpu_item (32 :: s) = p_cpu_item s.
Proof. reflexivity. Qed.

Lemma p_cpu_item_print : forall it r, wf_item true it -> follows r ->
  p_cpu_item (pr_item it ++ r) = Some (it, r).
Proof.
  intros [n u|n] r H Hr; unfold p_cpu_item; cbn [wf_item] in H.
  - rewrite (p_mem_print n u r H Hr). reflexivity.
  - rewrite p_mem_on_cores. apply p_cores_print; tauto.
Qed.
Lemma p_cuda_item_print : forall it r, wf_item false it -> follows r ->
  p_mem (pr_item it ++ r) = Some (it, r).
Proof.
  intros [n u|n] r H Hr; cbn [wf_item] in H.
  - apply p_mem_print; assumption.
  - destruct H; discriminate.
Qed.

Section ItemLists.
  Variable p_item : text -> option (item * text).
  Variable wf : item -> Prop.
  Hypothesis p_item_print : forall it r, wf it -> follows r -> p_item (pr_item it ++ r) = Some (it, r).
  Hypothesis p_item_space : forall s, p_item (32 :: s) = p_item s.

  Lemma follows_more : forall l r, follows (pr_more_items l ++ 41 :: r).
  Proof. intros [|it l] r; cbn; eexists; eexists; split; try reflexivity; auto. Qed.

  Lemma more_items_print : forall l fuel r, Forall wf l -> (length l <= fuel)%nat ->
    more_items p_item fuel (pr_more_items l ++ 41 :: r) = (l, 41 :: r).
  Proof.
    induction l as [|it l IH]; intros fuel r Hl Hf.
    - destruct fuel; cbn [more_items pr_more_items app]; [reflexivity|].
      rewrite (lit_fail 44 [] 41 r eq_refl eq_refl). reflexivity.
    - destruct fuel as [|f]; [cbn in Hf; lia|]. inversion Hl; subst.
      cbn [more_items pr_more_items].
      change ((44 :: 32 :: pr_item it ++ pr_more_items l) ++ 41 :: r)
        with ([44] ++ (32 :: (pr_item it ++ pr_more_items l) ++ 41 :: r)).
      rewrite (lit_here 44 [] _ eq_refl). rewrite p_item_space. rewrite <- app_assoc.
      rewrite (p_item_print it _ H1 (follows_more l r)).
      rewrite (IH f r H2); [reflexivity|cbn in Hf; lia].
  Qed.

  Lemma pr_more_items_length : forall l, (length l <= length (pr_more_items l))%nat.
  Proof. induction l as [|it l IH]; cbn; [lia|]. rewrite app_length. lia. Qed.

  Lemma p_items_print : forall l r, l <> [] -> Forall wf l ->
    p_items p_item (pr_items l ++ 41 :: r) = (l, 41 :: r).
  Proof.
    intros [|it l] r Hne Hl; [congruence|]. inversion Hl; subst. unfold p_items. cbn [pr_items].
    rewrite <- app_assoc. rewrite (p_item_print it _ H1 (follows_more l r)).
    rewrite more_items_print; [reflexivity|assumption|].
    rewrite app_length. pose proof (pr_more_items_length l). lia.
  Qed.
End ItemLists.

(* what follows a term: the end, or a blank and an operator *)
Definition after (r : text) : Prop := r = [] \/ exists r', r = 32 :: 38 :: r' \/ r = 32 :: 124 :: r'.
Lemma after_nodigit : forall r, after r -> nodigit r.
Proof. intros r [->|(r' & [-> | ->])]; [left; reflexivity| |]; right; eexists; eexists; split; reflexivity. Qed.

Definition pr_mult (m : option Z) : text := match m with Some c => [32; 42; 32] ++ pr_num c | None => [] end.

Lemma p_mult_print : forall m r, match m with Some c => (0 <= c)%Z | None => True end -> after r ->
  p_mult (pr_mult m ++ r) = (m, r).
Proof.
  intros [c|] r Hc Hr; unfold p_mult, pr_mult.
  - change (([32; 42; 32] ++ pr_num c) ++ r) with (32 :: [42] ++ (32 :: pr_num c ++ r)).
    rewrite lit_space, (lit_here 42 [] _ eq_refl), p_number_space.
    rewrite (p_number_print c r Hc (after_nodigit r Hr)). reflexivity.
  - cbn [app]. destruct Hr as [->|(r' & [-> | ->])]; [reflexivity| |];
      rewrite lit_space; [rewrite (lit_fail 42 [] 38 r' eq_refl eq_refl)|rewrite (lit_fail 42 [] 124 r' eq_refl eq_refl)];
      reflexivity.
Qed.

Lemma pr_term_cuda : forall its m, pr_term (TCuda its m) = k_cuda ++ [40] ++ pr_items its ++ [41] ++ pr_mult m.
Proof. intros its [c|]; reflexivity. Qed.

Lemma p_cuda_print : forall its m r, wf_term (TCuda its m) -> after r ->
  p_cuda true (pr_term (TCuda its m) ++ r) = TOk (TCuda its m) r.
Proof.
  intros its m r (Hne & Hits & Hm) Hr. unfold p_cuda. rewrite pr_term_cuda. rewrite <- !app_assoc.
  rewrite (lit_here 99 [117; 100; 97] _ eq_refl). rewrite (lit_here 40 [] _ eq_refl).
  change ([41] ++ pr_mult m ++ r) with (41 :: (pr_mult m ++ r)).
  rewrite (p_items_print p_mem (wf_item false) p_cuda_item_print p_mem_space its _ Hne Hits).
  change (41 :: pr_mult m ++ r) with ([41] ++ (pr_mult m ++ r)). rewrite (lit_here 41 [] _ eq_refl).
  rewrite (p_mult_print m r Hm Hr). destruct its; [congruence|reflexivity].
Qed.

Lemma p_cpu_print : forall its r, wf_term (TCpu its) -> after r ->
  p_cpu true (pr_term (TCpu its) ++ r) = TOk (TCpu its) r.
Proof.
  intros its r (Hne & Hits) Hr. unfold p_cpu, pr_term. rewrite <- !app_assoc.
  rewrite (lit_here 99 [112; 117] _ eq_refl). rewrite (lit_here 40 [] _ eq_refl).
  change ([41] ++ r) with (41 :: r).
  rewrite (p_items_print p_cpu_item (wf_item true) p_cpu_item_print p_cpu_item_space its _ Hne Hits).
  change (41 :: r) with ([41] ++ r). rewrite (lit_here 41 [] _ eq_refl).
  destruct its; [congruence|reflexivity].
Qed.

Lemma p_unit_print : forall u r, after r ->
  p_unit (32 :: match u with DH => [104] | DD => [100] end ++ r) = Some (u, r).
Proof.
  intros u r Hr. unfold p_unit. rewrite skip_space.
  destruct u; cbn [app]; (rewrite skip_nonws by reflexivity);
    destruct Hr as [->|(r' & [-> | ->])]; reflexivity.
Qed.

Lemma p_duration_print : forall n u r, (0 <= n)%Z -> after r ->
  p_duration (pr_term (TDuration n u) ++ r) = TOk (TDuration n u) r.
Proof.
  intros n u r Hn Hr. unfold p_duration, pr_term. rewrite <- !app_assoc.
  rewrite (lit_here 100 [117; 114; 97; 116; 105; 111; 110] _ eq_refl). rewrite (lit_here 61 [] _ eq_refl).
  rewrite p_number_print; [|assumption|right; eexists; eexists; split; reflexivity].
  change ((32 :: match u with DH => [104] | DD => [100] end) ++ r)
    with (32 :: match u with DH => [104] | DD => [100] end ++ r).
  rewrite (p_unit_print u r Hr). reflexivity.
Qed.

Lemma p_duration_on_c : forall s, p_duration (99 :: s) = TFail.
Proof. reflexivity. Qed.
Lemma p_cuda_on_cpu : forall strict s, p_cuda strict (99 :: 112 :: s) = TFail.
Proof. reflexivity. Qed.

Lemma p_term_print : forall t r, wf_term t -> after r -> p_term true (pr_term t ++ r) = Some (t, r).
Proof.
  intros [n u|its m|its] r Ht Hr; unfold p_term.
  - rewrite (p_duration_print n u r Ht Hr). reflexivity.
  - assert (E : p_duration (pr_term (TCuda its m) ++ r) = TFail).
    { rewrite pr_term_cuda. apply p_duration_on_c. }
    rewrite E, (p_cuda_print its m r Ht Hr). reflexivity.
  - assert (E : p_duration (pr_term (TCpu its) ++ r) = TFail) by apply p_duration_on_c.
    assert (E2 : p_cuda true (pr_term (TCpu its) ++ r) = TFail) by apply p_cuda_on_cpu.
    rewrite E, E2, (p_cpu_print its r Ht Hr). reflexivity.
Qed.

Lemma p_term_space : forall strict s, p_term strict (32 :: s) = p_term strict s.
Proof. reflexivity. Qed.

Lemma after_more_terms : forall l r, after r -> after (pr_more_terms l ++ r).
Proof. intros [|t l] r Hr; [exact Hr|]. right. eexists. left. reflexivity. Qed.

Lemma more_terms_print : forall l fuel r, Forall wf_term l -> (length l <= fuel)%nat ->
  (r = [] \/ exists r', r = 32 :: 124 :: r') ->
  more_terms true fuel (pr_more_terms l ++ r) = (l, r).
Proof.
  induction l as [|t l IH]; intros fuel r Hl Hf Hr.
  - destruct fuel; cbn [more_terms pr_more_terms app]; [reflexivity|].
    destruct Hr as [->|(r' & ->)]; [reflexivity|].
    rewrite lit_space, (lit_fail 38 [] 124 r' eq_refl eq_refl). reflexivity.
  - destruct fuel as [|f]; [cbn in Hf; lia|]. inversion Hl; subst.
    cbn [more_terms pr_more_terms].
    change (([32; 38; 32] ++ pr_term t ++ pr_more_terms l) ++ r)
      with (32 :: [38] ++ (32 :: (pr_term t ++ pr_more_terms l) ++ r)).
    rewrite lit_space, (lit_here 38 [] _ eq_refl), p_term_space. rewrite <- app_assoc.
    rewrite (p_term_print t _ H1).
    + rewrite (IH f r H2); [reflexivity|cbn in Hf; lia|exact Hr].
    + apply after_more_terms. destruct Hr as [->|(r' & ->)]; [left; reflexivity|right; eexists; right; reflexivity].
Qed.

Lemma pr_more_terms_length : forall l, (length l <= length (pr_more_terms l))%nat.
Proof. induction l as [|t l IH]; cbn; [lia|]. rewrite app_length. lia. Qed.

Lemma p_spec_print : forall ts r, wf_spec ts -> (r = [] \/ exists r', r = 32 :: 124 :: r') ->
  p_spec true (pr_spec ts ++ r) = Some (ts, r).
Proof.
  intros [|t l] r [Hne Hl] Hr; [congruence|]. inversion Hl; subst. unfold p_spec. cbn [pr_spec].
  rewrite <- app_assoc. rewrite (p_term_print t _ H1).
  - rewrite more_terms_print; [reflexivity|assumption| |exact Hr].
    rewrite app_length. pose proof (pr_more_terms_length l). lia.
  - apply after_more_terms. destruct Hr as [->|(r' & ->)]; [left; reflexivity|right; eexists; right; reflexivity].
Qed.

Lemma p_spec_space : forall strict s, p_spec strict (32 :: s) = p_spec strict s.
Proof. reflexivity. Qed.

Lemma more_specs_print : forall l fuel, Forall wf_spec l -> (length l <= fuel)%nat ->
  more_specs true fuel (pr_more_specs l) = (l, []).
Proof.
  induction l as [|ts l IH]; intros fuel Hl Hf.
  - destruct fuel; reflexivity.
  - destruct fuel as [|f]; [cbn in Hf; lia|]. inversion Hl; subst.
    cbn [more_specs pr_more_specs].
    change ([32; 124; 32] ++ pr_spec ts ++ pr_more_specs l) with (32 :: [124] ++ (32 :: pr_spec ts ++ pr_more_specs l)).
    rewrite lit_space, (lit_here 124 [] _ eq_refl), p_spec_space.
    rewrite (p_spec_print ts _ H1).
    + rewrite (IH f H2); [reflexivity|cbn in Hf; lia].
    + destruct l as [|ts' l']; [left; reflexivity|right; eexists; reflexivity].
Qed.

Lemma pr_more_specs_length : forall l, (length l <= length (pr_more_specs l))%nat.
Proof. induction l as [|t l IH]; cbn; [lia|]. rewrite app_length. lia. Qed.

(* (1) every well-formed expression, written canonically, is read back as that expression *)
Theorem print_parse : forall e, wf_expr e -> parse_req (pr_expr e) = Some e.
Proof.
  intros [|ts l] [Hne Hl]; [congruence|]. inversion Hl; subst.
  unfold parse_req, parse_with. cbn [pr_expr].
  rewrite (p_spec_print ts _ H1).
  - rewrite (more_specs_print l _ H2 (pr_more_specs_length l)). reflexivity.
  - destruct l as [|ts' l']; [left; reflexivity|right; eexists; reflexivity].
Qed.

(* ---- (2) the text means the same as the request built programmatically ---------------------------- *)
Local Open Scope Z_scope.

Lemma alloc_spec : forall st r st' o, alloc st r = (st', o) ->
  valid st' o /\ view st' o = r /\ (forall p, valid st p -> valid st' p /\ view st' p = view st p).
Proof.
  intros st r st' o H. unfold alloc in H. inversion H; subst; clear H. unfold valid, view. cbn.
  rewrite !app_length. cbn. rewrite !app_nth2, !Nat.sub_diag by lia. cbn.
  split; [lia|]. split; [destruct r; reflexivity|].
  intros p [Hc Hl]. split; [lia|]. rewrite !app_nth1 by lia. reflexivity.
Qed.

Lemma mul_op_full : forall st a count st' n, valid st a -> mul_op st a count = (st', n) ->
  valid st' n /\ view st' n = mul_req (view st a) count /\
  (forall p, valid st p -> valid st' p /\ view st' p = view st p).
Proof.
  intros st a count st' n Ha H.
  destruct (mul_op_pure st a count st' n Ha H) as [_ Hn]. split; [|split; [exact Hn|]].
  - unfold mul_op in H. destruct (count =? 1); [inversion H; subst; exact Ha|].
    pose proof (view_deep_copy st a Ha) as Hd. destruct (deep_copy st a) as [st1 c].
    destruct Hd as (_ & [Hcc Hcl] & _). inversion H; subst. unfold valid. cbn. rewrite set_nth_length. lia.
  - intros p Hp. unfold mul_op in H. destruct (count =? 1); [inversion H; subst; auto|].
    unfold deep_copy in H. inversion H; subst; clear H. destruct Hp as [Hpc Hpl]. destruct Ha as [Hac Hal].
    unfold valid, view in *. cbn. rewrite set_nth_length, !app_length. cbn. split; [lia|].
    rewrite nth_set_nth_other by lia. rewrite !app_nth1 by lia. reflexivity.
Qed.

Lemma and_op_full : forall st a b st' n, valid st a -> valid st b -> and_op st a b = (st', n) ->
  valid st' n /\ view st' n = add_req (view st a) (view st b).
Proof.
  intros st a b st' n Ha Hb H.
  destruct (and_op_pure st a b st' n Ha Hb H) as (_ & _ & Hn). split; [|exact Hn].
  unfold and_op, and_with, deep_copy, add_into in H. inversion H; subst; clear H.
  unfold valid. cbn. rewrite !set_nth_length, !app_length. cbn. lia.
Qed.

Lemma prog_term_spec : forall st t st' o, prog_term st t = (st', o) ->
  valid st' o /\ view st' o = sem_term t /\ (forall p, valid st p -> valid st' p /\ view st' p = view st p).
Proof.
  intros st t st' o H.
  assert (Hplain : forall t0, alloc st (sem_term t0) = (st', o) ->
    valid st' o /\ view st' o = sem_term t0 /\ (forall p, valid st p -> valid st' p /\ view st' p = view st p))
    by (intros t0 H0; apply alloc_spec; exact H0).
  destruct t as [n u|its [c|]|its]; cbn [prog_term] in H; try (apply Hplain; exact H).
  destruct (alloc st (sem_term (TCuda its None))) as [st1 g] eqn:Ea.
  destruct (alloc_spec _ _ _ _ Ea) as (Hg & Hvg & Hframe1).
  destruct (mul_op_full _ _ _ _ _ Hg H) as (Ho & Hvo & Hframe2).
  split; [exact Ho|]. split.
  - rewrite Hvo, Hvg. reflexivity.
  - intros p Hp. destruct (Hframe1 p Hp) as [Hp1 Hv1]. destruct (Hframe2 p Hp1) as [Hp2 Hv2].
    split; [exact Hp2|congruence].
Qed.

Lemma prog_rest_spec : forall ts st acc st' o, valid st acc -> prog_rest st acc ts = (st', o) ->
  view st' o = fold_left (fun a t' => add_req a (sem_term t')) ts (view st acc).
Proof.
  induction ts as [|t ts IH]; intros st acc st' o Hacc H; cbn [prog_rest fold_left] in *.
  - inversion H; subst. reflexivity.
  - destruct (prog_term st t) as [st1 ot] eqn:Et.
    destruct (prog_term_spec _ _ _ _ Et) as (Hot & Hvot & Hframe).
    destruct (Hframe acc Hacc) as [Hacc1 Hvacc1].
    destruct (and_op st1 acc ot) as [st2 n] eqn:Ea.
    destruct (and_op_full _ _ _ _ _ Hacc1 Hot Ea) as [Hn Hvn].
    rewrite (IH _ _ _ _ Hn H). rewrite Hvn, Hvacc1, Hvot. reflexivity.
Qed.

(* cpu(..) / cuda_gpu(..) * n / duration(..) combined with & from left to right, as objects that & and * copy
   the way specs.py does: the value is the meaning of the alternative *)
Theorem prog_value_sem : forall ts, ts <> [] -> prog_value ts = sem_spec ts.
Proof.
  intros [|t ts] Hne; [congruence|]. unfold prog_value, prog_spec, sem_spec.
  destruct (prog_term {| s_cpus := []; s_lists := [] |} t) as [st1 o] eqn:Et.
  destruct (prog_term_spec _ _ _ _ Et) as (Ho & Hvo & _).
  destruct (prog_rest st1 o ts) as [st' o'] eqn:Er.
  rewrite (prog_rest_spec _ _ _ _ _ Ho Er), Hvo. reflexivity.
Qed.

(* the clause of the property: a request given as text means the same as the one built programmatically *)
Theorem text_programmatic : forall e, wf_expr e -> text_reqs (pr_expr e) = Some (map prog_value e).
Proof.
  intros e He. unfold text_reqs. rewrite (print_parse e He). f_equal. unfold sem_expr.
  apply map_ext_in. intros ts Hts. symmetry. apply prog_value_sem.
  destruct He as [_ Hl]. rewrite Forall_forall in Hl. exact (proj1 (Hl ts Hts)).
Qed.

(* whatever text is accepted, its meaning is what the match and registry theorems are about: for every host ... *)
Theorem text_match : forall t rs h k s, text_reqs t = Some rs -> union_match rs h = Some (k, s) ->
  exists r, nth_error rs k = Some r /\ satisfies r h /\
    (forall j' r', (j' < k)%nat -> nth_error rs j' = Some r' -> match_simple r' h = None).
Proof. intros t rs h k s _ H. exact (union_sound rs h k s H). Qed.

Theorem text_registry : forall t rs hs i j, text_reqs t = Some rs ->
  registry_find [(false, rs)] hs = Some (i, j) ->
  exists r h, nth_error rs i = Some r /\ nth_error hs j = Some h /\ satisfies r h /\
    (forall i' r' h', (i' < i)%nat -> nth_error rs i' = Some r' -> In h' hs -> ~ satisfies r' h') /\
    (forall j' h', (j' < j)%nat -> nth_error hs j' = Some h' -> ~ satisfies r h').
Proof.
  intros t rs hs i j _ H. apply registry_first in H. unfold all_alts in H. cbn in H. rewrite app_nil_r in H. exact H.
Qed.

(* the text and the object built programmatically get the same answer from every host and every site *)
Theorem text_same_answers : forall e, wf_expr e ->
  exists rs, text_reqs (pr_expr e) = Some rs /\ rs = map prog_value e /\
    (forall h, union_match rs h = union_match (map prog_value e) h) /\
    (forall hs, registry_find [(false, rs)] hs = registry_find [(false, map prog_value e)] hs).
Proof.
  intros e He. exists (map prog_value e). split; [apply text_programmatic; exact He|].
  split; [reflexivity|]. split; reflexivity.
Qed.

(* ---- (3) what the real parser rejects is rejected: empty brackets ----------------------------------- *)
Local Open Scope N_scope.
Definition t_cuda_empty : text := [99; 117; 100; 97; 40; 41].                      (* cuda() *)
Definition t_cpu_empty : text := [99; 112; 117; 40; 41].                            (* cpu() *)
Definition t_cuda_empty_mult : text := [99; 117; 100; 97; 40; 41; 32; 42; 32; 50].  (* cuda() * 2 *)
Definition t_dropped : text := t_cuda_empty ++ 32 :: [99; 112; 117; 40; 99; 111; 114; 101; 115; 61; 50; 41].
                                                                                   (* cuda() cpu(cores=2) *)
Lemma empty_brackets_rejected :
  parse_req t_cuda_empty = None /\ parse_req t_cpu_empty = None /\ parse_req t_cuda_empty_mult = None /\
  parse_req_prefix t_cuda_empty = None /\ parse_req_prefix t_cpu_empty = None /\
  parse_req_prefix t_cuda_empty_mult = None.
Proof. repeat split; vm_compute; reflexivity. Qed.

(* before fixes/C18-2 a term with empty brackets vanished when a cpu(...) followed without operator *)
Lemma empty_brackets_dropped_refuted :
  parse_req_prefix t_dropped = Some [[TCpu [ICores 2]]] /\ parse_req t_dropped = None.
Proof. split; vm_compute; reflexivity. Qed.

(* the hypotheses of print_parse hold for an expression with every construct *)
Example print_parse_ex :
  let e := [[TDuration 4 DD; TCuda [IMem 4 UG; IMem 12000 UM] (Some 2); TCpu [IMem 400 UM; ICores 4; IMem 0 UNone]];
            [TCuda [IMem 70 UG] None; TDuration 30 DH]; [TCuda [IMem 10 UG] (Some 0)]]%Z in
  wf_expr e /\ parse_req (pr_expr e) = Some e
  /\ text_reqs (pr_expr e) = Some (map prog_value e).
Proof.
  cbv zeta. split; [|split; vm_compute; reflexivity].
  split; [discriminate|].
  repeat (apply Forall_cons || apply Forall_nil);
    (split; [discriminate|]); repeat (apply Forall_cons || apply Forall_nil); cbn;
    repeat (split || discriminate || lia || apply Forall_cons || apply Forall_nil || cbn).
Qed.

(* ---- every accepted text, whatever its spacing, means what the objects it names mean ------------------ *)
Lemma p_spec_nonempty : forall strict s ts r, p_spec strict s = Some (ts, r) -> ts <> [].
Proof.
  intros strict s ts r H. unfold p_spec in H. destruct (p_term strict s) as [[t s1]|]; [|discriminate].
  destruct (more_terms strict (length s1) s1). inversion H. discriminate.
Qed.
Lemma more_specs_nonempty : forall strict fuel s l r, more_specs strict fuel s = (l, r) -> Forall (fun ts => ts <> []) l.
Proof.
  induction fuel as [|f IH]; intros s l r H; cbn [more_specs] in H; [inversion H; constructor|].
  destruct (lit [124] s) as [s1|]; [|inversion H; constructor].
  destruct (p_spec strict s1) as [[ts s2]|] eqn:Es; [|inversion H; constructor].
  destruct (more_specs strict f s2) as [l' s3] eqn:Em. inversion H; subst.
  constructor; [exact (p_spec_nonempty _ _ _ _ Es)|exact (IH _ _ _ Em)].
Qed.
Lemma parse_nonempty : forall t e, parse_req t = Some e -> e <> [] /\ Forall (fun ts => ts <> []) e.
Proof.
  intros t e H. unfold parse_req, parse_with in H.
  destruct (p_spec true t) as [[ts s1]|] eqn:Es; [|discriminate].
  destruct (more_specs true (length s1) s1) as [l s2] eqn:Em.
  destruct (skip s2); [|discriminate]. inversion H; subst. split; [discriminate|].
  constructor; [exact (p_spec_nonempty _ _ _ _ Es)|exact (more_specs_nonempty _ _ _ _ _ Em)].
Qed.

Theorem text_means_programmatic : forall t e, parse_req t = Some e -> text_reqs t = Some (map prog_value e).
Proof.
  intros t e H. unfold text_reqs. rewrite H. f_equal. unfold sem_expr. apply map_ext_in.
  intros ts Hts. symmetry. apply prog_value_sem.
  destruct (parse_nonempty t e H) as [_ Hl]. rewrite Forall_forall in Hl. exact (Hl ts Hts).
Qed.
