(* The pre-task collection walk (model/Hash.v `walk`) visits exactly the configurations
   reachable from its root; hence the FULL identifier does not depend on the order in
   which successors are met (keyword order, reloaded field order).                    *)
From Coq Require Import ZArith NArith List Bool Lia Permutation Sorted.
From XV Require Import core.Value model.Hash model.Cache model.Edits model.Seal
  proofs.Sort_lemmas proofs.Hash_lemmas proofs.Neutral_lemmas proofs.Spec_lemmas proofs.Seal_lemmas.
Import ListNotations.

Lemma upd_nth_length_eq {A} (l : list A) n x : length (upd_nth l n x) = length l.
Proof. revert n; induction l as [|y l IH]; intros [|n]; cbn; auto. Qed.

Lemma mem_in n l : mem n l = true <-> In n l.
Proof.
  unfold mem. rewrite existsb_exists. split.
  - intros [x [Hx E]]. apply Nat.eqb_eq in E. subst. exact Hx.
  - intros Hn. exists n. split; [exact Hn|apply Nat.eqb_refl].
Qed.

(* ---- walk and seal_walk take the same decisions ------------------------------------------ *)
Definition agree (h : heap) (seen : list nat) (s : cstate) : Prop :=
  forall m, In m seen <-> sealed_in s m = true.

Lemma walk_sim h : forall fuel todo seen s,
  length s = length h -> agree h seen s ->
  agree h (walk h fuel todo seen) (seal_walk h fuel todo s).
Proof.
  induction fuel as [|f IH]; intros todo seen s L A; cbn [walk seal_walk]; [exact A|].
  destruct todo as [|n todo]; [exact A|].
  assert (E : mem n seen = k_sealed (cget s n)).
  { destruct (mem n seen) eqn:M.
    - apply mem_in in M. apply A in M. symmetry. exact M.
    - destruct (k_sealed (cget s n)) eqn:S; [|reflexivity]. exfalso.
      assert (In n seen) by (apply A; exact S). apply mem_in in H. congruence. }
  rewrite E. destruct (k_sealed (cget s n)) eqn:S; [apply IH; assumption|].
  destruct (nth_error h n) as [x|] eqn:Ex; [|apply IH; assumption].
  apply IH; [rewrite cupd_length; exact L|].
  assert (Ln : n < length s) by (rewrite L; apply nth_error_Some; congruence).
  intros m. split.
  - intros Hm. apply in_app_or in Hm. destruct Hm as [Hm|[<-|[]]].
    + apply sealed_mark_mono. apply A. exact Hm.
    + unfold sealed_in. rewrite cget_cupd_same by exact Ln. reflexivity.
  - intros Hm. destruct (Nat.eq_dec n m) as [<-|D]; [apply in_or_app; right; left; reflexivity|].
    unfold sealed_in in Hm. rewrite cget_cupd_other in Hm by exact D. apply in_or_app. left. apply A. exact Hm.
Qed.

(* ---- only reachable configurations are marked ----------------------------------------------- *)
Lemma seal_walk_only_reachable h : forall fuel todo s m,
  sealed_in (seal_walk h fuel todo s) m = true ->
  sealed_in s m = true \/ exists r, In r todo /\ reach h r m.
Proof.
  induction fuel as [|f IH]; intros todo s m S; cbn [seal_walk] in S; [left; exact S|].
  destruct todo as [|n todo]; [left; exact S|].
  destruct (k_sealed (cget s n)) eqn:Sn.
  - destruct (IH todo s m S) as [Hs|[r [Hr Rr]]]; [left; exact Hs|right; exists r; split; [right; exact Hr|exact Rr]].
  - destruct (nth_error h n) as [x|] eqn:Ex.
    + destruct (IH _ _ m S) as [Hs|[r [Hr Rr]]].
      * unfold sealed_in in Hs. destruct (cget_cupd_cases s n mark m) as [E|[-> E]].
        -- left. unfold sealed_in. rewrite <- E. exact Hs.
        -- right. exists n. split; [left; reflexivity|apply reach_refl].
      * apply in_app_or in Hr. destruct Hr as [Hr|Hr].
        -- right. exists n. split; [left; reflexivity|]. eapply reach_step; eassumption.
        -- right. exists r. split; [right; exact Hr|exact Rr].
    + destruct (IH todo s m S) as [Hs|[r [Hr Rr]]]; [left; exact Hs|right; exists r; split; [right; exact Hr|exact Rr]].
Qed.

Lemma sealed_init_false flags m : (forall b, In b flags -> b = false) -> sealed_in (map centry0 flags) m = false.
Proof.
  unfold sealed_in, cget. revert m; induction flags as [|b fl IH]; intros [|m] Hf; cbn; try reflexivity.
  - apply Hf. left. reflexivity.
  - apply IH. intros b' Hb'. apply Hf. right. exact Hb'.
Qed.

(* the walk from n visits exactly the configurations reachable from n *)
Theorem walk_reach h n : wf_heap h -> n < length h ->
  forall m, In m (walk h (walk_fuel h) [n] []) <-> reach h n m.
Proof.
  intros W Ln m.
  set (s0 := map centry0 (repeat false (length h))).
  assert (L0 : length s0 = length h) by (unfold s0; rewrite map_length, repeat_length; reflexivity).
  assert (F0 : forall k, sealed_in s0 k = false).
  { intros k. apply sealed_init_false. intros b Hb. apply repeat_spec in Hb. exact Hb. }
  assert (A0 : agree h [] s0) by (intros k; split; [intros []|intros E; rewrite F0 in E; discriminate]).
  pose proof (walk_sim h (walk_fuel h) [n] [] s0 L0 A0 m) as Sim.
  rewrite Sim. split.
  - intros S. destruct (seal_walk_only_reachable h _ _ _ m S) as [Hs|[r [[<-|[]] Rr]]]; [rewrite F0 in Hs; discriminate|exact Rr].
  - intros R. apply seal_reaches_all; try assumption.
    intros k x E Sk. rewrite F0 in Sk. discriminate.
Qed.

(* ---- reachability reads successors as sets ---------------------------------------------------- *)
Definition same_succs (h h' : heap) : Prop :=
  length h = length h' /\
  forall n, match nth_error h n, nth_error h' n with
            | Some x, Some y => (forall m, In m (succs x) <-> In m (succs y)) /\ n_pre x = n_pre y /\ n_init x = n_init y
            | None, None => True
            | _, _ => False
            end.

Lemma reach_same_succs h h' : same_succs h h' -> forall n m, reach h n m -> reach h' n m.
Proof.
  intros [_ Ss] n m R. induction R as [n|n x k m Ex Hk R IH]; [apply reach_refl|].
  specialize (Ss n). rewrite Ex in Ss. destruct (nth_error h' n) as [y|] eqn:Ey; [|contradiction].
  destruct Ss as [Es _]. eapply reach_step; [exact Ey|apply Es; exact Hk|exact IH].
Qed.

Lemma same_succs_sym h h' : same_succs h h' -> same_succs h' h.
Proof.
  intros [L Ss]. split; [symmetry; exact L|]. intros n. specialize (Ss n).
  destruct (nth_error h n), (nth_error h' n); try contradiction; [|exact I].
  destruct Ss as [Es [Ep Ei]]. split; [intros m; symmetry; apply Es|split; symmetry; assumption].
Qed.

Lemma same_succs_wf h h' : same_succs h h' -> wf_heap h -> wf_heap h'.
Proof.
  intros [L Ss] W n y Ey m Hm. specialize (Ss n). rewrite Ey in Ss.
  destruct (nth_error h n) as [x|] eqn:Ex; [|contradiction]. destruct Ss as [Es _].
  rewrite <- L. apply (W n x Ex m). apply Es. exact Hm.
Qed.

(* ---- dedup keeps one copy of each element ---------------------------------------------------- *)
Lemma NoDup_snoc {A} (l : list A) y : NoDup l -> ~ In y l -> NoDup (l ++ [y]).
Proof.
  induction l as [|x l IH]; intros ND Hn; cbn [app]; [constructor; [intros []|constructor]|].
  inversion ND as [|? ? Hx ND']; subst. constructor.
  - intros Hin. apply in_app_or in Hin. destruct Hin as [Hin|[<-|[]]]; [exact (Hx Hin)|apply Hn; left; reflexivity].
  - apply IH; [exact ND'|intros Hin; apply Hn; right; exact Hin].
Qed.

Lemma dedup_spec : forall l acc, NoDup acc ->
  NoDup (dedup l acc) /\ forall x, In x (dedup l acc) <-> In x acc \/ In x l.
Proof.
  induction l as [|y l IH]; intros acc ND; cbn [dedup]; [split; [exact ND|intros x; cbn [In]; tauto]|].
  destruct (mem y acc) eqn:M.
  - destruct (IH acc ND) as [N1 S1]. split; [exact N1|]. intros x. rewrite S1. apply mem_in in M.
    split; [intros [Ha|Hl]; [left; exact Ha|right; right; exact Hl]|intros [Ha|[<-|Hl]]; [left; exact Ha|left; exact M|right; exact Hl]].
  - assert (ND' : NoDup (acc ++ [y])).
    { apply NoDup_snoc; [exact ND|]. intros Hin. apply mem_in in Hin. congruence. }
    destruct (IH (acc ++ [y]) ND') as [N1 S1]. split; [exact N1|]. intros x. rewrite S1, in_app_iff. cbn [In]. tauto.
Qed.


(* ---- sorting identifiers: permutations give the same sorted list ------------------------------ *)
Lemma sorted_id_perm_eq : forall (l1 l2 : list bytes),
  StronglySorted (le (fun x : bytes => x)) l1 -> StronglySorted (le (fun x : bytes => x)) l2 ->
  Permutation l1 l2 -> l1 = l2.
Proof.
  induction l1 as [|x l1 IH]; intros l2 S1 S2 P.
  - apply Permutation_nil in P. subst. reflexivity.
  - destruct l2 as [|y l2]; [apply Permutation_sym, Permutation_nil in P; discriminate|].
    inversion S1 as [|? ? S1' F1]; subst. inversion S2 as [|? ? S2' F2]; subst.
    assert (Hxy : x = y).
    { assert (Hx : In x (y :: l2)) by (eapply Permutation_in; [exact P|left; reflexivity]).
      assert (Hy : In y (x :: l1)) by (eapply Permutation_in; [apply Permutation_sym; exact P|left; reflexivity]).
      destruct Hx as [Hx|Hx]; [symmetry; exact Hx|]. destruct Hy as [Hy|Hy]; [exact Hy|].
      rewrite Forall_forall in F1, F2. apply bytes_leb_antisym; [apply F1; exact Hy|apply F2; exact Hx]. }
    subst y. f_equal. apply IH; try assumption. eapply Permutation_cons_inv. exact P.
Qed.

Lemma sort_id_perm (l l' : list bytes) : Permutation l l' -> sort_by (fun x => x) l = sort_by (fun x => x) l'.
Proof.
  intros P. apply sorted_id_perm_eq; try apply sort_sorted.
  eapply Permutation_trans; [apply Permutation_sym, sort_perm|]. eapply Permutation_trans; [exact P|apply sort_perm].
Qed.

Lemma all_ok_perm {A} (f : nat -> res A) : forall l l', Permutation l l' ->
  forall r, all_ok (map f l) = Ok r -> exists r', all_ok (map f l') = Ok r' /\ Permutation r r'.
Proof.
  intros l l' P. induction P as [|x l l' P IH|x y l|l l' l'' P1 IH1 P2 IH2]; intros r E.
  - exists r. split; [exact E|apply Permutation_refl].
  - cbn [map all_ok] in *. destruct (f x) as [a|]; [|discriminate].
    destruct (all_ok (map f l)) as [r0|] eqn:R0; cbn [bind] in E; [|discriminate]. inversion E. subst.
    destruct (IH r0 eq_refl) as [r1 [E1 P1]]. rewrite E1. cbn [bind]. exists (a :: r1). split; [reflexivity|apply perm_skip; exact P1].
  - cbn [map all_ok] in *. destruct (f y) as [b|]; [|discriminate]. destruct (f x) as [a|]; [|cbn [bind] in E; discriminate].
    destruct (all_ok (map f l)) as [r0|]; cbn [bind] in *; [|discriminate]. inversion E. subst.
    exists (a :: b :: r0). split; [reflexivity|apply perm_swap].
  - destruct (IH1 r E) as [r1 [E1 Q1]]. destruct (IH2 r1 E1) as [r2 [E2 Q2]].
    exists r2. split; [exact E2|eapply Permutation_trans; eassumption].
Qed.

Lemma pre_tasks_perm h h' n : wf_heap h -> same_succs h h' -> n < length h ->
  Permutation (pre_tasks_of h n) (pre_tasks_of h' n).
Proof.
  intros W Ss Ln. pose proof (same_succs_wf h h' Ss W) as W'. destruct Ss as [L Ss0]. pose proof (conj L Ss0) as Ss.
  unfold pre_tasks_of.
  destruct (dedup_spec (flat_map (fun m => match nth_error h m with Some x => n_pre x | None => [] end)
                          (walk h (walk_fuel h) [n] [])) [] (NoDup_nil _)) as [N1 S1].
  destruct (dedup_spec (flat_map (fun m => match nth_error h' m with Some x => n_pre x | None => [] end)
                          (walk h' (walk_fuel h') [n] [])) [] (NoDup_nil _)) as [N2 S2].
  apply NoDup_Permutation; [exact N1|exact N2|]. intros p. rewrite S1, S2. cbn [In].
  rewrite !in_flat_map. split; intros [[]|[m [Hm Hp]]]; right; exists m.
  - apply (walk_reach h n W Ln) in Hm. split; [apply (walk_reach h' n W' ltac:(lia)); apply (reach_same_succs h h' Ss); exact Hm|].
    specialize (Ss0 m). destruct (nth_error h m) as [x|], (nth_error h' m) as [y|]; try contradiction; try (now destruct Hp).
    destruct Ss0 as [_ [Ep _]]. rewrite <- Ep. exact Hp.
  - apply (walk_reach h' n W' ltac:(lia)) in Hm. split; [apply (walk_reach h n W Ln); apply (reach_same_succs h' h (same_succs_sym h h' Ss)); exact Hm|].
    specialize (Ss0 m). destruct (nth_error h m) as [x|], (nth_error h' m) as [y|]; try contradiction; try (now destruct Hp).
    destruct Ss0 as [_ [Ep _]]. rewrite Ep. exact Hp.
Qed.

(* the FULL identifier (raw identifier + sorted pre-task identifiers + init-task identifiers):
   two graphs with the same raw identifiers and the same successors as sets agree on it     *)
Theorem full_pure_same_succs H cs cs' h h' fuel n d :
  wf_heap h -> same_succs h h' -> n < length h ->
  (forall m, raw_pure H cs h fuel m = raw_pure H cs' h' fuel m) ->
  full_pure H cs h fuel n = Ok d -> full_pure H cs' h' fuel n = Ok d.
Proof.
  intros W Ss Ln Er E. pose proof (pre_tasks_perm h h' n W Ss Ln) as P.
  destruct Ss as [L Ss0]. unfold full_pure, getnode in *.
  specialize (Ss0 n). destruct (nth_error h n) as [x|] eqn:Ex; cbn [bind] in E; [|discriminate].
  destruct (nth_error h' n) as [y|]; [|contradiction]. cbn [bind]. destruct Ss0 as [_ [_ Ei]].
  rewrite <- Er. destruct (raw_pure H cs h fuel n) as [raw|]; cbn [bind] in *; [|discriminate].
  destruct (all_ok (map (raw_pure H cs h fuel) (pre_tasks_of h n))) as [pre|] eqn:Rp; cbn [bind] in E; [|discriminate].
  destruct (all_ok_perm (raw_pure H cs h fuel) _ _ P pre Rp) as [pre' [Ep' Pp]].
  assert (Em : map (raw_pure H cs' h' fuel) (pre_tasks_of h' n) = map (raw_pure H cs h fuel) (pre_tasks_of h' n))
    by (apply map_ext; intros m; symmetry; apply Er).
  rewrite Em, Ep'. cbn [bind].
  assert (Em2 : map (raw_pure H cs' h' fuel) (n_init y) = map (raw_pure H cs h fuel) (n_init x))
    by (rewrite <- Ei; apply map_ext; intros m; symmetry; apply Er).
  rewrite Em2. destruct (all_ok (map (raw_pure H cs h fuel) (n_init x))) as [ini|]; cbn [bind] in *; [|discriminate].
  inversion E. unfold full_of. rewrite (sort_id_perm pre pre' Pp). reflexivity.
Qed.

(* keyword order: the full identifier of every node *)
Theorem kwarg_order_full H cs h n x f' fuel m d :
  wf_heap h -> nth_error h n = Some x -> Permutation (n_fields x) f' -> NoDup (map fst (n_fields x)) -> m < length h ->
  full_pure H cs h fuel m = Ok d -> full_pure H cs (upd_nth h n (with_fields x f')) fuel m = Ok d.
Proof.
  intros W Ex P ND Lm E.
  apply (full_pure_same_succs H cs cs h (upd_nth h n (with_fields x f')) fuel m d W); try assumption.
  - split; [symmetry; apply upd_nth_length_eq|]. intros k. destruct (Nat.eq_dec n k) as [<-|D].
    + rewrite nth_upd_same by (apply nth_error_Some; congruence). rewrite Ex. cbn [with_fields n_pre n_init].
      split; [|split; reflexivity]. intros q. unfold succs. cbn [with_fields n_fields n_pre n_init n_task].
      rewrite !in_app_iff. rewrite !in_flat_map.
      split; (intros [[kv [Hkv Hq]]|Hr]; [left; exists kv; split; [|exact Hq]|right; exact Hr]).
      * eapply Permutation_in; eassumption.
      * eapply Permutation_in; [apply Permutation_sym; exact P|exact Hkv].
    + rewrite nth_upd_other by exact D. destruct (nth_error h k); [|exact I]. split; [tauto|split; reflexivity].
  - intros k. unfold raw_pure. rewrite (kwarg_order_neutral H cs h (fun _ => None) n x f' Ex P ND fuel k). reflexivity.
Qed.

(* ---- reloaded graphs (C12): the full identifier ------------------------------------------------ *)
From XV Require Import model.Serial proofs.Serial_lemmas.

Definition fields_nodup (h : heap) : Prop := forall n x, nth_error h n = Some x -> NoDup (map fst (n_fields x)).

Lemma in_assoc_iff {A} (l : list (bytes * A)) k v : NoDup (map fst l) -> (In (k, v) l <-> assoc k l = Some v).
Proof. intros ND. split; [apply assoc_in; exact ND|apply assoc_some_in]. Qed.

Lemma heap_equiv_same_succs h h' : heap_equiv h h' -> fields_nodup h -> fields_nodup h' -> same_succs h h'.
Proof.
  intros [L Eq] N N'. split; [exact L|]. intros n. specialize (Eq n).
  destruct (nth_error h n) as [x|] eqn:Ex, (nth_error h' n) as [y|] eqn:Ey; try contradiction; [|exact I].
  destruct Eq as [_ [_ [Et [Ep [Ei Ef]]]]]. split; [|split; assumption].
  intros m. unfold succs. rewrite Et, Ep, Ei. rewrite !in_app_iff, !in_flat_map.
  split; (intros [[[k v] [Hkv Hm]]|Hr]; [left; exists (k, v); split; [|exact Hm]|right; exact Hr]).
  - apply (in_assoc_iff _ k v (N' n y Ey)). rewrite <- Ef. apply (in_assoc_iff _ k v (N n x Ex)). exact Hkv.
  - apply (in_assoc_iff _ k v (N n x Ex)). rewrite Ef. apply (in_assoc_iff _ k v (N' n y Ey)). exact Hkv.
Qed.

Lemma set_field_keys k v : forall l, NoDup (map fst l) -> NoDup (map fst (set_field k v l)).
Proof.
  induction l as [|[k' v'] l IH]; cbn [set_field map fst]; intros ND; [constructor; [intros []|constructor]|].
  inversion ND as [|? ? Hn ND']; subst. destruct (bytes_eqb k k') eqn:E; cbn [map fst].
  - apply bytes_eqb_eq in E. subst k'. constructor; assumption.
  - constructor; [|apply IH; exact ND']. intros Hin.
    assert (G : forall l0, In k' (map fst (set_field k v l0)) -> k' = k \/ In k' (map fst l0)).
    { induction l0 as [|[a b] l0 IHl]; cbn [set_field map fst]; intros H0.
      - destruct H0 as [H0|[]]. left. symmetry. exact H0.
      - destruct (bytes_eqb k a) eqn:Ea; cbn [map fst] in H0.
        + destruct H0 as [H0|H0]; [left; symmetry; exact H0|right; right; exact H0].
        + destruct H0 as [H0|H0]; [right; left; exact H0|]. destruct (IHl H0) as [G0|G0]; [left; exact G0|right; right; exact G0]. }
    destruct (G l Hin) as [->|Hin']; [rewrite bytes_eqb_refl in E; discriminate|exact (Hn Hin')].
Qed.

Lemma init_fields_keys c : NoDup (map a_name (c_args c)) -> NoDup (map fst (init_fields c)).
Proof.
  unfold init_fields. generalize (c_args c) as args. induction args as [|a args IH]; cbn [map flat_map]; intros ND; [constructor|].
  inversion ND as [|? ? Hn ND']; subst. rewrite map_app.
  assert (Sub : forall k, In k (map fst (flat_map (fun a0 => match a_default a0 with
                    | Some d => [(a_name a0, d)] | None => if a_required a0 then [] else [(a_name a0, VNone)] end) args))
                          -> In k (map a_name args)).
  { intros k Hk. apply in_map_iff in Hk. destruct Hk as [[k0 v0] [Ek Hk]]. cbn in Ek. subst k0.
    apply in_flat_map in Hk. destruct Hk as [b [Hb Hk]]. apply in_map_iff. exists b. split; [|exact Hb].
    destruct (a_default b); [destruct Hk as [E|[]]; inversion E; reflexivity|].
    destruct (a_required b); [destruct Hk|destruct Hk as [E|[]]; inversion E; reflexivity]. }
  destruct (a_default a); cbn [map fst app].
  - constructor; [intros Hin; apply Hn, Sub; exact Hin|apply IH; exact ND'].
  - destruct (a_required a); cbn [map fst app]; [apply IH; exact ND'|].
    constructor; [intros Hin; apply Hn, Sub; exact Hin|apply IH; exact ND'].
Qed.

Lemma load_node_keys cs d y : (forall c, nth_error cs (d_cls d) = Some c -> NoDup (map a_name (c_args c))) ->
  load_node cs true true d = Some y -> NoDup (map fst (n_fields y)).
Proof.
  intros Hc L. unfold load_node in L. destruct (nth_error cs (d_cls d)) as [c|] eqn:Ec; [|discriminate].
  inversion L. cbn [n_fields]. clear L.
  generalize (init_fields_keys c (Hc c eq_refl)). generalize (init_fields c) as base. generalize (d_fields d) as kvs.
  induction kvs as [|[k v] kvs IH]; intros base ND; cbn [fold_left]; [exact ND|]. apply IH. apply set_field_keys. exact ND.
Qed.

Lemma load_into_keys cs : (forall c, In c cs -> NoDup (map a_name (c_args c))) ->
  forall ds g g', fields_nodup g -> load_into cs true true g ds = Some g' -> fields_nodup g'.
Proof.
  intros Hc. induction ds as [|d ds IH]; intros g g' N L; cbn [load_into] in L; [inversion L; subst; exact N|].
  destruct (load_node cs true true d) as [y|] eqn:Ly; [|discriminate]. apply (IH (upd_nth g (d_id d) y) g'); [|exact L].
  intros n x E. destruct (Nat.eq_dec (d_id d) n) as [<-|D].
  - destruct (Nat.lt_ge_cases (d_id d) (length g)) as [Lt|Ge].
    + rewrite nth_upd_same in E by exact Lt. inversion E. subst x.
      apply (load_node_keys cs d y); [|exact Ly]. intros c Ec. apply Hc. eapply nth_error_In. exact Ec.
    + assert (nth_error (upd_nth g (d_id d) y) (d_id d) = None) by (apply nth_error_None; rewrite upd_nth_length_eq; exact Ge).
      congruence.
  - rewrite nth_upd_other in E by exact D. apply (N n x E).
Qed.

(* after reloading a saved graph the FULL identifier of every node is the original one *)
Theorem reload_full_ident cs H h fuel r h' :
  wf_heap h -> fields_nodup h -> (forall c, In c cs -> NoDup (map a_name (c_args c))) ->
  (forall n, complete_at cs h n) ->
  reload cs true true h fuel r = Some h' ->
  forall f n d, n < length h -> full_pure H cs h f n = Ok d -> full_pure H cs h' f n = Ok d.
Proof.
  intros W N Hc Comp R f n d Ln E.
  destruct (reload_ident cs H h fuel r h' (fun _ => None)) as [Eq Er]; [intros d0 _; apply Comp|exact R|].
  assert (N' : fields_nodup h').
  { unfold reload in R. destruct (resolves (save cs true h fuel r)); [|discriminate].
    apply (load_into_keys cs Hc (save cs true h fuel r) h h' N R). }
  apply (full_pure_same_succs H cs cs h h' f n d W (heap_equiv_same_succs h h' Eq N N') Ln); [|exact E].
  intros m. unfold raw_pure. rewrite (Er f m). reflexivity.
Qed.
