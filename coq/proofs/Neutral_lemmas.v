(* Signature-neutral edits leave every identifier unchanged (C01 keyword order,
   C02 documented exclusions, C20 deprecated classes).                          *)
From Coq Require Import ZArith NArith List Bool Lia Permutation.
From XV Require Import core.Value model.Hash model.Edits proofs.Sort_lemmas proofs.Hash_lemmas.
Import ListNotations.

Lemma nth_upd_same {A} (l : list A) n x : n < length l -> nth_error (upd_nth l n x) n = Some x.
Proof. revert n; induction l as [|y l IH]; intros [|n] L; cbn in *; try lia; [reflexivity|]. apply IH. lia. Qed.

Lemma nth_upd_other {A} (l : list A) n m x : n <> m -> nth_error (upd_nth l n x) m = nth_error l m.
Proof.
  revert n m; induction l as [|y l IH]; intros [|n] [|m] D; cbn; try reflexivity; try congruence.
  apply IH. congruence.
Qed.

Lemma nth_error_lt {A} (l : list A) n x : nth_error l n = Some x -> n < length l.
Proof. intros E. apply nth_error_Some. congruence. Qed.

Lemma meta_eq_upd h n x x' : nth_error h n = Some x -> n_meta x' = n_meta x -> meta_eq h (upd_nth h n x').
Proof.
  intros E M m. destruct (Nat.eq_dec n m) as [->|D].
  - rewrite nth_upd_same by (eapply nth_error_lt; eassumption). rewrite E. cbn. rewrite M. reflexivity.
  - rewrite nth_upd_other by exact D. reflexivity.
Qed.

Lemma sigargs_ext_in h fields fields' args :
  (forall a, In a args -> argsel_of h fields a = argsel_of h fields' a) ->
  sigargs h fields args = sigargs h fields' args.
Proof.
  intros E. unfold sigargs. f_equal. apply map_ext_in. intros a Ha. rewrite E; [reflexivity|].
  eapply Permutation_in; [apply Permutation_sym, sort_perm|exact Ha].
Qed.

(* A. replacing the stored values of one node by values with the same selections *)
Theorem fields_edit_neutral H cs h look n x f' :
  nth_error h n = Some x ->
  (forall c a, nth_error cs (n_cls x) = Some c -> In a (c_args c) ->
               argsel_of h (n_fields x) a = argsel_of h f' a) ->
  forall fuel m, raw_ident H cs h look fuel m = raw_ident H cs (upd_nth h n (with_fields x f')) look fuel m.
Proof.
  intros E Hsel fuel m.
  assert (M : meta_eq h (upd_nth h n (with_fields x f'))) by (apply (meta_eq_upd h n x); [exact E|reflexivity]).
  apply ident_sig_ext; [exact M|].
  intros k. unfold nsig, getnode. destruct (Nat.eq_dec n k) as [<-|D].
  - rewrite nth_upd_same by (eapply nth_error_lt; eassumption). rewrite E. cbn [bind with_fields n_cls n_task n_fields].
    unfold getclass. destruct (nth_error cs (n_cls x)) as [c|] eqn:Ec; cbn [bind]; [|reflexivity].
    f_equal. f_equal. rewrite <- (meta_eq_sigargs _ _ M). apply sigargs_ext_in. intros a Ha. eapply Hsel; eauto.
  - rewrite nth_upd_other by exact D. destruct (nth_error h k) as [y|]; cbn [bind]; [|reflexivity].
    destruct (getclass cs (n_cls y)) as [c|]; cbn [bind]; [|reflexivity].
    rewrite (meta_eq_sigargs _ _ M). reflexivity.
Qed.

(* B. the documented rules, for one assignment config.k = v *)
Lemma assoc_set_same k v l : assoc k (set_field k v l) = Some v.
Proof.
  induction l as [|[k' v'] l IH]; cbn [set_field assoc]; [rewrite bytes_eqb_refl; reflexivity|].
  destruct (bytes_eqb k k') eqn:E; cbn [assoc]; [rewrite bytes_eqb_refl; reflexivity|]. rewrite E. exact IH.
Qed.

Lemma assoc_set_other k k2 v l : k2 <> k -> assoc k2 (set_field k v l) = assoc k2 l.
Proof.
  intros D. induction l as [|[k' v'] l IH]; cbn [set_field assoc].
  - destruct (bytes_eqb k2 k) eqn:E; [apply bytes_eqb_eq in E; congruence|reflexivity].
  - destruct (bytes_eqb k k') eqn:E; cbn [assoc].
    + apply bytes_eqb_eq in E. subst k'.
      destruct (bytes_eqb k2 k) eqn:E2; [apply bytes_eqb_eq in E2; congruence|reflexivity].
    + destruct (bytes_eqb k2 k'); [reflexivity|exact IH].
Qed.

Lemma argsel_other_arg h k v l a : a_name a <> k -> argsel_of h (set_field k v l) a = argsel_of h l a.
Proof. intros D. unfold argsel_of. rewrite assoc_set_other by exact D. reflexivity. Qed.

(* what makes the argument loop `continue` for a stored value v *)
Definition skipped (h : heap) (a : argdecl) (v : value) : Prop := argsel_of h [(a_name a, v)] a = ASkip.

Lemma argsel_single h a l v : assoc (a_name a) l = Some v -> argsel_of h l a = argsel_of h [(a_name a, v)] a.
Proof. intros E. unfold argsel_of. cbn [assoc]. rewrite bytes_eqb_refl, E. reflexivity. Qed.

Lemma skipped_ignored h a v : a_ignored a = true -> is_meta_false h v = false -> skipped h a v.
Proof. intros I M. unfold skipped, argsel_of. cbn [assoc]. rewrite bytes_eqb_refl, I, M. reflexivity. Qed.

Lemma skipped_generated h a v : a_gen a = true -> skipped h a v.
Proof.
  intros G. unfold skipped, argsel_of. cbn [assoc]. rewrite bytes_eqb_refl, G.
  destruct (a_ignored a && negb (is_meta_false h v)); reflexivity.
Qed.

Lemma skipped_default h a v d :
  a_const a = false -> a_default a = Some d -> pyeq d (remove_meta h v) = true -> skipped h a v.
Proof.
  intros C D P. unfold skipped, argsel_of. cbn [assoc]. rewrite bytes_eqb_refl, C, D, P.
  destruct (a_ignored a && negb (is_meta_false h v)); [reflexivity|].
  destruct (a_gen a); [reflexivity|]. cbn. rewrite orb_true_r. reflexivity.
Qed.

Lemma skipped_optional_none h a :
  a_const a = false -> a_required a = false -> a_default a = None -> skipped h a VNone.
Proof.
  intros C R D. unfold skipped, argsel_of. cbn [assoc]. rewrite bytes_eqb_refl, C, R, D. cbn.
  destruct (a_ignored a); [reflexivity|]. cbn. destruct (a_gen a); reflexivity.
Qed.

Lemma skipped_meta_value h a v : is_meta h v = true -> skipped h a v.
Proof.
  intros M. unfold skipped, argsel_of. cbn [assoc]. rewrite bytes_eqb_refl, M.
  destruct (a_ignored a && negb (is_meta_false h v)); [reflexivity|].
  destruct (a_gen a); [reflexivity|].
  match goal with |- (if ?c then _ else _) = _ => destruct c end; reflexivity.
Qed.

Theorem assign_neutral H cs h look n x k v v' :
  nth_error h n = Some x ->
  assoc k (n_fields x) = Some v ->
  (forall c a, nth_error cs (n_cls x) = Some c -> In a (c_args c) -> a_name a = k ->
               skipped h a v /\ skipped h a v') ->
  forall fuel m, raw_ident H cs h look fuel m
               = raw_ident H cs (upd_nth h n (with_fields x (set_field k v' (n_fields x)))) look fuel m.
Proof.
  intros E Ev Hs. apply fields_edit_neutral; [exact E|].
  intros c a Ec Ha. destruct (list_eq_dec N.eq_dec (a_name a) k) as [Ek|Dk].
  - destruct (Hs c a Ec Ha Ek) as [S1 S2]. subst k.
    rewrite (argsel_single h a _ v Ev). rewrite (argsel_single h a _ v' (assoc_set_same _ _ _)).
    unfold skipped in S1, S2. rewrite S1, S2. reflexivity.
  - rewrite argsel_other_arg by exact Dk. reflexivity.
Qed.

(* C. any change inside a configuration flagged meta (which is no node's task) *)
Theorem meta_node_edit_neutral H cs h look m x x' :
  nth_error h m = Some x -> n_meta x = Some true -> n_meta x' = Some true ->
  (forall n y, n <> m -> nth_error h n = Some y -> n_task y <> Some m) ->
  forall fuel n, n <> m -> raw_ident H cs h look fuel n = raw_ident H cs (upd_nth h m x') look fuel n.
Proof.
  intros E Mx Mx' Ht fuel n Dn.
  assert (M : meta_eq h (upd_nth h m x')) by (apply (meta_eq_upd h m x); [exact E|congruence]).
  apply (raw_ident_sig_ext H cs cs h (upd_nth h m x') look (fun k => Nat.eqb k m)).
  - apply meta_eq_is_meta. exact M.
  - intros k Dk. apply Nat.eqb_neq in Dk. unfold nsig, getnode. rewrite nth_upd_other by congruence.
    destruct (nth_error h k) as [y|]; cbn [bind]; [|reflexivity].
    destruct (getclass cs (n_cls y)) as [c|]; cbn [bind]; [|reflexivity].
    rewrite (meta_eq_sigargs _ _ M). reflexivity.
  - intros k Dk. apply Nat.eqb_eq in Dk. subst k. cbn [is_meta]. rewrite E, Mx. reflexivity.
  - intros k sg t Dk Es Et. apply Nat.eqb_neq in Dk. apply Nat.eqb_neq.
    unfold nsig, getnode in Es. destruct (nth_error h k) as [y|] eqn:Ey; cbn [bind] in Es; [|discriminate].
    destruct (getclass cs (n_cls y)) as [c|]; cbn [bind] in Es; [|discriminate].
    inversion Es. subst sg. cbn [sg_task] in Et.
    destruct (n_task y) as [t'|] eqn:Ety; [|discriminate].
    destruct (Nat.eqb t' k); [discriminate|]. inversion Et. subst t'.
    intros ->. exact (Ht k y Dk Ey Ety).
  - intros k sg kk v. apply nsig_args_not_meta.
  - apply Nat.eqb_neq. exact Dn.
Qed.

(* D. keyword order: permuting the stored values of a node (distinct names) *)
Theorem kwarg_order_neutral H cs h look n x f' :
  nth_error h n = Some x -> Permutation (n_fields x) f' -> NoDup (map fst (n_fields x)) ->
  forall fuel m, raw_ident H cs h look fuel m = raw_ident H cs (upd_nth h n (with_fields x f')) look fuel m.
Proof.
  intros E P ND. apply fields_edit_neutral; [exact E|].
  intros c a _ _. unfold argsel_of. rewrite (assoc_perm (a_name a) _ _ P ND). reflexivity.
Qed.

(* E. class tables: the arguments of a class in another order, or extended by an
   argument that is skipped on every node of that class; another class with the
   same type identifier and arguments (deprecation)                              *)
Lemma sigargs_perm h fields args args' :
  Permutation args args' -> NoDup (map a_name args) -> sigargs h fields args = sigargs h fields args'.
Proof. intros P ND. unfold sigargs. rewrite (sort_by_perm a_name args args' P ND). reflexivity. Qed.

Lemma sigargs_insert_skipped h fields a args :
  argsel_of h fields a = ASkip -> sigargs h fields (a :: args) = sigargs h fields args.
Proof.
  intros S. unfold sigargs. cbn [sort_by].
  generalize (sort_by a_name args) as l. induction l as [|b l IH]; cbn [insert_by map filter].
  - rewrite S. reflexivity.
  - destruct (bytes_leb (a_name a) (a_name b)); cbn [map filter]; [rewrite S; reflexivity|].
    rewrite IH. reflexivity.
Qed.

Definition same_sig_class (c c' : class) : Prop :=
  c_tid c = c_tid c' /\ Permutation (c_args c) (c_args c') /\ NoDup (map a_name (c_args c)).

(* two class tables that give every node of the heap the same type identifier and
   argument selections *)
Theorem class_table_neutral H cs cs' h look :
  (forall n x, nth_error h n = Some x ->
     match nth_error cs (n_cls x), nth_error cs' (n_cls x) with
     | Some c, Some c' => c_tid c = c_tid c' /\ sigargs h (n_fields x) (c_args c) = sigargs h (n_fields x) (c_args c')
     | None, None => True
     | _, _ => False
     end) ->
  forall fuel m, raw_ident H cs h look fuel m = raw_ident H cs' h look fuel m.
Proof.
  intros Hc. apply ident_sig_ext; [intros n; reflexivity|].
  intros n. unfold nsig, getnode. destruct (nth_error h n) as [x|] eqn:E; cbn [bind]; [|reflexivity].
  specialize (Hc n x E). unfold getclass.
  destruct (nth_error cs (n_cls x)) as [c|], (nth_error cs' (n_cls x)) as [c'|]; cbn [bind]; try contradiction; [|reflexivity].
  destruct Hc as [Et Ea]. rewrite Et, Ea. reflexivity.
Qed.

(* deprecation: nodes moved to a class with the same type identifier and arguments *)
Theorem reclass_neutral H cs h look n x c c' k' :
  nth_error h n = Some x -> nth_error cs (n_cls x) = Some c -> nth_error cs k' = Some c' ->
  same_sig_class c c' ->
  forall fuel m, raw_ident H cs h look fuel m = raw_ident H cs (upd_nth h n (with_cls x k')) look fuel m.
Proof.
  intros E Ec Ec' [Et [P ND]] fuel m.
  assert (M : meta_eq h (upd_nth h n (with_cls x k'))) by (apply (meta_eq_upd h n x); [exact E|reflexivity]).
  apply ident_sig_ext; [exact M|].
  intros k. unfold nsig, getnode. destruct (Nat.eq_dec n k) as [<-|D].
  - rewrite nth_upd_same by (eapply nth_error_lt; eassumption). rewrite E. cbn [bind with_cls n_cls n_task n_fields].
    unfold getclass. rewrite Ec, Ec'. cbn [bind]. rewrite Et.
    rewrite <- (meta_eq_sigargs _ _ M). rewrite (sigargs_perm h (n_fields x) _ _ P ND). reflexivity.
  - rewrite nth_upd_other by exact D. destruct (nth_error h k) as [y|]; cbn [bind]; [|reflexivity].
    destruct (getclass cs (n_cls y)) as [cc|]; cbn [bind]; [|reflexivity].
    rewrite (meta_eq_sigargs _ _ M). reflexivity.
Qed.

(* a class extended with a new argument whose selection is `skip` on every node
   of that class (defaulted and left at its default, Meta/Option, generated)     *)
Theorem class_extension_neutral H cs h look k c a :
  nth_error cs k = Some c ->
  (forall n x, nth_error h n = Some x -> n_cls x = k -> argsel_of h (n_fields x) a = ASkip) ->
  forall fuel m, raw_ident H cs h look fuel m
               = raw_ident H (upd_nth cs k (with_args c (a :: c_args c))) h look fuel m.
Proof.
  intros Ec Hs. apply class_table_neutral. intros n x E.
  destruct (Nat.eq_dec k (n_cls x)) as [Dk|Dk].
  - subst k. rewrite Ec. rewrite nth_upd_same by (eapply nth_error_lt; eassumption).
    cbn [with_args c_tid c_args]. split; [reflexivity|].
    symmetry. apply sigargs_insert_skipped. eapply Hs; eauto.
  - rewrite nth_upd_other by exact Dk. destruct (nth_error cs (n_cls x)); [split; reflexivity|exact I].
Qed.
