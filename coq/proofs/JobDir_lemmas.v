(* Proofs about model/JobDir.v  (C05, C11). *)
From Coq Require Import List Bool Arith ZArith Lia ZifyBool.
From XV Require Import model.JobDir.
Import ListNotations.

(* ------------------------------------------------------------------ total maps *)
Lemma upd_same : forall A (f : nat -> A) k v, upd f k v k = v.
Proof. intros. unfold upd. rewrite Nat.eqb_refl. reflexivity. Qed.
Lemma upd_other : forall A (f : nat -> A) k v i, i <> k -> upd f k v i = f i.
Proof. intros. unfold upd. destruct (Nat.eqb_spec i k); congruence. Qed.

(* ==================================================================
   Part 1.  Registry
   ================================================================== *)
Lemma lookup_replace_same : forall i j l o, lookup i l = Some o -> lookup i (replace i j l) = Some j.
Proof.
  induction l as [|[k v] l IH]; simpl; intros o H; [discriminate|].
  destruct (Nat.eqb_spec i k).
  - simpl. subst. rewrite Nat.eqb_refl. reflexivity.
  - simpl. destruct (Nat.eqb_spec i k); [congruence|]. eauto.
Qed.
Lemma lookup_replace_other : forall i j l k, k <> i -> lookup k (replace i j l) = lookup k l.
Proof.
  induction l as [|[k' v] l IH]; simpl; intros k H; [reflexivity|].
  destruct (Nat.eqb_spec i k').
  - subst. simpl. destruct (Nat.eqb_spec k k'); [congruence|reflexivity].
  - simpl. destruct (Nat.eqb_spec k k'); [reflexivity|]. apply IH. assumption.
Qed.

(* the registry names job objects of the right identifier; in the repaired code every
   job object that is not failed is the registered one                               *)
Definition reg_inv (r : reg) : Prop :=
  (forall i j, lookup i (r_jobs r) = Some j -> j < r_next r /\ r_ident r j = i) /\
  (forall j, j < r_next r -> jst_error (r_state r j) = false -> lookup (r_ident r j) (r_jobs r) = Some j).

Lemma reg_inv0 : reg_inv reg0.
Proof. split; simpl; intros; [discriminate|lia]. Qed.

Lemma reg_inv_submit : forall r i, reg_inv r -> reg_inv (fst (submit r i)).
Proof.
  intros r i [H1 H2]. unfold submit, submit_with.
  destruct (lookup i (r_jobs r)) as [o|] eqn:L.
  - destruct (jst_error (r_state r o)) eqn:Eo; [|split; assumption].
    destruct (H1 _ _ L) as [Ho Hi]. unfold reg_inv; simpl. split.
    + intros i' j Hl. destruct (Nat.eq_dec i' i).
      * subst i'. rewrite (lookup_replace_same _ _ _ _ L) in Hl. inversion Hl; subst.
        split; [lia|apply upd_same].
      * rewrite lookup_replace_other in Hl by assumption. destruct (H1 _ _ Hl). split; [lia|].
        rewrite upd_other by lia. assumption.
    + intros j Hj Hs. destruct (Nat.eq_dec j (r_next r)).
      * subst j. rewrite upd_same. eapply lookup_replace_same; eauto.
      * rewrite upd_other in Hs by assumption. rewrite upd_other by assumption.
        assert (Hj' : j < r_next r) by lia. specialize (H2 j Hj' Hs).
        destruct (Nat.eq_dec (r_ident r j) i) as [e|e].
        -- rewrite e in H2. rewrite L in H2. inversion H2; subst. congruence.
        -- rewrite lookup_replace_other by assumption. assumption.
  - unfold reg_inv; simpl. split.
    + intros i' j Hl. simpl in Hl. destruct (Nat.eqb_spec i' i).
      * inversion Hl; subst. split; [lia|apply upd_same].
      * destruct (H1 _ _ Hl). split; [lia|]. rewrite upd_other by lia. assumption.
    + intros j Hj Hs. destruct (Nat.eq_dec j (r_next r)).
      * subst j. rewrite upd_same. simpl. rewrite Nat.eqb_refl. reflexivity.
      * rewrite upd_other in Hs by assumption. rewrite upd_other by assumption.
        assert (Hj' : j < r_next r) by lia. specialize (H2 j Hj' Hs). simpl.
        destruct (Nat.eqb_spec (r_ident r j) i) as [e|e]; [|assumption].
        rewrite e in H2. congruence.
Qed.

Lemma reg_inv_set_state : forall r j s, reg_inv r -> reg_inv (set_state r j s).
Proof.
  intros r j s [H1 H2]. unfold set_state.
  destruct ((j <? r_next r) && negb (jst_finished (r_state r j))) eqn:G; [|split; assumption].
  apply andb_true_iff in G. destruct G as [G1 G2]. apply Nat.ltb_lt in G1.
  unfold reg_inv; simpl. split; [assumption|].
  intros j' Hj' Hs. destruct (Nat.eq_dec j' j).
  - subst j'. apply H2; [assumption|]. destruct (r_state r j); simpl in *; congruence.
  - rewrite upd_other in Hs by assumption. apply H2; assumption.
Qed.

Lemma run_reg_inv : forall h r r' out, reg_inv r -> run_reg h r = (r', out) -> reg_inv r'.
Proof.
  induction h as [|e h IH]; intros r r' out Hr Hrun; simpl in Hrun.
  - inversion Hrun; subst. assumption.
  - destruct e as [i|j s].
    + unfold run_reg in *. simpl in Hrun.
      destruct (submit_with true r i) as [r1 j] eqn:E1.
      destruct (run_with true h r1) as [r2 o2] eqn:E2. inversion Hrun; subst.
      eapply IH; [|exact E2]. change r1 with (fst (r1, j)). rewrite <- E1. apply reg_inv_submit. assumption.
    + unfold run_reg in *. simpl in Hrun. eapply IH; [|exact Hrun]. apply reg_inv_set_state. assumption.
Qed.

(* C05 (a): after any history, a submission identical to an earlier one that is not
   failed returns that earlier job and leaves the registry (and the number of job
   objects) exactly as it was.                                                        *)
Lemma registry_unique : forall h r out i j,
  run_reg h reg0 = (r, out) ->
  j < r_next r -> r_ident r j = i -> jst_error (r_state r j) = false ->
  submit r i = (r, j).
Proof.
  intros h r out i j Hrun Hj Hi Hs.
  destruct (run_reg_inv _ _ _ _ reg_inv0 Hrun) as [H1 H2].
  specialize (H2 j Hj Hs). rewrite Hi in H2.
  unfold submit, submit_with. rewrite H2. rewrite Hs. reflexivity.
Qed.

(* at most one job object per identifier is not failed *)
Lemma NoDup_filter : forall A (f : A -> bool) l, NoDup l -> NoDup (filter f l).
Proof.
  induction l as [|a l IH]; simpl; intros H; [constructor|].
  inversion H; subst. destruct (f a); [constructor|]; auto.
  intro Hin. apply filter_In in Hin. tauto.
Qed.
Lemma registry_live_le_1 : forall h r out i,
  run_reg h reg0 = (r, out) -> length (live_of r i) <= 1.
Proof.
  intros h r out i Hrun.
  destruct (run_reg_inv _ _ _ _ reg_inv0 Hrun) as [H1 H2].
  assert (Hall : forall a b, In a (live_of r i) -> In b (live_of r i) -> a = b).
  { intros a b Ha Hb. unfold live_of in *. apply filter_In in Ha, Hb.
    destruct Ha as [Ha1 Ha2], Hb as [Hb1 Hb2]. apply in_seq in Ha1, Hb1.
    apply andb_true_iff in Ha2, Hb2. destruct Ha2 as [Ha2 Ha3], Hb2 as [Hb2 Hb3].
    apply Nat.eqb_eq in Ha2, Hb2. apply negb_true_iff in Ha3, Hb3.
    assert (Ea := H2 a ltac:(lia) Ha3). assert (Eb := H2 b ltac:(lia) Hb3).
    rewrite Ha2 in Ea. rewrite Hb2 in Eb. congruence. }
  assert (Hnd : NoDup (live_of r i)) by (apply NoDup_filter, seq_NoDup).
  destruct (live_of r i) as [|a [|b l]]; simpl; try lia.
  exfalso. inversion Hnd; subst. apply H3. rewrite (Hall a b); simpl; auto.
Qed.

(* a history in which the hypotheses of registry_unique hold with a job that is not the
   first of its identifier (re-submission after a failure)                             *)
Definition h_resubmit : list rev := [RSubmit 7; RState 0 JError; RSubmit 7; RSubmit 3].
Example registry_unique_nonvacuous :
  let r := fst (run_reg h_resubmit reg0) in
  1 < r_next r /\ r_ident r 1 = 7 /\ jst_error (r_state r 1) = false /\ r_next r = 3 /\
  submit r 7 = (r, 1).
Proof. vm_compute. repeat split; lia. Qed.

(* the pinned code: the third submission creates a third job object although the second
   one is not failed                                                                   *)
Lemma registry_prefix_refuted : exists h r out i j,
  run_reg_prefix h reg0 = (r, out) /\
  j < r_next r /\ r_ident r j = i /\ jst_error (r_state r j) = false /\
  snd (submit_prefix r i) <> j /\ r_next (fst (submit_prefix r i)) = S (r_next r).
Proof.
  exists [RSubmit 0; RState 0 JError; RSubmit 0].
  eexists. eexists. exists 0, 1. split; [reflexivity|]. vm_compute. repeat split; try lia; try discriminate.
Qed.
