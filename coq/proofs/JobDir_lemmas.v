(* Proofs about model/JobDir.v  (C05, C11). *)
From Coq Require Import List Bool Arith ZArith Lia ZifyBool.
From XV Require Import model.JobDir.
Import ListNotations.

(* ------------------------------------------------------------------ total maps *)
Lemma upd_same : forall A (f : nat -> A) k v, upd f k v k = v.
Proof. intros. unfold upd. rewrite Nat.eqb_refl. reflexivity. Qed.
Lemma upd_other : forall A (f : nat -> A) k v i, i <> k -> upd f k v i = f i.
Proof. intros. unfold upd. destruct (Nat.eqb_spec i k); congruence. Qed.

(* ==================================================================
   Part 1.  Registry
   ================================================================== *)
Lemma lookup_replace_same : forall i j l o, lookup i l = Some o -> lookup i (replace i j l) = Some j.
Proof.
  induction l as [|[k v] l IH]; simpl; intros o H; [discriminate|].
  destruct (Nat.eqb_spec i k).
  - simpl. subst. rewrite Nat.eqb_refl. reflexivity.
  - simpl. destruct (Nat.eqb_spec i k); [congruence|]. eauto.
Qed.
Lemma lookup_replace_other : forall i j l k, k <> i -> lookup k (replace i j l) = lookup k l.
Proof.
  induction l as [|[k' v] l IH]; simpl; intros k H; [reflexivity|].
  destruct (Nat.eqb_spec i k').
  - subst. simpl. destruct (Nat.eqb_spec k k'); [congruence|reflexivity].
  - simpl. destruct (Nat.eqb_spec k k'); [reflexivity|]. apply IH. assumption.
Qed.

(* the registry names job objects of the right identifier; in the repaired code every
   job object that is not failed is the registered one                               *)
Definition reg_inv (r : reg) : Prop :=
  (forall i j, lookup i (r_jobs r) = Some j -> j < r_next r /\ r_ident r j = i) /\
  (forall j, j < r_next r -> jst_error (r_state r j) = false -> lookup (r_ident r j) (r_jobs r) = Some j).

Lemma reg_inv0 : reg_inv reg0.
Proof. split; simpl; intros; [discriminate|lia]. Qed.

Lemma reg_inv_submit : forall r i, reg_inv r -> reg_inv (fst (submit r i)).
Proof.
  intros r i [H1 H2]. unfold submit, submit_with.
  destruct (lookup i (r_jobs r)) as [o|] eqn:L.
  - destruct (jst_error (r_state r o)) eqn:Eo; [|split; assumption].
    destruct (H1 _ _ L) as [Ho Hi]. unfold reg_inv; simpl. split.
    + intros i' j Hl. destruct (Nat.eq_dec i' i).
      * subst i'. rewrite (lookup_replace_same _ _ _ _ L) in Hl. inversion Hl; subst.
        split; [lia|apply upd_same].
      * rewrite lookup_replace_other in Hl by assumption. destruct (H1 _ _ Hl). split; [lia|].
        rewrite upd_other by lia. assumption.
    + intros j Hj Hs. destruct (Nat.eq_dec j (r_next r)).
      * subst j. rewrite upd_same. eapply lookup_replace_same; eauto.
      * rewrite upd_other in Hs by assumption. rewrite upd_other by assumption.
        assert (Hj' : j < r_next r) by lia. specialize (H2 j Hj' Hs).
        destruct (Nat.eq_dec (r_ident r j) i) as [e|e].
        -- rewrite e in H2. rewrite L in H2. inversion H2; subst. congruence.
        -- rewrite lookup_replace_other by assumption. assumption.
  - unfold reg_inv; simpl. split.
    + intros i' j Hl. simpl in Hl. destruct (Nat.eqb_spec i' i).
      * inversion Hl; subst. split; [lia|apply upd_same].
      * destruct (H1 _ _ Hl). split; [lia|]. rewrite upd_other by lia. assumption.
    + intros j Hj Hs. destruct (Nat.eq_dec j (r_next r)).
      * subst j. rewrite upd_same. simpl. rewrite Nat.eqb_refl. reflexivity.
      * rewrite upd_other in Hs by assumption. rewrite upd_other by assumption.
        assert (Hj' : j < r_next r) by lia. specialize (H2 j Hj' Hs). simpl.
        destruct (Nat.eqb_spec (r_ident r j) i) as [e|e]; [|assumption].
        rewrite e in H2. congruence.
Qed.

Lemma reg_inv_set_state : forall r j s, reg_inv r -> reg_inv (set_state r j s).
Proof.
  intros r j s [H1 H2]. unfold set_state.
  destruct ((j <? r_next r) && negb (jst_finished (r_state r j))) eqn:G; [|split; assumption].
  apply andb_true_iff in G. destruct G as [G1 G2]. apply Nat.ltb_lt in G1.
  unfold reg_inv; simpl. split; [assumption|].
  intros j' Hj' Hs. destruct (Nat.eq_dec j' j).
  - subst j'. apply H2; [assumption|]. destruct (r_state r j); simpl in *; congruence.
  - rewrite upd_other in Hs by assumption. apply H2; assumption.
Qed.

Lemma run_reg_inv : forall h r r' out, reg_inv r -> run_reg h r = (r', out) -> reg_inv r'.
Proof.
  induction h as [|e h IH]; intros r r' out Hr Hrun; simpl in Hrun.
  - inversion Hrun; subst. assumption.
  - destruct e as [i|j s].
    + unfold run_reg in *. simpl in Hrun.
      destruct (submit_with true r i) as [r1 j] eqn:E1.
      destruct (run_with true h r1) as [r2 o2] eqn:E2. inversion Hrun; subst.
      eapply IH; [|exact E2]. change r1 with (fst (r1, j)). rewrite <- E1. apply reg_inv_submit. assumption.
    + unfold run_reg in *. simpl in Hrun. eapply IH; [|exact Hrun]. apply reg_inv_set_state. assumption.
Qed.

(* C05 (a): after any history, a submission identical to an earlier one that is not
   failed returns that earlier job and leaves the registry (and the number of job
   objects) exactly as it was.                                                        *)
Lemma registry_unique : forall h r out i j,
  run_reg h reg0 = (r, out) ->
  j < r_next r -> r_ident r j = i -> jst_error (r_state r j) = false ->
  submit r i = (r, j).
Proof.
  intros h r out i j Hrun Hj Hi Hs.
  destruct (run_reg_inv _ _ _ _ reg_inv0 Hrun) as [H1 H2].
  specialize (H2 j Hj Hs). rewrite Hi in H2.
  unfold submit, submit_with. rewrite H2. rewrite Hs. reflexivity.
Qed.

(* at most one job object per identifier is not failed *)
Lemma NoDup_filter : forall A (f : A -> bool) l, NoDup l -> NoDup (filter f l).
Proof.
  induction l as [|a l IH]; simpl; intros H; [constructor|].
  inversion H; subst. destruct (f a); [constructor|]; auto.
  intro Hin. apply filter_In in Hin. tauto.
Qed.
Lemma registry_live_le_1 : forall h r out i,
  run_reg h reg0 = (r, out) -> length (live_of r i) <= 1.
Proof.
  intros h r out i Hrun.
  destruct (run_reg_inv _ _ _ _ reg_inv0 Hrun) as [H1 H2].
  assert (Hall : forall a b, In a (live_of r i) -> In b (live_of r i) -> a = b).
  { intros a b Ha Hb. unfold live_of in *. apply filter_In in Ha, Hb.
    destruct Ha as [Ha1 Ha2], Hb as [Hb1 Hb2]. apply in_seq in Ha1, Hb1.
    apply andb_true_iff in Ha2, Hb2. destruct Ha2 as [Ha2 Ha3], Hb2 as [Hb2 Hb3].
    apply Nat.eqb_eq in Ha2, Hb2. apply negb_true_iff in Ha3, Hb3.
    assert (Ea := H2 a ltac:(lia) Ha3). assert (Eb := H2 b ltac:(lia) Hb3).
    rewrite Ha2 in Ea. rewrite Hb2 in Eb. congruence. }
  assert (Hnd : NoDup (live_of r i)) by (apply NoDup_filter, seq_NoDup).
  destruct (live_of r i) as [|a [|b l]]; simpl; try lia.
  exfalso. inversion Hnd; subst. apply H3. rewrite (Hall a b); simpl; auto.
Qed.

(* a history in which the hypotheses of registry_unique hold with a job that is not the
   first of its identifier (re-submission after a failure)                             *)
Definition h_resubmit : list rev := [RSubmit 7; RState 0 JError; RSubmit 7; RSubmit 3].
Example registry_unique_nonvacuous :
  let r := fst (run_reg h_resubmit reg0) in
  1 < r_next r /\ r_ident r 1 = 7 /\ jst_error (r_state r 1) = false /\ r_next r = 3 /\
  submit r 7 = (r, 1).
Proof. vm_compute. repeat split; lia. Qed.

(* the pinned code: the third submission creates a third job object although the second
   one is not failed                                                                   *)
Lemma registry_prefix_refuted : exists h r out i j,
  run_reg_prefix h reg0 = (r, out) /\
  j < r_next r /\ r_ident r j = i /\ jst_error (r_state r j) = false /\
  snd (submit_prefix r i) <> j /\ r_next (fst (submit_prefix r i)) = S (r_next r).
Proof.
  exists [RSubmit 0; RState 0 JError; RSubmit 0].
  eexists. eexists. exists 0, 1. split; [reflexivity|]. vm_compute. repeat split; try lia; try discriminate.
Qed.

(* ==================================================================
   Part 2.  One job directory
   ================================================================== *)
Lemma agent_eqb_eq : forall a b, agent_eqb a b = true <-> a = b.
Proof.
  destruct a, b; simpl; split; intros H; try discriminate; try (apply Nat.eqb_eq in H; congruence);
  inversion H; subst; apply Nat.eqb_refl.
Qed.
Lemma agent_eqb_refl : forall a, agent_eqb a a = true.
Proof. intros. apply agent_eqb_eq. reflexivity. Qed.

Ltac simp :=
  unfold set_done, set_failed, set_pidf, set_lock, set_script, set_proc, set_sched, set_ghost, new_proc in *;
  cbn [done failed pidf lock script procs nprocs scheds body_runs body_active inflight launches succ aborts done0] in *.

(* case analysis of one transition: every guard of lstep is destructed, the successor state
   is substituted *)
Ltac destr_step H :=
  unfold step, lstep, lstep_with in H; cbv zeta in H;
  repeat match type of H with
  | context [procs ?st ?p] => is_var st; let E := fresh "E" in destruct (procs st p) eqn:E;
                              cbn [alive plocked pinflight] in H; try discriminate H
  | context [scheds ?st ?s] => is_var st; let E := fresh "E" in destruct (scheds st s) eqn:E;
                              cbn [sover slocked] in H; try discriminate H
  end;
  repeat match type of H with
  | context [match ?x with _ => _ end] =>
      lazymatch x with
      | context [match _ with _ => _ end] => fail
      | _ => let E := fresh "E" in destruct x eqn:E; try discriminate H
      end
  end;
  try (injection H as H); try subst.

Ltac upd_cases :=
  unfold upd in *;
  repeat match goal with
  | |- context [Nat.eqb ?a ?b] => destruct (Nat.eqb_spec a b); try subst
  | H : context [Nat.eqb ?a ?b] |- _ => destruct (Nat.eqb_spec a b); try subst
  end.

Lemma release_other_proc : forall a q, a <> AProc q -> release a (Some (AProc q)) = Some (AProc q).
Proof. intros a q H. simpl. destruct (agent_eqb a (AProc q)) eqn:E; [apply agent_eqb_eq in E; congruence|reflexivity]. Qed.
Lemma release_other_sched : forall a q, a <> ASched q -> release a (Some (ASched q)) = Some (ASched q).
Proof. intros a q H. simpl. destruct (agent_eqb a (ASched q)) eqn:E; [apply agent_eqb_eq in E; congruence|reflexivity]. Qed.

(* I1: a job process past its Lock effect holds the lock *)
Definition I1 (st : jobdir) := forall p, plocked (procs st p) = true -> lock st = Some (AProc p).
(* I2: a scheduler between Lock and Unlock holds the lock *)
Definition I2 (st : jobdir) := forall s, slocked (scheds st s) = true -> lock st = Some (ASched s).

Lemma I1_step : forall st l st', I1 st -> step st l st' -> I1 st'.
Proof.
  intros st l st' H Hs q Hq. destruct l; destr_step Hs; simp;
  try (apply H; assumption);
  upd_cases; simp; try discriminate; try reflexivity;
  try (rewrite (H _ Hq); first [reflexivity | apply release_other_proc; congruence]);
  try (rewrite (H _ Hq) in *; discriminate);
  try (apply H; match goal with E : procs _ _ = _ |- _ => rewrite E; reflexivity end).
Qed.

Lemma I2_step : forall st l st', I1 st -> I2 st -> step st l st' -> I2 st'.
Proof.
  intros st l st' H1 H Hs q Hq. destruct l; destr_step Hs; simp;
  try (apply H; assumption);
  upd_cases; simp; try discriminate; try reflexivity;
  try (rewrite (H _ Hq); first [reflexivity | apply release_other_sched; congruence]);
  try (rewrite (H _ Hq) in *; discriminate);
  try (apply H; match goal with E : scheds _ _ = _ |- _ => rewrite E; reflexivity end).
Qed.

(* counting the processes that satisfy f with a ghost counter that never exceeds 1 *)
Definition Cnt (f : ppc -> bool) (pr : nat -> ppc) (n : nat) : Prop :=
  n <= 1 /\ (forall p, f (pr p) = true -> n = 1) /\ (n = 1 -> exists p, f (pr p) = true).

Lemma Cnt_move : forall f pr n p c', Cnt f pr n -> f c' = f (pr p) -> Cnt f (upd pr p c') n.
Proof.
  intros f pr n p c' (A & B & C) Hf. split; [assumption|split].
  - intros q Hq. unfold upd in Hq. destruct (Nat.eqb_spec q p); [subst; rewrite Hf in Hq|]; eauto.
  - intros Hn. destruct (C Hn) as [w Hw]. exists w. unfold upd. destruct (Nat.eqb_spec w p); [subst; congruence|assumption].
Qed.
Lemma Cnt_enter : forall f pr n p c', Cnt f pr n -> (forall q, f (pr q) = true -> q = p) ->
  f (pr p) = false -> f c' = true -> Cnt f (upd pr p c') (S n).
Proof.
  intros f pr n p c' (A & B & C) U Hp Hc.
  assert (n = 0). { destruct n as [|[|n]]; [reflexivity| |lia]. destruct (C eq_refl) as [w Hw]. rewrite (U w Hw) in Hw. congruence. }
  subst n. split; [lia|split].
  - reflexivity.
  - intros _. exists p. rewrite upd_same. assumption.
Qed.
Lemma Cnt_leave : forall f pr n p c', Cnt f pr n -> (forall q, f (pr q) = true -> q = p) ->
  f (pr p) = true -> f c' = false -> Cnt f (upd pr p c') (pred n).
Proof.
  intros f pr n p c' (A & B & C) U Hp Hc. rewrite (B p Hp). simpl. split; [lia|split].
  - intros q Hq. unfold upd in Hq. destruct (Nat.eqb_spec q p); [congruence|]. specialize (U q Hq). congruence.
  - discriminate.
Qed.

Definition pbody (c : ppc) : bool := match c with PBody => true | _ => false end.
Lemma pbody_locked : forall c, pbody c = true -> plocked c = true.
Proof. destruct c; simpl; congruence. Qed.
Lemma pinflight_locked : forall c, pinflight c = true -> plocked c = true.
Proof. destruct c; simpl; congruence. Qed.
Lemma prun_locked : forall c, prun c = true -> plocked c = true.
Proof. destruct c; simpl; congruence. Qed.

Lemma uniq_locked : forall st p, I1 st -> plocked (procs st p) = true ->
  forall q, plocked (procs st q) = true -> q = p.
Proof. intros st p H Hp q Hq. pose proof (H p Hp). pose proof (H q Hq). congruence. Qed.

(* I7: process numbers not yet handed out are unused; I14: those handed out are used *)
Definition I7 (st : jobdir) := forall p, nprocs st <= p -> procs st p = PNone.
Definition I14 (st : jobdir) := forall p, p < nprocs st -> procs st p <> PNone.
Lemma I7_step : forall st l st', I7 st -> step st l st' -> I7 st'.
Proof.
  intros st l st' H Hs q Hq. destruct l; destr_step Hs; simp; try (apply H; assumption);
  upd_cases; try (apply H; lia); try lia;
  try (match goal with E : procs _ ?p = _ |- _ => rewrite (H p Hq) in E; discriminate end).
Qed.
Lemma I14_step : forall st l st', I14 st -> step st l st' -> I14 st'.
Proof.
  intros st l st' H Hs q Hq. destruct l; destr_step Hs; simp; try (apply H; assumption);
  upd_cases; try discriminate; try (apply H; lia); try (destruct (script st); discriminate).
Qed.

(* I3: the ghost counters agree with the program counters *)
Definition I3 (st : jobdir) := Cnt pinflight (procs st) (inflight st) /\ Cnt pbody (procs st) (body_active st).

Ltac cnt_side st H1 :=
  first [ assumption
        | reflexivity
        | match goal with E : procs _ _ = _ |- _ => rewrite E; reflexivity end
        | intros ? ?; eapply (uniq_locked st); [exact H1 | match goal with E : procs _ _ = _ |- _ => rewrite E; reflexivity end
                                                | first [apply pinflight_locked; assumption | apply pbody_locked; assumption] ] ].

Ltac cnt_tac st H1 H7 :=
  first [ assumption
        | apply Cnt_move; [assumption | first [ match goal with E : procs _ _ = _ |- _ => rewrite E; reflexivity end
                                              | rewrite (H7 _ (le_n _)); reflexivity
                                              | match goal with E : procs _ _ = _ |- _ => rewrite E; destruct (script st); reflexivity end ] ]
        | apply Cnt_enter; cnt_side st H1
        | apply Cnt_leave; cnt_side st H1 ].

Lemma I3_step : forall st l st', I1 st -> I7 st -> I3 st -> step st l st' -> I3 st'.
Proof.
  intros st l st' H1 H7 [Ha Hb] Hs. destruct l; destr_step Hs; unfold I3; simp;
  (split; [cnt_tac st H1 H7 | cnt_tac st H1 H7]).
Qed.

(* markers only ever appear; failures only accumulate *)
Lemma done_mono : forall st l st', step st l st' -> done st = true -> done st' = true.
Proof. intros st l st' Hs Hd. destruct l; destr_step Hs; simp; congruence. Qed.
Lemma aborts_mono : forall st l st', step st l st' -> aborts st <= aborts st'.
Proof. intros st l st' Hs. destruct l; destr_step Hs; simp; lia. Qed.
Lemma done0_const : forall st l st', step st l st' -> done0 st' = done0 st.
Proof. intros st l st' Hs. destruct l; destr_step Hs; simp; reflexivity. Qed.

(* I4: once the marker exists no process is between its (negative) test and the end of
   its body *)
Definition I4 (st : jobdir) := done st = true -> forall p, prun (procs st p) = false.
Lemma I4_step : forall st l st', I1 st -> I4 st -> step st l st' -> I4 st'.
Proof.
  intros st l st' H1 H Hs Hd q. destruct l; destr_step Hs; simp;
  try (apply H; assumption);
  upd_cases; simp; try reflexivity; try (apply H; assumption); try congruence;
  try (match goal with E : procs _ ?p = _ |- _ => specialize (H Hd p); rewrite E in H; discriminate H end);
  try (destruct (script st); reflexivity).
  (* TouchDone by p: any q in its run section would hold the lock that p holds *)
  all: destruct (prun (procs st q)) eqn:Eq; [|reflexivity]; exfalso;
    apply prun_locked in Eq; apply n; eapply (uniq_locked st); eauto; rewrite E; reflexivity.
Qed.

(* I5: every body run is accounted for *)
Definition I5 (st : jobdir) :=
  body_runs st <= succ st + aborts st + inflight st /\ succ st + inflight st <= body_runs st.
Lemma I5_step : forall st l st', I3 st -> I5 st -> step st l st' -> I5 st'.
Proof.
  intros st l st' [[A1 [A2 A3]] [B1 [B2 B3]]] (H1 & H2) Hs. unfold I5.
  destruct l; destr_step Hs; simp; try (repeat split; lia);
  try (assert (inflight st = 1) by (apply (A2 p); rewrite E; reflexivity));
  try (assert (body_active st = 1) by (apply (B2 p); rewrite E; reflexivity));
  repeat split; lia.
Qed.

(* I6: the marker and the count of TouchDone effects *)
Definition I6 (st : jobdir) :=
  succ st <= (if done st then 1 else 0) /\ (done st = true -> done0 st = true \/ succ st = 1) /\
  (done0 st = true -> done st = true).
Lemma I6_step : forall st l st', I4 st -> I6 st -> step st l st' -> I6 st'.
Proof.
  intros st l st' H4 (A & B & C) Hs. unfold I6.
  destruct l; destr_step Hs; simp; try (repeat split; assumption);
  try (match goal with E0 : done st = _ |- _ => rewrite E0 end; repeat split; assumption).
  all: assert (Hd : done st = false) by
    (destruct (done st) eqn:Hd; [specialize (H4 Hd p); rewrite E in H4; discriminate|reflexivity]);
    rewrite Hd in A; repeat split; auto; try lia; intros _; right; lia.
Qed.

(* I8: a process that left by the "already completed" or the success path implies the marker *)
Definition pokc (c : ppc) : bool := match c with PRmPid XOk | PUnlock XOk | PExit XOk => true | _ => false end.
Definition I8 (st : jobdir) := forall p, pokc (procs st p) = true -> done st = true.
Lemma I8_step : forall st l st', I8 st -> step st l st' -> I8 st'.
Proof.
  intros st l st' H Hs q Hq. destruct l; destr_step Hs; simp;
  try (eapply H; eassumption);
  upd_cases; simp; try discriminate; try reflexivity; try (eapply H; eassumption); try assumption;
  try (apply (H p); rewrite E; assumption);
  try (destruct (script st); discriminate).
Qed.

(* I9: a positive first test implies the marker *)
Definition sdflag (c : spc) : bool := match c with SPid true | STest2 _ true => true | _ => false end.
Definition I9 (st : jobdir) := forall s, sdflag (scheds st s) = true -> done st = true.
Lemma I9_step : forall st l st', I9 st -> step st l st' -> I9 st'.
Proof.
  intros st l st' H Hs q Hq. destruct l; destr_step Hs; simp;
  try (eapply H; eassumption);
  upd_cases; simp; try discriminate; try reflexivity; try (eapply H; eassumption);
  try (apply (H s); rewrite E; assumption);
  try (destruct (done st); [reflexivity|discriminate]).
Qed.

(* I11: a process on the failure path was counted *)
Definition I11 (st : jobdir) := forall p, pfailing (procs st p) = true -> 1 <= aborts st.
Lemma I11_step : forall st l st', I11 st -> step st l st' -> I11 st'.
Proof.
  intros st l st' H Hs q Hq. destruct l; destr_step Hs; simp;
  try (eapply H; eassumption);
  upd_cases; simp; try discriminate; try lia; try (eapply H; eassumption);
  try (specialize (H q Hq); lia);
  try (apply (H p); rewrite E; assumption);
  try (destruct (script st); discriminate);
  try (destruct (done st); discriminate).
Qed.

(* I12, I13: the pid file and the schedulers only name processes that were created *)
Definition I12 (st : jobdir) := forall p, pidf st = PFSome p -> p < nprocs st.
Definition I13 (st : jobdir) := forall s p, schild (scheds st s) = Some p -> p < nprocs st.
Lemma I13_step : forall st l st', I12 st -> I13 st -> step st l st' -> I13 st'.
Proof.
  intros st l st' H12 H Hs q x Hq. destruct l; destr_step Hs; simp;
  try (eapply H; eassumption);
  upd_cases; simp; try discriminate; try (eapply H; eassumption);
  try (inversion Hq; subst; first [apply H12; assumption | apply (H s); rewrite E; reflexivity | lia]);
  try (specialize (H _ _ Hq); lia).
Qed.
Lemma I12_step : forall st l st', I12 st -> I13 st -> step st l st' -> I12 st'.
Proof.
  intros st l st' H H13 Hs q Hq. destruct l; destr_step Hs; simp;
  try (apply H; assumption); try discriminate;
  try (specialize (H _ Hq); lia).
  inversion Hq; subst. apply (H13 s). rewrite E. reflexivity.
Qed.

(* I15: the cleanup path is only entered with code XOk or XFail *)
Definition pnopc (c : ppc) : bool := match c with PRmPid XNop | PUnlock XNop => true | _ => false end.
Definition I15 (st : jobdir) := forall p, pnopc (procs st p) = false.
Lemma I15_step : forall st l st', I15 st -> step st l st' -> I15 st'.
Proof.
  intros st l st' H Hs q. destruct l; destr_step Hs; simp; try (apply H);
  upd_cases; simp; try reflexivity; try (apply H);
  try (destruct (script st); reflexivity); try (destruct (done st); reflexivity);
  try (specialize (H p); rewrite E in H; destruct c; simpl in *; congruence).
Qed.

(* ------------------------------------------------------------------ the invariant *)
Definition Inv (st : jobdir) : Prop :=
  I1 st /\ I2 st /\ I3 st /\ I4 st /\ I5 st /\ I6 st /\ I7 st /\ I8 st /\ I9 st /\ I11 st /\
  I12 st /\ I13 st /\ I14 st /\ I15 st.

Lemma Inv_initial : forall st, initial st -> Inv st.
Proof.
  intros st (Hp & Hn & Hs & Hl & Hr & Ha & Hi & Hla & Hsu & Hab & Hd0 & Hpid).
  unfold Inv, I1, I2, I3, I4, I5, I6, I7, I8, I9, I11, I12, I13, I14, I15, Cnt.
  repeat split; intros; rewrite ?Hp, ?Hs in *; simpl in *; try discriminate; try lia; try congruence.
Qed.

Lemma Inv_step : forall st l st', Inv st -> step st l st' -> Inv st'.
Proof.
  intros st l st' (H1 & H2 & H3 & H4 & H5 & H6 & H7 & H8 & H9 & H11 & H12 & H13 & H14 & H15) Hs.
  unfold Inv. repeat (match goal with |- _ /\ _ => split end);
  eauto using I1_step, I2_step, I3_step, I4_step, I5_step, I6_step, I7_step, I8_step, I9_step,
              I11_step, I12_step, I13_step, I14_step, I15_step.
Qed.

Lemma Inv_steps : forall st tr st', steps st tr st' -> Inv st -> Inv st'.
Proof. induction 1; intros; eauto using Inv_step. Qed.
Lemma Inv_reachable : forall st, reachable st -> Inv st.
Proof. intros st (st0 & tr & Hi & Hs). eapply Inv_steps; eauto using Inv_initial. Qed.

Lemma steps_app : forall st tr1 st1 tr2 st2, steps st tr1 st1 -> steps st1 tr2 st2 -> steps st (tr1 ++ tr2) st2.
Proof. induction 1; intros; simpl; [assumption|econstructor; eauto]. Qed.
Lemma reachable_steps : forall st tr st', reachable st -> steps st tr st' -> reachable st'.
Proof. intros st tr st' (st0 & tr0 & Hi & Hs) H. exists st0, (tr0 ++ tr). split; [assumption|eapply steps_app; eauto]. Qed.
Lemma run_labels_steps : forall tr st st', run_labels tr st = Some st' -> steps st tr st'.
Proof.
  induction tr as [|l tr IH]; simpl; intros st st' H.
  - inversion H; subst. constructor.
  - destruct (lstep l st) as [st1|] eqn:E; [|discriminate]. econstructor; [exact E|eauto].
Qed.

(* ---------------------------------------------------------------- C05 theorems *)

(* body_mutex: in every reachable state of N schedulers (crashes, restarts, kills included)
   at most one process is inside the body of the job *)
Lemma body_mutex : forall st, reachable st ->
  body_active st <= 1 /\ (forall p q, procs st p = PBody -> procs st q = PBody -> p = q).
Proof.
  intros st Hr. destruct (Inv_reachable _ Hr) as (H1 & _ & [_ [B1 _]] & _). split; [assumption|].
  intros p q Hp Hq. eapply (uniq_locked st); eauto; [rewrite Hq|rewrite Hp]; reflexivity.
Qed.

(* no_rerun_after_success: once the marker exists, no BodyBegin effect occurs any more *)
Lemma no_begin_when_done : forall st p st', Inv st -> done st = true -> step st (LBegin p) st' -> False.
Proof.
  intros st p st' (_ & _ & _ & H4 & _) Hd Hs. destr_step Hs. specialize (H4 Hd p). rewrite E in H4. discriminate.
Qed.
Lemma body_runs_only_begin : forall st l st', step st l st' ->
  (forall p, l <> LBegin p) -> body_runs st' = body_runs st.
Proof. intros st l st' Hs Hl. destruct l; destr_step Hs; simp; try reflexivity. exfalso. eapply Hl; reflexivity. Qed.

Lemma no_rerun_after_success : forall st tr st', reachable st -> done st = true -> steps st tr st' ->
  (forall p, ~ In (LBegin p) tr) /\ body_runs st' = body_runs st.
Proof.
  intros st tr st' Hr Hd Hs. apply Inv_reachable in Hr. induction Hs as [st|st l st1 tr st' H1 Hs IH].
  - split; [intros p []|reflexivity].
  - assert (Hl : forall p, l <> LBegin p).
    { intros p ->. eapply no_begin_when_done; eauto. }
    destruct (IH (Inv_step _ _ _ Hr H1) (done_mono _ _ _ H1 Hd)) as [IH1 IH2]. split.
    + intros p [Hp|Hp]; [eapply Hl; eauto|eapply IH1; eauto].
    + rewrite IH2. eapply body_runs_only_begin; eauto.
Qed.

(* done_never_launched: if the marker exists when the schedulers (any number of them, any
   number of later attempts) have not yet decided to start the job, no process is ever
   launched for it.  No reachability hypothesis: arbitrary prior contents, arbitrary
   processes.                                                                          *)
Definition snolaunch (c : spc) : bool :=
  match c with STrunc | SWrite | SSpawn => false | _ => true end.
Lemma sover_nolaunch : forall c, sover c = true -> snolaunch c = true.
Proof. destruct c; simpl; congruence. Qed.

Lemma nolaunch_step : forall st l st', done st = true -> (forall s, snolaunch (scheds st s) = true) ->
  step st l st' -> (forall s, snolaunch (scheds st' s) = true) /\ launches st' = launches st.
Proof.
  intros st l st' Hd Hn Hs.
  destruct l; destr_step Hs; simp;
  try (split; [assumption|reflexivity]);
  try (match goal with E : scheds st ?s = _ |- _ => specialize (Hn s); rewrite E in Hn; discriminate Hn end);
  try (split; [intros q; upd_cases; [reflexivity|apply Hn]|reflexivity]);
  try congruence.
Qed.

Lemma done_never_launched : forall st tr st', done st = true ->
  (forall s, snolaunch (scheds st s) = true) -> steps st tr st' ->
  launches st' = launches st /\ (forall s, ~ In (LSpawn s) tr).
Proof.
  intros st tr st' Hd Hn Hs. induction Hs as [st|st l st1 tr st' H1 Hs IH].
  - split; [reflexivity|intros s []].
  - destruct (nolaunch_step _ _ _ Hd Hn H1) as [Hn1 Hl1].
    destruct (IH (done_mono _ _ _ H1 Hd) Hn1) as [IH1 IH2]. split; [congruence|].
    intros s [Hin|Hin]; [|eapply IH2; eauto]. subst l. destr_step H1.
    specialize (Hn s). rewrite E in Hn. discriminate.
Qed.

(* the form named in the property: any later experiment, i.e. all instances start afresh *)
Lemma done_never_launched_later : forall st tr st', done st = true ->
  (forall s, sover (scheds st s) = true) -> steps st tr st' -> launches st' = launches st.
Proof.
  intros st tr st' Hd Ho Hs. eapply done_never_launched; eauto. intros s. apply sover_nolaunch, Ho.
Qed.

(* ==================================================================
   Single scheduler slot (the same experiment run again and again)
   ================================================================== *)
Definition J1 (st : jobdir) := forall s, s <> 0 -> scheds st s = SIdle.
Definition J2 (st : jobdir) := sprelaunch (scheds st 0) = true -> forall p, pidf st = PFSome p -> alive (procs st p) = false.
Definition J7 (st : jobdir) := scheds st 0 = SSpawn -> script st = SFull.
Definition goodproc (st : jobdir) (p : nat) := (procs st p = PExec -> script st = SFull) /\ procs st p <> PExit XNop.
Definition J3 (st : jobdir) := forall p, pidf st = PFSome p -> goodproc st p.
Definition J4 (st : jobdir) := forall p, schild (scheds st 0) = Some p -> goodproc st p.
Definition J5 (st : jobdir) := scheds st 0 = SFinal VDone -> done st = true.
Definition J8 (st : jobdir) := forall d, scheds st 0 = STest2 true d -> done st = true \/ 1 <= aborts st.

Ltac single Hl := simpl in Hl; unfold lbl_single in Hl; simpl in Hl; try subst.

Lemma J1_step : forall st l st', lbl_single l -> J1 st -> step st l st' -> J1 st'.
Proof.
  intros st l st' Hl H Hs q Hq. destruct l; single Hl; destr_step Hs; simp;
  try (apply H; assumption); upd_cases; try congruence; apply H; assumption.
Qed.

Lemma alive_not : forall c, alive c = false -> c = PNone \/ exists x, c = PExit x.
Proof. destruct c; simpl; intros; try discriminate; eauto. Qed.

Lemma J2_step : forall st l st', lbl_single l -> Inv st -> J1 st -> J2 st -> step st l st' -> J2 st'.
Proof.
  intros st l st' Hl HI H1 H Hs Hq x Hx.
  destruct HI as (_ & _ & _ & _ & _ & _ & H7 & _ & _ & _ & H12 & _ & H14 & _).
  destruct l; single Hl; destr_step Hs; simp;
  try (rewrite upd_same in Hq; simpl in Hq); try discriminate;
  try (inversion Hx; subst; assumption);
  try (assert (Hold : alive (procs st x) = false)
         by (apply H; [first [assumption | rewrite E; reflexivity | rewrite E0; reflexivity] | assumption]);
       upd_cases; simp; first [exact Hold | rewrite E in Hold; discriminate Hold | rewrite E0 in Hold; discriminate Hold | reflexivity]);
  try congruence.
Qed.

Lemma J7_step : forall st l st', lbl_single l -> J1 st -> J7 st -> step st l st' -> J7 st'.
Proof.
  intros st l st' Hl H1 H Hs Hq. destruct l; single Hl; destr_step Hs; simp;
  try (rewrite upd_same in Hq); try discriminate; try reflexivity;
  try (apply H; assumption).
Qed.

Lemma J3_step : forall st l st', lbl_single l -> Inv st -> J1 st -> J2 st -> J3 st -> J4 st -> step st l st' -> J3 st'.
Proof.
  intros st l st' Hl HI H1 H2 H H4 Hs x Hx.
  destruct HI as (_ & _ & _ & _ & _ & _ & H7 & _ & _ & _ & H12 & _ & H14 & H15).
  unfold goodproc in *.
  destruct l; single Hl; destr_step Hs; simp; try discriminate;
  try (apply H; assumption);
  try (pose proof (H _ Hx) as [Ha Hb]);
  try (split; [intros Hy|intros Hy]; upd_cases; simp; try discriminate; try reflexivity; try congruence; eauto).
  all: try (exfalso; assert (Hal : alive (procs st x) = false) by (apply H2; [rewrite E; reflexivity|assumption]); rewrite Hy in Hal; discriminate Hal);
    try (exfalso; specialize (H12 _ Hx); lia);
    try (inversion Hx; subst; destruct (H4 x) as [Hc Hd]; [rewrite E; reflexivity|]; first [apply Hc; assumption | apply Hd; assumption]);
    try (specialize (Ha E); congruence).
  inversion Hy; subst. specialize (H15 p). rewrite E in H15. discriminate.
Qed.

Lemma J4_step : forall st l st', lbl_single l -> Inv st -> J1 st -> J3 st -> J4 st -> J7 st -> step st l st' -> J4 st'.
Proof.
  intros st l st' Hl HI H1 H3 H H7' Hs x Hx.
  destruct HI as (_ & _ & _ & _ & _ & _ & H7 & _ & _ & _ & H12 & H13 & H14 & H15).
  unfold goodproc in *.
  destruct l; single Hl; destr_step Hs; simp;
  try (rewrite upd_same in Hx; simpl in Hx); try discriminate;
  try (apply H; rewrite E; assumption);
  try (apply H; assumption);
  try (inversion Hx; subst; first [apply H3; assumption | apply H; rewrite E; reflexivity]);
  try (pose proof (H _ Hx) as [Ha Hb]);
  try (split; [intros Hy|intros Hy]; upd_cases; simp; try discriminate; try reflexivity; try congruence; eauto).
  - specialize (Ha E). congruence.
  - inversion Hy; subst. specialize (H15 p). rewrite E in H15. discriminate.
Qed.

Lemma J5_step : forall st l st', lbl_single l -> Inv st -> J4 st -> J5 st -> step st l st' -> J5 st'.
Proof.
  intros st l st' Hl HI H4 H Hs Hq.
  destruct HI as (_ & _ & _ & _ & _ & _ & _ & H8 & H9 & _).
  destruct l; single Hl; destr_step Hs; simp;
  try (rewrite upd_same in Hq); try discriminate; try reflexivity; try assumption;
  try (apply H; assumption);
  try (eapply done_mono; [|apply H; assumption]; unfold step; simpl; rewrite ?E; reflexivity).
  - apply (H9 0). rewrite E. reflexivity.
  - destruct c; simpl in Hq; try discriminate.
    + apply (H8 p). rewrite E0. reflexivity.
    + exfalso. destruct (H4 p) as [_ Hn]; [rewrite E; reflexivity|]. apply Hn. assumption.
Qed.

Lemma J8_step : forall st l st', lbl_single l -> Inv st -> J4 st -> J8 st -> step st l st' -> J8 st'.
Proof.
  intros st l st' Hl HI H4 H Hs d Hq.
  assert (Hmono := done_mono _ _ _ Hs). assert (Hab := aborts_mono _ _ _ Hs).
  destruct HI as (_ & _ & _ & _ & _ & _ & _ & H8 & H9 & H11 & H12 & H13 & H14 & H15).
  destruct l; single Hl; destr_step Hs; simp;
  try (rewrite upd_same in Hq); try discriminate;
  try (destruct (H d Hq) as [Hd|Ha]; [left; auto | right; lia]).
  - exfalso. apply (H14 p); [apply (H13 0); rewrite E; reflexivity|assumption].
  - destruct c.
    + left. apply (H8 p). rewrite E0. reflexivity.
    + right. apply (H11 p). rewrite E0. reflexivity.
    + exfalso. destruct (H4 p) as [_ Hn]; [rewrite E; reflexivity|]. apply Hn. assumption.
Qed.

Definition Inv1 (st : jobdir) : Prop :=
  Inv st /\ J1 st /\ J2 st /\ J3 st /\ J4 st /\ J5 st /\ J7 st /\ J8 st.

Lemma Inv1_initial : forall st, initial st -> Inv1 st.
Proof.
  intros st Hi. split; [apply Inv_initial; assumption|].
  destruct Hi as (Hp & Hn & Hs & Hl & Hr & Ha & Hi & Hla & Hsu & Hab & Hd0 & Hpid).
  unfold J1, J2, J3, J4, J5, J7, J8, goodproc.
  repeat split; intros; rewrite ?Hs, ?Hp in *; simpl in *; try discriminate; try congruence; auto.
Qed.

Lemma Inv1_step : forall st l st', lbl_single l -> Inv1 st -> step st l st' -> Inv1 st'.
Proof.
  intros st l st' Hl (HI & H1 & H2 & H3 & H4 & H5 & H7 & H8) Hs.
  unfold Inv1. repeat (match goal with |- _ /\ _ => split end);
  eauto using Inv_step, J1_step, J2_step, J3_step, J4_step, J5_step, J7_step, J8_step.
Qed.

(* a scheduler concludes ERROR only for a cause: a failed/killed run, or a failed dependency *)
Lemma verr_cause : forall st l st', lbl_single l -> Inv1 st -> step st l st' -> l <> LDepFail 0 ->
  scheds st' 0 = SFinal VError -> scheds st 0 = SFinal VError \/ 1 <= aborts st'.
Proof.
  intros st l st' Hl (HI & H1 & H2 & H3 & H4 & H5 & H7 & H8) Hs Hne Hq.
  destruct HI as (_ & _ & _ & _ & _ & _ & _ & I8' & I9' & I11' & _).
  destruct l; single Hl; destr_step Hs; simp;
  try (rewrite upd_same in Hq); try discriminate; try congruence; try (left; assumption).
  - right. destruct (H8 d E) as [Hd|Ha]; [congruence|assumption].
  - right. destruct c; simpl in Hq; try discriminate. apply (I11' p). rewrite E0. reflexivity.
Qed.

(* ==================================================================
   Part 3.  Several jobs
   ================================================================== *)
Section GlobalLemmas.
  Variable deps : nat -> list nat.

  Lemma crash_cases : forall s st, (exists st', lstep (LCrash s) st = Some st' /\
      (match lstep (LCrash s) st with Some st' => st' | None => st end) = st') \/
    (lstep (LCrash s) st = None /\ (match lstep (LCrash s) st with Some st' => st' | None => st end) = st).
  Proof. intros s st. destruct (lstep (LCrash s) st) eqn:E; [left; eauto|right; auto]. Qed.

  (* a property of single job directories that every local effect preserves holds of every
     job of the composed system *)
  Lemma glift : forall (P : jobdir -> Prop),
    (forall st l st', P st -> step st l st' -> P st') ->
    forall g g', gstep deps g g' -> (forall j, P (jd g j)) -> forall j, P (jd g' j).
  Proof.
    intros P HP g g' Hs Hall k. inversion Hs; subst; cbn [jd].
    - unfold upd. destruct (Nat.eqb_spec k j); [subst; eapply HP; eauto|apply Hall].
    - unfold upd. destruct (Nat.eqb_spec k j); [subst; eapply HP; eauto|apply Hall].
    - unfold upd. destruct (Nat.eqb_spec k j); [subst; eapply HP; eauto|apply Hall].
    - destruct (crash_cases s (jd g k)) as [(st' & E & ->)|[E ->]]; [eapply HP; eauto|apply Hall].
  Qed.
  Lemma glift1 : forall (P : jobdir -> Prop),
    (forall st l st', lbl_single l -> P st -> step st l st' -> P st') ->
    forall g g', gstep1 deps g g' -> (forall j, P (jd g j)) -> forall j, P (jd g' j).
  Proof.
    intros P HP g g' Hs Hall k. inversion Hs; subst; cbn [jd].
    - unfold upd. destruct (Nat.eqb_spec k j); [subst; eapply HP; eauto|apply Hall].
    - unfold upd. destruct (Nat.eqb_spec k j); [subst; eapply (HP _ (LReady 0)); eauto; reflexivity|apply Hall].
    - unfold upd. destruct (Nat.eqb_spec k j); [subst; eapply (HP _ (LDepFail 0)); eauto; reflexivity|apply Hall].
    - destruct (crash_cases 0 (jd g k)) as [(st' & E & ->)|[E ->]]; [eapply (HP _ (LCrash 0)); eauto; reflexivity|apply Hall].
  Qed.

  Lemma gsteps_inv : forall (P : jobdir -> Prop),
    (forall st l st', P st -> step st l st' -> P st') ->
    forall g g', gsteps deps g g' -> (forall j, P (jd g j)) -> forall j, P (jd g' j).
  Proof. intros P HP g g' Hs. induction Hs; intros Hall; [assumption|]. apply IHHs. eapply glift; eauto. Qed.
  Lemma gsteps1_inv : forall (P : jobdir -> Prop),
    (forall st l st', lbl_single l -> P st -> step st l st' -> P st') ->
    forall g g', gsteps1 deps g g' -> (forall j, P (jd g j)) -> forall j, P (jd g' j).
  Proof. intros P HP g g' Hs. induction Hs; intros Hall; [assumption|]. apply IHHs. eapply glift1; eauto. Qed.

  Lemma greachable_Inv : forall g, greachable deps g -> forall j, Inv (jd g j).
  Proof.
    intros g (g0 & Hi & Hs). eapply (gsteps_inv Inv); eauto using Inv_step.
    intros j. apply Inv_initial, Hi.
  Qed.
  Lemma greachable1_Inv1 : forall g, greachable1 deps g -> forall j, Inv1 (jd g j).
  Proof.
    intros g (g0 & Hi & Hs). eapply (gsteps1_inv Inv1); eauto using Inv1_step.
    intros j. apply Inv1_initial, Hi.
  Qed.
  Lemma greachable1_done0 : forall g, greachable1 deps g -> forall j, done0 (jd g j) = false.
  Proof.
    intros g (g0 & Hi & Hs). eapply (gsteps1_inv (fun st => done0 st = false)); eauto.
    - intros st l st' _ H Hst. rewrite (done0_const _ _ _ Hst). assumption.
    - intros j. destruct (Hi j) as [Hini Hd]. destruct Hini as (_ & _ & _ & _ & _ & _ & _ & _ & _ & _ & Hd0 & _). congruence.
  Qed.

  (* the body of a job runs at most once more than the number of failed or killed runs *)
  Lemma runs_le : forall st, Inv st -> body_runs st <= 1 + aborts st.
  Proof.
    intros st (_ & _ & [[A1 [A2 A3]] _] & H4 & [H5 _] & (H6 & _) & _).
    destruct (done st) eqn:Hd.
    - assert (inflight st = 0).
      { destruct (inflight st) as [|[|k]]; [reflexivity| |lia]. destruct (A3 eq_refl) as [w Hw].
        specialize (H4 Hd w). destruct (procs st w); simpl in *; discriminate. }
      lia.
    - lia.
  Qed.

  Lemma exactly_once_le : forall g, greachable deps g -> forall j, body_runs (jd g j) <= 1 + aborts (jd g j).
  Proof. intros g Hr j. apply runs_le, greachable_Inv. assumption. Qed.

  (* ERROR in the scheduler has a cause somewhere in the experiment *)
  Definition Gerr (g : gstate) : Prop :=
    forall j, scheds (jd g j) 0 = SFinal VError -> exists j', 1 <= aborts (jd g j').

  Lemma aborts_witness : forall g g', gstep1 deps g g' ->
    (exists j', 1 <= aborts (jd g j')) -> exists j', 1 <= aborts (jd g' j').
  Proof.
    intros g g' Hs [w Hw]. exists w.
    assert (aborts (jd g w) <= aborts (jd g' w)); [|lia].
    inversion Hs; subst; cbn [jd].
    - unfold upd. destruct (Nat.eqb_spec w j); [subst; eapply aborts_mono; eauto|lia].
    - unfold upd. destruct (Nat.eqb_spec w j); [subst; eapply aborts_mono; eauto|lia].
    - unfold upd. destruct (Nat.eqb_spec w j); [subst; eapply aborts_mono; eauto|lia].
    - destruct (crash_cases 0 (jd g w)) as [(st' & E & ->)|[E ->]]; [eapply aborts_mono; eauto|lia].
  Qed.

  Lemma Gerr_step : forall g g', (forall j, Inv1 (jd g j)) -> gstep1 deps g g' -> Gerr g -> Gerr g'.
  Proof.
    intros g g' HI Hs HG k Hk.
    assert (Hw := aborts_witness _ _ Hs).
    inversion Hs; subst; cbn [jd] in *.
    - unfold upd in Hk. destruct (Nat.eqb_spec k j); [subst k|apply Hw, (HG k Hk)].
      destruct (verr_cause _ _ _ H0 (HI j) H1) as [Ho|Ha]; auto.
      + intros ->. discriminate.
      + apply Hw, (HG j Ho).
      + exists j. rewrite upd_same. assumption.
    - unfold upd in Hk. destruct (Nat.eqb_spec k j); [subst k|apply Hw, (HG k Hk)].
      destruct (verr_cause _ (LReady 0) _ eq_refl (HI j) H0) as [Ho|Ha]; auto.
      + discriminate.
      + apply Hw, (HG j Ho).
      + exists j. rewrite upd_same. assumption.
    - unfold upd in Hk. destruct (Nat.eqb_spec k j); [subst k|apply Hw, (HG k Hk)].
      destruct H as (d & Hd & Hv). apply Hw, (HG d Hv).
    - destruct (crash_cases 0 (jd g k)) as [(st' & E & Heq)|[E Heq]]; rewrite Heq in Hk.
      + exfalso. clear Heq. destr_step E; simp; rewrite upd_same in Hk; discriminate.
      + apply Hw, (HG k Hk).
  Qed.

  Lemma greachable1_Gerr : forall g, greachable1 deps g -> Gerr g.
  Proof.
    intros g (g0 & Hi & Hs).
    assert (HI0 : forall j, Inv1 (jd g0 j)) by (intros j; apply Inv1_initial, Hi).
    assert (HG0 : Gerr g0).
    { intros j Hj. destruct (Hi j) as [(_ & _ & Hsch & _) _]. rewrite Hsch in Hj. discriminate. }
    clear Hi. induction Hs; [assumption|].
    apply IHHs.
    - eapply (glift1 Inv1); eauto using Inv1_step.
    - eapply Gerr_step; eauto.
  Qed.

  (* in a final state of a run (after any number of killed runs of the same experiment) in
     which no job run failed or was killed: every job is DONE, its marker exists, and its
     body ran exactly once overall                                                       *)
  Lemma final_all_done : forall n g, greachable1 deps g -> gfinal n g -> no_abort g ->
    forall j, j < n -> scheds (jd g j) 0 = SFinal VDone /\ done (jd g j) = true /\ body_runs (jd g j) = 1.
  Proof.
    intros n g Hr Hf Hna j Hj.
    destruct (Hf j Hj) as [v Hv].
    assert (v = VDone).
    { destruct v; [reflexivity|]. destruct (greachable1_Gerr _ Hr j Hv) as [w Hw]. rewrite (Hna w) in Hw. lia. }
    subst v. destruct (greachable1_Inv1 _ Hr j) as (HI & _ & _ & _ & _ & H5 & _).
    assert (Hd := H5 Hv). split; [assumption|split; [assumption|]].
    assert (Hle := runs_le _ HI). rewrite (Hna j) in Hle.
    destruct HI as (_ & _ & _ & _ & [_ H5b] & (_ & H6 & _) & _).
    destruct (H6 Hd) as [H0|H1]; [rewrite (greachable1_done0 _ Hr j) in H0; discriminate|]. lia.
  Qed.

  Lemma exactly_once_final : forall n g, greachable1 deps g -> gfinal n g -> no_abort g ->
    forall j, j < n -> body_runs (jd g j) = 1.
  Proof. intros. eapply final_all_done; eauto. Qed.

  Lemma results_final : forall n g, greachable1 deps g -> gfinal n g -> no_abort g ->
    results n g = map (fun _ => (Some VDone, true)) (seq 0 n).
  Proof.
    intros n g Hr Hf Hna. unfold results. apply map_ext_in. intros j Hj. apply in_seq in Hj.
    destruct (final_all_done n g Hr Hf Hna j) as (Hv & Hd & _); [lia|]. rewrite Hv, Hd. reflexivity.
  Qed.

  (* any two runs that reach a final state without a failed job run - whether or not the
     scheduler was killed and the experiment started again on the way - have the same results *)
  Lemma same_results : forall n g1 g2,
    greachable1 deps g1 -> greachable1 deps g2 -> gfinal n g1 -> gfinal n g2 -> no_abort g1 -> no_abort g2 ->
    results n g1 = results n g2.
  Proof. intros. rewrite !results_final by assumption. reflexivity. Qed.

  (* the death of the scheduler touches no job process and no marker file, frees the locks it
     held and nothing else, and every effect a job process could perform it still can     *)
  Definition crash_of (s : nat) (g : gstate) : gstate :=
    {| jd := fun j => match lstep (LCrash s) (jd g j) with Some st' => st' | None => jd g j end |}.

  Lemma release_some : forall a l b, release a l = Some b -> l = Some b.
  Proof. intros a [c|] b H; simpl in H; [destruct (agent_eqb a c); congruence|discriminate]. Qed.

  (* whether an effect of a job process is enabled depends on the process table and, for
     Lock, on the lock being free *)
  Lemma proc_step_enabled : forall l st st1 st', lbl_sched l = None -> lstep l st = Some st1 ->
    procs st' = procs st -> (lock st = None -> lock st' = None) -> exists st1', lstep l st' = Some st1'.
  Proof.
    intros l st st1 st' Hl Hst Hp Hlk. destruct l; simpl in Hl; try discriminate; clear Hl;
    unfold lstep, lstep_with in *; cbv zeta in *; rewrite Hp;
    destruct (procs st p) eqn:E; cbn [alive] in *; try discriminate Hst; eauto.
    - destruct (lock st); [discriminate|]. rewrite (Hlk eq_refl). eauto.
    - destruct ok; eauto.
    - destruct cleanup; eauto.
  Qed.

  Lemma crash_survive : forall s st st', lstep (LCrash s) st = Some st' ->
    (forall p, procs st' p = procs st p) /\
    done st' = done st /\ failed st' = failed st /\ pidf st' = pidf st /\ script st' = script st /\
    body_runs st' = body_runs st /\ body_active st' = body_active st /\
    (forall a, lock st' = Some a -> lock st = Some a) /\
    (forall l st1, lbl_sched l = None -> lstep l st = Some st1 -> exists st1', lstep l st' = Some st1').
  Proof.
    intros s st st' E.
    assert (Hp : procs st' = procs st) by (destr_step E; simp; reflexivity).
    assert (Hl : lock st' = release (ASched s) (lock st)) by (destr_step E; simp; reflexivity).
    split; [intros p; rewrite Hp; reflexivity|].
    do 6 (split; [destr_step E; simp; reflexivity|]).
    split.
    - intros a Ha. rewrite Hl in Ha. eapply release_some; eauto.
    - intros l st1 Hn Hst. eapply proc_step_enabled; eauto. intros H0. rewrite Hl, H0. reflexivity.
  Qed.

  Lemma jobs_survive : forall s g j,
    let st := jd g j in let st' := jd (crash_of s g) j in
    (forall p, procs st' p = procs st p) /\
    done st' = done st /\ failed st' = failed st /\ pidf st' = pidf st /\ script st' = script st /\
    body_runs st' = body_runs st /\ body_active st' = body_active st /\
    (forall a, lock st' = Some a -> lock st = Some a) /\
    (forall l st1, lbl_sched l = None -> lstep l st = Some st1 -> exists st1', lstep l st' = Some st1').
  Proof.
    intros s g j. cbv zeta. unfold crash_of. cbn [jd].
    destruct (crash_cases s (jd g j)) as [(st' & E & ->)|[E ->]].
    - eapply crash_survive; eauto.
    - repeat split; auto. intros; eauto.
  Qed.
End GlobalLemmas.

(* ------------------------------------------------------------------ the executable composition is sound *)
Lemma is_vdone_eq : forall c, is_vdone c = true -> c = SFinal VDone.
Proof. destruct c as [| | | | | | | | | | | | | | |[|]| |]; simpl; congruence. Qed.
Lemma is_verror_eq : forall c, is_verror c = true -> c = SFinal VError.
Proof. destruct c as [| | | | | | | | | | | | | | |[|]| |]; simpl; congruence. Qed.

Lemma gexec_sound : forall deps m g g', gexec deps m g = Some g' -> gstep deps g g'.
Proof.
  intros deps m g g' H. destruct m as [j l|s]; simpl in H.
  - destruct l;
    try (destruct (lstep _ (jd g j)) eqn:E; inversion H; subst; eapply g_local; eauto; reflexivity).
    + destruct (forallb _ (deps j)) eqn:F; [|discriminate].
      destruct (lstep (LReady s) (jd g j)) eqn:E; inversion H; subst. eapply g_ready; eauto.
      intros d Hd. rewrite forallb_forall in F. apply is_vdone_eq, F, Hd.
    + destruct (existsb _ (deps j)) eqn:F; [|discriminate].
      destruct (lstep (LDepFail s) (jd g j)) eqn:E; inversion H; subst. eapply g_depfail; eauto.
      apply existsb_exists in F. destruct F as (d & Hd & Hv). exists d. split; [assumption|apply is_verror_eq, Hv].
  - inversion H; subst. apply g_crash.
Qed.

Lemma gexec_sound1 : forall deps m g g', gmove_single m = true -> gexec deps m g = Some g' -> gstep1 deps g g'.
Proof.
  intros deps m g g' Hm H. destruct m as [j l|s]; simpl in H, Hm.
  - destruct l; simpl in Hm; try (apply Nat.eqb_eq in Hm; subst);
    try (destruct (lstep _ (jd g j)) eqn:E; inversion H; subst; eapply g1_local; eauto; reflexivity).
    + destruct (forallb _ (deps j)) eqn:F; [|discriminate].
      destruct (lstep (LReady 0) (jd g j)) eqn:E; inversion H; subst. eapply g1_ready; eauto.
      intros d Hd. rewrite forallb_forall in F. apply is_vdone_eq, F, Hd.
    + destruct (existsb _ (deps j)) eqn:F; [|discriminate].
      destruct (lstep (LDepFail 0) (jd g j)) eqn:E; inversion H; subst. eapply g1_depfail; eauto.
      apply existsb_exists in F. destruct F as (d & Hd & Hv). exists d. split; [assumption|apply is_verror_eq, Hv].
  - apply Nat.eqb_eq in Hm. subst. inversion H; subst. apply g1_crash.
Qed.

Lemma grun_sound : forall deps ms g g', grun deps ms g = Some g' -> gsteps deps g g'.
Proof.
  induction ms as [|m ms IH]; simpl; intros g g' H.
  - inversion H; subst. constructor.
  - destruct (gexec deps m g) eqn:E; [|discriminate]. econstructor; [eapply gexec_sound; eauto|eauto].
Qed.
Lemma grun_sound1 : forall deps ms g g', forallb gmove_single ms = true -> grun deps ms g = Some g' -> gsteps1 deps g g'.
Proof.
  induction ms as [|m ms IH]; simpl; intros g g' Hs H.
  - inversion H; subst. constructor.
  - apply andb_true_iff in Hs. destruct Hs as [H1 H2].
    destruct (gexec deps m g) eqn:E; [|discriminate]. econstructor; [eapply gexec_sound1; eauto|eauto].
Qed.

Lemma fresh_initial : initial fresh.
Proof. unfold initial, fresh, mk_initial; simpl. repeat split; reflexivity. Qed.
Lemma gfresh0_fresh : gfresh gfresh0.
Proof. intros j. split; [apply fresh_initial|reflexivity]. Qed.
Lemma gfresh_ginitial : forall g, gfresh g -> ginitial g.
Proof. intros g H j. apply H. Qed.

(* ==================================================================
   Non-vacuity: concrete runs that meet the hypotheses of the theorems
   ================================================================== *)
Definition tr_sched_launch (s : nat) : list label :=
  [LSubmit s; LTest1 s; LPid s; LTest2 s; LReady s; LSLock s; LTest3 s; LTrunc s; LWrite s; LSpawn s; LCreatePid s; LWritePid s; LSUnlock s].
Definition tr_proc_begin (p : nat) : list label := [LExec p; LPLock p; LPTest p; LRmFailed p; LBegin p].
Definition tr_proc_skip (p : nat) : list label := [LExec p; LPLock p; LPTest p; LRmPid p; LPUnlock p].

(* two schedulers: scheduler 1 passed its tests before scheduler 0 wrote the pid file and took the job lock
   right after scheduler 0 released it (marker still absent): two processes; process 0 is inside the body,
   process 1 waits for the lock *)
Definition tr_two_scheds : list label :=
  [LSubmit 1; LTest1 1; LPid 1; LTest2 1; LReady 1] ++ tr_sched_launch 0 ++
  [LSLock 1; LTest3 1; LTrunc 1; LWrite 1; LSpawn 1; LCreatePid 1; LWritePid 1; LSUnlock 1] ++
  tr_proc_begin 0 ++ [LExec 1].
Definition st_two_scheds : jobdir :=
  match run_labels tr_two_scheds fresh with Some st => st | None => fresh end.
Example body_mutex_nonvacuous :
  reachable st_two_scheds /\ body_active st_two_scheds = 1 /\ procs st_two_scheds 0 = PBody /\
  procs st_two_scheds 1 = PLockW /\ lstep (LPLock 1) st_two_scheds = None /\ launches st_two_scheds = 2.
Proof.
  split; [|vm_compute; repeat split].
  exists fresh, tr_two_scheds. split; [apply fresh_initial|]. apply run_labels_steps. vm_compute. reflexivity.
Qed.

(* after the success: process 1 gets the lock, finds the marker and does not run the body; a third instance
   finds the marker and launches nothing *)
Definition tr_after_success : list label :=
  [LPLock 1; LPTest 1; LRmPid 1; LPUnlock 1] ++
  [LWaitEnd 1; LWaitEnd 0; LSubmit 2; LTest1 2; LPid 2; LTest2 2].
Definition st_success : jobdir :=
  match run_labels [LEnd 0 true; LTouch 0 false] st_two_scheds with Some st => st | None => fresh end.
Example no_rerun_nonvacuous :
  reachable st_success /\ done st_success = true /\
  exists st', steps st_success tr_after_success st' /\ body_runs st' = 1 /\ launches st' = 2 /\
              scheds st' 0 = SFinal VDone /\ scheds st' 1 = SFinal VDone /\ scheds st' 2 = SFinal VDone.
Proof.
  split; [|split; [vm_compute; reflexivity|]].
  - exists fresh, (tr_two_scheds ++ [LEnd 0 true; LTouch 0 false]). split; [apply fresh_initial|].
    apply run_labels_steps. vm_compute. reflexivity.
  - eexists. split; [apply run_labels_steps; vm_compute; reflexivity|]. vm_compute. repeat split.
Qed.

(* a workspace whose marker exists: three later experiments, one of them killed and started again *)
Definition tr_later : list label :=
  [LSubmit 0; LTest1 0; LSubmit 1; LTest1 1; LPid 0; LCrash 0; LPid 1; LTest2 1; LSubmit 0; LTest1 0; LPid 0; LTest2 0;
   LSubmit 2; LTest1 2; LPid 2; LTest2 2].
Example done_never_launched_nonvacuous :
  let st := mk_initial true true SFull in
  done st = true /\ (forall s, sover (scheds st s) = true) /\
  exists st', steps st tr_later st' /\ scheds st' 0 = SFinal VDone /\ scheds st' 1 = SFinal VDone /\
              scheds st' 2 = SFinal VDone /\ launches st' = 0.
Proof.
  simpl. split; [reflexivity|split; [reflexivity|]].
  eexists. split; [apply run_labels_steps; vm_compute; reflexivity|]. vm_compute. repeat split.
Qed.

(* C11, chain of two jobs.  Job 0: the scheduler is killed between Popen and the write of the pid
   file; the orphan process takes the lock and runs the body; the experiment is started again,
   finds neither marker nor pid file, blocks on the lock, gets it when the orphan has finished, finds the
   marker under the lock and launches nothing.  Job 1 is launched only after that.                                        *)
Definition on (j : nat) (tr : list label) : list gmove := map (GOn j) tr.
Definition mv_chain2_crash : list gmove :=
  on 0 [LSubmit 0; LTest1 0; LPid 0; LTest2 0; LReady 0; LSLock 0; LTest3 0; LTrunc 0; LWrite 0; LSpawn 0] ++
  on 1 [LSubmit 0; LTest1 0; LPid 0; LTest2 0] ++
  [GDie 0] ++
  on 0 (tr_proc_begin 0) ++
  on 0 [LSubmit 0; LTest1 0; LPid 0; LTest2 0; LReady 0] ++
  on 1 [LSubmit 0; LTest1 0; LPid 0; LTest2 0] ++
  on 0 [LEnd 0 true; LTouch 0 false; LSLock 0; LTest3 0] ++
  on 1 ([LReady 0; LSLock 0; LTest3 0; LTrunc 0; LWrite 0; LSpawn 0; LCreatePid 0; LWritePid 0; LSUnlock 0] ++ tr_proc_begin 0 ++
        [LEnd 0 true; LTouch 0 true; LRmPid 0; LPUnlock 0; LWaitEnd 0]).
Definition g_chain2_crash : gstate :=
  match grun deps_chain2 mv_chain2_crash gfresh0 with Some g => g | None => gfresh0 end.

Lemma g_chain2_crash_run : grun deps_chain2 mv_chain2_crash gfresh0 = Some g_chain2_crash.
Proof. vm_compute. reflexivity. Qed.

Example final_nonvacuous_chain2 :
  greachable1 deps_chain2 g_chain2_crash /\ gfinal 2 g_chain2_crash /\ no_abort g_chain2_crash /\
  launches (jd g_chain2_crash 0) = 1 /\ body_runs (jd g_chain2_crash 0) = 1 /\
  results 2 g_chain2_crash = [(Some VDone, true); (Some VDone, true)].
Proof.
  split; [|split; [|split]].
  - exists gfresh0. split; [apply gfresh0_fresh|]. eapply grun_sound1; [|apply g_chain2_crash_run]. vm_compute. reflexivity.
  - intros j Hj. destruct j as [|[|j]]; [eexists; vm_compute; reflexivity|eexists; vm_compute; reflexivity|lia].
  - intros j. destruct j as [|[|j]]; vm_compute; reflexivity.
  - vm_compute. repeat split.
Qed.

(* the job of a dependent is not READY before the dependency is DONE in the same instance *)
Example chain2_gate : gexec deps_chain2 (GOn 1 (LReady 0))
  (match grun deps_chain2 (on 1 [LSubmit 0; LTest1 0; LPid 0; LTest2 0]) gfresh0 with Some g => g | None => gfresh0 end) = None.
Proof. vm_compute. reflexivity. Qed.

(* tightness of exactly_once_le: a failed run is followed by a second run of the body *)
Definition tr_fail_rerun : list label :=
  tr_sched_launch 0 ++ tr_proc_begin 0 ++ [LEnd 0 false; LWriteFailed 0; LRmPid 0; LPUnlock 0; LWaitEnd 0] ++
  tr_sched_launch 0 ++ tr_proc_begin 1 ++ [LEnd 1 true; LTouch 1 false; LWaitEnd 0].
Example exactly_once_le_tight :
  exists st, reachable st /\ body_runs st = 2 /\ aborts st = 1 /\ done st = true /\ failed st = false.
Proof.
  eexists. split; [exists fresh, tr_fail_rerun; split; [apply fresh_initial|apply run_labels_steps; vm_compute; reflexivity]|].
  vm_compute. repeat split.
Qed.

(* a scheduler that dies while its job process is in the body: the process and the files are as before *)
Example jobs_survive_nonvacuous :
  let g := {| jd := fun _ => match run_labels (tr_sched_launch 0 ++ tr_proc_begin 0) fresh with Some st => st | None => fresh end |} in
  procs (jd g 0) 0 = PBody /\ scheds (jd g 0) 0 = SWait 0 /\
  procs (jd (crash_of 0 g) 0) 0 = PBody /\ scheds (jd (crash_of 0 g) 0) 0 = SDead /\ pidf (jd (crash_of 0 g) 0) = PFSome 0.
Proof. vm_compute. repeat split. Qed.

Lemma body_mutex_all_jobs : forall deps g, greachable deps g -> forall j, body_active (jd g j) <= 1.
Proof. intros deps g Hr j. destruct (greachable_Inv deps g Hr j) as (_ & _ & [_ [B1 _]] & _). assumption. Qed.

Lemma exactly_once_one_job : forall g, greachable1 deps_one g -> gfinal 1 g -> no_abort g ->
  body_runs (jd g 0) = 1 /\ results 1 g = [(Some VDone, true)].
Proof.
  intros g Hr Hf Hn. split; [eapply exactly_once_final; eauto|].
  rewrite (results_final _ _ _ Hr Hf Hn). reflexivity.
Qed.
Lemma exactly_once_chain2 : forall g, greachable1 deps_chain2 g -> gfinal 2 g -> no_abort g ->
  body_runs (jd g 0) = 1 /\ body_runs (jd g 1) = 1 /\ results 2 g = [(Some VDone, true); (Some VDone, true)].
Proof.
  intros g Hr Hf Hn. split; [eapply exactly_once_final; eauto|split; [eapply exactly_once_final; eauto|]].
  rewrite (results_final _ _ _ Hr Hf Hn). reflexivity.
Qed.
Lemma exactly_once_indep2 : forall g, greachable1 deps_indep2 g -> gfinal 2 g -> no_abort g ->
  body_runs (jd g 0) = 1 /\ body_runs (jd g 1) = 1 /\ results 2 g = [(Some VDone, true); (Some VDone, true)].
Proof.
  intros g Hr Hf Hn. split; [eapply exactly_once_final; eauto|split; [eapply exactly_once_final; eauto|]].
  rewrite (results_final _ _ _ Hr Hf Hn). reflexivity.
Qed.

(* ==================================================================
   No dead end: while the coroutine of a scheduler for a job is busy, some effect of a
   scheduler or of a job process (not a death, not a kill) is enabled.
   ================================================================== *)
Definition I1c (st : jobdir) := forall p, lock st = Some (AProc p) -> plocked (procs st p) = true.
Definition I2c (st : jobdir) := forall s, lock st = Some (ASched s) -> slocked (scheds st s) = true.
Definition NS (st : jobdir) := forall s, scheds st s <> SStuck.

Lemma release_inv : forall a l b, release a l = Some b -> l = Some b /\ a <> b.
Proof.
  intros a [c|] b H; simpl in H; [|discriminate].
  destruct (agent_eqb a c) eqn:E; [discriminate|]. inversion H; subst. split; [reflexivity|].
  intros ->. rewrite agent_eqb_refl in E. discriminate.
Qed.

Lemma I1c_step : forall st l st', I1 st -> I2 st -> I1c st -> step st l st' -> I1c st'.
Proof.
  intros st l st' H1 H2 H Hs q Hq. destruct l; destr_step Hs; simp;
  try (apply H; assumption);
  try (apply release_inv in Hq; destruct Hq as [Hq Hne]);
  try discriminate;
  upd_cases; simp; try reflexivity; try (apply H; assumption); try congruence;
  try (inversion Hq; subst; congruence);
  try (match goal with E : procs st ?p = _ |- _ => specialize (H1 p); rewrite E in H1; simpl in H1; specialize (H1 eq_refl); congruence end);
  try (match goal with E : procs st ?p = _ |- _ => specialize (H p Hq); rewrite E in H; simpl in H; congruence end);
  try (match goal with E : scheds st ?s = _ |- _ => specialize (H2 s); rewrite E in H2; simpl in H2; specialize (H2 eq_refl); congruence end).
Qed.

Lemma I2c_step : forall st l st', I1 st -> I2 st -> I2c st -> step st l st' -> I2c st'.
Proof.
  intros st l st' H1 H2 H Hs q Hq. destruct l; destr_step Hs; simp;
  try (apply H; assumption);
  try (apply release_inv in Hq; destruct Hq as [Hq Hne]);
  try discriminate;
  upd_cases; simp; try reflexivity; try (apply H; assumption); try congruence;
  try (inversion Hq; subst; congruence);
  try (match goal with E : scheds st ?s = _ |- _ => specialize (H2 s); rewrite E in H2; simpl in H2; specialize (H2 eq_refl); congruence end);
  try (match goal with E : scheds st ?s = _ |- _ => specialize (H s Hq); rewrite E in H; simpl in H; congruence end);
  try (match goal with E : procs st ?p = _ |- _ => specialize (H1 p); rewrite E in H1; simpl in H1; specialize (H1 eq_refl); congruence end).
Qed.

Lemma NS_step : forall st l st', NS st -> step st l st' -> NS st'.
Proof.
  intros st l st' H Hs q. destruct l; destr_step Hs; simp; try (apply H);
  upd_cases; try discriminate; try (apply H); try (destruct (done st); discriminate).
Qed.

Definition InvP (st : jobdir) := Inv st /\ I1c st /\ I2c st /\ NS st.
Lemma InvP_initial : forall st, initial st -> InvP st.
Proof.
  intros st Hi. split; [apply Inv_initial; assumption|].
  destruct Hi as (Hp & Hn & Hs & Hl & _). unfold I1c, I2c, NS.
  repeat split; intros; rewrite ?Hl, ?Hs in *; discriminate.
Qed.
Lemma InvP_step : forall st l st', InvP st -> step st l st' -> InvP st'.
Proof.
  intros st l st' (HI & Ha & Hb & Hc) Hs. assert (HI' := HI). destruct HI' as (H1 & H2 & _).
  unfold InvP. repeat (match goal with |- _ /\ _ => split end);
  eauto using Inv_step, I1c_step, I2c_step, NS_step.
Qed.
Lemma InvP_reachable : forall st, reachable st -> InvP st.
Proof.
  intros st (st0 & tr & Hi & Hs). apply InvP_initial in Hi. induction Hs; eauto using InvP_step.
Qed.

Definition can_progress (st : jobdir) : Prop := exists l st', progress_label l = true /\ lstep l st = Some st'.

Lemma proc_can_step : forall st p, alive (procs st p) = true -> procs st p <> PLockW -> can_progress st.
Proof.
  intros st p Ha Hn. unfold can_progress. destruct (procs st p) eqn:E; simpl in Ha; try discriminate; try congruence.
  - exists (LExec p). eexists. split; [reflexivity|]. unfold lstep, lstep_with. rewrite E. reflexivity.
  - exists (LPTest p). eexists. split; [reflexivity|]. unfold lstep, lstep_with. rewrite E. reflexivity.
  - exists (LRmFailed p). eexists. split; [reflexivity|]. unfold lstep, lstep_with. rewrite E. reflexivity.
  - exists (LBegin p). eexists. split; [reflexivity|]. unfold lstep, lstep_with. rewrite E. reflexivity.
  - exists (LEnd p true). eexists. split; [reflexivity|]. unfold lstep, lstep_with. rewrite E. reflexivity.
  - exists (LTouch p false). eexists. split; [reflexivity|]. unfold lstep, lstep_with. rewrite E. reflexivity.
  - exists (LWriteFailed p). eexists. split; [reflexivity|]. unfold lstep, lstep_with. rewrite E. reflexivity.
  - exists (LRmPid p). eexists. split; [reflexivity|]. unfold lstep, lstep_with. rewrite E. reflexivity.
  - exists (LPUnlock p). eexists. split; [reflexivity|]. unfold lstep, lstep_with. rewrite E. reflexivity.
Qed.

Lemma sched_locked_can_step : forall st s, slocked (scheds st s) = true -> can_progress st.
Proof.
  intros st s H. unfold can_progress. destruct (scheds st s) eqn:E; simpl in H; try discriminate.
  - exists (LTest3 s). unfold lstep, lstep_with. rewrite E. destruct (done st); eexists; split; reflexivity.
  - exists (LTrunc s). eexists. split; [reflexivity|]. unfold lstep, lstep_with. rewrite E. reflexivity.
  - exists (LWrite s). eexists. split; [reflexivity|]. unfold lstep, lstep_with. rewrite E. reflexivity.
  - exists (LSpawn s). eexists. split; [reflexivity|]. unfold lstep, lstep_with. rewrite E. reflexivity.
  - exists (LCreatePid s). eexists. split; [reflexivity|]. unfold lstep, lstep_with. rewrite E. reflexivity.
  - exists (LWritePid s). eexists. split; [reflexivity|]. unfold lstep, lstep_with. rewrite E. reflexivity.
  - exists (LSUnlock s). eexists. split; [reflexivity|]. unfold lstep, lstep_with. rewrite E. reflexivity.
Qed.

Lemma holder_can_step : forall st a, InvP st -> lock st = Some a -> can_progress st.
Proof.
  intros st a (_ & Ha & Hb & _) Hl. destruct a as [s|q].
  - eapply sched_locked_can_step. apply Hb. eassumption.
  - specialize (Ha q Hl). apply (proc_can_step st q); destruct (procs st q); simpl in *; congruence.
Qed.

Lemma alive_proc_progress : forall st p, InvP st -> alive (procs st p) = true -> can_progress st.
Proof.
  intros st p HI Ha. destruct (procs st p) eqn:E; try (apply (proc_can_step st p); rewrite E; [assumption|discriminate]).
  destruct (lock st) as [a|] eqn:El; [eapply holder_can_step; eauto|].
  exists (LPLock p). eexists. split; [reflexivity|]. unfold lstep, lstep_with. rewrite E, El. reflexivity.
Qed.

Lemma no_deadlock : forall st s, reachable st -> sbusy (scheds st s) = true -> can_progress st.
Proof.
  intros st s Hr Hb. assert (HI := InvP_reachable _ Hr).
  assert (HI' := HI). destruct HI' as (Hinv & _ & _ & Hns).
  destruct Hinv as (_ & _ & _ & _ & _ & _ & _ & _ & _ & _ & _ & H13 & H14 & _).
  destruct (scheds st s) eqn:E; simpl in Hb; try discriminate;
  try (eapply sched_locked_can_step; rewrite E; reflexivity).
  - exists (LTest1 s). eexists. split; [reflexivity|]. unfold lstep, lstep_with. rewrite E. reflexivity.
  - exists (LPid s). unfold lstep, lstep_with. rewrite E.
    destruct (pidf st) as [| |q]; [eexists; split; reflexivity|eexists; split; reflexivity|].
    destruct (alive (procs st q)); eexists; split; reflexivity.
  - destruct (alive (procs st p)) eqn:Ea; [eapply alive_proc_progress; eauto|].
    exists (LAdoptEnd s). eexists. split; [reflexivity|]. unfold lstep, lstep_with. rewrite E, Ea. reflexivity.
  - exists (LTest2 s). unfold lstep, lstep_with. rewrite E.
    destruct (done st); [eexists; split; reflexivity|]. destruct adopted; [eexists; split; reflexivity|].
    destruct d; eexists; split; reflexivity.
  - destruct (lock st) as [a|] eqn:El; [eapply holder_can_step; eauto|].
    exists (LSLock s). eexists. split; [reflexivity|]. unfold lstep, lstep_with. rewrite E, El. reflexivity.
  - destruct (alive (procs st p)) eqn:Ea; [eapply alive_proc_progress; eauto|].
    destruct (procs st p) eqn:Ep; simpl in Ea; try discriminate.
    + exfalso. apply (H14 p); [apply (H13 s); rewrite E; reflexivity|assumption].
    + exists (LWaitEnd s). eexists. split; [reflexivity|]. unfold lstep, lstep_with. rewrite E, Ep. reflexivity.
  - exfalso. apply (Hns s). assumption.
Qed.

(* the pinned code: the scheduler dies between creating the pid file and closing it; the job
   process finishes on its own; the same experiment run again is stuck for ever although the
   marker exists and nothing is running                                                        *)
Definition tr_empty_pid : list label :=
  [LSubmit 0; LTest1 0; LPid 0; LTest2 0; LReady 0; LSLock 0; LTrunc 0; LWrite 0; LSpawn 0; LCreatePid 0; LCrash 0] ++
  tr_proc_begin 0 ++ [LEnd 0 true; LTouch 0 false] ++ [LSubmit 0; LTest1 0; LPid 0].
Definition tr_empty_pid_ok : list label :=
  [LSubmit 0; LTest1 0; LPid 0; LTest2 0; LReady 0; LSLock 0; LTest3 0; LTrunc 0; LWrite 0; LSpawn 0; LCreatePid 0; LCrash 0] ++
  tr_proc_begin 0 ++ [LEnd 0 true; LTouch 0 false] ++ [LSubmit 0; LTest1 0; LPid 0; LTest2 0].
Lemma empty_pid_stuck_refuted : exists st,
  run_labels_prefix tr_empty_pid fresh = Some st /\ Forall lbl_single tr_empty_pid /\
  done st = true /\ body_runs st = 1 /\ (forall p, alive (procs st p) = false) /\ lock st = None /\
  sbusy (scheds st 0) = true /\
  (forall l, progress_label l = true -> lstep_prefix l st = None).
Proof.
  eexists. split; [vm_compute; reflexivity|]. split; [repeat constructor|].
  repeat split.
  - intros p. destruct p as [|p]; reflexivity.
  - intros l Hl. destruct l as [s|s|s|s|s|s|s|s|s|s|s|s|s|s|s|s|s|s|p|p|p|p|p|p ok|p c|p|p|p|p]; simpl in Hl; try discriminate;
    try (destruct s as [|s]; reflexivity); try (destruct p as [|p]; reflexivity).
Qed.
(* the same run with the repaired aio_process goes on: the marker is found *)
Example empty_pid_repaired : exists st,
  run_labels tr_empty_pid_ok fresh = Some st /\ scheds st 0 = SFinal VDone /\ body_runs st = 1.
Proof. eexists. split; [vm_compute; reflexivity|]. split; reflexivity. Qed.
Example no_deadlock_nonvacuous : reachable st_two_scheds /\ sbusy (scheds st_two_scheds 1) = true /\
  lstep (LPLock 1) st_two_scheds = None.
Proof. split; [apply body_mutex_nonvacuous|split; vm_compute; reflexivity]. Qed.

(* ==================================================================
   What C11 owes to the launcher: with the pinned launcher (children in the scheduler's process group)
   a Ctrl-C of the experiment kills the running job; the experiment run again runs the body a second time
   ================================================================== *)
Definition mv_group_signal_mid : list gmove := on 0 (tr_sched_launch 0 ++ tr_proc_begin 0) ++ [GDie 0].
Definition mv_group_signal : list gmove :=
  mv_group_signal_mid ++
  on 0 (tr_sched_launch 0 ++ tr_proc_begin 1 ++ [LEnd 1 true; LTouch 1 true; LRmPid 1; LPUnlock 1; LWaitEnd 0]).
(* a gstate is never read back from the VM (its normal form under the binder of jd is huge): only first-order
   observations are computed *)
Definition grun_group_or (deps : nat -> list nat) (ms : list gmove) : gstate :=
  match grun_group deps ms gfresh0 with Some g => g | None => gfresh0 end.
Definition gok_group (deps : nat -> list nat) (ms : list gmove) : bool :=
  match grun_group deps ms gfresh0 with Some _ => true | None => false end.
Lemma grun_group_some : forall deps ms, gok_group deps ms = true ->
  grun_group deps ms gfresh0 = Some (grun_group_or deps ms).
Proof. intros deps ms H. unfold gok_group, grun_group_or in *. destruct (grun_group deps ms gfresh0); [reflexivity|discriminate]. Qed.

Lemma group_signal_refuted : exists g gmid,
  grun_group deps_one mv_group_signal_mid gfresh0 = Some gmid /\
  grun_group deps_one mv_group_signal gfresh0 = Some g /\
  forallb gmove_single mv_group_signal = true /\ forallb quiet_move mv_group_signal = true /\
  (* right after the death of the scheduler: the job process is gone, a failure marker is there *)
  procs (jd gmid 0) 0 = PExit XFail /\ failed (jd gmid 0) = true /\ done (jd gmid 0) = false /\
  (* final state of the second run: DONE, but the body ran twice *)
  gfinal 1 g /\ scheds (jd g 0) 0 = SFinal VDone /\ done (jd g 0) = true /\ body_runs (jd g 0) = 2.
Proof.
  exists (grun_group_or deps_one mv_group_signal), (grun_group_or deps_one mv_group_signal_mid).
  split; [apply grun_group_some; vm_compute; reflexivity|].
  split; [apply grun_group_some; vm_compute; reflexivity|].
  split; [vm_compute; reflexivity|]. split; [vm_compute; reflexivity|].
  do 3 (split; [vm_compute; reflexivity|]).
  split; [intros j Hj; destruct j as [|j]; [eexists; vm_compute; reflexivity|lia]|].
  do 2 (split; [vm_compute; reflexivity|]). vm_compute. reflexivity.
Qed.
(* the same moves with a launcher that gives every job its own session (GDie touches no job process):
   the second run adopts the running process *)
Definition mv_group_signal_detached : list gmove :=
  on 0 (tr_sched_launch 0 ++ tr_proc_begin 0) ++ [GDie 0] ++
  on 0 ([LSubmit 0; LTest1 0; LPid 0] ++ [LEnd 0 true; LTouch 0 true; LRmPid 0; LPUnlock 0] ++ [LAdoptEnd 0; LTest2 0]).
Definition gstate_of (deps : nat -> list nat) (ms : list gmove) : gstate :=
  match grun deps ms gfresh0 with Some g => g | None => gfresh0 end.
Definition gok (deps : nat -> list nat) (ms : list gmove) : bool :=
  match grun deps ms gfresh0 with Some _ => true | None => false end.
Lemma grun_some : forall deps ms, gok deps ms = true -> grun deps ms gfresh0 = Some (gstate_of deps ms).
Proof. intros deps ms H. unfold gok, gstate_of in *. destruct (grun deps ms gfresh0); [reflexivity|discriminate]. Qed.
Example group_signal_detached :
  let g := gstate_of deps_one mv_group_signal_detached in
  grun deps_one mv_group_signal_detached gfresh0 = Some g /\
  scheds (jd g 0) 0 = SFinal VDone /\ body_runs (jd g 0) = 1 /\ launches (jd g 0) = 1.
Proof. cbv zeta. split; [apply grun_some; vm_compute; reflexivity|]. vm_compute. repeat (match goal with |- _ /\ _ => split end); reflexivity. Qed.

(* ==================================================================
   "running jobs are adopted rather than relaunched" (statements first proved by the audit, Audit_C11.v)
   ================================================================== *)
(* while the pid file names a live process, the scheduler is nowhere on the launch path (between a
   negative aio_process() and Popen), and Popen is not enabled *)
Lemma adopted_not_relaunched : forall deps g, greachable1 deps g ->
  forall j p, pidf (jd g j) = PFSome p -> alive (procs (jd g j) p) = true ->
  sprelaunch (scheds (jd g j) 0) = false /\ lstep (LSpawn 0) (jd g j) = None.
Proof.
  intros deps g Hr j p Hp Ha.
  destruct (greachable1_Inv1 deps g Hr j) as (_ & _ & H2 & _).
  assert (E : sprelaunch (scheds (jd g j) 0) = false).
  { destruct (sprelaunch (scheds (jd g j) 0)) eqn:E; [|reflexivity].
    rewrite (H2 E p Hp) in Ha. discriminate. }
  split; [assumption|]. unfold lstep, lstep_with.
  destruct (scheds (jd g j) 0); simpl in E; try reflexivity; discriminate.
Qed.

(* the faithful exception: a scheduler killed between Popen and the write of the pid file leaves a running
   job that no later run can see; the next run goes down the launch path and will start a second process
   (which queues behind the lock and skips the body) *)
Definition mv_orphan_run : list gmove :=
  on 0 [LSubmit 0; LTest1 0; LPid 0; LTest2 0; LReady 0; LSLock 0; LTest3 0; LTrunc 0; LWrite 0; LSpawn 0] ++ [GDie 0] ++
  on 0 (tr_proc_begin 0) ++ on 0 [LSubmit 0; LTest1 0; LPid 0; LTest2 0; LReady 0].
Lemma orphan_not_adopted : exists g,
  greachable1 deps_one g /\ procs (jd g 0) 0 = PBody /\ pidf (jd g 0) = PFNone /\
  scheds (jd g 0) 0 = SLock /\ sprelaunch (scheds (jd g 0) 0) = true /\ launches (jd g 0) = 1.
Proof.
  exists (gstate_of deps_one mv_orphan_run). split.
  - exists gfresh0. split; [apply gfresh0_fresh|].
    eapply grun_sound1 with (ms := mv_orphan_run); [vm_compute; reflexivity|].
    apply grun_some. vm_compute. reflexivity.
  - vm_compute. repeat split.
Qed.

(* ==================================================================
   The job script (repaired code: written aside and renamed): no job process ever reads an empty script,
   so DONE in a scheduler implies the marker - for any number of schedulers
   ================================================================== *)
Definition Kscript (st : jobdir) : Prop :=
  script st = SFull \/ (nprocs st = 0 /\ forall s, scheds st s <> SSpawn).
Definition NoNop (st : jobdir) : Prop := forall p, procs st p <> PExit XNop.

Lemma Kscript_step : forall st l st', Kscript st -> step st l st' -> Kscript st'.
Proof.
  intros st l st' H Hs. unfold Kscript in *.
  destruct l; destr_step Hs; simp; try assumption; try (left; reflexivity);
  try (destruct H as [H|[Hn Hq]]; [left; assumption|]);
  try (exfalso; match goal with E : scheds st ?s = SSpawn |- _ => apply (Hq s); assumption end);
  try (right; split; [assumption|]; intros q; upd_cases; try discriminate; try apply Hq;
       try (destruct (done st); discriminate)).
  right. destruct H as [H|H]; [discriminate|exact H].
Qed.

Lemma NoNop_step : forall st l st', Inv st -> Kscript st -> NoNop st -> step st l st' -> NoNop st'.
Proof.
  intros st l st' HI HK H Hs q.
  destruct HI as (_ & _ & _ & _ & _ & _ & H7 & _ & _ & _ & _ & _ & _ & H15).
  destruct l; destr_step Hs; simp; try (apply H);
  upd_cases; try discriminate; try (apply H); try (destruct (done st); discriminate).
  - (* LExec with an empty script: impossible once a process exists *)
    destruct HK as [HK|[Hn _]]; [congruence|]. rewrite (H7 p) in E by lia. discriminate.
  - intros Hc. inversion Hc; subst. specialize (H15 p). rewrite E in H15. discriminate.
Qed.

Definition InvS (st : jobdir) : Prop := Inv st /\ Kscript st /\ NoNop st.
Lemma InvS_initial : forall st, initial st -> InvS st.
Proof.
  intros st Hi. split; [apply Inv_initial; assumption|].
  destruct Hi as (Hp & Hn & Hs & _). split.
  - right. split; [assumption|]. intros s. rewrite Hs. discriminate.
  - intros p. rewrite Hp. discriminate.
Qed.
Lemma InvS_step : forall st l st', InvS st -> step st l st' -> InvS st'.
Proof.
  intros st l st' (HI & HK & HN) Hs.
  split; [eapply Inv_step; eauto|split; [eapply Kscript_step; eauto|eapply NoNop_step; eauto]].
Qed.
Lemma InvS_reachable : forall st, reachable st -> InvS st.
Proof. intros st (st0 & tr & Hi & Hs). apply InvS_initial in Hi. induction Hs; eauto using InvS_step. Qed.

Definition Truthful (st : jobdir) : Prop := forall s, scheds st s = SFinal VDone -> done st = true.
Lemma Truthful_step : forall st l st', InvS st -> Truthful st -> step st l st' -> Truthful st'.
Proof.
  intros st l st' (HI & HK & HN) H Hs q Hq.
  destruct HI as (_ & _ & _ & _ & _ & _ & _ & H8 & H9 & _).
  destruct l; destr_step Hs; simp;
  try (eapply H; eassumption);
  upd_cases; try discriminate; try reflexivity; try assumption;
  try (eapply H; eassumption);
  try (apply (H9 s); rewrite E; reflexivity).
  (* LWaitEnd: the exit code of the child *)
  destruct c; simpl in Hq; try discriminate.
  - apply (H8 p). rewrite E0. reflexivity.
  - exfalso. apply (HN p). assumption.
Qed.

(* DONE in any scheduler implies the success marker (N schedulers, crashes, kills) *)
Lemma done_truthful : forall st, reachable st -> forall s, scheds st s = SFinal VDone -> done st = true.
Proof.
  intros st (st0 & tr & Hi & Hs).
  assert (H0 : InvS st0 /\ Truthful st0).
  { split; [apply InvS_initial; assumption|]. destruct Hi as (_ & _ & Hsch & _). intros s Hq. rewrite Hsch in Hq. discriminate. }
  clear Hi. induction Hs; [apply H0|]. apply IHHs. destruct H0 as [HI HT].
  split; [eapply InvS_step; eauto|eapply Truthful_step; eauto].
Qed.

(* the pinned code (script rewritten in place): scheduler 1 empties the script while the process started by
   scheduler 0 has not read it yet; the process exits 0 and scheduler 0 reports DONE - no marker, no body *)
Definition tr_truncated : list label :=
  [LSubmit 0; LTest1 0; LPid 0; LTest2 0; LReady 0; LSubmit 1; LTest1 1; LPid 1; LTest2 1; LReady 1] ++
  [LSLock 0; LTrunc 0; LWrite 0; LSpawn 0; LCreatePid 0; LWritePid 0; LSUnlock 0] ++
  [LSLock 1; LTrunc 1; LExec 0; LWaitEnd 0].
Lemma truncated_script_refuted : exists st,
  run_labels_prefix tr_truncated fresh = Some st /\
  scheds st 0 = SFinal VDone /\ done st = false /\ body_runs st = 0 /\ procs st 0 = PExit XNop.
Proof. eexists. split; [vm_compute; reflexivity|]. repeat split. Qed.
(* the same schedule with the repaired code: the process reads a complete script *)
Definition tr_truncated_ok : list label :=
  [LSubmit 0; LTest1 0; LPid 0; LTest2 0; LReady 0; LSubmit 1; LTest1 1; LPid 1; LTest2 1; LReady 1] ++
  [LSLock 0; LTest3 0; LTrunc 0; LWrite 0; LSpawn 0; LCreatePid 0; LWritePid 0; LSUnlock 0] ++
  [LSLock 1; LTest3 1; LTrunc 1; LExec 0].
Example truncated_script_repaired : exists st,
  run_labels tr_truncated_ok fresh = Some st /\ procs st 0 = PLockW /\ scheds st 0 = SWait 0.
Proof. eexists. split; [vm_compute; reflexivity|]. split; reflexivity. Qed.

(* the pinned aio_start did not test the marker again under the job lock: a scheduler that made both marker tests
   before the marker appeared and then waited for the lock launched a process after it existed (launches 1 -> 2);
   the process found the marker under the lock and skipped the body (body_runs stays 1) - but every launch
   truncates <name>.out / <name>.err, i.e. the output of the run that succeeded was lost                       *)
Definition tr_lam_1 : list label :=
  [LSubmit 1; LTest1 1; LPid 1; LTest2 1; LReady 1] ++
  [LSubmit 0; LTest1 0; LPid 0; LTest2 0; LReady 0; LSLock 0; LTrunc 0; LWrite 0; LSpawn 0; LCreatePid 0; LWritePid 0; LSUnlock 0] ++
  tr_proc_begin 0 ++ [LEnd 0 true; LTouch 0 true; LRmPid 0; LPUnlock 0].
Definition tr_lam_2 : list label :=
  [LSLock 1; LTrunc 1; LWrite 1; LSpawn 1; LCreatePid 1; LWritePid 1; LSUnlock 1] ++ tr_proc_skip 1 ++ [LWaitEnd 1].
Lemma launch_after_marker_refuted : exists st st',
  run_labels_prefix tr_lam_1 fresh = Some st /\ done st = true /\ scheds st 1 = SLock /\
  run_labels_prefix tr_lam_2 st = Some st' /\
  launches st = 1 /\ launches st' = 2 /\ body_runs st = 1 /\ body_runs st' = 1 /\ scheds st' 1 = SFinal VDone.
Proof.
  eexists. eexists. split; [vm_compute; reflexivity|]. split; [reflexivity|]. split; [reflexivity|].
  split; [vm_compute; reflexivity|]. repeat split.
Qed.
(* the repaired aio_start: the same scheduler finds the marker under the lock and launches nothing *)
Definition tr_lam_1_ok : list label :=
  [LSubmit 1; LTest1 1; LPid 1; LTest2 1; LReady 1] ++ tr_sched_launch 0 ++
  tr_proc_begin 0 ++ [LEnd 0 true; LTouch 0 true; LRmPid 0; LPUnlock 0].
Example launch_after_marker_repaired : exists st st',
  run_labels tr_lam_1_ok fresh = Some st /\ done st = true /\ scheds st 1 = SLock /\
  run_labels [LSLock 1; LTest3 1] st = Some st' /\ scheds st' 1 = SFinal VDone /\ launches st' = 1 /\ lock st' = None.
Proof.
  eexists. eexists. split; [vm_compute; reflexivity|]. split; [reflexivity|]. split; [reflexivity|].
  split; [vm_compute; reflexivity|]. repeat split.
Qed.

(* ==================================================================
   Possibility liveness: from every reachable state of a run without failed job run, the experiment can still be
   brought to a final state (every job DONE) by effects of the scheduler and of the job processes alone
   ================================================================== *)
Definition prank (c : ppc) : nat :=
  match c with
  | PNone | PExit _ => 0 | PUnlock _ => 1 | PRmPid _ => 2 | PWriteFailed => 3 | PTouch => 3 | PBody => 4
  | PBegin => 5 | PRmFailed => 6 | PTest => 7 | PLockW => 8 | PExec => 9
  end.
Definition srank (c : spc) : nat :=
  match c with
  | SFinal _ => 0 | SWait _ => 1 | SUnlock _ => 2 | SWritePid _ => 3 | SCreatePid _ => 4 | SSpawn => 5 | SWrite => 6
  | STrunc => 7 | STest3 => 8 | SLock => 9 | SReady => 10 | STest2 _ _ => 11 | SAdopt _ => 12 | SPid _ => 13 | STest1 => 14
  | SIdle | SDead | SStuck => 15
  end.
Fixpoint psumf (f : nat -> ppc) (n : nat) : nat :=
  match n with 0 => 0 | S k => psumf f k + prank (f k) end.
Definition mu (st : jobdir) : nat := 16 * srank (scheds st 0) + psumf (procs st) (nprocs st).

Lemma psumf_ext : forall f g n, (forall p, p < n -> f p = g p) -> psumf f n = psumf g n.
Proof. induction n; intros H; simpl; [reflexivity|]. rewrite IHn by (intros; apply H; lia). rewrite H by lia. reflexivity. Qed.
Lemma psumf_upd_lt : forall f n p c, p < n -> prank c < prank (f p) -> psumf (upd f p c) n < psumf f n.
Proof.
  induction n; intros p c Hp Hc; [lia|]. simpl. destruct (Nat.eq_dec p n).
  - subst. rewrite upd_same. rewrite (psumf_ext (upd f n c) f n); [lia|]. intros q Hq. apply upd_other. lia.
  - rewrite upd_other by lia. assert (psumf (upd f p c) n < psumf f n) by (apply IHn; [lia|assumption]). lia.
Qed.
Lemma psumf_new : forall f n c, psumf (upd f n c) (S n) = psumf f n + prank c.
Proof.
  intros. simpl. rewrite upd_same. rewrite (psumf_ext (upd f n c) f n); [reflexivity|]. intros q Hq. apply upd_other. lia.
Qed.

(* the effects used to finish a job: no death, no kill, no aborted start, no failing body, no cancelled job *)
Definition good (l : label) : bool :=
  match l with
  | LCrash _ | LKill _ | LAbort _ | LDepFail _ | LEnd _ false => false
  | _ => match lbl_sched l with Some s => Nat.eqb s 0 | None => true end
  end.

Lemma good_single : forall l, good l = true -> lbl_single l.
Proof. intros l H. unfold lbl_single. destruct l; simpl in *; try discriminate; try exact I; try (apply Nat.eqb_eq; assumption); destruct ok; try discriminate; exact I. Qed.
Lemma good_aborts : forall st l st', good l = true -> step st l st' -> aborts st' = aborts st.
Proof. intros st l st' Hg Hs. destruct l; simpl in Hg; try discriminate; destr_step Hs; simp; try reflexivity; discriminate. Qed.

Definition InvL (st : jobdir) : Prop := Inv1 st /\ InvP st.
Lemma InvL_step : forall st l st', lbl_single l -> InvL st -> step st l st' -> InvL st'.
Proof. intros st l st' Hl [H1 H2] Hs. split; [eapply Inv1_step; eauto|eapply InvP_step; eauto]. Qed.

Definition advances (st : jobdir) : Prop :=
  exists l st', good l = true /\ lstep l st = Some st' /\ mu st' < mu st.

Ltac adv l := exists l; eexists; split; [reflexivity|split; [unfold lstep, lstep_with; cbv zeta;
  repeat match goal with E : _ = _ |- _ => rewrite E end; reflexivity|]].

(* a job process that holds the lock, or is not waiting for it, can move *)
Lemma proc_advances : forall st p, InvL st -> aborts st = 0 -> alive (procs st p) = true -> procs st p <> PLockW -> advances st.
Proof.
  intros st p [H1 HP] Ha Hal Hn.
  assert (HI : Inv st) by (apply H1).
  destruct HI as (_ & _ & _ & _ & _ & _ & H7 & _ & _ & H11 & _).
  assert (Hp : p < nprocs st).
  { destruct (Nat.lt_ge_cases p (nprocs st)); [assumption|]. rewrite (H7 p) in Hal by assumption. discriminate. }
  destruct (procs st p) eqn:E; simpl in Hal; try discriminate; try congruence.
  - exists (LExec p). eexists. split; [reflexivity|]. split; [unfold lstep, lstep_with; rewrite E; reflexivity|].
    unfold mu. simp. apply Nat.add_lt_mono_l. apply psumf_upd_lt; [assumption|rewrite E; destruct (script st); simpl; lia].
  - exists (LPTest p). eexists. split; [reflexivity|]. split; [unfold lstep, lstep_with; rewrite E; reflexivity|].
    unfold mu. simp. apply Nat.add_lt_mono_l. apply psumf_upd_lt; [assumption|rewrite E; destruct (done st); simpl; lia].
  - exists (LRmFailed p). eexists. split; [reflexivity|]. split; [unfold lstep, lstep_with; rewrite E; reflexivity|].
    unfold mu. simp. apply Nat.add_lt_mono_l. apply psumf_upd_lt; [assumption|rewrite E; simpl; lia].
  - exists (LBegin p). eexists. split; [reflexivity|]. split; [unfold lstep, lstep_with; rewrite E; reflexivity|].
    unfold mu. simp. apply Nat.add_lt_mono_l. apply psumf_upd_lt; [assumption|rewrite E; simpl; lia].
  - exists (LEnd p true). eexists. split; [reflexivity|]. split; [unfold lstep, lstep_with; rewrite E; reflexivity|].
    unfold mu. simp. apply Nat.add_lt_mono_l. apply psumf_upd_lt; [assumption|rewrite E; simpl; lia].
  - exists (LTouch p false). eexists. split; [reflexivity|]. split; [unfold lstep, lstep_with; rewrite E; reflexivity|].
    unfold mu. simp. apply Nat.add_lt_mono_l. apply psumf_upd_lt; [assumption|rewrite E; simpl; lia].
  - exfalso. specialize (H11 p). rewrite E in H11. specialize (H11 eq_refl). lia.
  - exists (LRmPid p). eexists. split; [reflexivity|]. split; [unfold lstep, lstep_with; rewrite E; reflexivity|].
    unfold mu. simp. apply Nat.add_lt_mono_l. apply psumf_upd_lt; [assumption|rewrite E; simpl; lia].
  - exists (LPUnlock p). eexists. split; [reflexivity|]. split; [unfold lstep, lstep_with; rewrite E; reflexivity|].
    unfold mu. simp. apply Nat.add_lt_mono_l. apply psumf_upd_lt; [assumption|rewrite E; simpl; lia].
Qed.

(* the lock is held while scheduler 0 does not hold it: the holder is a job process, which can move *)
Lemma holder_advances : forall st a, InvL st -> aborts st = 0 -> lock st = Some a ->
  slocked (scheds st 0) = false -> advances st.
Proof.
  intros st a HL Ha Hl Hs. assert (HL' := HL). destruct HL' as [H1 (_ & H1c & H2c & _)].
  destruct H1 as (_ & J1' & _).
  destruct a as [s|q].
  - exfalso. specialize (H2c s Hl). destruct (Nat.eq_dec s 0); [subst; congruence|].
    rewrite (J1' s n) in H2c. discriminate.
  - specialize (H1c q Hl). apply (proc_advances st q HL Ha); destruct (procs st q); simpl in *; congruence.
Qed.

(* a live process can move, or the holder of the lock it waits for can *)
Lemma live_advances : forall st p, InvL st -> aborts st = 0 -> alive (procs st p) = true ->
  slocked (scheds st 0) = false -> advances st.
Proof.
  intros st p HL Ha Hal Hs.
  destruct (procs st p) eqn:E; try (apply (proc_advances st p HL Ha); rewrite E; [assumption|discriminate]).
  destruct (lock st) as [a|] eqn:El; [eapply holder_advances; eauto|].
  assert (Hp : p < nprocs st).
  { destruct HL as [H1 _]. assert (HI : Inv st) by (apply H1).
    destruct HI as (_ & _ & _ & _ & _ & _ & H7 & _).
    destruct (Nat.lt_ge_cases p (nprocs st)); [assumption|]. rewrite (H7 p) in E by assumption. discriminate. }
  exists (LPLock p). eexists. split; [reflexivity|]. split; [unfold lstep, lstep_with; rewrite E, El; reflexivity|].
  unfold mu. simp. apply Nat.add_lt_mono_l. apply psumf_upd_lt; [assumption|rewrite E; simpl; lia].
Qed.

Ltac sched_adv l E :=
  exists l; eexists; split; [reflexivity|]; split;
  [unfold lstep, lstep_with; rewrite E; reflexivity|unfold mu; simp; rewrite upd_same, E; simpl; lia].

(* as long as the job is not final in the scheduler, something can move and the measure decreases *)
Lemma job_advances : forall st, InvL st -> aborts st = 0 ->
  (forall v, scheds st 0 <> SFinal v) -> advances st.
Proof.
  intros st HL Ha Hnf. assert (HL' := HL). destruct HL' as [H1 (HI & _ & _ & Hns)].
  destruct HI as (_ & _ & _ & _ & _ & _ & H7 & _ & _ & _ & _ & H13 & H14 & _).
  destruct (scheds st 0) eqn:E.
  - sched_adv (LSubmit 0) E.
  - sched_adv (LTest1 0) E.
  - exists (LPid 0). unfold lstep, lstep_with. rewrite E.
    destruct (pidf st) as [| |q].
    + eexists. split; [reflexivity|]. split; [reflexivity|]. unfold mu; simp; rewrite upd_same, E; simpl; lia.
    + eexists. split; [reflexivity|]. split; [reflexivity|]. unfold mu; simp; rewrite upd_same, E; simpl; lia.
    + destruct (alive (procs st q)); eexists; (split; [reflexivity|]); (split; [reflexivity|]);
      unfold mu; simp; rewrite upd_same, E; simpl; lia.
  - destruct (alive (procs st p)) eqn:Eal.
    + apply (live_advances st p HL Ha Eal). rewrite E. reflexivity.
    + exists (LAdoptEnd 0). eexists. split; [reflexivity|]. split; [unfold lstep, lstep_with; rewrite E, Eal; reflexivity|].
      unfold mu; simp; rewrite upd_same, E; simpl; lia.
  - exists (LTest2 0). unfold lstep, lstep_with. rewrite E.
    destruct (done st); [eexists; split; [reflexivity|]; split; [reflexivity|]; unfold mu; simp; rewrite upd_same, E; simpl; lia|].
    destruct adopted; [eexists; split; [reflexivity|]; split; [reflexivity|]; unfold mu; simp; rewrite upd_same, E; simpl; lia|].
    destruct d; eexists; (split; [reflexivity|]); (split; [reflexivity|]); unfold mu; simp; rewrite upd_same, E; simpl; lia.
  - sched_adv (LReady 0) E.
  - destruct (lock st) as [a|] eqn:El.
    + apply (holder_advances st a HL Ha El). rewrite E. reflexivity.
    + exists (LSLock 0). eexists. split; [reflexivity|]. split; [unfold lstep, lstep_with; rewrite E, El; reflexivity|].
      unfold mu; simp; rewrite upd_same, E; simpl; lia.
  - exists (LTest3 0). unfold lstep, lstep_with. rewrite E.
    destruct (done st); eexists; (split; [reflexivity|]); (split; [reflexivity|]);
    unfold mu; simp; rewrite upd_same, E; simpl; lia.
  - sched_adv (LTrunc 0) E.
  - sched_adv (LWrite 0) E.
  - exists (LSpawn 0). eexists. split; [reflexivity|]. split; [unfold lstep, lstep_with; rewrite E; reflexivity|].
    unfold mu; simp. rewrite upd_same, E, psumf_new. simpl. lia.
  - sched_adv (LCreatePid 0) E.
  - sched_adv (LWritePid 0) E.
  - sched_adv (LSUnlock 0) E.
  - destruct (alive (procs st p)) eqn:Eal.
    + apply (live_advances st p HL Ha Eal). rewrite E. reflexivity.
    + destruct (procs st p) eqn:Ep; simpl in Eal; try discriminate.
      * exfalso. apply (H14 p); [apply (H13 0); rewrite E; reflexivity|assumption].
      * exists (LWaitEnd 0). eexists. split; [reflexivity|]. split; [unfold lstep, lstep_with; rewrite E, Ep; reflexivity|].
        unfold mu; simp; rewrite upd_same, E; simpl; lia.
  - exfalso. apply (Hnf v). reflexivity.
  - sched_adv (LSubmit 0) E.
  - exfalso. apply (Hns 0). assumption.
Qed.

Lemma job_completes : forall n st, mu st < n -> InvL st -> aborts st = 0 -> scheds st 0 <> SFinal VError ->
  exists tr st', steps st tr st' /\ forallb good tr = true /\ scheds st' 0 = SFinal VDone /\ aborts st' = 0 /\ InvL st'.
Proof.
  induction n; intros st Hmu HL Ha Hne; [lia|].
  assert (Hcase : scheds st 0 = SFinal VDone \/ forall v, scheds st 0 <> SFinal v).
  { destruct (scheds st 0) eqn:E; try (right; intros v'; discriminate). destruct v; [left; reflexivity|congruence]. }
  destruct Hcase as [Hd|Hnf].
  - exists [], st. split; [constructor|]. split; [reflexivity|]. split; [assumption|]. split; assumption.
  - destruct (job_advances st HL Ha Hnf) as (l & st1 & Hg & Hs & Hlt).
    assert (Hsing := good_single l Hg).
    assert (Ha1 : aborts st1 = 0) by (rewrite (good_aborts st l st1 Hg Hs); assumption).
    assert (HL1 : InvL st1) by (eapply InvL_step; eauto).
    assert (Hne1 : scheds st1 0 <> SFinal VError).
    { intros Hv. destruct HL as [H1 _].
      destruct (verr_cause st l st1 Hsing H1 Hs) as [Ho|Hab]; [intros ->; discriminate Hg|assumption|congruence|lia]. }
    destruct (IHn st1 ltac:(lia) HL1 Ha1 Hne1) as (tr & st' & Hst & Hgt & Hf & Haf & HLf).
    exists (l :: tr), st'. split; [econstructor; [exact Hs|exact Hst]|].
    split; [simpl; rewrite Hg, Hgt; reflexivity|]. split; [assumption|]. split; assumption.
Qed.

Section GlobalLive.
  Variable deps : nat -> list nat.
  Hypothesis acyclic : forall j d, In d (deps j) -> d < j.

  Lemma gsteps1_trans : forall g1 g2 g3, gsteps1 deps g1 g2 -> gsteps1 deps g2 g3 -> gsteps1 deps g1 g3.
  Proof. induction 1; intros; [assumption|econstructor; eauto]. Qed.

  (* a run of good effects of one job is a run of the composed system: the dependencies, DONE before, stay DONE *)
  Lemma lift_steps : forall st tr st', steps st tr st' -> forallb good tr = true ->
    forall g k, jd g k = st -> deps_done deps g 0 k ->
    exists g', gsteps1 deps g g' /\ jd g' k = st' /\ (forall j, j <> k -> jd g' j = jd g j).
  Proof.
    induction 1 as [st|st l st1 tr st' Hs Hst IH]; intros Hg g k Hk Hd.
    - exists g. split; [constructor|split; [assumption|reflexivity]].
    - simpl in Hg. apply andb_true_iff in Hg. destruct Hg as [Hgl Hgt].
      set (g1 := {| jd := upd (jd g) k st1 |}).
      assert (Hstep : gstep1 deps g g1).
      { unfold step in Hs. rewrite <- Hk in Hs. destruct (is_gate l) eqn:Eg.
        - destruct l; simpl in Eg, Hgl; try discriminate. apply Nat.eqb_eq in Hgl. subst s.
          apply g1_ready; assumption.
        - apply g1_local with (l := l); [assumption|apply good_single; assumption|assumption]. }
      assert (Hk1 : jd g1 k = st1) by (simpl; apply upd_same).
      assert (Hd1 : deps_done deps g1 0 k).
      { intros d Hin. simpl. rewrite upd_other; [apply Hd; assumption|]. specialize (acyclic k d Hin). lia. }
      destruct (IH Hgt g1 k Hk1 Hd1) as (g' & Hgs & Hk' & Ho).
      exists g'. split; [econstructor; eauto|split; [assumption|]].
      intros j Hj. rewrite (Ho j Hj). simpl. apply upd_other. assumption.
  Qed.

  Definition GoodG (g : gstate) : Prop :=
    (forall j, InvL (jd g j)) /\ (forall j, aborts (jd g j) = 0) /\ (forall j, scheds (jd g j) 0 <> SFinal VError).

  Lemma finish_prefix : forall k g, GoodG g ->
    exists g', gsteps1 deps g g' /\ GoodG g' /\ forall j, j < k -> scheds (jd g' j) 0 = SFinal VDone.
  Proof.
    induction k; intros g HG.
    - exists g. split; [constructor|split; [assumption|intros; lia]].
    - destruct (IHk g HG) as (g1 & Hs1 & (HL1 & Ha1 & Hv1) & Hd1).
      destruct (job_completes (S (mu (jd g1 k))) (jd g1 k) ltac:(lia) (HL1 k) (Ha1 k) (Hv1 k))
        as (tr & st' & Hst & Hgt & Hf & Haf & HLf).
      assert (Hdd : deps_done deps g1 0 k) by (intros d Hin; apply Hd1; apply acyclic; assumption).
      destruct (lift_steps _ _ _ Hst Hgt g1 k eq_refl Hdd) as (g2 & Hs2 & Hk2 & Ho2).
      exists g2. split; [eapply gsteps1_trans; eauto|]. split.
      + split; [|split].
        * intros j. destruct (Nat.eq_dec j k) as [e|Hn]; [subst j; rewrite Hk2; assumption|rewrite (Ho2 j Hn); apply HL1].
        * intros j. destruct (Nat.eq_dec j k) as [e|Hn]; [subst j; rewrite Hk2; assumption|rewrite (Ho2 j Hn); apply Ha1].
        * intros j. destruct (Nat.eq_dec j k) as [e|Hn]; [subst j; rewrite Hk2, Hf; discriminate|rewrite (Ho2 j Hn); apply Hv1].
      + intros j Hj. destruct (Nat.eq_dec j k) as [e|Hn]; [subst j; rewrite Hk2; assumption|].
        rewrite (Ho2 j) by assumption. apply Hd1. lia.
  Qed.

  Lemma greachable1_InvP : forall g, greachable1 deps g -> forall j, InvP (jd g j).
  Proof.
    intros g (g0 & Hi & Hs). eapply (gsteps1_inv deps InvP); eauto.
    - intros st l st' _ H Hst. eapply InvP_step; eauto.
    - intros j. apply InvP_initial, Hi.
  Qed.

  (* possibility liveness: whatever was killed and restarted so far, if no job run failed the experiment can
     still reach a final state in which every job is DONE - by effects of the scheduler and of the job processes
     alone (no further death, no kill, no aborted start, no failing body)                                     *)
  Lemma can_finish : forall n g, greachable1 deps g -> no_abort g ->
    exists g', gsteps1 deps g g' /\ greachable1 deps g' /\ gfinal n g' /\ no_abort g' /\
               forall j, j < n -> scheds (jd g' j) 0 = SFinal VDone.
  Proof.
    intros n g Hr Hna.
    assert (HG : GoodG g).
    { split; [intros j; split; [apply (greachable1_Inv1 deps)|apply greachable1_InvP]; assumption|].
      split; [exact Hna|]. intros j Hv. destruct (greachable1_Gerr deps g Hr j Hv) as [w Hw]. rewrite (Hna w) in Hw. lia. }
    destruct (finish_prefix n g HG) as (g' & Hs & (HL & Ha & Hv) & Hd).
    exists g'. split; [assumption|]. split.
    - destruct Hr as (g0 & Hi & H0). exists g0. split; [assumption|eapply gsteps1_trans; eauto].
    - split; [intros j Hj; exists VDone; apply Hd; assumption|]. split; [exact Ha|exact Hd].
  Qed.
End GlobalLive.

(* non-vacuity: the dependency relations of the property are acyclic, and the hypotheses hold of the state in
   which an unrecorded job process is inside its body while the next run waits for the lock *)
Lemma deps_chain2_acyclic : forall j d, In d (deps_chain2 j) -> d < j.
Proof. intros [|[|j]] d H; simpl in H; try contradiction. destruct H as [<-|[]]. lia. Qed.
Lemma deps_one_acyclic : forall j d, In d (deps_one j) -> d < j.
Proof. intros j d []. Qed.
Example can_finish_nonvacuous : exists g,
  greachable1 deps_one g /\ no_abort g /\ procs (jd g 0) 0 = PBody /\ scheds (jd g 0) 0 = SLock.
Proof.
  exists (gstate_of deps_one mv_orphan_run). destruct orphan_not_adopted as (g & _). clear g.
  split; [|split; [|split]].
  - exists gfresh0. split; [apply gfresh0_fresh|].
    eapply grun_sound1 with (ms := mv_orphan_run); [vm_compute; reflexivity|apply grun_some; vm_compute; reflexivity].
  - intros j. destruct j as [|j]; vm_compute; reflexivity.
  - vm_compute. reflexivity.
  - vm_compute. reflexivity.
Qed.

(* the pinned aio_start, one scheduler slot: killed between Popen and the pid write; the job runs as an orphan and
   succeeds while the next run waits for the job lock; that run then launches a second process although the marker
   exists (launches = 2, Popen in a state with done = true): the no-op launch that truncates <name>.out/.err *)
Definition tr_noop_relaunch : list label :=
  [LSubmit 0; LTest1 0; LPid 0; LTest2 0; LReady 0; LSLock 0; LTrunc 0; LWrite 0; LSpawn 0; LCrash 0] ++
  tr_proc_begin 0 ++ [LSubmit 0; LTest1 0; LPid 0; LTest2 0; LReady 0] ++ [LEnd 0 true; LTouch 0 false] ++
  [LSLock 0; LTrunc 0; LWrite 0].
Lemma noop_relaunch_refuted : exists st st',
  run_labels_prefix tr_noop_relaunch fresh = Some st /\ Forall lbl_single tr_noop_relaunch /\
  done st = true /\ body_runs st = 1 /\ launches st = 1 /\
  lstep_prefix (LSpawn 0) st = Some st' /\ launches st' = 2.
Proof.
  eexists. eexists. split; [vm_compute; reflexivity|]. split; [repeat constructor|].
  split; [reflexivity|]. split; [reflexivity|]. split; [reflexivity|]. split; [vm_compute; reflexivity|]. reflexivity.
Qed.
