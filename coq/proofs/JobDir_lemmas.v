(* Proofs about model/JobDir.v  (C05, C11). *)
From Coq Require Import List Bool Arith ZArith Lia ZifyBool.
From XV Require Import model.JobDir.
Import ListNotations.

(* ------------------------------------------------------------------ total maps *)
Lemma upd_same : forall A (f : nat -> A) k v, upd f k v k = v.
Proof. intros. unfold upd. rewrite Nat.eqb_refl. reflexivity. Qed.
Lemma upd_other : forall A (f : nat -> A) k v i, i <> k -> upd f k v i = f i.
Proof. intros. unfold upd. destruct (Nat.eqb_spec i k); congruence. Qed.

(* ==================================================================
   Part 1.  Registry
   ================================================================== *)
Lemma lookup_replace_same : forall i j l o, lookup i l = Some o -> lookup i (replace i j l) = Some j.
Proof.
  induction l as [|[k v] l IH]; simpl; intros o H; [discriminate|].
  destruct (Nat.eqb_spec i k).
  - simpl. subst. rewrite Nat.eqb_refl. reflexivity.
  - simpl. destruct (Nat.eqb_spec i k); [congruence|]. eauto.
Qed.
Lemma lookup_replace_other : forall i j l k, k <> i -> lookup k (replace i j l) = lookup k l.
Proof.
  induction l as [|[k' v] l IH]; simpl; intros k H; [reflexivity|].
  destruct (Nat.eqb_spec i k').
  - subst. simpl. destruct (Nat.eqb_spec k k'); [congruence|reflexivity].
  - simpl. destruct (Nat.eqb_spec k k'); [reflexivity|]. apply IH. assumption.
Qed.

(* the registry names job objects of the right identifier; in the repaired code every
   job object that is not failed is the registered one                               *)
Definition reg_inv (r : reg) : Prop :=
  (forall i j, lookup i (r_jobs r) = Some j -> j < r_next r /\ r_ident r j = i) /\
  (forall j, j < r_next r -> jst_error (r_state r j) = false -> lookup (r_ident r j) (r_jobs r) = Some j).

Lemma reg_inv0 : reg_inv reg0.
Proof. split; simpl; intros; [discriminate|lia]. Qed.

Lemma reg_inv_submit : forall r i, reg_inv r -> reg_inv (fst (submit r i)).
Proof.
  intros r i [H1 H2]. unfold submit, submit_with.
  destruct (lookup i (r_jobs r)) as [o|] eqn:L.
  - destruct (jst_error (r_state r o)) eqn:Eo; [|split; assumption].
    destruct (H1 _ _ L) as [Ho Hi]. unfold reg_inv; simpl. split.
    + intros i' j Hl. destruct (Nat.eq_dec i' i).
      * subst i'. rewrite (lookup_replace_same _ _ _ _ L) in Hl. inversion Hl; subst.
        split; [lia|apply upd_same].
      * rewrite lookup_replace_other in Hl by assumption. destruct (H1 _ _ Hl). split; [lia|].
        rewrite upd_other by lia. assumption.
    + intros j Hj Hs. destruct (Nat.eq_dec j (r_next r)).
      * subst j. rewrite upd_same. eapply lookup_replace_same; eauto.
      * rewrite upd_other in Hs by assumption. rewrite upd_other by assumption.
        assert (Hj' : j < r_next r) by lia. specialize (H2 j Hj' Hs).
        destruct (Nat.eq_dec (r_ident r j) i) as [e|e].
        -- rewrite e in H2. rewrite L in H2. inversion H2; subst. congruence.
        -- rewrite lookup_replace_other by assumption. assumption.
  - unfold reg_inv; simpl. split.
    + intros i' j Hl. simpl in Hl. destruct (Nat.eqb_spec i' i).
      * inversion Hl; subst. split; [lia|apply upd_same].
      * destruct (H1 _ _ Hl). split; [lia|]. rewrite upd_other by lia. assumption.
    + intros j Hj Hs. destruct (Nat.eq_dec j (r_next r)).
      * subst j. rewrite upd_same. simpl. rewrite Nat.eqb_refl. reflexivity.
      * rewrite upd_other in Hs by assumption. rewrite upd_other by assumption.
        assert (Hj' : j < r_next r) by lia. specialize (H2 j Hj' Hs). simpl.
        destruct (Nat.eqb_spec (r_ident r j) i) as [e|e]; [|assumption].
        rewrite e in H2. congruence.
Qed.

Lemma reg_inv_set_state : forall r j s, reg_inv r -> reg_inv (set_state r j s).
Proof.
  intros r j s [H1 H2]. unfold set_state.
  destruct ((j <? r_next r) && negb (jst_finished (r_state r j))) eqn:G; [|split; assumption].
  apply andb_true_iff in G. destruct G as [G1 G2]. apply Nat.ltb_lt in G1.
  unfold reg_inv; simpl. split; [assumption|].
  intros j' Hj' Hs. destruct (Nat.eq_dec j' j).
  - subst j'. apply H2; [assumption|]. destruct (r_state r j); simpl in *; congruence.
  - rewrite upd_other in Hs by assumption. apply H2; assumption.
Qed.

Lemma run_reg_inv : forall h r r' out, reg_inv r -> run_reg h r = (r', out) -> reg_inv r'.
Proof.
  induction h as [|e h IH]; intros r r' out Hr Hrun; simpl in Hrun.
  - inversion Hrun; subst. assumption.
  - destruct e as [i|j s].
    + unfold run_reg in *. simpl in Hrun.
      destruct (submit_with true r i) as [r1 j] eqn:E1.
      destruct (run_with true h r1) as [r2 o2] eqn:E2. inversion Hrun; subst.
      eapply IH; [|exact E2]. change r1 with (fst (r1, j)). rewrite <- E1. apply reg_inv_submit. assumption.
    + unfold run_reg in *. simpl in Hrun. eapply IH; [|exact Hrun]. apply reg_inv_set_state. assumption.
Qed.

(* C05 (a): after any history, a submission identical to an earlier one that is not
   failed returns that earlier job and leaves the registry (and the number of job
   objects) exactly as it was.                                                        *)
Lemma registry_unique : forall h r out i j,
  run_reg h reg0 = (r, out) ->
  j < r_next r -> r_ident r j = i -> jst_error (r_state r j) = false ->
  submit r i = (r, j).
Proof.
  intros h r out i j Hrun Hj Hi Hs.
  destruct (run_reg_inv _ _ _ _ reg_inv0 Hrun) as [H1 H2].
  specialize (H2 j Hj Hs). rewrite Hi in H2.
  unfold submit, submit_with. rewrite H2. rewrite Hs. reflexivity.
Qed.

(* at most one job object per identifier is not failed *)
Lemma NoDup_filter : forall A (f : A -> bool) l, NoDup l -> NoDup (filter f l).
Proof.
  induction l as [|a l IH]; simpl; intros H; [constructor|].
  inversion H; subst. destruct (f a); [constructor|]; auto.
  intro Hin. apply filter_In in Hin. tauto.
Qed.
Lemma registry_live_le_1 : forall h r out i,
  run_reg h reg0 = (r, out) -> length (live_of r i) <= 1.
Proof.
  intros h r out i Hrun.
  destruct (run_reg_inv _ _ _ _ reg_inv0 Hrun) as [H1 H2].
  assert (Hall : forall a b, In a (live_of r i) -> In b (live_of r i) -> a = b).
  { intros a b Ha Hb. unfold live_of in *. apply filter_In in Ha, Hb.
    destruct Ha as [Ha1 Ha2], Hb as [Hb1 Hb2]. apply in_seq in Ha1, Hb1.
    apply andb_true_iff in Ha2, Hb2. destruct Ha2 as [Ha2 Ha3], Hb2 as [Hb2 Hb3].
    apply Nat.eqb_eq in Ha2, Hb2. apply negb_true_iff in Ha3, Hb3.
    assert (Ea := H2 a ltac:(lia) Ha3). assert (Eb := H2 b ltac:(lia) Hb3).
    rewrite Ha2 in Ea. rewrite Hb2 in Eb. congruence. }
  assert (Hnd : NoDup (live_of r i)) by (apply NoDup_filter, seq_NoDup).
  destruct (live_of r i) as [|a [|b l]]; simpl; try lia.
  exfalso. inversion Hnd; subst. apply H3. rewrite (Hall a b); simpl; auto.
Qed.

(* a history in which the hypotheses of registry_unique hold with a job that is not the
   first of its identifier (re-submission after a failure)                             *)
Definition h_resubmit : list rev := [RSubmit 7; RState 0 JError; RSubmit 7; RSubmit 3].
Example registry_unique_nonvacuous :
  let r := fst (run_reg h_resubmit reg0) in
  1 < r_next r /\ r_ident r 1 = 7 /\ jst_error (r_state r 1) = false /\ r_next r = 3 /\
  submit r 7 = (r, 1).
Proof. vm_compute. repeat split; lia. Qed.

(* the pinned code: the third submission creates a third job object although the second
   one is not failed                                                                   *)
Lemma registry_prefix_refuted : exists h r out i j,
  run_reg_prefix h reg0 = (r, out) /\
  j < r_next r /\ r_ident r j = i /\ jst_error (r_state r j) = false /\
  snd (submit_prefix r i) <> j /\ r_next (fst (submit_prefix r i)) = S (r_next r).
Proof.
  exists [RSubmit 0; RState 0 JError; RSubmit 0].
  eexists. eexists. exists 0, 1. split; [reflexivity|]. vm_compute. repeat split; try lia; try discriminate.
Qed.

(* ==================================================================
   Part 2.  One job directory
   ================================================================== *)
Lemma agent_eqb_eq : forall a b, agent_eqb a b = true <-> a = b.
Proof.
  destruct a, b; simpl; split; intros H; try discriminate; try (apply Nat.eqb_eq in H; congruence);
  inversion H; subst; apply Nat.eqb_refl.
Qed.
Lemma agent_eqb_refl : forall a, agent_eqb a a = true.
Proof. intros. apply agent_eqb_eq. reflexivity. Qed.

Ltac simp :=
  unfold set_done, set_failed, set_pidf, set_lock, set_script, set_proc, set_sched, set_ghost, new_proc in *;
  cbn [done failed pidf lock script procs nprocs scheds body_runs body_active inflight launches succ aborts done0] in *.

(* case analysis of one transition: every guard of lstep is destructed, the successor state
   is substituted *)
Ltac destr_step H :=
  unfold step, lstep in H; cbv zeta in H;
  repeat match type of H with
  | context [procs ?st ?p] => is_var st; let E := fresh "E" in destruct (procs st p) eqn:E;
                              cbn [alive plocked pinflight] in H; try discriminate H
  | context [scheds ?st ?s] => is_var st; let E := fresh "E" in destruct (scheds st s) eqn:E;
                              cbn [sover slocked] in H; try discriminate H
  end;
  repeat match type of H with
  | context [match ?x with _ => _ end] =>
      lazymatch x with
      | context [match _ with _ => _ end] => fail
      | _ => let E := fresh "E" in destruct x eqn:E; try discriminate H
      end
  end;
  try (injection H as H); try subst.

Ltac upd_cases :=
  unfold upd in *;
  repeat match goal with
  | |- context [Nat.eqb ?a ?b] => destruct (Nat.eqb_spec a b); try subst
  | H : context [Nat.eqb ?a ?b] |- _ => destruct (Nat.eqb_spec a b); try subst
  end.

Lemma release_other_proc : forall a q, a <> AProc q -> release a (Some (AProc q)) = Some (AProc q).
Proof. intros a q H. simpl. destruct (agent_eqb a (AProc q)) eqn:E; [apply agent_eqb_eq in E; congruence|reflexivity]. Qed.
Lemma release_other_sched : forall a q, a <> ASched q -> release a (Some (ASched q)) = Some (ASched q).
Proof. intros a q H. simpl. destruct (agent_eqb a (ASched q)) eqn:E; [apply agent_eqb_eq in E; congruence|reflexivity]. Qed.

(* I1: a job process past its Lock effect holds the lock *)
Definition I1 (st : jobdir) := forall p, plocked (procs st p) = true -> lock st = Some (AProc p).
(* I2: a scheduler between Lock and Unlock holds the lock *)
Definition I2 (st : jobdir) := forall s, slocked (scheds st s) = true -> lock st = Some (ASched s).

Lemma I1_step : forall st l st', I1 st -> step st l st' -> I1 st'.
Proof.
  intros st l st' H Hs q Hq. destruct l; destr_step Hs; simp;
  try (apply H; assumption);
  upd_cases; simp; try discriminate; try reflexivity;
  try (rewrite (H _ Hq); first [reflexivity | apply release_other_proc; congruence]);
  try (rewrite (H _ Hq) in *; discriminate);
  try (apply H; match goal with E : procs _ _ = _ |- _ => rewrite E; reflexivity end).
Qed.

Lemma I2_step : forall st l st', I1 st -> I2 st -> step st l st' -> I2 st'.
Proof.
  intros st l st' H1 H Hs q Hq. destruct l; destr_step Hs; simp;
  try (apply H; assumption);
  upd_cases; simp; try discriminate; try reflexivity;
  try (rewrite (H _ Hq); first [reflexivity | apply release_other_sched; congruence]);
  try (rewrite (H _ Hq) in *; discriminate);
  try (apply H; match goal with E : scheds _ _ = _ |- _ => rewrite E; reflexivity end).
Qed.

(* counting the processes that satisfy f with a ghost counter that never exceeds 1 *)
Definition Cnt (f : ppc -> bool) (pr : nat -> ppc) (n : nat) : Prop :=
  n <= 1 /\ (forall p, f (pr p) = true -> n = 1) /\ (n = 1 -> exists p, f (pr p) = true).

Lemma Cnt_move : forall f pr n p c', Cnt f pr n -> f c' = f (pr p) -> Cnt f (upd pr p c') n.
Proof.
  intros f pr n p c' (A & B & C) Hf. split; [assumption|split].
  - intros q Hq. unfold upd in Hq. destruct (Nat.eqb_spec q p); [subst; rewrite Hf in Hq|]; eauto.
  - intros Hn. destruct (C Hn) as [w Hw]. exists w. unfold upd. destruct (Nat.eqb_spec w p); [subst; congruence|assumption].
Qed.
Lemma Cnt_enter : forall f pr n p c', Cnt f pr n -> (forall q, f (pr q) = true -> q = p) ->
  f (pr p) = false -> f c' = true -> Cnt f (upd pr p c') (S n).
Proof.
  intros f pr n p c' (A & B & C) U Hp Hc.
  assert (n = 0). { destruct n as [|[|n]]; [reflexivity| |lia]. destruct (C eq_refl) as [w Hw]. rewrite (U w Hw) in Hw. congruence. }
  subst n. split; [lia|split].
  - reflexivity.
  - intros _. exists p. rewrite upd_same. assumption.
Qed.
Lemma Cnt_leave : forall f pr n p c', Cnt f pr n -> (forall q, f (pr q) = true -> q = p) ->
  f (pr p) = true -> f c' = false -> Cnt f (upd pr p c') (pred n).
Proof.
  intros f pr n p c' (A & B & C) U Hp Hc. rewrite (B p Hp). simpl. split; [lia|split].
  - intros q Hq. unfold upd in Hq. destruct (Nat.eqb_spec q p); [congruence|]. specialize (U q Hq). congruence.
  - discriminate.
Qed.

Definition pbody (c : ppc) : bool := match c with PBody => true | _ => false end.
Lemma pbody_locked : forall c, pbody c = true -> plocked c = true.
Proof. destruct c; simpl; congruence. Qed.
Lemma pinflight_locked : forall c, pinflight c = true -> plocked c = true.
Proof. destruct c; simpl; congruence. Qed.
Lemma prun_locked : forall c, prun c = true -> plocked c = true.
Proof. destruct c; simpl; congruence. Qed.

Lemma uniq_locked : forall st p, I1 st -> plocked (procs st p) = true ->
  forall q, plocked (procs st q) = true -> q = p.
Proof. intros st p H Hp q Hq. pose proof (H p Hp). pose proof (H q Hq). congruence. Qed.

(* I7: process numbers not yet handed out are unused; I14: those handed out are used *)
Definition I7 (st : jobdir) := forall p, nprocs st <= p -> procs st p = PNone.
Definition I14 (st : jobdir) := forall p, p < nprocs st -> procs st p <> PNone.
Lemma I7_step : forall st l st', I7 st -> step st l st' -> I7 st'.
Proof.
  intros st l st' H Hs q Hq. destruct l; destr_step Hs; simp; try (apply H; assumption);
  upd_cases; try (apply H; lia); try lia;
  try (match goal with E : procs _ ?p = _ |- _ => rewrite (H p Hq) in E; discriminate end).
Qed.
Lemma I14_step : forall st l st', I14 st -> step st l st' -> I14 st'.
Proof.
  intros st l st' H Hs q Hq. destruct l; destr_step Hs; simp; try (apply H; assumption);
  upd_cases; try discriminate; try (apply H; lia); try (destruct (script st); discriminate).
Qed.

(* I3: the ghost counters agree with the program counters *)
Definition I3 (st : jobdir) := Cnt pinflight (procs st) (inflight st) /\ Cnt pbody (procs st) (body_active st).

Ltac cnt_side st H1 :=
  first [ assumption
        | reflexivity
        | match goal with E : procs _ _ = _ |- _ => rewrite E; reflexivity end
        | intros ? ?; eapply (uniq_locked st); [exact H1 | match goal with E : procs _ _ = _ |- _ => rewrite E; reflexivity end
                                                | first [apply pinflight_locked; assumption | apply pbody_locked; assumption] ] ].

Ltac cnt_tac st H1 H7 :=
  first [ assumption
        | apply Cnt_move; [assumption | first [ match goal with E : procs _ _ = _ |- _ => rewrite E; reflexivity end
                                              | rewrite (H7 _ (le_n _)); reflexivity
                                              | match goal with E : procs _ _ = _ |- _ => rewrite E; destruct (script st); reflexivity end ] ]
        | apply Cnt_enter; cnt_side st H1
        | apply Cnt_leave; cnt_side st H1 ].

Lemma I3_step : forall st l st', I1 st -> I7 st -> I3 st -> step st l st' -> I3 st'.
Proof.
  intros st l st' H1 H7 [Ha Hb] Hs. destruct l; destr_step Hs; unfold I3; simp;
  (split; [cnt_tac st H1 H7 | cnt_tac st H1 H7]).
Qed.

(* markers only ever appear; failures only accumulate *)
Lemma done_mono : forall st l st', step st l st' -> done st = true -> done st' = true.
Proof. intros st l st' Hs Hd. destruct l; destr_step Hs; simp; congruence. Qed.
Lemma aborts_mono : forall st l st', step st l st' -> aborts st <= aborts st'.
Proof. intros st l st' Hs. destruct l; destr_step Hs; simp; lia. Qed.
Lemma done0_const : forall st l st', step st l st' -> done0 st' = done0 st.
Proof. intros st l st' Hs. destruct l; destr_step Hs; simp; reflexivity. Qed.

(* I4: once the marker exists no process is between its (negative) test and the end of
   its body *)
Definition I4 (st : jobdir) := done st = true -> forall p, prun (procs st p) = false.
Lemma I4_step : forall st l st', I1 st -> I4 st -> step st l st' -> I4 st'.
Proof.
  intros st l st' H1 H Hs Hd q. destruct l; destr_step Hs; simp;
  try (apply H; assumption);
  upd_cases; simp; try reflexivity; try (apply H; assumption); try congruence;
  try (match goal with E : procs _ ?p = _ |- _ => specialize (H Hd p); rewrite E in H; discriminate H end);
  try (destruct (script st); reflexivity).
  (* TouchDone by p: any q in its run section would hold the lock that p holds *)
  all: destruct (prun (procs st q)) eqn:Eq; [|reflexivity]; exfalso;
    apply prun_locked in Eq; apply n; eapply (uniq_locked st); eauto; rewrite E; reflexivity.
Qed.

(* I5: every body run is accounted for *)
Definition I5 (st : jobdir) :=
  body_runs st <= succ st + aborts st + inflight st /\ succ st + inflight st <= body_runs st.
Lemma I5_step : forall st l st', I3 st -> I5 st -> step st l st' -> I5 st'.
Proof.
  intros st l st' [[A1 [A2 A3]] [B1 [B2 B3]]] (H1 & H2) Hs. unfold I5.
  destruct l; destr_step Hs; simp; try (repeat split; lia);
  try (assert (inflight st = 1) by (apply (A2 p); rewrite E; reflexivity));
  try (assert (body_active st = 1) by (apply (B2 p); rewrite E; reflexivity));
  repeat split; lia.
Qed.

(* I6: the marker and the count of TouchDone effects *)
Definition I6 (st : jobdir) :=
  succ st <= (if done st then 1 else 0) /\ (done st = true -> done0 st = true \/ succ st = 1) /\
  (done0 st = true -> done st = true).
Lemma I6_step : forall st l st', I4 st -> I6 st -> step st l st' -> I6 st'.
Proof.
  intros st l st' H4 (A & B & C) Hs. unfold I6.
  destruct l; destr_step Hs; simp; try (repeat split; assumption);
  try (match goal with E0 : done st = _ |- _ => rewrite E0 end; repeat split; assumption).
  all: assert (Hd : done st = false) by
    (destruct (done st) eqn:Hd; [specialize (H4 Hd p); rewrite E in H4; discriminate|reflexivity]);
    rewrite Hd in A; repeat split; auto; try lia; intros _; right; lia.
Qed.

(* I8: a process that left by the "already completed" or the success path implies the marker *)
Definition pokc (c : ppc) : bool := match c with PRmPid XOk | PUnlock XOk | PExit XOk => true | _ => false end.
Definition I8 (st : jobdir) := forall p, pokc (procs st p) = true -> done st = true.
Lemma I8_step : forall st l st', I8 st -> step st l st' -> I8 st'.
Proof.
  intros st l st' H Hs q Hq. destruct l; destr_step Hs; simp;
  try (eapply H; eassumption);
  upd_cases; simp; try discriminate; try reflexivity; try (eapply H; eassumption); try assumption;
  try (apply (H p); rewrite E; assumption);
  try (destruct (script st); discriminate).
Qed.

(* I9: a positive first test implies the marker *)
Definition sdflag (c : spc) : bool := match c with SPid true | STest2 _ true => true | _ => false end.
Definition I9 (st : jobdir) := forall s, sdflag (scheds st s) = true -> done st = true.
Lemma I9_step : forall st l st', I9 st -> step st l st' -> I9 st'.
Proof.
  intros st l st' H Hs q Hq. destruct l; destr_step Hs; simp;
  try (eapply H; eassumption);
  upd_cases; simp; try discriminate; try reflexivity; try (eapply H; eassumption);
  try (apply (H s); rewrite E; assumption);
  try (destruct (done st); [reflexivity|discriminate]).
Qed.

(* I11: a process on the failure path was counted *)
Definition I11 (st : jobdir) := forall p, pfailing (procs st p) = true -> 1 <= aborts st.
Lemma I11_step : forall st l st', I11 st -> step st l st' -> I11 st'.
Proof.
  intros st l st' H Hs q Hq. destruct l; destr_step Hs; simp;
  try (eapply H; eassumption);
  upd_cases; simp; try discriminate; try lia; try (eapply H; eassumption);
  try (specialize (H q Hq); lia);
  try (apply (H p); rewrite E; assumption);
  try (destruct (script st); discriminate);
  try (destruct (done st); discriminate).
Qed.

(* I12, I13: the pid file and the schedulers only name processes that were created *)
Definition I12 (st : jobdir) := forall p, pidf st = Some p -> p < nprocs st.
Definition I13 (st : jobdir) := forall s p, schild (scheds st s) = Some p -> p < nprocs st.
Lemma I13_step : forall st l st', I12 st -> I13 st -> step st l st' -> I13 st'.
Proof.
  intros st l st' H12 H Hs q x Hq. destruct l; destr_step Hs; simp;
  try (eapply H; eassumption);
  upd_cases; simp; try discriminate; try (eapply H; eassumption);
  try (inversion Hq; subst; first [apply H12; assumption | apply (H s); rewrite E; reflexivity | lia]);
  try (specialize (H _ _ Hq); lia).
Qed.
Lemma I12_step : forall st l st', I12 st -> I13 st -> step st l st' -> I12 st'.
Proof.
  intros st l st' H H13 Hs q Hq. destruct l; destr_step Hs; simp;
  try (apply H; assumption); try discriminate;
  try (specialize (H _ Hq); lia).
  inversion Hq; subst. apply (H13 s). rewrite E. reflexivity.
Qed.

(* ------------------------------------------------------------------ the invariant *)
Definition Inv (st : jobdir) : Prop :=
  I1 st /\ I2 st /\ I3 st /\ I4 st /\ I5 st /\ I6 st /\ I7 st /\ I8 st /\ I9 st /\ I11 st /\
  I12 st /\ I13 st /\ I14 st.

Lemma Inv_initial : forall st, initial st -> Inv st.
Proof.
  intros st (Hp & Hn & Hs & Hl & Hr & Ha & Hi & Hla & Hsu & Hab & Hd0 & Hpid).
  unfold Inv, I1, I2, I3, I4, I5, I6, I7, I8, I9, I11, I12, I13, I14, Cnt.
  repeat split; intros; rewrite ?Hp, ?Hs in *; simpl in *; try discriminate; try lia; try congruence.
Qed.

Lemma Inv_step : forall st l st', Inv st -> step st l st' -> Inv st'.
Proof.
  intros st l st' (H1 & H2 & H3 & H4 & H5 & H6 & H7 & H8 & H9 & H11 & H12 & H13 & H14) Hs.
  unfold Inv. repeat (match goal with |- _ /\ _ => split end);
  eauto using I1_step, I2_step, I3_step, I4_step, I5_step, I6_step, I7_step, I8_step, I9_step,
              I11_step, I12_step, I13_step, I14_step.
Qed.

Lemma Inv_steps : forall st tr st', steps st tr st' -> Inv st -> Inv st'.
Proof. induction 1; intros; eauto using Inv_step. Qed.
Lemma Inv_reachable : forall st, reachable st -> Inv st.
Proof. intros st (st0 & tr & Hi & Hs). eapply Inv_steps; eauto using Inv_initial. Qed.

Lemma steps_app : forall st tr1 st1 tr2 st2, steps st tr1 st1 -> steps st1 tr2 st2 -> steps st (tr1 ++ tr2) st2.
Proof. induction 1; intros; simpl; [assumption|econstructor; eauto]. Qed.
Lemma reachable_steps : forall st tr st', reachable st -> steps st tr st' -> reachable st'.
Proof. intros st tr st' (st0 & tr0 & Hi & Hs) H. exists st0, (tr0 ++ tr). split; [assumption|eapply steps_app; eauto]. Qed.
Lemma run_labels_steps : forall tr st st', run_labels tr st = Some st' -> steps st tr st'.
Proof.
  induction tr as [|l tr IH]; simpl; intros st st' H.
  - inversion H; subst. constructor.
  - destruct (lstep l st) as [st1|] eqn:E; [|discriminate]. econstructor; [exact E|eauto].
Qed.

(* ---------------------------------------------------------------- C05 theorems *)

(* body_mutex: in every reachable state of N schedulers (crashes, restarts, kills included)
   at most one process is inside the body of the job *)
Lemma body_mutex : forall st, reachable st ->
  body_active st <= 1 /\ (forall p q, procs st p = PBody -> procs st q = PBody -> p = q).
Proof.
  intros st Hr. destruct (Inv_reachable _ Hr) as (H1 & _ & [_ [B1 _]] & _). split; [assumption|].
  intros p q Hp Hq. eapply (uniq_locked st); eauto; [rewrite Hq|rewrite Hp]; reflexivity.
Qed.

(* no_rerun_after_success: once the marker exists, no BodyBegin effect occurs any more *)
Lemma no_begin_when_done : forall st p st', Inv st -> done st = true -> step st (LBegin p) st' -> False.
Proof.
  intros st p st' (_ & _ & _ & H4 & _) Hd Hs. destr_step Hs. specialize (H4 Hd p). rewrite E in H4. discriminate.
Qed.
Lemma body_runs_only_begin : forall st l st', step st l st' ->
  (forall p, l <> LBegin p) -> body_runs st' = body_runs st.
Proof. intros st l st' Hs Hl. destruct l; destr_step Hs; simp; try reflexivity. exfalso. eapply Hl; reflexivity. Qed.

Lemma no_rerun_after_success : forall st tr st', reachable st -> done st = true -> steps st tr st' ->
  (forall p, ~ In (LBegin p) tr) /\ body_runs st' = body_runs st.
Proof.
  intros st tr st' Hr Hd Hs. apply Inv_reachable in Hr. induction Hs as [st|st l st1 tr st' H1 Hs IH].
  - split; [intros p []|reflexivity].
  - assert (Hl : forall p, l <> LBegin p).
    { intros p ->. eapply no_begin_when_done; eauto. }
    destruct (IH (Inv_step _ _ _ Hr H1) (done_mono _ _ _ H1 Hd)) as [IH1 IH2]. split.
    + intros p [Hp|Hp]; [eapply Hl; eauto|eapply IH1; eauto].
    + rewrite IH2. eapply body_runs_only_begin; eauto.
Qed.

(* done_never_launched: if the marker exists when the schedulers (any number of them, any
   number of later attempts) have not yet decided to start the job, no process is ever
   launched for it.  No reachability hypothesis: arbitrary prior contents, arbitrary
   processes.                                                                          *)
Definition snolaunch (c : spc) : bool :=
  match c with SIdle | STest1 | SPid _ | SAdopt _ | STest2 _ _ | SFinal _ | SDead => true | _ => false end.
Lemma sover_nolaunch : forall c, sover c = true -> snolaunch c = true.
Proof. destruct c; simpl; congruence. Qed.

Lemma nolaunch_step : forall st l st', done st = true -> (forall s, snolaunch (scheds st s) = true) ->
  step st l st' -> (forall s, snolaunch (scheds st' s) = true) /\ launches st' = launches st.
Proof.
  intros st l st' Hd Hn Hs.
  destruct l; destr_step Hs; simp;
  try (split; [assumption|reflexivity]);
  try (match goal with E : scheds st ?s = _ |- _ => specialize (Hn s); rewrite E in Hn; discriminate Hn end);
  try (split; [intros q; upd_cases; [reflexivity|apply Hn]|reflexivity]);
  try congruence.
Qed.

Lemma done_never_launched : forall st tr st', done st = true ->
  (forall s, snolaunch (scheds st s) = true) -> steps st tr st' ->
  launches st' = launches st /\ (forall s, ~ In (LSpawn s) tr).
Proof.
  intros st tr st' Hd Hn Hs. induction Hs as [st|st l st1 tr st' H1 Hs IH].
  - split; [reflexivity|intros s []].
  - destruct (nolaunch_step _ _ _ Hd Hn H1) as [Hn1 Hl1].
    destruct (IH (done_mono _ _ _ H1 Hd) Hn1) as [IH1 IH2]. split; [congruence|].
    intros s [Hin|Hin]; [|eapply IH2; eauto]. subst l. destr_step H1.
    specialize (Hn s). rewrite E in Hn. discriminate.
Qed.

(* the form named in the property: any later experiment, i.e. all instances start afresh *)
Lemma done_never_launched_later : forall st tr st', done st = true ->
  (forall s, sover (scheds st s) = true) -> steps st tr st' -> launches st' = launches st.
Proof.
  intros st tr st' Hd Ho Hs. eapply done_never_launched; eauto. intros s. apply sover_nolaunch, Ho.
Qed.

(* ==================================================================
   Single scheduler slot (the same experiment run again and again)
   ================================================================== *)
Definition J1 (st : jobdir) := forall s, s <> 0 -> scheds st s = SIdle.
Definition J2 (st : jobdir) := sprelaunch (scheds st 0) = true -> forall p, pidf st = Some p -> alive (procs st p) = false.
Definition J7 (st : jobdir) := scheds st 0 = SSpawn -> script st = SFull.
Definition goodproc (st : jobdir) (p : nat) := (procs st p = PExec -> script st = SFull) /\ procs st p <> PExit XNop.
Definition J3 (st : jobdir) := forall p, pidf st = Some p -> goodproc st p.
Definition J4 (st : jobdir) := forall p, schild (scheds st 0) = Some p -> goodproc st p.
Definition J5 (st : jobdir) := scheds st 0 = SFinal VDone -> done st = true.
Definition J8 (st : jobdir) := forall d, scheds st 0 = STest2 true d -> done st = true \/ 1 <= aborts st.

Ltac single Hl := simpl in Hl; unfold lbl_single in Hl; simpl in Hl; try subst.

Lemma J1_step : forall st l st', lbl_single l -> J1 st -> step st l st' -> J1 st'.
Proof.
  intros st l st' Hl H Hs q Hq. destruct l; single Hl; destr_step Hs; simp;
  try (apply H; assumption); upd_cases; try congruence; apply H; assumption.
Qed.

Lemma alive_not : forall c, alive c = false -> c = PNone \/ exists x, c = PExit x.
Proof. destruct c; simpl; intros; try discriminate; eauto. Qed.

Lemma J2_step : forall st l st', lbl_single l -> Inv st -> J1 st -> J2 st -> step st l st' -> J2 st'.
Proof.
  intros st l st' Hl HI H1 H Hs Hq x Hx.
  destruct HI as (_ & _ & _ & _ & _ & _ & H7 & _ & _ & _ & H12 & _ & H14).
  destruct l; single Hl; destr_step Hs; simp;
  try (rewrite upd_same in Hq; simpl in Hq); try discriminate;
  try (inversion Hx; subst; assumption);
  try (assert (Hold : alive (procs st x) = false)
         by (apply H; [first [assumption | rewrite E; reflexivity | rewrite E0; reflexivity] | assumption]);
       upd_cases; simp; first [exact Hold | rewrite E in Hold; discriminate Hold | rewrite E0 in Hold; discriminate Hold | reflexivity]);
  try congruence.
Qed.

Lemma J7_step : forall st l st', lbl_single l -> J1 st -> J7 st -> step st l st' -> J7 st'.
Proof.
  intros st l st' Hl H1 H Hs Hq. destruct l; single Hl; destr_step Hs; simp;
  try (rewrite upd_same in Hq); try discriminate; try reflexivity;
  try (apply H; assumption).
Qed.

Lemma J3_step : forall st l st', lbl_single l -> Inv st -> J1 st -> J2 st -> J3 st -> J4 st -> step st l st' -> J3 st'.
Proof.
  intros st l st' Hl HI H1 H2 H H4 Hs x Hx.
  destruct HI as (_ & _ & _ & _ & _ & _ & H7 & _ & _ & _ & H12 & _ & H14).
  unfold goodproc in *.
  destruct l; single Hl; destr_step Hs; simp; try discriminate;
  try (apply H; assumption);
  try (pose proof (H _ Hx) as [Ha Hb]);
  try (split; [intros Hy|intros Hy]; upd_cases; simp; try discriminate; try reflexivity; try congruence; eauto).
  all: idtac "---"; try (exfalso; assert (Hal : alive (procs st x) = false) by (apply H2; [rewrite E; reflexivity|assumption]); rewrite Hy in Hal; discriminate Hal);
    try (exfalso; specialize (H12 _ Hx); lia);
    try (inversion Hx; subst; destruct (H4 x) as [Hc Hd]; [rewrite E; reflexivity|]; first [apply Hc; assumption | apply Hd; assumption]);
    try (specialize (Ha E); congruence).
Show. all: idtac "---". Abort.
