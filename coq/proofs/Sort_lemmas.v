(* bytes_leb is a total order; sort_by is invariant under permutations of a list
   whose keys are pairwise distinct.                                            *)
From Coq Require Import ZArith NArith List Bool Lia Permutation Sorted.
From XV Require Import core.Value.
Import ListNotations.

Lemma bytes_eqb_eq a b : bytes_eqb a b = true <-> a = b.
Proof.
  revert b; induction a as [|x a IH]; intros [|y b]; cbn [bytes_eqb]; split; intros E; try discriminate; try reflexivity.
  - apply andb_true_iff in E. destruct E as [E1 E2]. apply N.eqb_eq in E1. apply IH in E2. subst. reflexivity.
  - inversion E. subst. rewrite N.eqb_refl. cbn. apply IH. reflexivity.
Qed.

Lemma bytes_eqb_refl a : bytes_eqb a a = true.
Proof. apply bytes_eqb_eq. reflexivity. Qed.

Lemma bytes_eqb_sym a b : bytes_eqb a b = bytes_eqb b a.
Proof.
  destruct (bytes_eqb a b) eqn:E1, (bytes_eqb b a) eqn:E2; try reflexivity.
  - apply bytes_eqb_eq in E1. subst. rewrite bytes_eqb_refl in E2. discriminate.
  - apply bytes_eqb_eq in E2. subst. rewrite bytes_eqb_refl in E1. discriminate.
Qed.

Lemma bytes_leb_refl a : bytes_leb a a = true.
Proof. induction a as [|x a IH]; cbn [bytes_leb]; [reflexivity|]. rewrite N.ltb_irrefl. exact IH. Qed.

Lemma bytes_leb_total a b : bytes_leb a b = false -> bytes_leb b a = true.
Proof.
  revert b; induction a as [|x a IH]; intros [|y b]; cbn [bytes_leb]; intros E; try discriminate; try reflexivity.
  destruct (N.ltb x y) eqn:L1; [discriminate|].
  destruct (N.ltb y x) eqn:L2; [reflexivity|]. apply IH. exact E.
Qed.

Lemma bytes_leb_antisym a b : bytes_leb a b = true -> bytes_leb b a = true -> a = b.
Proof.
  revert b; induction a as [|x a IH]; intros [|y b]; cbn [bytes_leb]; intros E1 E2; try discriminate; try reflexivity.
  destruct (N.ltb x y) eqn:L1.
  - apply N.ltb_lt in L1. destruct (N.ltb y x) eqn:L2; [apply N.ltb_lt in L2; lia|discriminate].
  - destruct (N.ltb y x) eqn:L2; [discriminate|].
    apply N.ltb_ge in L1. apply N.ltb_ge in L2. assert (x = y) by lia. subst. f_equal. apply IH; assumption.
Qed.

Lemma bytes_leb_trans a b c : bytes_leb a b = true -> bytes_leb b c = true -> bytes_leb a c = true.
Proof.
  revert b c; induction a as [|x a IH]; intros [|y b] [|z c]; cbn [bytes_leb]; intros E1 E2; try discriminate; try reflexivity.
  destruct (N.ltb x y) eqn:L1; destruct (N.ltb y z) eqn:L2.
  - apply N.ltb_lt in L1. apply N.ltb_lt in L2. assert (L : N.ltb x z = true) by (apply N.ltb_lt; lia). rewrite L. reflexivity.
  - apply N.ltb_lt in L1. destruct (N.ltb z y) eqn:L3; [discriminate|].
    apply N.ltb_ge in L2. apply N.ltb_ge in L3. assert (L : N.ltb x z = true) by (apply N.ltb_lt; lia). rewrite L. reflexivity.
  - destruct (N.ltb y x) eqn:L3; [discriminate|]. apply N.ltb_ge in L1. apply N.ltb_ge in L3. apply N.ltb_lt in L2.
    assert (L : N.ltb x z = true) by (apply N.ltb_lt; lia). rewrite L. reflexivity.
  - destruct (N.ltb y x) eqn:L3; [discriminate|]. destruct (N.ltb z y) eqn:L4; [discriminate|].
    apply N.ltb_ge in L1. apply N.ltb_ge in L2. apply N.ltb_ge in L3. apply N.ltb_ge in L4.
    assert (x = y) by lia. assert (y = z) by lia. subst. rewrite N.ltb_irrefl. eapply IH; eassumption.
Qed.

Section Sort.
  Context {A : Type} (key : A -> bytes).
  Definition le (x y : A) : Prop := bytes_leb (key x) (key y) = true.

  Lemma insert_perm x l : Permutation (x :: l) (insert_by key x l).
  Proof.
    induction l as [|y l IH]; cbn [insert_by]; [apply Permutation_refl|].
    destruct (bytes_leb (key x) (key y)); [apply Permutation_refl|].
    eapply Permutation_trans; [apply perm_swap|]. apply perm_skip. exact IH.
  Qed.

  Lemma sort_perm l : Permutation l (sort_by key l).
  Proof.
    induction l as [|x l IH]; cbn [sort_by]; [apply Permutation_refl|].
    eapply Permutation_trans; [apply perm_skip; exact IH|]. apply insert_perm.
  Qed.

  Lemma insert_sorted x l : StronglySorted le l -> StronglySorted le (insert_by key x l).
  Proof.
    induction l as [|y l IH]; cbn [insert_by]; intros S.
    - constructor; [constructor|constructor].
    - destruct (bytes_leb (key x) (key y)) eqn:E.
      + constructor; [exact S|]. constructor; [exact E|].
        inversion S as [|? ? S' F]; subst. eapply Forall_impl; [|exact F].
        intros z Hz. unfold le in *. eapply bytes_leb_trans; eassumption.
      + inversion S as [|? ? S' F]; subst. constructor; [apply IH; exact S'|].
        assert (P : Permutation (x :: l) (insert_by key x l)) by apply insert_perm.
        eapply Permutation_Forall; [exact P|]. constructor; [|exact F].
        unfold le. apply bytes_leb_total. exact E.
  Qed.

  Lemma sort_sorted l : StronglySorted le (sort_by key l).
  Proof. induction l as [|x l IH]; cbn [sort_by]; [constructor|]. apply insert_sorted. exact IH. Qed.

  Lemma key_inj_in l x y : NoDup (map key l) -> In x l -> In y l -> key x = key y -> x = y.
  Proof.
    induction l as [|z l IH]; cbn [map]; intros ND Hx Hy E; [destruct Hx|].
    inversion ND as [|? ? Hn ND']; subst.
    destruct Hx as [Hx|Hx], Hy as [Hy|Hy]; subst.
    - reflexivity.
    - exfalso. apply Hn. rewrite E. apply in_map. exact Hy.
    - exfalso. apply Hn. rewrite <- E. apply in_map. exact Hx.
    - apply IH; assumption.
  Qed.

  Lemma sorted_perm_eq l1 : forall l2,
    StronglySorted le l1 -> StronglySorted le l2 -> Permutation l1 l2 -> NoDup (map key l1) -> l1 = l2.
  Proof.
    induction l1 as [|x l1 IH]; intros l2 S1 S2 P ND.
    - apply Permutation_nil in P. subst. reflexivity.
    - destruct l2 as [|y l2]; [apply Permutation_sym, Permutation_nil in P; discriminate|].
      inversion S1 as [|? ? S1' F1]; subst. inversion S2 as [|? ? S2' F2]; subst.
      assert (Hxy : x = y).
      { assert (Hx : In x (y :: l2)) by (eapply Permutation_in; [exact P|left; reflexivity]).
        assert (Hy : In y (x :: l1)) by (eapply Permutation_in; [apply Permutation_sym; exact P|left; reflexivity]).
        destruct Hx as [Hx|Hx]; [symmetry; exact Hx|].
        destruct Hy as [Hy|Hy]; [exact Hy|].
        rewrite Forall_forall in F1, F2.
        assert (E : key x = key y) by (apply bytes_leb_antisym; [apply F1; exact Hy|apply F2; exact Hx]).
        apply (key_inj_in (x :: l1)); [exact ND|left; reflexivity|right; exact Hy|exact E]. }
      subst y. f_equal. apply IH; try assumption.
      + eapply Permutation_cons_inv. exact P.
      + cbn [map] in ND. inversion ND. assumption.
  Qed.

  Theorem sort_by_perm l l' : Permutation l l' -> NoDup (map key l) -> sort_by key l = sort_by key l'.
  Proof.
    intros P ND. apply sorted_perm_eq.
    - apply sort_sorted.
    - apply sort_sorted.
    - eapply Permutation_trans; [apply Permutation_sym, sort_perm|].
      eapply Permutation_trans; [exact P|]. apply sort_perm.
    - eapply Permutation_NoDup; [|exact ND]. apply Permutation_map. apply sort_perm.
  Qed.
End Sort.

(* association lists with distinct keys: lookup is permutation invariant *)
Lemma assoc_in {A} k (v : A) l : NoDup (map fst l) -> In (k, v) l -> assoc k l = Some v.
Proof.
  induction l as [|[k' v'] l IH]; cbn [map assoc fst]; intros ND Hin; [destruct Hin|].
  inversion ND as [|? ? Hn ND']; subst.
  destruct Hin as [Hin|Hin].
  - inversion Hin. subst. rewrite bytes_eqb_refl. reflexivity.
  - destruct (bytes_eqb k k') eqn:E.
    + apply bytes_eqb_eq in E. subst. exfalso. apply Hn. change k' with (fst (k', v)). apply in_map. exact Hin.
    + apply IH; assumption.
Qed.

Lemma assoc_none {A} k (l : list (bytes * A)) : ~ In k (map fst l) -> assoc k l = None.
Proof.
  induction l as [|[k' v'] l IH]; cbn [map assoc fst]; intros Hn; [reflexivity|].
  destruct (bytes_eqb k k') eqn:E.
  - apply bytes_eqb_eq in E. subst. exfalso. apply Hn. left. reflexivity.
  - apply IH. intros Hin. apply Hn. right. exact Hin.
Qed.

Lemma assoc_some_in {A} k (v : A) l : assoc k l = Some v -> In (k, v) l.
Proof.
  induction l as [|[k' v'] l IH]; cbn [assoc]; intros E; [discriminate|].
  destruct (bytes_eqb k k') eqn:Ek.
  - apply bytes_eqb_eq in Ek. inversion E. subst. left. reflexivity.
  - right. apply IH. exact E.
Qed.

Lemma assoc_perm {A} k (l l' : list (bytes * A)) : Permutation l l' -> NoDup (map fst l) -> assoc k l = assoc k l'.
Proof.
  intros P ND.
  assert (ND' : NoDup (map fst l')) by (eapply Permutation_NoDup; [apply Permutation_map; exact P|exact ND]).
  destruct (assoc k l) as [v|] eqn:E.
  - symmetry. apply assoc_in; [exact ND'|]. eapply Permutation_in; [exact P|]. apply assoc_some_in. exact E.
  - destruct (assoc k l') as [v|] eqn:E'; [|reflexivity].
    apply assoc_some_in in E'. apply (Permutation_in _ (Permutation_sym P)) in E'.
    rewrite (assoc_in k v l ND E') in E. discriminate.
Qed.

(* ---- induction on values ------------------------------------------------------------ *)
Section ValueInd.
  Variable P : value -> Prop.
  Hypothesis HNone : P VNone.
  Hypothesis HInt : forall z, P (VInt z).
  Hypothesis HBool : forall b, P (VBool b).
  Hypothesis HFloat : forall b, P (VFloat b).
  Hypothesis HStr : forall s, P (VStr s).
  Hypothesis HPath : forall s, P (VPath s).
  Hypothesis HEnum : forall q, P (VEnum q).
  Hypothesis HList : forall l, Forall P l -> P (VList l).
  Hypothesis HDict : forall l, Forall (fun kv => P (snd kv)) l -> P (VDict l).
  Hypothesis HRef : forall n, P (VRef n).

  Fixpoint value_ind2 (v : value) : P v :=
    match v with
    | VNone => HNone | VInt z => HInt z | VBool b => HBool b | VFloat b => HFloat b
    | VStr s => HStr s | VPath s => HPath s | VEnum q => HEnum q
    | VList l => HList l ((fix go (l : list value) : Forall P l :=
                            match l with [] => Forall_nil _ | x :: l' => Forall_cons _ (value_ind2 x) (go l') end) l)
    | VDict l => HDict l ((fix go (l : list (bytes * value)) : Forall (fun kv => P (snd kv)) l :=
                            match l with [] => Forall_nil _ | x :: l' => Forall_cons _ (value_ind2 (snd x)) (go l') end) l)
    | VRef n => HRef n
    end.
End ValueInd.

(* ---- remove_meta: the literal nested loops are filter-then-map --------------------------- *)
Lemma remove_meta_list h l :
  remove_meta h (VList l) = VList (map (remove_meta h) (filter (fun x => negb (is_meta h x)) l)).
Proof.
  simpl. f_equal. induction l as [|x l IH]; [reflexivity|]. cbn [filter]. destruct (is_meta h x); cbn [negb map]; [exact IH|f_equal; exact IH].
Qed.
Lemma remove_meta_dict h l :
  remove_meta h (VDict l) = VDict (map (fun kv : list N * value => (fst kv, remove_meta h (snd kv)))
                                       (filter (fun kv : list N * value => negb (is_meta h (snd kv))) l)).
Proof.
  simpl. f_equal. induction l as [|[k v] l IH]; [reflexivity|]. cbn [filter snd fst]. destruct (is_meta h v); cbn [negb map fst snd]; [exact IH|f_equal; exact IH].
Qed.
