(* Unique readability of the hashed byte stream on the typed domain (C03). *)
From Coq Require Import ZArith NArith List Bool Lia.
From XV Require Import core.Value model.Hash model.Ser.
Import ListNotations.

(* ---- fixed-width fields ---------------------------------------------------------- *)
Lemma be_bytes_length n x : length (be_bytes n x) = n.
Proof. revert x; induction n as [|n IH]; intros x; cbn [be_bytes]; [reflexivity|]. rewrite app_length, IH. cbn. lia. Qed.

Lemma app_inj_tail_len {A} (a b c d : list A) : length a = length c -> a ++ b = c ++ d -> a = c /\ b = d.
Proof.
  revert c; induction a as [|x a IH]; intros [|y c] L E; cbn in *; try discriminate; [split; [reflexivity|exact E]|].
  inversion E. subst. destruct (IH c) as [E1 E2]; [lia|assumption|]. subst. split; reflexivity.
Qed.

Lemma be_bytes_inj n : forall x y, (x < 256 ^ N.of_nat n)%N -> (y < 256 ^ N.of_nat n)%N ->
  be_bytes n x = be_bytes n y -> x = y.
Proof.
  induction n as [|n IH]; intros x y Hx Hy E.
  - cbn in Hx, Hy. lia.
  - cbn [be_bytes] in E.
    assert (P : (256 ^ N.of_nat (S n) = 256 * 256 ^ N.of_nat n)%N).
    { rewrite Nat2N.inj_succ, N.pow_succ_r'. reflexivity. }
    rewrite P in Hx, Hy.
    destruct (app_inj_tail_len _ _ _ _ (eq_trans (be_bytes_length n _) (eq_sym (be_bytes_length n _))) E) as [E1 E2].
    inversion E2 as [Em].
    assert (Ed : (x / 256 = y / 256)%N).
    { apply IH; [apply N.div_lt_upper_bound; lia|apply N.div_lt_upper_bound; lia|exact E1]. }
    rewrite (N.div_mod x 256), (N.div_mod y 256) by lia. rewrite Ed, Em. reflexivity.
Qed.

Lemma q8_length z : length (q8 z) = 8.
Proof. apply be_bytes_length. Qed.

Lemma q8_inj a b : inq a -> inq b -> q8 a = q8 b -> a = b.
Proof.
  unfold inq, q8, two63, two64. intros Ha Hb E.
  apply be_bytes_inj in E.
  - apply Z2N.inj in E; try (apply Z.mod_pos_bound; lia).
    assert (Ea : (a mod 18446744073709551616 = if a <? 0 then a + 18446744073709551616 else a)%Z).
    { destruct (a <? 0)%Z eqn:L; [apply Z.ltb_lt in L|apply Z.ltb_ge in L].
      - symmetry. apply (Z.mod_unique _ _ (-1)); lia.
      - apply Z.mod_small. lia. }
    assert (Eb : (b mod 18446744073709551616 = if b <? 0 then b + 18446744073709551616 else b)%Z).
    { destruct (b <? 0)%Z eqn:L; [apply Z.ltb_lt in L|apply Z.ltb_ge in L].
      - symmetry. apply (Z.mod_unique _ _ (-1)); lia.
      - apply Z.mod_small. lia. }
    rewrite Ea, Eb in E.
    destruct (a <? 0)%Z eqn:La, (b <? 0)%Z eqn:Lb;
      try apply Z.ltb_lt in La; try apply Z.ltb_ge in La; try apply Z.ltb_lt in Lb; try apply Z.ltb_ge in Lb; lia.
  - change (256 ^ N.of_nat 8)%N with 18446744073709551616%N.
    assert (0 <= a mod 18446744073709551616 < 18446744073709551616)%Z by (apply Z.mod_pos_bound; lia). lia.
  - change (256 ^ N.of_nat 8)%N with 18446744073709551616%N.
    assert (0 <= b mod 18446744073709551616 < 18446744073709551616)%Z by (apply Z.mod_pos_bound; lia). lia.
Qed.

(* ---- struct.pack("!d", n) is injective on lengths below 2^53 ------------------------ *)
Lemma land_shiftl_small a k b : (b < 2 ^ k)%N -> N.land (N.shiftl a k) b = 0%N.
Proof.
  intros Hb. apply N.bits_inj. intros i. rewrite N.land_spec, N.bits_0.
  destruct (N.ltb i k) eqn:L.
  - apply N.ltb_lt in L. rewrite N.shiftl_spec_low by exact L. reflexivity.
  - apply N.ltb_ge in L. destruct (N.eq_dec b 0) as [->|Nz]; [rewrite N.bits_0; apply andb_false_r|].
    rewrite (N.bits_above_log2 b i); [apply andb_false_r|].
    apply N.log2_lt_pow2 in Hb; lia.
Qed.

Lemma lor_shiftl_add a k b : (b < 2 ^ k)%N -> N.lor (N.shiftl a k) b = (a * 2 ^ k + b)%N.
Proof.
  intros Hb. pose proof (land_shiftl_small a k b Hb) as L0.
  rewrite <- N.lxor_lor by exact L0. rewrite <- N.add_nocarry_lxor by exact L0.
  rewrite N.shiftl_mul_pow2. reflexivity.
Qed.

Definition two52 : N := 4503599627370496%N.

Lemma double_of_N_arith n : (0 < n < 9007199254740992)%N ->
  let e := N.log2 n in
  double_of_N n = ((1023 + e) * two52 + (n - 2 ^ e) * 2 ^ (52 - e))%N /\
  (e <= 52)%N /\ ((n - 2 ^ e) * 2 ^ (52 - e) < two52)%N /\ (2 ^ e <= n)%N.
Proof.
  intros [Hp Hn] e. unfold double_of_N. destruct n as [|p]; [lia|]. fold e.
  assert (He : (e < 53)%N) by (apply N.log2_lt_pow2; [lia|exact Hn]).
  destruct (N.log2_spec (N.pos p)) as [Hl Hu]; [lia|]. fold e in Hl, Hu.
  assert (Hm : ((N.pos p - 2 ^ e) * 2 ^ (52 - e) < two52)%N).
  { assert (E : (two52 = 2 ^ e * 2 ^ (52 - e))%N).
    { rewrite <- N.pow_add_r. replace (e + (52 - e))%N with 52%N by lia. reflexivity. }
    rewrite E. apply N.mul_lt_mono_pos_r; [apply N.neq_0_lt_0, N.pow_nonzero; lia|].
    rewrite N.pow_succ_r' in Hu. lia. }
  split; [|split; [lia|split; [exact Hm|exact Hl]]].
  rewrite N.shiftl_mul_pow2 with (a := (N.pos p - N.shiftl 1 e)%N).
  rewrite (N.shiftl_mul_pow2 1 e), N.mul_1_l.
  change two52 with (2 ^ 52)%N in *. apply lor_shiftl_add. exact Hm.
Qed.

Lemma double_of_N_inj a b : (a < 9007199254740992)%N -> (b < 9007199254740992)%N ->
  double_of_N a = double_of_N b -> a = b.
Proof.
  intros Ha Hb E.
  destruct (N.eq_dec a 0) as [->|Na]; destruct (N.eq_dec b 0) as [->|Nb]; try reflexivity.
  - destruct (double_of_N_arith b) as [Eb [Le [Lm _]]]; [lia|]. cbn in E. rewrite Eb in E. unfold two52 in *. lia.
  - destruct (double_of_N_arith a) as [Ea [Le [Lm _]]]; [lia|]. cbn in E. rewrite Ea in E. unfold two52 in *. lia.
  - destruct (double_of_N_arith a) as [Ea [Lea [Lma Pa]]]; [lia|].
    destruct (double_of_N_arith b) as [Eb [Leb [Lmb Pb]]]; [lia|].
    cbn zeta in *. rewrite Ea, Eb in E. unfold two52 in *.
    assert (Ee : N.log2 a = N.log2 b) by lia.
    rewrite Ee in *.
    assert (Em : ((a - 2 ^ N.log2 b) * 2 ^ (52 - N.log2 b) = (b - 2 ^ N.log2 b) * 2 ^ (52 - N.log2 b))%N) by lia.
    apply N.mul_cancel_r in Em; [lia|]. apply N.pow_nonzero. lia.
Qed.

Lemma double_of_N_bound a : (a < 9007199254740992)%N -> (double_of_N a < 256 ^ N.of_nat 8)%N.
Proof.
  intros Ha. change (256 ^ N.of_nat 8)%N with 18446744073709551616%N.
  destruct (N.eq_dec a 0) as [->|Na]; [cbn; lia|].
  destruct (double_of_N_arith a) as [Ea [Le [Lm _]]]; [lia|]. cbn zeta in *. rewrite Ea. unfold two52 in *. lia.
Qed.

Lemma pack_len_length n : length (pack_len n) = 8.
Proof. apply be_bytes_length. Qed.

Lemma pack_len_inj n m : (N.of_nat n < 9007199254740992)%N -> (N.of_nat m < 9007199254740992)%N ->
  pack_len n = pack_len m -> n = m.
Proof.
  intros Hn Hm E. unfold pack_len in E. apply be_bytes_inj in E; try (apply double_of_N_bound; assumption).
  apply double_of_N_inj in E; try assumption. lia.
Qed.

(* ---- unterminated strings: a clean run ends at the first low byte -------------------- *)
Lemma clean_split k1 k2 b1 b2 x y :
  clean k1 -> clean k2 -> low b1 -> low b2 -> k1 ++ b1 :: x = k2 ++ b2 :: y -> k1 = k2 /\ b1 :: x = b2 :: y.
Proof.
  unfold clean, low. revert k2; induction k1 as [|a k1 IH]; intros [|c k2] C1 C2 L1 L2 E; cbn in E.
  - split; [reflexivity|exact E].
  - inversion E. subst. inversion C2. subst. lia.
  - inversion E. subst. inversion C1. subst. lia.
  - inversion E. subst. inversion C1. inversion C2. subst.
    destruct (IH k2) as [E1 E2]; try assumption. subst. split; [reflexivity|exact E2].
Qed.

Lemma clean_end k1 k2 r1 r2 :
  clean k1 -> clean k2 -> lowhead r1 -> lowhead r2 -> k1 ++ r1 = k2 ++ r2 -> k1 = k2 /\ r1 = r2.
Proof.
  intros C1 C2 L1 L2 E.
  destruct r1 as [|b1 x], r2 as [|b2 y]; cbn [lowhead] in *.
  - rewrite !app_nil_r in E. subst. split; reflexivity.
  - exfalso. rewrite app_nil_r in E. subst k1. unfold clean in C1. apply Forall_app in C1. destruct C1 as [_ C1].
    inversion C1. subst. unfold low in L2. lia.
  - exfalso. rewrite app_nil_r in E. subst k2. unfold clean in C2. apply Forall_app in C2. destruct C2 as [_ C2].
    inversion C2. subst. unfold low in L1. lia.
  - destruct (clean_split k1 k2 b1 b2 x y C1 C2 L1 L2 E) as [E1 E2]. split; assumption.
Qed.

(* ---- first byte of an encoding -------------------------------------------------------- *)
Lemma start_low t b : In b (start t) -> low b.
Proof.
  unfold low. induction t; cbn [start]; intros Hin;
    try (destruct Hin as [<-|[]]; cbv; reflexivity).
  destruct Hin as [<-|Hin]; [cbv; reflexivity|apply IHt; exact Hin].
Qed.

Lemma enc_start t v : has_type t v -> exists b rest, enc v = b :: rest /\ In b (start t).
Proof.
  revert v; induction t; intros v Ht; cbn [has_type] in Ht.
  - destruct Ht as [z [-> _]]. eexists. eexists. split; [reflexivity|left; reflexivity].
  - destruct Ht as [z [-> _]]. eexists. eexists. split; [reflexivity|left; reflexivity].
  - destruct Ht as [z [-> _]]. eexists. eexists. split; [reflexivity|left; reflexivity].
  - destruct Ht as [z [-> _]]. eexists. eexists. split; [reflexivity|left; reflexivity].
  - destruct Ht as [[d [-> _]]|[k [-> _]]]; eexists; eexists; (split; [reflexivity|left; reflexivity]).
  - destruct Ht as [->|Ht].
    + eexists. eexists. split; [reflexivity|left; reflexivity].
    + destruct (IHt v Ht) as [b [rest [E Hin]]]. exists b, rest. split; [exact E|right; exact Hin].
  - destruct Ht as [l [-> _]]. eexists. eexists. split; [reflexivity|left; reflexivity].
  - destruct Ht as [l [-> _]]. eexists. eexists. split; [reflexivity|left; reflexivity].
Qed.

(* ---- followers -------------------------------------------------------------------------- *)
Lemma noitem_nil tags : noitem tags [].
Proof. intros k b r' _ _ E. discriminate. Qed.

Lemma noitem_other tags c r : c <> STR_ID -> noitem tags (c :: r).
Proof. intros D k b r' _ _ E. inversion E. congruence. Qed.

Lemma fol_nil t : fol t [].
Proof. induction t; cbn [fol lowhead]; auto. split; [assumption|apply noitem_nil]. Qed.

(* a follower that starts with a low byte other than 03 *)
Lemma fol_tagged t c r : low c -> c <> STR_ID -> fol t (c :: r).
Proof.
  intros L D. induction t; cbn [fol lowhead]; auto. split; [assumption|apply noitem_other; exact D].
Qed.

(* a follower that starts like the next argument:  03 name 05 ... *)
Lemma name_not_start t : ~ In NAME_ID (start t).
Proof.
  induction t; cbn [start]; intros Hin; try (destruct Hin as [E|[]]; discriminate E).
  destruct Hin as [E|Hin]; [discriminate E|]. exact (IHt Hin).
Qed.

Lemma low_name : low NAME_ID. Proof. cbv. reflexivity. Qed.
Lemma low_str : low STR_ID. Proof. cbv. reflexivity. Qed.

Lemma noitem_itemlike tags k c r : clean k -> low c -> ~ In c tags -> noitem tags (STR_ID :: k ++ c :: r).
Proof.
  intros Ck Lc Hn k' b r' Ck' Lb E Hin. inversion E as [E'].
  destruct (clean_split k k' c b r r' Ck Ck' Lc Lb E') as [_ E2]. inversion E2. subst. exact (Hn Hin).
Qed.

Lemma fol_argnext t k r : clean k -> fol t (STR_ID :: k ++ NAME_ID :: r).
Proof.
  intros Ck. induction t; cbn [fol lowhead]; auto; try apply low_str.
  split; [assumption|]. apply noitem_itemlike; [exact Ck|apply low_name|apply name_not_start].
Qed.

(* a follower that is the next item of an enclosing dict whose values start with `tags` *)
Lemma fol_item tags t k c r : clean k -> low c -> In c tags -> okfol tags t -> fol t (STR_ID :: k ++ c :: r).
Proof.
  intros Ck Lc Hin. induction t; cbn [fol okfol lowhead]; intros Ok; auto; try apply low_str.
  destruct Ok as [Ok1 Ok2]. split; [apply IHt; exact Ok1|].
  apply noitem_itemlike; [exact Ck|exact Lc|apply Ok2; exact Hin].
Qed.

(* a follower that is the encoding of the next element of a list of type t *)
Lemma fol_str_only t v : has_type t v -> (exists rest, enc v = STR_ID :: rest) -> forall r, lowhead r -> fol t r.
Proof.
  revert v; induction t; intros v Ht [rest E] r Lr; cbn [has_type] in Ht; cbn [fol].
  - destruct Ht as [z [-> _]]. discriminate E.
  - destruct Ht as [z [-> _]]. discriminate E.
  - exact Lr.
  - destruct Ht as [z [-> _]]. discriminate E.
  - destruct Ht as [[d [-> _]]|[k [-> _]]]; discriminate E.
  - destruct Ht as [->|Ht]; [discriminate E|]. eapply IHt; eauto.
  - destruct Ht as [l [-> _]]. discriminate E.
  - destruct Ht as [l [-> _]]. discriminate E.
Qed.

Lemma fol_next_elem t v r : has_type t v -> fol t (enc v ++ r).
Proof.
  intros Ht. destruct (enc_start t v Ht) as [b [rest [E Hin]]]. rewrite E. cbn [app].
  pose proof (start_low t b Hin) as Lb.
  destruct (N.eq_dec b STR_ID) as [->|D].
  - eapply fol_str_only; [exact Ht|exists rest; exact E|exact Lb].
  - apply fol_tagged; assumption.
Qed.

(* ---- unique readability of values ------------------------------------------------------- *)
Lemma cons_eq_tl {A} (x y : A) a b : x :: a = y :: b -> a = b.
Proof. intros E. injection E. auto. Qed.

Definition inj_at (t : sty) : Prop :=
  forall v1 v2 r1 r2, has_type t v1 -> has_type t v2 -> fol t r1 -> fol t r2 ->
    enc v1 ++ r1 = enc v2 ++ r2 -> v1 = v2 /\ r1 = r2.

Lemma elems_inj t : inj_at t ->
  forall l1 l2 r1 r2, length l1 = length l2 -> Forall (has_type t) l1 -> Forall (has_type t) l2 ->
    fol t r1 -> fol t r2 -> flat_map enc l1 ++ r1 = flat_map enc l2 ++ r2 -> l1 = l2 /\ r1 = r2.
Proof.
  intros IHt. induction l1 as [|x1 l1 IH]; intros [|x2 l2] r1 r2 L F1 F2 Fo1 Fo2 E; cbn in L; try discriminate.
  - cbn in E. split; [reflexivity|exact E].
  - change (flat_map enc (x1 :: l1)) with (enc x1 ++ flat_map enc l1) in E.
    change (flat_map enc (x2 :: l2)) with (enc x2 ++ flat_map enc l2) in E.
    rewrite <- !app_assoc in E.
    inversion F1 as [|? ? Hx1 F1']; subst. inversion F2 as [|? ? Hx2 F2']; subst.
    assert (G : forall l r, Forall (has_type t) l -> fol t r -> fol t (flat_map enc l ++ r)).
    { intros l r Fl Fr. destruct l as [|y l]; [exact Fr|].
      change (flat_map enc (y :: l)) with (enc y ++ flat_map enc l). rewrite <- app_assoc.
      inversion Fl; subst. apply fol_next_elem. assumption. }
    destruct (IHt x1 x2 _ _ Hx1 Hx2 (G l1 r1 F1' Fo1) (G l2 r2 F2' Fo2) E) as [Ex Er]. subst x2.
    destruct (IH l2 r1 r2) as [El Err]; try assumption; [lia|]. subst. split; reflexivity.
Qed.

Definition item_ok (t : sty) (kv : bytes * sval) : Prop := clean (fst kv) /\ has_type t (snd kv).
Definition items (l : list (bytes * sval)) : bytes := flat_map (fun kv => STR_ID :: fst kv ++ enc (snd kv)) l.

Lemma items_cons k v l r : items ((k, v) :: l) ++ r = STR_ID :: k ++ enc v ++ (items l ++ r).
Proof. unfold items. simpl. rewrite <- !app_assoc. reflexivity. Qed.

Lemma items_inj t : inj_at t -> okfol (start t) t ->
  forall l1 l2 r1 r2, Forall (item_ok t) l1 -> Forall (item_ok t) l2 ->
    fol t r1 -> noitem (start t) r1 -> fol t r2 -> noitem (start t) r2 ->
    items l1 ++ r1 = items l2 ++ r2 -> l1 = l2 /\ r1 = r2.
Proof.
  intros IHt Ok.
  assert (Contra : forall k v rest r, item_ok t (k, v) -> noitem (start t) r -> r = STR_ID :: k ++ enc v ++ rest -> False).
  { intros k v rest r [Ck Hv] Nr E. cbn [fst snd] in *. destruct (enc_start t v Hv) as [b [rs [Eb Hin]]].
    rewrite Eb in E. cbn [app] in E. exact (Nr k b (rs ++ rest) Ck (start_low t b Hin) E Hin). }
  assert (G : forall l r, Forall (item_ok t) l -> fol t r -> fol t (items l ++ r)).
  { intros l r Fl Fr. destruct l as [|[k v] l]; [exact Fr|]. unfold items. cbn [flat_map fst snd].
    inversion Fl as [|? ? [Ck Hv] Fl']; subst. cbn [fst snd] in *.
    destruct (enc_start t v Hv) as [b [rs [Eb Hin]]].
    rewrite Eb. cbn [app]. rewrite <- !app_assoc. cbn [app].
    apply (fol_item (start t)); [exact Ck|apply (start_low t b Hin)|exact Hin|exact Ok]. }
  induction l1 as [|[k1 v1] l1 IH]; intros [|[k2 v2] l2] r1 r2 F1 F2 Fo1 N1 Fo2 N2 E.
  - cbn in E. split; [reflexivity|exact E].
  - exfalso. inversion F2 as [|? ? I2 F2']; subst. rewrite items_cons in E. cbn [items flat_map app] in E.
    eapply (Contra k2 v2 _ r1 I2 N1). exact E.
  - exfalso. inversion F1 as [|? ? I1 F1']; subst. rewrite items_cons in E. cbn [items flat_map app] in E.
    eapply (Contra k1 v1 _ r2 I1 N2). symmetry. exact E.
  - inversion F1 as [|? ? [Ck1 Hv1] F1']; subst. inversion F2 as [|? ? [Ck2 Hv2] F2']; subst. cbn [fst snd] in *.
    rewrite !items_cons in E.
    pose proof (cons_eq_tl _ _ _ _ E) as E'.
    destruct (enc_start t v1 Hv1) as [b1 [rs1 [Eb1 Hin1]]]. destruct (enc_start t v2 Hv2) as [b2 [rs2 [Eb2 Hin2]]].
    assert (Ek : k1 = k2 /\ enc v1 ++ items l1 ++ r1 = enc v2 ++ items l2 ++ r2).
    { rewrite Eb1, Eb2 in E'. cbn [app] in E'.
      destruct (clean_split k1 k2 b1 b2 _ _ Ck1 Ck2 (start_low t b1 Hin1) (start_low t b2 Hin2) E') as [Ek Er].
      split; [exact Ek|]. rewrite Eb1, Eb2. cbn [app]. exact Er. }
    destruct Ek as [-> Ev].
    destruct (IHt v1 v2 _ _ Hv1 Hv2 (G l1 r1 F1' Fo1) (G l2 r2 F2' Fo2) Ev) as [-> Er].
    destruct (IH l2 r1 r2 F1' F2' Fo1 N1 Fo2 N2 Er) as [-> ->]. split; reflexivity.
Qed.

Theorem enc_inj : forall t, wf_ty t -> inj_at t.
Proof.
  induction t; intros W v1 v2 r1 r2 H1 H2 F1 F2 E; cbn [has_type] in H1, H2.
  - destruct H1 as [z1 [-> Q1]]. destruct H2 as [z2 [-> Q2]]. cbn [enc app] in E. pose proof (cons_eq_tl _ _ _ _ E) as E'.
    destruct (app_inj_tail_len _ _ _ _ (eq_trans (q8_length z1) (eq_sym (q8_length z2))) E') as [Eq Er].
    rewrite (q8_inj z1 z2 Q1 Q2 Eq). split; [reflexivity|exact Er].
  - destruct H1 as [b1 [-> Q1]]. destruct H2 as [b2 [-> Q2]]. cbn [enc app] in E. pose proof (cons_eq_tl _ _ _ _ E) as E'.
    destruct (app_inj_tail_len _ _ _ _ (eq_trans (be_bytes_length 8 b1) (eq_sym (be_bytes_length 8 b2))) E') as [Eq Er].
    rewrite (be_bytes_inj 8 b1 b2 Q1 Q2 Eq). split; [reflexivity|exact Er].
  - destruct H1 as [s1 [-> C1]]. destruct H2 as [s2 [-> C2]]. cbn [enc app] in E. pose proof (cons_eq_tl _ _ _ _ E) as E'.
    cbn [fol] in F1, F2. destruct (clean_end s1 s2 r1 r2 C1 C2 F1 F2 E') as [-> ->]. split; reflexivity.
  - destruct H1 as [s1 [-> C1]]. destruct H2 as [s2 [-> C2]]. cbn [enc app] in E. pose proof (cons_eq_tl _ _ _ _ E) as E'.
    cbn [fol] in F1, F2. destruct (clean_end s1 s2 r1 r2 C1 C2 F1 F2 E') as [-> ->]. split; reflexivity.
  - destruct H1 as [[d1 [-> [L1 N1]]]|[k1 [-> Q1]]]; destruct H2 as [[d2 [-> [L2 N2]]]|[k2 [-> Q2]]];
      cbn [enc app] in E; pose proof (cons_eq_tl _ _ _ _ E) as E'.
    + destruct (app_inj_tail_len _ _ _ _ (eq_trans L1 (eq_sym L2)) E') as [-> ->]. split; reflexivity.
    + exfalso. destruct d1 as [|x d1]; [discriminate L1|]. cbn in E'. inversion E'. subst. apply N1. reflexivity.
    + exfalso. destruct d2 as [|x d2]; [discriminate L2|]. cbn in E'. inversion E'. subst. apply N2. reflexivity.
    + pose proof (cons_eq_tl _ _ _ _ E') as E''.
      destruct (app_inj_tail_len _ _ _ _ (eq_trans (q8_length k1) (eq_sym (q8_length k2))) E'') as [Eq Er].
      rewrite (q8_inj k1 k2 Q1 Q2 Eq). split; [reflexivity|exact Er].
  - cbn [wf_ty] in W. destruct W as [W Nn]. cbn [fol] in F1, F2.
    destruct H1 as [->|H1]; destruct H2 as [->|H2].
    + cbn [enc app] in E. rewrite (cons_eq_tl _ _ _ _ E). split; reflexivity.
    + exfalso. destruct (enc_start t v2 H2) as [b [rs [Eb Hin]]]. rewrite Eb in E. cbn [enc app] in E.
      inversion E. subst. exact (Nn Hin).
    + exfalso. destruct (enc_start t v1 H1) as [b [rs [Eb Hin]]]. rewrite Eb in E. cbn [enc app] in E.
      inversion E. subst. exact (Nn Hin).
    + apply (IHt W); assumption.
  - cbn [wf_ty] in W. cbn [fol] in F1, F2.
    destruct H1 as [l1 [-> [A1 B1]]]. destruct H2 as [l2 [-> [A2 B2]]]. cbn [enc app] in E. pose proof (cons_eq_tl _ _ _ _ E) as E'.
    rewrite <- !app_assoc in E'.
    destruct (app_inj_tail_len _ _ _ _ (eq_trans (pack_len_length _) (eq_sym (pack_len_length _))) E') as [El Er].
    apply pack_len_inj in El; try assumption.
    destruct (elems_inj t (IHt W) l1 l2 r1 r2 El A1 A2 F1 F2 Er) as [-> ->]. split; reflexivity.
  - cbn [wf_ty] in W. destruct W as [W Ok]. cbn [fol] in F1, F2. destruct F1 as [F1 N1]. destruct F2 as [F2 N2].
    destruct H1 as [l1 [-> A1]]. destruct H2 as [l2 [-> A2]]. cbn [enc app] in E. pose proof (cons_eq_tl _ _ _ _ E) as E'.
    destruct (items_inj t (IHt W) Ok l1 l2 r1 r2 A1 A2 F1 N1 F2 N2 E') as [-> ->]. split; reflexivity.
Qed.

(* ---- unique readability of the stream of one configuration -------------------------------- *)
Definition argenc (a : bytes * sty * sval) : bytes := STR_ID :: fst (fst a) ++ NAME_ID :: enc (snd a).
Definition arg_ok (a : bytes * sty * sval) : Prop :=
  clean (fst (fst a)) /\ wf_ty (snd (fst a)) /\ has_type (snd (fst a)) (snd a).

Lemma argenc_cons a l : flat_map argenc (a :: l) = STR_ID :: fst (fst a) ++ NAME_ID :: enc (snd a) ++ flat_map argenc l.
Proof.
  change (flat_map argenc (a :: l)) with (argenc a ++ flat_map argenc l). unfold argenc at 1.
  cbn [app]. f_equal. rewrite <- app_assoc. reflexivity.
Qed.

Lemma fol_args t l : Forall arg_ok l -> fol t (flat_map argenc l).
Proof.
  intros F. destruct l as [|a l]; [apply fol_nil|]. rewrite argenc_cons.
  inversion F as [|? ? [Ck _] _]; subst. apply fol_argnext. exact Ck.
Qed.

Lemma args_inj : forall l1 l2, Forall arg_ok l1 -> Forall arg_ok l2 ->
  (forall k t1 v1 t2 v2, In (k, t1, v1) l1 -> In (k, t2, v2) l2 -> t1 = t2) ->
  flat_map argenc l1 = flat_map argenc l2 -> l1 = l2.
Proof.
  induction l1 as [|[[k1 t1] v1] l1 IH]; intros [|[[k2 t2] v2] l2] F1 F2 D E.
  - reflexivity.
  - rewrite argenc_cons in E. discriminate E.
  - rewrite argenc_cons in E. discriminate E.
  - rewrite !argenc_cons in E. cbn [fst snd] in E. pose proof (cons_eq_tl _ _ _ _ E) as E'.
    inversion F1 as [|? ? [Ck1 [W1 H1]] F1']; subst. inversion F2 as [|? ? [Ck2 [W2 H2]] F2']; subst. cbn [fst snd] in *.
    destruct (clean_split k1 k2 NAME_ID NAME_ID _ _ Ck1 Ck2 low_name low_name E') as [-> Er].
    pose proof (cons_eq_tl _ _ _ _ Er) as Ev.
    assert (Et : t1 = t2) by (eapply D; left; reflexivity). subst t2.
    destruct (enc_inj t1 W1 v1 v2 _ _ H1 H2 (fol_args t1 l1 F1') (fol_args t1 l2 F2') Ev) as [-> El].
    f_equal. apply IH; try assumption.
    intros k ta va tb vb Ha Hb. eapply D; right; eassumption.
Qed.

(* the declared types need only agree when the type identifiers agree (the type identifier is read
   from the stream before the parameters)                                                       *)
Theorem enc_sig_inj_tid s1 s2 : wf_sig s1 -> wf_sig s2 -> (ss_tid s1 = ss_tid s2 -> same_decl s1 s2) ->
  enc_sig s1 = enc_sig s2 -> s1 = s2.
Proof.
  destruct s1 as [tk1 tid1 a1], s2 as [tk2 tid2 a2]. unfold wf_sig, same_decl, enc_sig. cbn [ss_task ss_tid ss_args].
  intros [T1 [C1 [N1 A1]]] [T2 [C2 [N2 A2]]] D E.
  pose proof (cons_eq_tl _ _ _ _ E) as E'. clear E.
  fold argenc in E'. fold arg_ok in A1, A2.
  assert (Lh : forall l, Forall arg_ok l -> lowhead (flat_map argenc l)).
  { intros l F. destruct l as [|a l]; [exact I|]. rewrite argenc_cons. apply low_str. }
  assert (Rest : forall tida tidb la lb, clean tida -> clean tidb -> Forall arg_ok la -> Forall arg_ok lb ->
                   (tida = tidb -> forall k t1 v1 t2 v2, In (k, t1, v1) la -> In (k, t2, v2) lb -> t1 = t2) ->
                   tida ++ flat_map argenc la = tidb ++ flat_map argenc lb -> tida = tidb /\ la = lb).
  { intros tida tidb la lb Ca Cb Fa Fb Dd Ee.
    destruct (clean_end tida tidb _ _ Ca Cb (Lh la Fa) (Lh lb Fb) Ee) as [-> El].
    split; [reflexivity|]. apply args_inj; try assumption. apply Dd. reflexivity. }
  destruct tk1 as [t1|], tk2 as [t2|].
  - cbn [app] in E'. pose proof (cons_eq_tl _ _ _ _ E') as E''.
    destruct (enc_inj TObj I t1 t2 _ _ T1 T2 I I E'') as [-> Er].
    destruct (Rest tid1 tid2 a1 a2 C1 C2 A1 A2 D Er) as [-> ->]. reflexivity.
  - exfalso. destruct tid2 as [|b tid2]; [congruence|]. inversion C2 as [|? ? Lb _]; subst.
    cbn [app] in E'. injection E' as Eb _. subst b. cbv in Lb. apply Lb. reflexivity.
  - exfalso. destruct tid1 as [|b tid1]; [congruence|]. inversion C1 as [|? ? Lb _]; subst.
    cbn [app] in E'. injection E' as Eb _. subst b. cbv in Lb. apply Lb. reflexivity.
  - cbn [app] in E'. destruct (Rest tid1 tid2 a1 a2 C1 C2 A1 A2 D E') as [-> ->]. reflexivity.
Qed.

Theorem enc_sig_inj s1 s2 : wf_sig s1 -> wf_sig s2 -> same_decl s1 s2 -> enc_sig s1 = enc_sig s2 -> s1 = s2.
Proof. intros W1 W2 D. apply enc_sig_inj_tid; try assumption. intros _. exact D. Qed.

(* the domain is tight: the two families named in the property collide *)
Example str_collision_outside_domain :
  let s1 := {| ss_task := None; ss_tid := [115]%N;
               ss_args := [([97]%N, TStr, SStr [120]%N); ([98]%N, TStr, SStr [121]%N)] |} in
  let s2 := {| ss_task := None; ss_tid := [115]%N;
               ss_args := [([97]%N, TStr, SStr [120; 3; 98; 5; 3; 121]%N)] |} in
  s1 <> s2 /\ enc_sig s1 = enc_sig s2.
Proof. split; [intros E; discriminate E|vm_compute; reflexivity]. Qed.

Example dict3_collision_outside_domain :
  let i1 := SDict [([120]%N, SInt 1)] in
  let v1 := SDict [([97]%N, SDict [([98]%N, i1)]); ([99]%N, SDict [])] in
  let v2 := SDict [([97]%N, SDict [([98]%N, i1); ([99]%N, SDict [])])] in
  v1 <> v2 /\ enc v1 = enc v2 /\ ~ wf_ty (TDict (TDict (TDict TInt))).
Proof.
  split; [intros E; discriminate E|]. split; [vm_compute; reflexivity|].
  cbn. intros [_ [_ K]]. apply (K DICT_ID); left; reflexivity.
Qed.

(* non-vacuity: the claimed domain (dicts nested two levels, lists, optionals) is well formed *)
Example wf_two_level_dict : wf_ty (TDict (TDict (TOpt (TList TStr)))) /\ wf_ty (TList (TDict TInt)) /\ wf_ty (TOpt TObj).
Proof.
  cbn. unfold NONE_ID, LIST_ID, DICT_ID, INT_ID, OBJECT_ID, STR_ID.
  repeat split; try (intros b Hb1 Hb2; cbn in *; intuition (subst; discriminate)); try (intuition discriminate).
Qed.

(* ---- the decidable domain predicates imply the propositional ones -------------------- *)
Lemma cleanb_ok s : cleanb s = true -> clean s.
Proof.
  unfold cleanb, clean. intros E. apply Forall_forall. intros b Hb.
  rewrite forallb_forall in E. apply N.leb_le. apply E. exact Hb.
Qed.

Lemma inqb_ok z : inqb z = true -> inq z.
Proof.
  unfold inqb, inq. intros E. apply andb_true_iff in E. destruct E as [E1 E2].
  apply Z.leb_le in E1. apply Z.ltb_lt in E2. lia.
Qed.

Lemma memN_in b l : memN b l = true <-> In b l.
Proof.
  unfold memN. rewrite existsb_exists. split.
  - intros [x [Hx E]]. apply N.eqb_eq in E. subst. exact Hx.
  - intros Hb. exists b. split; [exact Hb|apply N.eqb_refl].
Qed.

Lemma has_typeb_ok : forall t v, has_typeb true t v = true -> has_type t v.
Proof.
  induction t; intros v E; cbn [has_type].
  - destruct v; cbn in E; try discriminate. eexists. split; [reflexivity|apply inqb_ok; exact E].
  - destruct v; cbn in E; try discriminate. eexists. split; [reflexivity|apply N.ltb_lt; exact E].
  - destruct v; cbn in E; try discriminate. eexists. split; [reflexivity|apply cleanb_ok; exact E].
  - destruct v; cbn in E; try discriminate. eexists. split; [reflexivity|apply cleanb_ok; exact E].
  - destruct v; cbn [has_typeb] in E; try discriminate.
    + left. eexists. split; [reflexivity|]. apply andb_true_iff in E. destruct E as [E1 E2].
      split; [apply Nat.eqb_eq; exact E1|]. cbn in E2. destruct d as [|b d]; [intros X; discriminate X|].
      cbn. intros X. inversion X. subst. rewrite N.eqb_refl in E2. discriminate.
    + right. eexists. split; [reflexivity|apply inqb_ok; exact E].
  - destruct v; cbn [has_typeb] in E; try (left; reflexivity); right; apply IHt; exact E.
  - destruct v; cbn [has_typeb] in E; try discriminate.
    apply andb_true_iff in E. destruct E as [E1 E2]. eexists. split; [reflexivity|]. split; [|apply N.ltb_lt; exact E2].
    apply Forall_forall. intros x Hx. apply IHt. rewrite forallb_forall in E1. apply E1. exact Hx.
  - destruct v; cbn [has_typeb] in E; try discriminate.
    eexists. split; [reflexivity|]. apply Forall_forall. intros x Hx. rewrite forallb_forall in E.
    specialize (E x Hx). apply andb_true_iff in E. destruct E as [E1 E2]. split; [apply cleanb_ok; exact E1|apply IHt; exact E2].
Qed.

Lemma okfolb_ok tags : forall t, okfolb tags t = true -> okfol tags t.
Proof.
  induction t; cbn [okfolb okfol]; intros E; auto.
  apply andb_true_iff in E. destruct E as [E1 E2]. split; [apply IHt; exact E1|].
  intros b Hb Hin. rewrite forallb_forall in E2. specialize (E2 b Hb).
  apply memN_in in Hin. rewrite Hin in E2. discriminate.
Qed.

Lemma wf_tyb_ok : forall t, wf_tyb t = true -> wf_ty t.
Proof.
  induction t; cbn [wf_tyb wf_ty]; intros E; auto.
  - apply andb_true_iff in E. destruct E as [E1 E2]. split; [apply IHt; exact E1|].
    intros Hin. apply memN_in in Hin. rewrite Hin in E2. discriminate.
  - apply andb_true_iff in E. destruct E as [E1 E2]. split; [apply IHt; exact E1|apply okfolb_ok; exact E2].
Qed.

Theorem wf_sigb_ok s : wf_sigb true s = true -> wf_sig s.
Proof.
  unfold wf_sigb, wf_sig. intros E.
  apply andb_true_iff in E. destruct E as [E E4]. apply andb_true_iff in E. destruct E as [E E3].
  apply andb_true_iff in E. destruct E as [E1 E2].
  split; [|split; [apply cleanb_ok; exact E2|split]].
  - destruct (ss_task s); [apply has_typeb_ok; exact E1|exact I].
  - destruct (ss_tid s); [discriminate E3|intros X; discriminate X].
  - apply Forall_forall. intros a Ha. rewrite forallb_forall in E4. specialize (E4 a Ha).
    apply andb_true_iff in E4. destruct E4 as [E4 E7]. apply andb_true_iff in E4. destruct E4 as [E5 E6].
    split; [apply cleanb_ok; exact E5|split; [apply wf_tyb_ok; exact E6|apply has_typeb_ok; exact E7]].
Qed.

(* ---- the outer stream of the full identifier: raw id, sorted pre-task ids, [INIT_TASKS, init ids] ---- *)
Definition full_stream (raw : bytes) (pre init : list bytes) : bytes :=
  raw ++ concat pre ++ (match init with [] => [] | _ => INIT_TASKS :: concat init end).

Definition id32 (d : bytes) : Prop := length d = 32.
(* excluded event (probability 1/256 per pre-task identifier with a real hash): an identifier
   of a pre-task that starts with the INIT_TASKS byte could be read as the marker              *)
Definition not_marker (d : bytes) : Prop := hd_error d <> Some INIT_TASKS.

Lemma concat_id32_inj : forall l1 l2, Forall id32 l1 -> Forall id32 l2 -> concat l1 = concat l2 -> l1 = l2.
Proof.
  induction l1 as [|a l1 IH]; intros [|b l2] F1 F2 E; cbn [concat] in E.
  - reflexivity.
  - inversion F2 as [|? ? Lb _]; subst. destruct b; [discriminate Lb|discriminate E].
  - inversion F1 as [|? ? La _]; subst. destruct a; [discriminate La|discriminate E].
  - inversion F1 as [|? ? La F1']; subst. inversion F2 as [|? ? Lb F2']; subst.
    destruct (app_inj_tail_len a _ b _ (eq_trans La (eq_sym Lb)) E) as [-> E']. f_equal. apply IH; assumption.
Qed.

Lemma pre_init_inj : forall p1 p2 i1 i2,
  Forall id32 p1 -> Forall id32 p2 -> Forall not_marker p1 -> Forall not_marker p2 ->
  Forall id32 i1 -> Forall id32 i2 ->
  concat p1 ++ (match i1 with [] => [] | _ => INIT_TASKS :: concat i1 end)
  = concat p2 ++ (match i2 with [] => [] | _ => INIT_TASKS :: concat i2 end) ->
  p1 = p2 /\ i1 = i2.
Proof.
  assert (Tail : forall i1 i2, Forall id32 i1 -> Forall id32 i2 ->
            (match i1 with [] => [] | _ => INIT_TASKS :: concat i1 end) = (match i2 with [] => [] | _ => INIT_TASKS :: concat i2 end) ->
            i1 = i2).
  { intros i1 i2 F1 F2 E. destruct i1 as [|a i1], i2 as [|b i2]; try discriminate E; [reflexivity|].
    apply concat_id32_inj; try assumption. exact (cons_eq_tl _ _ _ _ E). }
  assert (Mark : forall (p : list bytes) i b r, Forall id32 (b :: p) -> not_marker b ->
            (match i with [] => [] | _ => INIT_TASKS :: concat i end) = concat (b :: p) ++ r -> False).
  { intros p i b r F N E. inversion F as [|? ? Lb _]; subst. destruct b as [|x b]; [discriminate Lb|].
    destruct i; cbn in E; [discriminate E|]. inversion E. subst x. apply N. reflexivity. }
  induction p1 as [|a p1 IH]; intros [|b p2] i1 i2 F1 F2 N1 N2 G1 G2 E; cbn [concat app] in E.
  - split; [reflexivity|apply Tail; assumption].
  - exfalso. inversion N2; subst. eapply (Mark p2 i1 b); eassumption.
  - exfalso. inversion N1; subst. eapply (Mark p1 i2 a); [eassumption|eassumption|symmetry; exact E].
  - inversion F1 as [|? ? La F1']; subst. inversion F2 as [|? ? Lb F2']; subst.
    inversion N1; subst. inversion N2; subst. rewrite <- !app_assoc in E.
    destruct (app_inj_tail_len a _ b _ (eq_trans La (eq_sym Lb)) E) as [-> E'].
    destruct (IH p2 i1 i2) as [-> ->]; try assumption. split; reflexivity.
Qed.

(* the outer stream determines the raw identifier, the (sorted) pre-task identifiers and the
   sequence of init-task identifiers                                                          *)
Theorem full_stream_inj raw1 raw2 p1 p2 i1 i2 :
  id32 raw1 -> id32 raw2 -> Forall id32 p1 -> Forall id32 p2 -> Forall not_marker p1 -> Forall not_marker p2 ->
  Forall id32 i1 -> Forall id32 i2 ->
  full_stream raw1 p1 i1 = full_stream raw2 p2 i2 -> raw1 = raw2 /\ p1 = p2 /\ i1 = i2.
Proof.
  unfold full_stream. intros R1 R2 F1 F2 N1 N2 G1 G2 E.
  destruct (app_inj_tail_len raw1 _ raw2 _ (eq_trans R1 (eq_sym R2)) E) as [-> E'].
  destruct (pre_init_inj p1 p2 i1 i2 F1 F2 N1 N2 G1 G2 E') as [-> ->]. repeat split.
Qed.

Lemma full_of_stream H raw pre init : full_of H raw pre init = H (full_stream raw (sort_by (fun x => x) pre) init).
Proof. reflexivity. Qed.
