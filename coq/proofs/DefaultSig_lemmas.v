(* The default test of the repaired implementation for defaults that hold configurations
   (HashComputer.is_default, /repo bb7497a): "a value is the default when both are hashed alike" - each with a fresh
   hasher and an empty configuration path.  The model of the test, and what the theorems of the identifier core say
   about it: it ignores meta-flagged members at any depth (so the former `remove_meta` step is subsumed), it cannot
   tell apart two values that any node would hash alike, and it DOES see the mark of the producing task (the defect
   of the structural `==`, which did not).                                                                        *)
From Coq Require Import ZArith NArith List Bool.
From XV Require Import core.Value model.Hash proofs.Hash_lemmas proofs.MetaMember_lemmas proofs.OwnMark_lemmas.
Import ListNotations.

Section DefaultSig.
  Variable H : bytes -> bytes.
  Variable cs : classes.
  Variable h : heap.
  Variable look : nat -> option bytes.

  (* what a fresh hasher is fed for a value *)
  Definition sig_bytes (fuel : nat) (v : value) : option bytes :=
    match hv H cs h look fuel [] v with Ok r => Some (fst r) | Err _ => None end.

  Definition is_default_sig (fuel : nat) (d v : value) : bool :=
    match sig_bytes fuel d, sig_bytes fuel v with
    | Some a, Some b => bytes_eqb a b
    | _, _ => false
    end.

  Theorem default_sig_ignores_meta_members fuel d v :
    is_default_sig fuel d v = is_default_sig fuel d (remove_meta h v).
  Proof. unfold is_default_sig, sig_bytes. rewrite <- (hv_strip H cs h look fuel [] v). reflexivity. Qed.

  Theorem default_sig_ignores_meta_members_of_default fuel d v :
    is_default_sig fuel d v = is_default_sig fuel (remove_meta h d) v.
  Proof. unfold is_default_sig, sig_bytes. rewrite <- (hv_strip H cs h look fuel [] d). reflexivity. Qed.

  (* two values that are hashed alike are the default together *)
  Theorem default_sig_respects_hash fuel d v v' :
    hv H cs h look fuel [] v = hv H cs h look fuel [] v' -> is_default_sig fuel d v = is_default_sig fuel d v'.
  Proof. intros E. unfold is_default_sig, sig_bytes. rewrite E. reflexivity. Qed.
End DefaultSig.

(* the mark of the producing task is seen: on the graph of OwnMark_lemmas, the configuration 0 marked as the output of
   task 1 is NOT its unmarked self (the structural == of the pinned commit compared classes and parameter values only) *)
Example default_sig_sees_task_mark :
  is_default_sig (fun b => b) om_classes (mark om_heap 0 1 ++ om_heap) (fun _ => None) 6 (VRef 2) (VRef 0) = false
  /\ is_default_sig (fun b => b) om_classes (mark om_heap 0 1 ++ om_heap) (fun _ => None) 6 (VRef 2) (VRef 2) = true.
Proof. split; vm_compute; reflexivity. Qed.
