(* Lemmas about the generic ConfigWalk model (model/Walk.v), proved once and used by
   GenPath (C17) and Instance (C13).                                               *)
From Coq Require Import List NArith ZArith Bool Arith Lia Decimal DecimalNat DecimalFacts.
From XV Require Import model.Walk.
Import ListNotations.

(* ---- small facts ------------------------------------------------------------ *)
Lemma memb_In n l : memb n l = true <-> In n l.
Proof.
  induction l as [|x l IH]; simpl.
  - split; [discriminate | tauto].
  - rewrite orb_true_iff, IH, Nat.eqb_eq. split; intros [H|H]; auto.
Qed.

Lemma memb_false n l : memb n l = false <-> ~ In n l.
Proof. rewrite <- memb_In. destruct (memb n l); split; intros; try discriminate; tauto. Qed.

Lemma str_eqb_eq a b : str_eqb a b = true <-> a = b.
Proof.
  revert b; induction a as [|x a IH]; destruct b as [|y b]; simpl; try (split; congruence).
  rewrite andb_true_iff, N.eqb_eq, IH. split; [intros [-> ->]; auto | intros E; inversion E; auto].
Qed.

Lemma nth_error_range {A} (l : list A) n : n < length l <-> nth_error l n <> None.
Proof. symmetry. apply nth_error_Some. Qed.

(* ---- fold_opt --------------------------------------------------------------- *)
Lemma fold_opt_inv {A S} (f : A -> S -> option S) (P : S -> Prop) l :
  (forall x s s', In x l -> P s -> f x s = Some s' -> P s') ->
  forall s s', P s -> fold_opt f l s = Some s' -> P s'.
Proof.
  induction l as [|x l IH]; simpl; intros Hf s s' Hs E.
  - inversion E; subst; auto.
  - destruct (f x s) as [s1|] eqn:E1; [|discriminate].
    apply (IH (fun y t t' Hy => Hf y t t' (or_intror Hy)) s1 s'); auto.
    apply (Hf x s s1); auto.
Qed.

Lemma fold_opt_pre {A S} (f : A -> S -> option S) (Q : list A -> S -> Prop) l :
  (forall done x s s', In x l -> Q done s -> f x s = Some s' -> Q (done ++ [x]) s') ->
  forall done s s', Q done s -> fold_opt f l s = Some s' -> Q (done ++ l) s'.
Proof.
  induction l as [|x l IH]; simpl; intros Hf done s s' Hs E.
  - inversion E; subst. rewrite List.app_nil_r; auto.
  - destruct (f x s) as [s1|] eqn:E1; [|discriminate].
    replace (done ++ x :: l) with ((done ++ [x]) ++ l) by (rewrite <- List.app_assoc; reflexivity).
    apply (IH (fun d y t t' Hy => Hf d y t t' (or_intror Hy)) (done ++ [x]) s1 s'); auto.
    apply (Hf done x s s1); auto.
Qed.

Lemma fold_opt_some {A S} (f : A -> S -> option S) (P : S -> Prop) l :
  (forall x s, In x l -> P s -> exists s', f x s = Some s' /\ P s') ->
  forall s, P s -> exists s', fold_opt f l s = Some s' /\ P s'.
Proof.
  induction l as [|x l IH]; simpl; intros Hf s Hs.
  - eauto.
  - destruct (Hf x s (or_introl eq_refl) Hs) as [s1 [E1 P1]]. rewrite E1.
    apply IH; auto.
Qed.

Lemma fold_opt_ext {A S} (f g : A -> S -> option S) l :
  (forall x s s', In x l -> f x s = Some s' -> g x s = Some s') ->
  forall s s', fold_opt f l s = Some s' -> fold_opt g l s = Some s'.
Proof.
  induction l as [|x l IH]; simpl; intros Hfg s s' E; auto.
  destruct (f x s) as [s1|] eqn:E1; [|discriminate].
  rewrite (Hfg x s s1 (or_introl eq_refl) E1). apply IH; auto.
Qed.

Lemma filter_len_le {A} (p q : A -> bool) l :
  (forall x, In x l -> p x = true -> q x = true) -> length (filter p l) <= length (filter q l).
Proof.
  induction l as [|x l IH]; simpl; intros H; auto.
  assert (IH' := IH (fun y Hy => H y (or_intror Hy))).
  destruct (p x) eqn:Px.
  - rewrite (H x (or_introl eq_refl) Px). simpl. lia.
  - destruct (q x); simpl; lia.
Qed.

Lemma filter_len_lt {A} (p q : A -> bool) l x :
  (forall y, In y l -> p y = true -> q y = true) -> In x l -> p x = false -> q x = true ->
  length (filter p l) < length (filter q l).
Proof.
  induction l as [|y l IH]; simpl; intros H Hin Px Qx; [tauto|].
  assert (Hl := filter_len_le p q l (fun z Hz => H z (or_intror Hz))).
  destruct Hin as [->|Hin].
  - rewrite Px, Qx. simpl. lia.
  - assert (IH' := IH (fun z Hz => H z (or_intror Hz)) Hin Px Qx).
    destruct (p y) eqn:Py.
    + rewrite (H y (or_introl eq_refl) Py). simpl. lia.
    + destruct (q y); simpl; lia.
Qed.

Section WalkFacts.
  Variable h : heap.
  Variable rt : nat -> node -> list edge.
  Variable cut : nat -> bool.

  Notation visit := (visit h rt cut).
  Notation expanded := (expanded h cut).
  Notation out_edges := (out_edges h rt).
  Notation path := (path h rt cut).
  Notation reach := (reach h rt cut).

  (* ---- monotonicity of visited, fuel ---------------------------------------- *)
  Lemma visit_mono : forall fuel pos n st st',
    visit fuel pos n st = Some st' -> incl (visited st) (visited st').
  Proof.
    induction fuel as [|f IH]; simpl; intros pos n st st' E; [discriminate|].
    destruct (nth_error h n) as [nd|]; [|inversion E; subst; apply incl_refl].
    destruct (memb n (visited st)); [inversion E; subst; apply incl_refl|].
    destruct (cut n).
    { inversion E; subst; simpl. apply incl_tl, incl_refl. }
    match type of E with match ?F with _ => _ end = _ => destruct F as [st2|] eqn:EF; [|discriminate] end.
    inversion E; subst; simpl.
    assert (G : incl (n :: visited st) (visited st2)).
    { revert EF. apply (fold_opt_inv _ (fun s => incl (n :: visited st) (visited s))).
      - intros e s s' _ Hs Es. eapply incl_tran; [exact Hs|]. eapply IH; eauto.
      - simpl. apply incl_refl. }
    intros x Hx. apply G. right; auto.
  Qed.

  Definition unvisited (V : list nat) : nat :=
    length (filter (fun i => negb (memb i V)) (seq 0 (length h))).

  Lemma unvisited_incl V V' : incl V V' -> unvisited V' <= unvisited V.
  Proof.
    intros H. apply filter_len_le. intros x _. rewrite !negb_true_iff, !memb_false. auto.
  Qed.

  Lemma unvisited_cons n V : n < length h -> ~ In n V -> unvisited (n :: V) < unvisited V.
  Proof.
    intros Hn Hv. apply (filter_len_lt _ _ _ n).
    - intros y _. rewrite !negb_true_iff, !memb_false. simpl. tauto.
    - apply in_seq. lia.
    - simpl. rewrite Nat.eqb_refl. reflexivity.
    - rewrite negb_true_iff, memb_false. auto.
  Qed.

  Lemma unvisited_le V : unvisited V <= length h.
  Proof.
    unfold unvisited. etransitivity; [apply (filter_len_le _ (fun _ => true))|]; auto.
    assert (G : forall (l : list nat), length (filter (fun _ => true) l) = length l)
      by (induction l; simpl; auto).
    rewrite G, seq_length; auto.
  Qed.

  Lemma visit_fuel : forall fuel pos n st,
    unvisited (visited st) < fuel -> exists st', visit fuel pos n st = Some st'.
  Proof.
    induction fuel as [|f IH]; simpl; intros pos n st Hf; [lia|].
    destruct (nth_error h n) as [nd|] eqn:En; [|eauto].
    destruct (memb n (visited st)) eqn:Em; [eauto|].
    destruct (cut n); [eauto|].
    assert (Hn : n < length h) by (apply nth_error_range; congruence).
    apply memb_false in Em.
    assert (Hlt := unvisited_cons n (visited st) Hn Em).
    destruct (fold_opt_some (fun e s => visit f (pos ++ fst e) (snd e) s)
                (fun s => unvisited (visited s) < f) (rt n nd)) with
        (s := {| visited := n :: visited st; events := events st |}) as [st2 [E2 _]].
    - intros e s _ Hs. destruct (IH (pos ++ fst e) (snd e) s Hs) as [s' Es].
      exists s'; split; auto.
      assert (Hm := unvisited_incl _ _ (visit_mono _ _ _ _ _ Es)). lia.
    - simpl. lia.
    - rewrite E2. eauto.
  Qed.

  (* fuel_bound is enough, whatever the heap *)
  Lemma visit_fuel_bound : forall pos n, exists st', visit (fuel_bound h) pos n st0 = Some st'.
  Proof.
    intros. apply visit_fuel. unfold fuel_bound. assert (H := unvisited_le (visited st0)). lia.
  Qed.

  Lemma visit_more_fuel : forall f1 pos n st st',
    visit f1 pos n st = Some st' -> forall f2, f1 <= f2 -> visit f2 pos n st = Some st'.
  Proof.
    induction f1 as [|f1 IH]; simpl; intros pos n st st' E f2 Hle; [discriminate|].
    destruct f2 as [|f2]; [lia|]. simpl.
    destruct (nth_error h n) as [nd|]; auto.
    destruct (memb n (visited st)); auto.
    destruct (cut n); auto.
    match type of E with match ?F with _ => _ end = _ => destruct F as [st2|] eqn:EF; [|discriminate] end.
    rewrite (fold_opt_ext _ (fun e s => visit f2 (pos ++ fst e) (snd e) s) _
               (fun e s s' _ Es => IH _ _ _ _ Es f2 ltac:(lia)) _ _ EF). auto.
  Qed.
End WalkFacts.

Lemma NoDup_app_single {A} (l : list A) x : NoDup l -> ~ In x l -> NoDup (l ++ [x]).
Proof.
  induction l as [|y l IH]; simpl; intros Hn Hx.
  - constructor; auto.
  - inversion Hn; subst. constructor.
    + rewrite in_app_iff. simpl. intros [H|[H|[]]]; auto.
    + apply IH; auto.
Qed.

Section WalkCorrect.
  Variable h : heap.
  Variable rt : nat -> node -> list edge.
  Variable cut : nat -> bool.

  Notation visit := (visit h rt cut).
  Notation expanded := (expanded h cut).
  Notation out_edges := (out_edges h rt).
  Notation path := (path h rt cut).
  Notation reach := (reach h rt cut).

  Lemma expanded_range n : expanded n -> n < length h.
  Proof. intros [nd [E _]]. apply nth_error_range. congruence. Qed.

  Lemma path_start a p c : path a p c -> expanded a.
  Proof. destruct 1; auto. Qed.

  Lemma path_end a p c : path a p c -> expanded c.
  Proof. induction 1; auto. Qed.

  Lemma path_snoc a p b : path a p b -> forall rel c,
    In (rel, c) (out_edges b) -> expanded c -> path a (p ++ rel) c.
  Proof.
    induction 1 as [a Ha | a rel0 b p c0 Ha Hin Hp IH]; intros rel c Hedge Hc.
    - simpl. rewrite <- (List.app_nil_r rel). apply path_cons with (b := c); auto. constructor; auto.
    - rewrite <- List.app_assoc. apply path_cons with (b := b); auto.
  Qed.

  Lemma reach_step root n rel m :
    reach root n -> In (rel, m) (out_edges n) -> expanded m -> reach root m.
  Proof. intros [p Hp] Hin Hm. exists (p ++ rel). eapply path_snoc; eauto. Qed.

  (* ---- every event is a postprocess of a node reached by the recorded keys --- *)
  Lemma visit_paths : forall fuel pos n st st',
    visit fuel pos n st = Some st' ->
    exists new, events st' = events st ++ new /\
      forall m p, In (m, p) new -> exists rel, p = pos ++ rel /\ path n rel m.
  Proof.
    induction fuel as [|f IH]; simpl; intros pos n st st' E; [discriminate|].
    destruct (nth_error h n) as [nd|] eqn:En;
      [|inversion E; subst; exists []; rewrite List.app_nil_r; split; auto; intros ? ? []].
    destruct (memb n (visited st));
      [inversion E; subst; exists []; rewrite List.app_nil_r; split; auto; intros ? ? []|].
    destruct (cut n) eqn:Ec;
      [inversion E; subst; exists []; simpl; rewrite List.app_nil_r; split; auto; intros ? ? []|].
    match type of E with match ?F with _ => _ end = _ => destruct F as [st2|] eqn:EF; [|discriminate] end.
    inversion E; subst; simpl. clear E.
    assert (Hexp : expanded n) by (exists nd; auto).
    assert (G : exists new, events st2 = events st ++ new /\
              forall m p, In (m, p) new -> exists rel, p = pos ++ rel /\ path n rel m).
    { revert EF.
      apply (fold_opt_inv _ (fun s => exists new, events s = events st ++ new /\
              forall m p, In (m, p) new -> exists rel, p = pos ++ rel /\ path n rel m)).
      - intros [rel b] s s' Hin [new [Hs Hnew]] Es. simpl in Es.
        destruct (IH _ _ _ _ Es) as [new' [Hs' Hnew']].
        exists (new ++ new'). split; [rewrite Hs', Hs, List.app_assoc; auto|].
        intros m p Hmp. apply in_app_or in Hmp. destruct Hmp as [Hmp|Hmp]; auto.
        destruct (Hnew' _ _ Hmp) as [rel' [-> Hp]].
        exists (rel ++ rel'). split; [rewrite List.app_assoc; auto|].
        apply path_cons with (b := b); auto. unfold Walk.out_edges. rewrite En. auto.
      - simpl. exists []. rewrite List.app_nil_r; split; auto. intros ? ? []. }
    destruct G as [new [Hs Hnew]].
    exists (new ++ [(n, pos)]). split; [rewrite Hs, List.app_assoc; auto|].
    intros m p Hmp. apply in_app_or in Hmp. destruct Hmp as [Hmp|[Hmp|[]]]; auto.
    inversion Hmp; subst. exists []. rewrite List.app_nil_r. split; auto. constructor; auto.
  Qed.

  (* ---- the invariant (G = nodes whose children are being walked) ------------- *)
  Definition closed (G V : list nat) : Prop :=
    forall a rel b, In a V -> ~ In a G -> expanded a -> In (rel, b) (out_edges a) ->
                    b < length h -> In b V.

  Record Inv (G : list nat) (st : wstate) : Prop := {
    inv_grey : incl G (visited st);
    inv_range : forall m, In m (visited st) -> m < length h;
    inv_closed : closed G (visited st);
    inv_nodup : NoDup (map fst (events st));
    inv_events : forall m, In m (map fst (events st)) <->
                           (In m (visited st) /\ cut m = false /\ ~ In m G) }.

  Lemma visit_inv : forall fuel pos n st st' G,
    visit fuel pos n st = Some st' -> Inv G st ->
    Inv G st' /\ (n < length h -> In n (visited st')).
  Proof.
    induction fuel as [|f IH]; simpl; intros pos n st st' G E I; [discriminate|].
    destruct (nth_error h n) as [nd|] eqn:En.
    2:{ inversion E; subst; split; auto. intros Hn. apply nth_error_range in Hn. congruence. }
    assert (Hn : n < length h) by (apply nth_error_range; congruence).
    destruct (memb n (visited st)) eqn:Em.
    { inversion E; subst; split; auto. intros _. apply memb_In; auto. }
    apply memb_false in Em.
    destruct I as [Ig Ir Ic Ind Iev].
    assert (HnG : ~ In n G) by (intros HG; apply Em, Ig; auto).
    destruct (cut n) eqn:Ec.
    { inversion E; subst; simpl. split; [|intros; left; auto].
      constructor; simpl; auto.
      - apply incl_tl; auto.
      - intros m [<-|Hm]; auto.
      - intros a rel b [<-|Ha] HaG Hexp Hin Hb; [destruct Hexp as [? [_ Hc]]; congruence|].
        right. eapply Ic; eauto.
      - intros m. rewrite Iev. split.
        + intros [Hm [Hc Hg]]; auto.
        + intros [[<-|Hm] [Hc Hg]]; [congruence|auto]. }
    match type of E with match ?F with _ => _ end = _ => destruct F as [st2|] eqn:EF; [|discriminate] end.
    inversion E; subst; simpl. clear E.
    (* the fold over the children, with n grey *)
    assert (I1 : Inv (n :: G) {| visited := n :: visited st; events := events st |}).
    { constructor; simpl; auto.
      - intros x [<-|Hx]; [left; auto | right; auto].
      - intros m [<-|Hm]; auto.
      - intros a rel b [<-|Ha] HaG Hexp Hin Hb; [exfalso; apply HaG; left; auto|].
        right. eapply Ic; eauto. intros Hx; apply HaG; right; auto.
      - intros m. rewrite Iev. split.
        + intros [Hm [Hc Hg]]. split; [right; auto|]. split; auto.
          intros [<-|Hg']; auto.
        + intros [[<-|Hm] [Hc Hg]]; [exfalso; apply Hg; left; auto|].
          split; auto. }
    assert (Q : Inv (n :: G) st2 /\ incl (n :: visited st) (visited st2) /\
                forall e, In e ([] ++ rt n nd) -> snd e < length h -> In (snd e) (visited st2)).
    { revert EF.
      apply (fold_opt_pre _ (fun done s => Inv (n :: G) s /\ incl (n :: visited st) (visited s) /\
                forall e, In e done -> snd e < length h -> In (snd e) (visited s))).
      - intros done e s s' _ [Is [Hincl Hdone]] Es.
        destruct (IH _ _ _ _ _ Es Is) as [Is' Hin'].
        assert (Hm := visit_mono _ _ _ _ _ _ _ _ Es).
        split; auto. split; [eapply incl_tran; eauto|].
        intros e' He' Hr. apply in_app_or in He'. destruct He' as [He'|[<-|[]]]; auto.
      - split; auto. split; [apply incl_refl|]. intros ? []. }
    destruct Q as [[Ig2 Ir2 Ic2 Ind2 Iev2] [Hincl Hkids]]. simpl in Hkids.
    split; [|intros _; apply Hincl; left; auto].
    constructor; simpl.
    - intros x Hx. apply Ig2. right; auto.
    - auto.
    - intros a rel b Ha HaG Hexp Hin Hb.
      destruct (Nat.eq_dec a n) as [->|Hne].
      + unfold Walk.out_edges in Hin. rewrite En in Hin. apply (Hkids (rel, b)); auto.
      + eapply Ic2; eauto. intros [Hx|Hx]; auto.
    - rewrite map_app. simpl.
      apply NoDup_app_single; auto.
      intros Hx. apply Iev2 in Hx. destruct Hx as [_ [_ Hx]]. apply Hx. left; auto.
    - intros m. rewrite map_app, in_app_iff. simpl. rewrite Iev2. split.
      + intros [[Hm [Hc Hg]]|[<-|[]]].
        * split; auto. split; auto. intros Hx. apply Hg. right; auto.
        * split; [apply Hincl; left; auto|]. split; auto.
      + intros [Hm [Hc Hg]]. destruct (Nat.eq_dec m n) as [->|Hne]; [right; left; auto|].
        left. split; auto. split; auto. intros [Hx|Hx]; auto.
  Qed.
End WalkCorrect.

(* ---- prefixes ------------------------------------------------------------------ *)
Definition prefix {A} (a b : list A) : Prop := exists c, b = a ++ c.

Lemma app_eq_prefix {A} (a b c d : list A) : a ++ b = c ++ d -> prefix a c \/ prefix c a.
Proof.
  revert c; induction a as [|x a IH]; intros c E.
  - left. exists c; auto.
  - destruct c as [|y c]; [right; exists (x :: a); auto|].
    simpl in E. inversion E; subst. destruct (IH c H1) as [[e ->]|[e ->]].
    + left; exists e; auto.
    + right; exists e; auto.
Qed.

Section WalkTheorems.
  Variable h : heap.
  Variable rt : nat -> node -> list edge.
  Variable cut : nat -> bool.

  Notation expanded := (expanded h cut).
  Notation out_edges := (out_edges h rt).
  Notation path := (path h rt cut).
  Notation reach := (reach h rt cut).

  Lemma Inv_st0 : Inv h rt cut [] st0.
  Proof.
    constructor; simpl; auto.
    - apply incl_refl.
    - intros ? [].
    - intros a rel b [].
    - constructor.
    - intros m; split; [intros [] | intros [[] _]].
  Qed.

  (* (i) no fuel exhaustion with fuel_bound = S (length h), for every heap;
     (ii) postprocess exactly once on each node reachable through expanded nodes, on no other;
     (iv) the keys recorded with a node are a root path to it.                     *)
  Theorem walk_correct : forall root,
    exists evs, walk h rt cut root = Some evs /\
      NoDup (map fst evs) /\
      (forall m, In m (map fst evs) <-> reach root m) /\
      (forall m p, In (m, p) evs -> path root p m).
  Proof.
    intros root. unfold walk.
    destruct (visit_fuel_bound h rt cut [] root) as [st' E]. rewrite E.
    exists (events st'). split; auto.
    destruct (visit_inv h rt cut _ _ _ _ _ [] E Inv_st0) as [[Ig Ir Ic Ind Iev] Hroot].
    destruct (visit_paths h rt cut _ _ _ _ _ E) as [new [Hnew Hp]]. simpl in Hnew, Hp. subst new.
    assert (Hpath : forall m p, In (m, p) (events st') -> path root p m).
    { intros m p Hin. destruct (Hp _ _ Hin) as [rel [-> Hr]]. auto. }
    split; auto. split; auto.
    intros m. split.
    - intros Hm. apply in_map_iff in Hm. destruct Hm as [[m' p] [<- Hin]]. exists p; auto.
    - intros [p Hr]. apply Iev.
      assert (G : forall a p c, path a p c -> In a (visited st') -> In c (visited st')).
      { induction 1; auto. intros Ha. apply IHpath.
        eapply Ic; eauto. apply expanded_range with (cut := cut). eapply path_start; eauto. }
      assert (Hexp := path_end _ _ _ _ _ _ Hr). destruct Hexp as [nd [_ Hc]].
      split; [|split; auto].
      apply (G _ _ _ Hr). apply Hroot.
      apply expanded_range with (cut := cut). eapply path_start; eauto.
  Qed.

  (* the postprocess of the root comes last *)
  Theorem walk_root_last : forall root evs,
    walk h rt cut root = Some evs -> expanded root -> exists evs', evs = evs' ++ [(root, [])].
  Proof.
    intros root evs. unfold walk, fuel_bound. simpl.
    intros E [nd [En Hc]]. rewrite En, Hc in E.
    match type of E with context [fold_opt ?f ?l ?s] => destruct (fold_opt f l s) as [st2|] end;
      [|discriminate].
    inversion E; subst. simpl. eauto.
  Qed.

  (* (iii) the order of the calls depends on the heap only: more fuel changes nothing *)
  Theorem walk_fuel_irrelevant : forall root fuel st,
    visit h rt cut fuel [] root st0 = Some st -> walk h rt cut root = Some (events st).
  Proof.
    intros root fuel st E. unfold walk.
    destruct (visit_fuel_bound h rt cut [] root) as [st' E'].
    destruct (Nat.le_ge_cases fuel (fuel_bound h)) as [Hle|Hle].
    - rewrite (visit_more_fuel h rt cut _ _ _ _ _ E _ Hle). auto.
    - rewrite E'. assert (E2 := visit_more_fuel h rt cut _ _ _ _ _ E' _ Hle). congruence.
  Qed.

  (* ---- uniqueness of root paths ---------------------------------------------- *)
  (* among the edges of one node that lead to expanded nodes: no label is empty and no label
     is a prefix of the label of a different edge                                   *)
  Definition unamb (n : nat) : Prop :=
    forall e1 e2, In e1 (out_edges n) -> In e2 (out_edges n) ->
                  expanded (snd e1) -> expanded (snd e2) ->
                  (fst e1 <> []) /\ (prefix (fst e1) (fst e2) -> e1 = e2).

  Lemma path_inv a p c : path a p c ->
    (p = [] /\ a = c /\ expanded a) \/
    (exists rel b p', p = rel ++ p' /\ expanded a /\ In (rel, b) (out_edges a) /\ path b p' c).
  Proof.
    destruct 1 as [a Ha | a rel b p c Ha Hin Hp]; [left; auto|].
    right. exists rel, b, p; auto.
  Qed.

  Lemma path_unique : (forall n, unamb n) ->
    forall a p c1, path a p c1 -> forall c2, path a p c2 -> c1 = c2.
  Proof.
    intros U a p c1 H1. induction H1 as [a Ha | a rel b p c Ha Hin Hp IH]; intros c2 H2.
    - apply path_inv in H2. destruct H2 as [[_ [H2 _]]|[rel [b [p' [E [_ [Hin Hp]]]]]]]; auto.
      symmetry in E. apply app_eq_nil in E. destruct E as [-> ->].
      assert (Hb := path_start _ _ _ _ _ _ Hp).
      destruct (U a ([], b) ([], b) Hin Hin Hb Hb) as [Hne _]. exfalso; apply Hne; auto.
    - assert (Hb := path_start _ _ _ _ _ _ Hp).
      apply path_inv in H2. destruct H2 as [[E [H2 _]]|[rel0 [b0 [p0 [E [_ [Hin0 Hp0]]]]]]].
      + apply app_eq_nil in E. destruct E as [-> ->].
        destruct (U a ([], b) ([], b) Hin Hin Hb Hb) as [Hne _]. exfalso; apply Hne; auto.
      + assert (Hb0 := path_start _ _ _ _ _ _ Hp0).
        assert (Ee : (rel, b) = (rel0, b0)).
        { destruct (app_eq_prefix _ _ _ _ E) as [Hpre|Hpre].
          - apply (U a (rel, b) (rel0, b0)); auto.
          - symmetry. apply (U a (rel0, b0) (rel, b)); auto. }
        inversion Ee; subst. apply app_inv_head in E. subst. auto.
  Qed.

  (* two postprocess calls of one walk never carry the same keys *)
  Theorem walk_positions_distinct : (forall n, unamb n) ->
    forall root evs m1 p1 m2 p2, walk h rt cut root = Some evs ->
      In (m1, p1) evs -> In (m2, p2) evs -> m1 <> m2 -> p1 <> p2.
  Proof.
    intros U root evs m1 p1 m2 p2 E H1 H2 Hne Hp. subst p2.
    destruct (walk_correct root) as [evs' [E' [_ [_ Hpath]]]].
    rewrite E in E'. inversion E'; subst evs'.
    apply Hne. eapply path_unique; eauto.
  Qed.
End WalkTheorems.
