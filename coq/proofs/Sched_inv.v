(* Proofs about model/Sched.v, part 2: every transition preserves the global invariant. *)
From Coq Require Import ZArith List Bool Arith Lia ZifyBool.
From XV Require Import model.Sched proofs.Sched_lemmas.
Import ListNotations.
Open Scope Z_scope.
Set Implicit Arguments.

(* ------------------------------------------------------------------ Dependency.check preserves the invariant *)
Lemma check_cases : forall W s j i,
  check W all_fixed s j i = s \/
  exists d r' w, nth_error (deps W j) i = Some d /\ check_l true true (jobs s j) i (dep_status s d) = (r', w) /\
    check W all_fixed s j i = (if w then enqueue (setjob s j r') (CStep j) else setjob s j r').
Proof.
  intros. unfold check. destruct (nth_error (deps W j) i) as [d|] eqn:N; auto.
  right. simpl. destruct (check_l true true (jobs s j) i (dep_status s d)) as [r' w] eqn:C.
  exists d, r', w. auto.
Qed.

Lemma In_nth_error_len : forall A B (l : list A) (l' : list B) x, In x l -> length l' = length l ->
  exists i y, nth_error l i = Some x /\ nth_error l' i = Some y.
Proof.
  intros A B l l' x I Len. apply In_nth_error in I. destruct I as [i Hi]. exists i.
  assert (i < length l')%nat by (rewrite Len; apply nth_error_Some; congruence).
  destruct (nth_error l' i) eqn:E; [eauto|]. apply nth_error_None in E. lia.
Qed.

Lemma inv_job_lt : forall W s j, Inv W s -> pc (jobs s j) <> PNot -> (j < njobs W)%nat.
Proof.
  intros W s j I P. destruct (Nat.lt_ge_cases j (njobs W)); auto. exfalso. apply P. apply (I_out I); auto.
Qed.

Lemma inv_check : forall W s j i, wf W = true -> Inv W s -> started (pc (jobs s j)) = true ->
  Inv W (check W all_fixed s j i) /\ stab0 s (check W all_fixed s j i).
Proof.
  intros W s j i WF I S.
  destruct (check_cases W s j i) as [E|(d & r' & w & Nd & C & E)]; rewrite E; [split; auto; apply stab0_refl; auto|]. clear E.
  set (r := jobs s j) in *.
  pose proof (I_loc I j) as L. unfold jl in L. fold r in L.
  assert (Jn : (j < njobs W)%nat).
  { apply inv_job_lt with (s := s); auto. fold r. destruct (pc r); simpl in S; congruence. }
  apply check_l_async in C. destruct C as (A & Wk & Eerr & Cur & Cnone).
  destruct (l_CI L S) as (Len & Uns).
  assert (Hi : exists old, nth_error (cur r) i = Some old).
  { assert (i < length (cur r))%nat by (rewrite Len; apply nth_error_Some; congruence).
    destruct (nth_error (cur r) i) eqn:X; eauto. apply nth_error_None in X. lia. }
  destruct Hi as (old & Hold). destruct (Cur _ Hold) as (Cc & Cu & Cf). clear Cur Cnone.
  assert (U' : uns r' = Z.of_nat (count_nok (cur r'))).
  { rewrite Cc, Cu, Uns. symmetry. apply count_nok_replace; auto. }
  assert (NEWF : dep_status s d = DFAIL -> exists k, d = DJob k /\ st (jobs s k) = ERROR).
  { destruct d; simpl.
    - intros X. exists k. split; auto. destruct (st (jobs s k)); try discriminate; auto.
    - destruct (c <=? avail s t)%nat; discriminate. }
  assert (NEWO : forall k, d = DJob k -> dep_status s d = DOK -> st (jobs s k) = DONE).
  { intros k -> X. simpl in X. destruct (st (jobs s k)); try discriminate; auto. }
  assert (Ind : In d (deps W j)) by (eapply nth_error_In; eauto).
  assert (LI : linv (deps W j) (j_marker (spec W j)) (j_code (spec W j)) (adopted W j) r').
  { eapply linv_async; eauto.
    - intros IS E'. destruct (Eerr E') as [X|X]; auto.
      destruct (NEWF X) as (k & -> & K). rewrite (I_RD I j k) in K; auto. discriminate.
    - intros (i' & Hi'). rewrite Cc in Hi'. rewrite nth_error_replace in Hi'.
      destruct (Nat.eqb i i') eqn:Ei.
      + apply Nat.eqb_eq in Ei. subst i'. rewrite Hold in Hi'. inversion Hi' as [X].
        destruct (dstatus_eqb old DFAIL) eqn:EO.
        * apply dstatus_eqb_eq in EO. left. exists i. congruence.
        * right. destruct Cf as [F|F]; auto; [intros ->; simpl in EO; discriminate|].
          (* the state is neither not-started nor (else the left case) finished: RUNNING *)
          destruct (st r) eqn:SR; simpl in F; try discriminate.
          -- destruct (l_RUN L SR) as [Z|Z]; [|right; exact Z]. exfalso.
             destruct (NEWF X) as (k & -> & K). rewrite (I_RD I j k) in K; auto; [discriminate|].
             right. fold r. destruct (pc r) as [| | | | |a|a|]; simpl in *; try discriminate; destruct a; simpl in *; auto; discriminate.
          -- left. destruct A as [_ _ _ _ As _ _ _ _ _ _ _ _]. destruct As as [Y|[(Y&_)|(Y&_)]]; [rewrite Y, SR; reflexivity|rewrite ?SR in Y; simpl in Y; discriminate|rewrite ?SR in Y; simpl in Y; discriminate].
          -- left. destruct A as [_ _ _ _ As _ _ _ _ _ _ _ _]. destruct As as [Y|[(Y&_)|(Y&_)]]; [rewrite Y, SR; reflexivity|rewrite ?SR in Y; simpl in Y; discriminate|rewrite ?SR in Y; simpl in Y; discriminate].
      + left. eauto. }
  destruct A as [Ah Al Ap Ae As Afd Alen Aw Aes Au0 Af2 Aerr Arun].
  assert (PC : pc r' = pc r \/ (pc r = PAwaitReady /\ pc r' = PWokenReady)) by (destruct Ap as [?|(?&?&_)]; auto).
  assert (FIN : finished (st r) = true -> st r' = st r).
  { intros F. destruct As as [?|[(?&?)|(N&?)]]; auto; try congruence. destruct (st r); simpl in *; congruence. }
  assert (CO' : forall i' k, nth_error (cur r') i' = Some DOK -> nth_error (deps W j) i' = Some (DJob k) -> st (jobs s k) = DONE).
  { intros i' k X Y. rewrite Cc in X. rewrite nth_error_replace in X. destruct (Nat.eqb i i') eqn:Ei.
    - apply Nat.eqb_eq in Ei. subst i'. rewrite Hold in X. inversion X. apply NEWO; congruence.
    - eapply (I_CO I j); eauto. }
  set (s' := if w then enqueue (setjob s j r') (CStep j) else setjob s j r').
  assert (EJ : jobs s' = upd (jobs s) j r') by (subst s'; destruct w; reflexivity).
  assert (EU : unfinished s' = unfinished s) by (subst s'; destruct w; reflexivity).
  assert (EF : failed s' = failed s) by (subst s'; destruct w; reflexivity).
  assert (EQ : queue s' = queue s \/ queue s' = queue s ++ [CStep j]) by (subst s'; destruct w; simpl; auto).
  assert (H1 : st r = DONE -> st r' = DONE) by (intros D; rewrite FIN; rewrite D; auto).
  assert (H2 : st r = ERROR -> st r' = ERROR) by (intros D; rewrite FIN; rewrite D; auto).
  assert (H3 : started (pc r) = true -> started (pc r') = true).
  { intros _. destruct PC as [X|(_&X)]; rewrite X; auto. }
  assert (H4 : past_loop (pc r) = true -> past_loop (pc r') = true).
  { intros P. destruct PC as [X|(Y&X)]; [rewrite X; auto|rewrite Y in P; discriminate]. }
  assert (H5 : spawned (pc r) = true -> spawned (pc r') = true).
  { intros P. destruct PC as [X|(Y&X)]; rewrite X; auto. }
  assert (H6 : spawned (pc r') = true -> forall k, In (DJob k) (deps W j) -> spawned (pc (jobs s k)) = true).
  { intros _ k Hk. apply (I_sub I j k); auto. fold r. destruct (pc r); simpl in S; try discriminate; auto. }
  assert (H7 : forall i' k, started (pc r') = true -> nth_error (cur r') i' = Some DOK ->
            nth_error (deps W j) i' = Some (DJob k) -> st (jobs s k) = DONE).
  { intros i' k _ X Y. eapply CO'; eauto. }
  assert (H8 : forall i', started (pc r') = true -> nth_error (cur r') i' = Some DFAIL ->
            exists k, nth_error (deps W j) i' = Some (DJob k) /\ st (jobs s k) = ERROR).
  { intros i' _ X. rewrite Cc in X. rewrite nth_error_replace in X. destruct (Nat.eqb i i') eqn:Ei.
    + apply Nat.eqb_eq in Ei. subst i'. rewrite Hold in X. inversion X as [X'].
      destruct (NEWF X') as (k & -> & K). exists k. auto.
    + eapply (I_CF I j); eauto. }
  assert (H9 : (st r' = READY \/ in_start (pc r') = true) -> forall k, In (DJob k) (deps W j) -> st (jobs s k) = DONE).
  { intros [R|IS] k Hk.
    + destruct As as [X|[(_&X&_)|(_&_&U0&_)]].
      * apply (I_RD I j k); auto. left. fold r. rewrite <- X. exact R.
      * rewrite X in R. discriminate.
      * rewrite U' in U0.
        assert (LenE : length (cur r') = length (deps W j)) by (rewrite Alen; exact Len).
        destruct (@In_nth_error_len _ _ (deps W j) (cur r') (DJob k) Hk LenE) as (i' & y & Y1 & Y2).
        assert (Z0 : count_nok (cur r') = 0%nat) by (apply Nat2Z.inj; exact U0).
        assert (y = DOK) by (apply (@count_nok_zero (cur r') Z0 i' y Y2)). subst y. exact (CO' i' k Y2 Y1).
    + apply (I_RD I j k); auto. right. fold r. destruct PC as [X|(_&X)]; [rewrite <- X; exact IS|]. rewrite X in IS; discriminate. }
  assert (H10 : fdep r' = true -> exists k, In (DJob k) (deps W j) /\ st (jobs s k) = ERROR).
  { intros FD. destruct Af2 as [X|(NF & X)].
    + apply (I_FD I j). fold r. congruence.
    + destruct (Eerr X) as [Y|Y]; [rewrite Y in NF; discriminate|].
      destruct (NEWF Y) as (k & -> & K). exists k. auto. }
  assert (H11 : launches r' = 1%nat -> forall k, In (DJob k) (deps W j) -> st (jobs s k) = DONE).
  { intros L1 k Hk. apply (I_LD I j k); auto. fold r. congruence. }
  assert (H12 : unfinished s' - unfinished s = (if counted (pc r') then 1 else 0) - (if counted (pc r) then 1 else 0)).
  { clear - EU PC. rewrite EU. destruct PC as [X|(Y&X)]; rewrite X; try rewrite Y; simpl; lia. }
  assert (H13 : forall x, In x (failed s') <->
     In x (failed s) \/ (x = j /\ past_loop (pc r') = true /\ past_loop (pc r) = false /\ st r' <> DONE)).
  { intros x. rewrite EF. split; auto. intros [X|(_ & P & NP & _)]; auto.
    destruct PC as [X|(_&X)]; rewrite X in P; [congruence|discriminate]. }
  assert (H14 : forall c, In c (queue s') -> In c (queue s) \/ cb_ok s' c).
  { intros c Hc. destruct EQ as [X|X]; rewrite X in Hc; auto.
    apply in_app_or in Hc. destruct Hc as [?|[<-|[]]]; auto. right. simpl. auto. }
  assert (RET : forall r0, pc r = PReturned r0 -> pc r' = PReturned r0).
  { intros r0 X. destruct PC as [Y|(Y&_)]; congruence. }
  assert (LCH : launches r' = launches r \/ (true = false /\ launches r' = Datatypes.S (launches r) /\ pc r = PWoken ALockIn)) by (left; exact Al).
  exact (@inv_update true W s s' j r' WF I Jn EJ LI H1 H2 H3 H4 RET LCH H5 H6 H7 H8 H9 H10 H11 H12 H13 H14).
Qed.

(* ------------------------------------------------------------------ steps that leave the jobs unchanged *)
Lemma inv_frame : forall W s s', Inv W s -> jobs s' = jobs s -> unfinished s' = unfinished s ->
  failed s' = failed s -> (forall c, In c (queue s') -> In c (queue s) \/ cb_ok s' c) -> Inv W s' /\ stab0 s s'.
Proof.
  intros W s s' I EJ EU EF Q. split; [|apply stab0_refl; auto]. destruct I as [a b c d e f g h i0 j k].
  constructor; unfold jl, cntf in *; rewrite ?EJ, ?EU, ?EF; auto.
  intros c0 Hc. destruct (Q c0 Hc) as [X|X]; auto. specialize (k c0 X).
    destruct c0; simpl in *; rewrite ?EJ; auto.
Qed.

Lemma in_remove_nth : forall A n (l : list A) x, In x (remove_nth n l) -> In x l.
Proof. induction n; destruct l; simpl; intros; auto. destruct H; auto. Qed.

Lemma inv_dequeue : forall W s n, Inv W s -> Inv W (s_queue s (remove_nth n (queue s))) /\ stab0 s (s_queue s (remove_nth n (queue s))).
Proof.
  intros. apply inv_frame with (s := s); auto. simpl. intros c Hc. left. eapply in_remove_nth; eauto.
Qed.

Lemma inv_wait_check : forall W s, Inv W s -> Inv W (wait_check s) /\ stab0 s (wait_check s).
Proof.
  intros. unfold wait_check. destruct (unfinished s =? 0); apply inv_frame with (s := s); auto.
Qed.

(* ------------------------------------------------------------------ dependents are started jobs *)
Lemma dependents_started : forall W s p x, In x (dependents W s p) -> started (pc (jobs s (fst x))) = true.
Proof.
  intros W s p x H. unfold dependents in H. apply in_flat_map in H. destruct H as (j & _ & H).
  destruct (started (pc (jobs s j))) eqn:S; [|destruct H].
  apply in_map_iff in H. destruct H as (i & <- & _). simpl. auto.
Qed.

Lemma dependents_jobs_eq : forall W s s' p, (forall j, started (pc (jobs s' j)) = started (pc (jobs s j))) ->
  dependents W s' p = dependents W s p.
Proof.
  intros. unfold dependents. apply flat_map_ext. intros j. rewrite H. auto.
Qed.

(* the job's own steps that keep its dependency statuses *)
Lemma inv_update_own : forall strict W s s' j r',
  wf W = true -> Inv W s -> started (pc (jobs s j)) = true ->
  jobs s' = upd (jobs s) j r' ->
  linv (deps W j) (j_marker (spec W j)) (j_code (spec W j)) (adopted W j) r' ->
  cur r' = cur (jobs s j) -> fdep r' = fdep (jobs s j) ->
  (st (jobs s j) = DONE -> st r' = DONE) -> (st (jobs s j) = ERROR -> st r' = ERROR) ->
  started (pc r') = true ->
  (past_loop (pc (jobs s j)) = true -> past_loop (pc r') = true) ->
  (forall r0, pc (jobs s j) = PReturned r0 -> pc r' = PReturned r0) ->
  (launches r' = launches (jobs s j) \/
   (strict = false /\ launches r' = S (launches (jobs s j)) /\ pc (jobs s j) = PWoken ALockIn)) ->
  ((st r' = READY \/ in_start (pc r') = true) -> (st (jobs s j) = READY \/ in_start (pc (jobs s j)) = true)) ->
  (launches r' = 1%nat -> launches (jobs s j) = 1%nat \/ st (jobs s j) = READY \/ in_start (pc (jobs s j)) = true) ->
  unfinished s' - unfinished s = (if counted (pc r') then 1 else 0) - (if counted (pc (jobs s j)) then 1 else 0) ->
  (forall x, In x (failed s') <->
     In x (failed s) \/ (x = j /\ past_loop (pc r') = true /\ past_loop (pc (jobs s j)) = false /\ st r' <> DONE)) ->
  (forall c, In c (queue s') -> In c (queue s) \/ cb_ok s' c) ->
  Inv W s' /\ stab_gen strict s s'.
Proof.
  intros strict W s s' j r' WF I S EJ L EC EF SD SE SS SP RET LCH RD LD CNT FL Q.
  assert (Jn : (j < njobs W)%nat).
  { apply inv_job_lt with (s := s); auto. destruct (pc (jobs s j)); simpl in S; congruence. }
  assert (SPN : spawned (pc (jobs s j)) = true) by (destruct (pc (jobs s j)); simpl in S; try discriminate; auto).
  apply (@inv_update strict W s s' j r'); auto.
  - intros _. destruct (pc r'); simpl in SS; try discriminate; auto.
  - intros _ k Hk. apply (I_sub I j k); auto.
  - intros i k _ X Y. rewrite EC in X. eapply (I_CO I j); eauto.
  - intros i _ X. rewrite EC in X. eapply (I_CF I j); eauto.
  - intros X k Hk. apply (I_RD I j k); auto.
  - intros X. apply (I_FD I j). congruence.
  - intros X k Hk. destruct (LD X) as [Y|Y]; [apply (I_LD I j k); auto|apply (I_RD I j k); auto].
Qed.

(* ------------------------------------------------------------------ the transitions, one by one *)
Lemma inv_deliver : forall W s j a, wf W = true -> Inv W s -> pc (jobs s j) = PExt a ->
  Inv W (enqueue (setjob s j (w_pc (jobs s j) (PWoken a))) (CStep j)) /\
  stab0 s (enqueue (setjob s j (w_pc (jobs s j) (PWoken a))) (CStep j)).
Proof.
  intros W s j a WF I P. set (r := jobs s j) in *.
  set (r' := w_pc r (PWoken a)). set (s' := enqueue (setjob s j r') (CStep j)).
  assert (S : started (pc r) = true) by (rewrite P; auto).
  assert (EJ : jobs s' = upd (jobs s) j r') by reflexivity.
  assert (L : linv (deps W j) (j_marker (spec W j)) (j_code (spec W j)) (adopted W j) r') by (apply linv_deliver; auto; apply (I_loc I j)).
  assert (EC : cur r' = cur r) by reflexivity.
  assert (EF : fdep r' = fdep r) by reflexivity.
  assert (SD : st r = DONE -> st r' = DONE) by auto.
  assert (SE : st r = ERROR -> st r' = ERROR) by auto.
  assert (SS : started (pc r') = true) by reflexivity.
  assert (SP : past_loop (pc r) = true -> past_loop (pc r') = true) by (rewrite P; destruct a; simpl; auto).
  assert (RD : (st r' = READY \/ in_start (pc r') = true) -> (st r = READY \/ in_start (pc r) = true)).
  { rewrite P. destruct a; simpl; auto. }
  assert (LD : launches r' = 1%nat -> launches r = 1%nat \/ st r = READY \/ in_start (pc r) = true) by auto.
  assert (CNT : unfinished s' - unfinished s = (if counted (pc r') then 1 else 0) - (if counted (pc r) then 1 else 0)).
  { rewrite P. simpl. lia. }
  assert (FL : forall x, In x (failed s') <->
     In x (failed s) \/ (x = j /\ past_loop (pc r') = true /\ past_loop (pc r) = false /\ st r' <> DONE)).
  { intros x. split; auto. intros [X|(_ & X & Y & _)]; auto. rewrite P in Y. destruct a; simpl in *; congruence. }
  assert (Q : forall c, In c (queue s') -> In c (queue s) \/ cb_ok s' c).
  { intros c Hc. apply in_app_or in Hc. destruct Hc as [X|[<-|[]]]; auto. right. simpl. auto. }
  assert (RET : forall r0, pc r = PReturned r0 -> pc r' = PReturned r0) by (intros r0 X; rewrite P in X; discriminate).
  assert (LCH : launches r' = launches r \/ (true = false /\ launches r' = Datatypes.S (launches r) /\ pc r = PWoken ALockIn)) by (left; reflexivity).
  exact (@inv_update_own true W s s' j r' WF I S EJ L EC EF SD SE SS SP RET LCH RD LD CNT FL Q).
Qed.

Lemma inv_lockoutrun : forall W s j, wf W = true -> Inv W s -> pc (jobs s j) = PWoken ALockOutRun ->
  Inv W (setjob s j (w_pc (jobs s j) (PExt AProc))) /\ stab0 s (setjob s j (w_pc (jobs s j) (PExt AProc))).
Proof.
  intros W s j WF I P. set (r := jobs s j) in *.
  set (r' := w_pc r (PExt AProc)). set (s' := setjob s j r').
  assert (S : started (pc r) = true) by (rewrite P; auto).
  assert (EJ : jobs s' = upd (jobs s) j r') by reflexivity.
  assert (L : linv (deps W j) (j_marker (spec W j)) (j_code (spec W j)) (adopted W j) r') by (apply linv_lockoutrun; auto; apply (I_loc I j)).
  assert (EC : cur r' = cur r) by reflexivity.
  assert (EF : fdep r' = fdep r) by reflexivity.
  assert (SD : st r = DONE -> st r' = DONE) by auto.
  assert (SE : st r = ERROR -> st r' = ERROR) by auto.
  assert (SS : started (pc r') = true) by reflexivity.
  assert (SP : past_loop (pc r) = true -> past_loop (pc r') = true) by (rewrite P; simpl; auto).
  assert (RD : (st r' = READY \/ in_start (pc r') = true) -> (st r = READY \/ in_start (pc r) = true)).
  { rewrite P. simpl; auto. }
  assert (LD : launches r' = 1%nat -> launches r = 1%nat \/ st r = READY \/ in_start (pc r) = true) by auto.
  assert (CNT : unfinished s' - unfinished s = (if counted (pc r') then 1 else 0) - (if counted (pc r) then 1 else 0)).
  { rewrite P. simpl. lia. }
  assert (FL : forall x, In x (failed s') <->
     In x (failed s) \/ (x = j /\ past_loop (pc r') = true /\ past_loop (pc r) = false /\ st r' <> DONE)).
  { intros x. split; auto. intros [X|(_ & X & Y & _)]; auto. discriminate. }
  assert (Q : forall c, In c (queue s') -> In c (queue s) \/ cb_ok s' c) by (intros c Hc; auto).
  assert (RET : forall r0, pc r = PReturned r0 -> pc r' = PReturned r0) by (intros r0 X; rewrite P in X; discriminate).
  assert (LCH : launches r' = launches r \/ (true = false /\ launches r' = Datatypes.S (launches r) /\ pc r = PWoken ALockIn)) by (left; reflexivity).
  exact (@inv_update_own true W s s' j r' WF I S EJ L EC EF SD SE SS SP RET LCH RD LD CNT FL Q).
Qed.

(* facts about a job whose coroutine is outside aio_start and before the end of its loop *)
Lemma idle_facts : forall ds mk code ad r, linv ds mk code ad r -> started (pc r) = true ->
  in_start (pc r) = false -> past_loop (pc r) = false -> is_adopt (pc r) = false ->
  held r = [] /\ launches r = 0%nat /\ mk = false /\ ad = None.
Proof.
  intros ds mk code ad r L S IS PL NA.
  assert (ADN : ad = None) by (apply (ad_none L S); auto).
  assert (H : held r = []).
  { destruct (held r) eqn:E; auto. assert (X : held r <> []) by congruence.
    destruct (l_held L X) as [Y|[Y|Y]]; try (rewrite Y in IS; discriminate).
    destruct (pc r) as [| | | | |a|a|]; simpl in *; try discriminate; destruct a; simpl in *; discriminate. }
  assert (L0 : launches r = 0%nat).
  { pose proof (l_L1 L). destruct (launches r) as [|[|n]] eqn:E; auto; try lia.
    destruct (l_L2 L E) as (_ & [X|(X&_)]); [|congruence].
    destruct (pc r) as [| | | | |a|a|]; simpl in *; try discriminate; destruct a; simpl in *; discriminate. }
  repeat split; auto.
  destruct mk; auto. pose proof (l_mk L eq_refl ADN S) as D. pose proof (l_D L D) as X. congruence.
Qed.

(* committing the result of one of the loop functions *)
Lemma inv_commit_loop : forall W s j r2 p,
  wf W = true -> Inv W s -> started (pc (jobs s j)) = true -> past_loop (pc (jobs s j)) = false ->
  linv (deps W j) (j_marker (spec W j)) (j_code (spec W j)) (adopted W j) (fst p) ->
  loop_shape r2 p ->
  cur r2 = cur (jobs s j) -> fdep r2 = fdep (jobs s j) -> launches r2 = launches (jobs s j) ->
  (st (jobs s j) = DONE -> st r2 = DONE) -> (st (jobs s j) = ERROR -> st r2 = ERROR) ->
  (st r2 = READY -> st (jobs s j) = READY \/ in_start (pc (jobs s j)) = true) ->
  Inv W (commit s j p) /\ stab0 s (commit s j p).
Proof.
  intros W s j r2 p WF I S NP LI (S_st & S_cur & S_uns & S_held & S_fdep & S_l & S_snd & S_pc) EC2 EF2 EL2 SD2 SE2 RD2.
  set (r := jobs s j) in *. set (r' := fst p) in *. set (s' := commit s j p).
  assert (EJ : jobs s' = upd (jobs s) j r') by (unfold s', commit; destruct (snd p); reflexivity).
  assert (EC : cur r' = cur r) by congruence.
  assert (EF : fdep r' = fdep r) by congruence.
  assert (SD : st r = DONE -> st r' = DONE) by (intros; rewrite S_st; auto).
  assert (SE : st r = ERROR -> st r' = ERROR) by (intros HE; rewrite S_st; apply SE2; auto).
  assert (SS : started (pc r') = true) by (destruct S_pc as [(X&_)|[(X&_)|(X&_)]]; rewrite X; auto).
  assert (SP : past_loop (pc r) = true -> past_loop (pc r') = true) by congruence.
  assert (RD : (st r' = READY \/ in_start (pc r') = true) -> (st r = READY \/ in_start (pc r) = true)).
  { intros [X|X]; [apply RD2; congruence|].
    destruct S_pc as [(Y&_)|[(Y&_)|(Y&Z)]]; rewrite Y in X; try discriminate. apply RD2; auto. }
  assert (LD : launches r' = 1%nat -> launches r = 1%nat \/ st r = READY \/ in_start (pc r) = true).
  { intros X. left. congruence. }
  assert (CR : counted (pc r) = true) by (destruct (pc r); simpl in *; try discriminate; auto).
  assert (CNT : unfinished s' - unfinished s = (if counted (pc r') then 1 else 0) - (if counted (pc r) then 1 else 0)).
  { rewrite CR. assert (U : unfinished s' = unfinished s) by (unfold s', commit; destruct (snd p); reflexivity).
    clear - U S_pc. rewrite U. destruct S_pc as [(X&_)|[(X&_)|(X&_)]]; rewrite X; simpl; lia. }
  assert (FL : forall x, In x (failed s') <->
     In x (failed s) \/ (x = j /\ past_loop (pc r') = true /\ past_loop (pc r) = false /\ st r' <> DONE)).
  { intros x. unfold s', commit. destruct (snd p) eqn:E; simpl.
    + rewrite in_app_iff. simpl. destruct (proj1 S_snd eq_refl) as (E1 & E2).
      split; [intros [X|[X|[]]]; auto; right; subst; repeat split; auto; congruence|].
      intros [X|(X & _)]; auto.
    + split; auto. intros [X|(_ & X & _ & Y)]; auto.
      assert (false = true); [|discriminate]. apply S_snd. split; auto. congruence. }
  assert (Q : forall c, In c (queue s') -> In c (queue s) \/ cb_ok s' c).
  { intros c Hc. left. unfold s', commit in Hc. destruct (snd p); simpl in Hc; auto. }
  assert (RET : forall r0, pc r = PReturned r0 -> pc r' = PReturned r0) by (intros r0 X; rewrite X in NP; discriminate).
  assert (LCH : launches r' = launches r \/ (true = false /\ launches r' = Datatypes.S (launches r) /\ pc r = PWoken ALockIn)) by (left; congruence).
  exact (@inv_update_own true W s s' j r' WF I S EJ LI EC EF SD SE SS SP RET LCH RD LD CNT FL Q).
Qed.

Lemma inv_after_ready : forall W s j, wf W = true -> Inv W s -> pc (jobs s j) = PWokenReady ->
  Inv W (commit s j (after_ready_l (jobs s j))) /\ stab0 s (commit s j (after_ready_l (jobs s j))).
Proof.
  intros W s j WF I P. set (r := jobs s j) in *.
  pose proof (I_loc I j) as L. unfold jl in L. fold r in L.
  assert (S : started (pc r) = true) by (rewrite P; auto).
  destruct (@idle_facts _ _ _ _ r L S) as (H & L0 & MK & ADN); try (rewrite P; reflexivity).
  assert (M : lmid (deps W j) (j_marker (spec W j)) (j_code (spec W j)) (adopted W j) r).
  { apply lmid_of_linv; auto; try congruence. rewrite P; reflexivity. }
  assert (D : st r = READY \/ finished (st r) = true \/ (st r = WAITING /\ uns r <> 0)).
  { destruct (l_WS L P) as [X|X]; auto. right; left. rewrite X; auto. }
  apply (@inv_commit_loop W s j r (after_ready_l r)); auto.
  - fold r. rewrite P. reflexivity.
  - apply after_ready_l_ok; auto.
  - apply after_ready_l_shape.
Qed.

Lemma dep_status_fail : forall s d, dep_status s d = DFAIL -> exists k, d = DJob k /\ st (jobs s k) = ERROR.
Proof.
  destruct d; simpl.
  - intros X. exists k. split; auto. destruct (st (jobs s k)); try discriminate; auto.
  - destruct (c <=? avail s t)%nat; discriminate.
Qed.
Lemma dep_status_ok : forall s k, dep_status s (DJob k) = DOK -> st (jobs s k) = DONE.
Proof. intros s k X. simpl in X. destruct (st (jobs s k)); try discriminate; auto. Qed.

Lemma adopted_some : forall W j, is_some_b (adopted W j) = is_some_b (j_adopt (spec W j)).
Proof. intros. unfold adopted. destruct (j_adopt (spec W j)); reflexivity. Qed.

Lemma inv_spawn : forall W s j, wf W = true -> Inv W s -> pc (jobs s j) = PSpawned ->
  Inv W (run_spawn W all_fixed s j) /\ stab0 s (run_spawn W all_fixed s j).
Proof.
  intros W s j WF I P. unfold run_spawn. simpl fx3. simpl fx6. rewrite <- adopted_some.
  set (r := jobs s j) in *. set (news := map (dep_status s) (deps W j)).
  set (p := spawn_l true true (j_marker (spec W j)) (is_some_b (adopted W j)) r news).
  pose proof (I_loc I j) as L. unfold jl in L. fold r in L.
  assert (Len : length news = length (deps W j)) by (apply map_length).
  destruct (@spawn_l_ok (deps W j) (j_marker (spec W j)) (j_code (spec W j)) (adopted W j) r news L P Len) as (LI & C & ST & SND & RDY & HD & LA & DN & IST & FDP & CT & _). fold p in LI, C, ST, SND, RDY, HD, LA, DN, IST, FDP, CT.
  set (r' := fst p) in *. set (s' := commit s j p).
  assert (NS : started (pc r) = false) by (rewrite P; auto).
  destruct (l_un L NS) as (Ul & Uh & Us & Uf & Uc & Uu).
  assert (Jn : (j < njobs W)%nat) by (apply inv_job_lt with (s := s); auto; fold r; congruence).
  assert (EJ : jobs s' = upd (jobs s) j r') by (unfold s', commit; destruct (snd p); reflexivity).
  assert (SD : st r = DONE -> st r' = DONE) by congruence.
  assert (SE : st r = ERROR -> st r' = ERROR) by congruence.
  assert (SS : started (pc r) = true -> started (pc r') = true) by auto.
  assert (SP : past_loop (pc r) = true -> past_loop (pc r') = true) by (rewrite P; discriminate).
  assert (SW : spawned (pc r) = true -> spawned (pc r') = true).
  { intros _. destruct (pc r'); simpl in ST; try discriminate; auto. }
  assert (SUB : spawned (pc r') = true -> forall k, In (DJob k) (deps W j) -> spawned (pc (jobs s k)) = true).
  { intros _ k Hk. apply (I_sub I j k); auto. fold r. rewrite P. auto. }
  assert (NTH : forall i d, nth_error (deps W j) i = Some d -> nth_error news i = Some (dep_status s d)).
  { intros i d X. unfold news. rewrite nth_error_map, X. auto. }
  assert (CO : forall i k, started (pc r') = true -> nth_error (cur r') i = Some DOK ->
            nth_error (deps W j) i = Some (DJob k) -> st (jobs s k) = DONE).
  { intros i k _ X Y. rewrite C, (NTH _ _ Y) in X. inversion X. apply dep_status_ok; auto. }
  assert (CF : forall i, started (pc r') = true -> nth_error (cur r') i = Some DFAIL ->
            exists k, nth_error (deps W j) i = Some (DJob k) /\ st (jobs s k) = ERROR).
  { intros i _ X. rewrite C in X. unfold news in X. rewrite nth_error_map in X.
    destruct (nth_error (deps W j) i) as [d|] eqn:Y; simpl in X; [|discriminate]. inversion X as [X'].
    destruct (dep_status_fail _ _ X') as (k & -> & K). exists k; auto. }
  assert (RD : (st r' = READY \/ in_start (pc r') = true) -> forall k, In (DJob k) (deps W j) -> st (jobs s k) = DONE).
  { intros X k Hk. assert (R : st r' = READY) by (destruct X; auto).
    apply In_nth_error in Hk. destruct Hk as (i & Hi). apply dep_status_ok. eapply RDY; eauto. }
  assert (FD : fdep r' = true -> exists k, In (DJob k) (deps W j) /\ st (jobs s k) = ERROR).
  { intros X. destruct (FDP X) as (i & Hi). unfold news in Hi. rewrite nth_error_map in Hi.
    destruct (nth_error (deps W j) i) as [d|] eqn:Y; simpl in Hi; [|discriminate]. inversion Hi as [X'].
    destruct (dep_status_fail _ _ X') as (k & -> & K). exists k. split; auto. eapply nth_error_In; eauto. }
  assert (LD : launches r' = 1%nat -> forall k, In (DJob k) (deps W j) -> st (jobs s k) = DONE) by (intros X; congruence).
  assert (CNT : unfinished s' - unfinished s = (if counted (pc r') then 1 else 0) - (if counted (pc r) then 1 else 0)).
  { assert (U : unfinished s' = unfinished s) by (unfold s', commit; destruct (snd p); reflexivity).
    clear - U CT P. rewrite U, CT, P. simpl. lia. }
  assert (FL : forall x, In x (failed s') <->
     In x (failed s) \/ (x = j /\ past_loop (pc r') = true /\ past_loop (pc r) = false /\ st r' <> DONE)).
  { intros x. unfold s', commit. destruct (snd p) eqn:E; simpl.
    + rewrite in_app_iff. simpl. destruct (proj1 SND eq_refl) as (E1 & E2).
      split; [intros [X|[X|[]]]; auto; right; subst; repeat split; auto; rewrite P; auto|].
      intros [X|(X & _)]; auto.
    + split; auto. intros [X|(_ & X & _ & Y)]; auto.
      assert (false = true); [|discriminate]. apply SND. split; auto. }
  assert (Q : forall c, In c (queue s') -> In c (queue s) \/ cb_ok s' c).
  { intros c Hc. left. unfold s', commit in Hc. destruct (snd p); simpl in Hc; auto. }
  assert (RET : forall r0, pc r = PReturned r0 -> pc r' = PReturned r0) by (intros r0 X; rewrite P in X; discriminate).
  assert (LCH : launches r' = launches r \/ (true = false /\ launches r' = Datatypes.S (launches r) /\ pc r = PWoken ALockIn)) by (left; congruence).
  exact (@inv_update true W s s' j r' WF I Jn EJ LI SD SE SS SP RET LCH SW SUB CO CF RD FD LD CNT FL Q).
Qed.

Lemma release_all_jobs : forall W s j, jobs (release_all W s j) = upd (jobs s) j (w_held (jobs s j) []).
Proof. reflexivity. Qed.

Lemma inv_release : forall W s j, wf W = true -> Inv W s -> started (pc (jobs s j)) = true ->
  Inv W (release_all W s j) /\ stab0 s (release_all W s j).
Proof.
  intros W s j WF I S. set (r := jobs s j) in *.
  set (r' := w_held r []). set (s' := release_all W s j).
  assert (EJ : jobs s' = upd (jobs s) j r') by reflexivity.
  assert (L : linv (deps W j) (j_marker (spec W j)) (j_code (spec W j)) (adopted W j) r') by (apply linv_release; auto; apply (I_loc I j)).
  assert (EC : cur r' = cur r) by reflexivity.
  assert (EF : fdep r' = fdep r) by reflexivity.
  assert (SD : st r = DONE -> st r' = DONE) by auto.
  assert (SE : st r = ERROR -> st r' = ERROR) by auto.
  assert (SS : started (pc r') = true) by exact S.
  assert (SP : past_loop (pc r) = true -> past_loop (pc r') = true) by auto.
  assert (RD : (st r' = READY \/ in_start (pc r') = true) -> (st r = READY \/ in_start (pc r) = true)) by auto.
  assert (LD : launches r' = 1%nat -> launches r = 1%nat \/ st r = READY \/ in_start (pc r) = true) by auto.
  assert (CNT : unfinished s' - unfinished s = (if counted (pc r') then 1 else 0) - (if counted (pc r) then 1 else 0)).
  { simpl. clear. destruct (counted (pc r)); lia. }
  assert (FL : forall x, In x (failed s') <->
     In x (failed s) \/ (x = j /\ past_loop (pc r') = true /\ past_loop (pc r) = false /\ st r' <> DONE)).
  { intros x. split; auto. intros [X|(_ & X & Y & _)]; auto. simpl in X. congruence. }
  assert (Q : forall c, In c (queue s') -> In c (queue s) \/ cb_ok s' c).
  { intros c Hc. simpl in Hc. apply in_app_or in Hc. destruct Hc as [X|X]; auto. right.
    unfold release_notes in X. apply in_flat_map in X. destruct X as (tc & _ & X).
    apply in_map_iff in X. destruct X as (q & <- & X). apply dependents_started in X. simpl.
    unfold upd. destruct (Nat.eqb (fst q) j) eqn:E; auto; apply Nat.eqb_eq in E; rewrite E in X; exact X. }
  assert (RET : forall r0, pc r = PReturned r0 -> pc r' = PReturned r0) by (auto).
  assert (LCH : launches r' = launches r \/ (true = false /\ launches r' = Datatypes.S (launches r) /\ pc r = PWoken ALockIn)) by (left; reflexivity).
  exact (@inv_update_own true W s s' j r' WF I S EJ L EC EF SD SE SS SP RET LCH RD LD CNT FL Q).
Qed.

Lemma inv_abort_return : forall W s j, wf W = true -> Inv W s -> pc (jobs s j) = PWoken ALockOutAbort ->
  Inv W (abort_return W all_fixed s j) /\ stab0 s (abort_return W all_fixed s j).
Proof.
  intros W s j WF I P. unfold abort_return. simpl fx4.
  assert (S : started (pc (jobs s j)) = true) by (rewrite P; auto).
  destruct (inv_release j WF I S) as (I1 & ST1).
  set (s1 := release_all W s j) in *.
  assert (E1 : jobs s1 j = w_held (jobs s j) []) by (unfold s1; rewrite release_all_jobs; apply upd_same).
  set (r1 := jobs s1 j) in *.
  assert (P1 : pc r1 = PWoken ALockOutAbort) by (rewrite E1; exact P).
  assert (H1 : held r1 = []) by (rewrite E1; reflexivity).
  pose proof (I_loc I1 j) as L1. unfold jl in L1. fold r1 in L1.
  destruct (@abort_l_ok _ _ _ _ r1 L1 P1 H1) as (LI & SH).
  set (r2 := if uns r1 =? 0 then fst (set_event_l (w_st r1 READY)) else w_st r1 WAITING) in *.
  assert (R2 : cur r2 = cur r1 /\ fdep r2 = fdep r1 /\ launches r2 = launches r1).
  { unfold r2. destruct (uns r1 =? 0); [|auto].
    destruct (set_event_l (w_st r1 READY)) as [x w] eqn:SE. apply set_event_l_spec in SE. simpl in *. intuition. }
  destruct R2 as (C2 & F2 & LL2).
  cut (Inv W (commit s1 j (abort_l true r1)) /\ stab0 s1 (commit s1 j (abort_l true r1))).
  { intros (X & Y). split; auto. eapply stab0_trans; eauto. }
  apply (@inv_commit_loop W s1 j r2 (abort_l true r1)); auto; fold r1.
  - rewrite P1; auto.
  - rewrite P1; auto.
  - intros D. pose proof (l_D L1 D) as X. rewrite P1 in X. discriminate.
  - intros D. destruct (l_EN L1 D) as [X|[X|X]]; rewrite P1 in X; discriminate.
  - intros _. right. rewrite P1. auto.
Qed.

Lemma inv_proc_return : forall W s j, wf W = true -> Inv W s -> pc (jobs s j) = PWoken AProc ->
  Inv W (proc_return W s j) /\ stab0 s (proc_return W s j).
Proof.
  intros W s j WF I P. unfold proc_return.
  assert (S : started (pc (jobs s j)) = true) by (rewrite P; auto).
  destruct (inv_release j WF I S) as (I1 & ST1).
  set (s1 := release_all W s j) in *.
  assert (E1 : jobs s1 j = w_held (jobs s j) []) by (unfold s1; rewrite release_all_jobs; apply upd_same).
  set (r1 := jobs s1 j) in *.
  assert (P1 : pc r1 = PWoken AProc) by (rewrite E1; exact P).
  assert (H1 : held r1 = []) by (rewrite E1; reflexivity).
  pose proof (I_loc I1 j) as L1. unfold jl in L1. fold r1 in L1.
  destruct (@proc_l_ok _ _ _ _ r1 L1 P1 H1) as (LI & SH & _).
  cut (Inv W (commit s1 j (proc_l (j_code (spec W j)) r1)) /\ stab0 s1 (commit s1 j (proc_l (j_code (spec W j)) r1))).
  { intros (X & Y). split; auto. eapply stab0_trans; eauto. }
  apply (@inv_commit_loop W s1 j (w_st r1 (code_state (j_code (spec W j)))) (proc_l (j_code (spec W j)) r1)); auto; fold r1.
  - rewrite P1; auto.
  - rewrite P1; auto.
  - intros D. pose proof (l_D L1 D) as X. rewrite P1 in X. discriminate.
  - intros D. destruct (l_EN L1 D) as [X|[X|X]]; rewrite P1 in X; discriminate.
  - intros _. right. rewrite P1. auto.
Qed.

Lemma adopt_state_finished : forall a, finished (adopt_state a) = true.
Proof. intros [[[|p|p]|] [|]]; reflexivity. Qed.

(* the process left by an earlier run has ended *)
Lemma inv_adopt_return : forall W s j, wf W = true -> Inv W s -> pc (jobs s j) = PWoken AAdopt ->
  Inv W (adopt_return W s j) /\ stab0 s (adopt_return W s j).
Proof.
  intros W s j WF I P. unfold adopt_return. set (r := jobs s j) in *.
  pose proof (I_loc I j) as L. unfold jl in L. fold r in L.
  destruct (adopted W j) as [v|] eqn:AD.
  2:{ exfalso. apply (l_adpc L); [rewrite P; reflexivity|reflexivity]. }
  assert (FV : finished v = true).
  { unfold adopted in AD. destruct (j_adopt (spec W j)); inversion AD. apply adopt_state_finished. }
  destruct (@adopt_l_ok _ _ _ v r L P FV) as (LI & SH & _).
  apply (@inv_commit_loop W s j (w_st r v) (adopt_l v r)); auto; fold r.
  - rewrite P; auto.
  - rewrite P; auto.
  - rewrite AD. exact LI.
  - intros D. pose proof (l_D L D) as X. rewrite P in X. discriminate.
  - intros E. rewrite (l_adst L) in E; [discriminate|rewrite P; reflexivity].
  - simpl. intros X. rewrite X in FV. discriminate.
Qed.

Lemma inv_done_return : forall W s j, wf W = true -> Inv W s -> pc (jobs s j) = PWoken ADoneH ->
  Inv W (done_return W s j) /\ stab0 s (done_return W s j).
Proof.
  intros W s j WF I P. set (r := jobs s j) in *.
  set (r' := w_pc r (PReturned (st r))). set (s' := done_return W s j).
  assert (S : started (pc r) = true) by (rewrite P; auto).
  assert (JS : forall s0, jobs (notify_exit s0) = jobs s0) by (intros s0; unfold notify_exit; destruct (wst s0); reflexivity).
  assert (EJ : jobs s' = upd (jobs s) j r').
  { unfold s', done_return. simpl. rewrite JS. reflexivity. }
  assert (L : linv (deps W j) (j_marker (spec W j)) (j_code (spec W j)) (adopted W j) r') by (apply linv_returned; auto; apply (I_loc I j)).
  assert (EC : cur r' = cur r) by reflexivity.
  assert (EF : fdep r' = fdep r) by reflexivity.
  assert (SD : st r = DONE -> st r' = DONE) by auto.
  assert (SE : st r = ERROR -> st r' = ERROR) by auto.
  assert (SS : started (pc r') = true) by reflexivity.
  assert (SP : past_loop (pc r) = true -> past_loop (pc r') = true) by auto.
  assert (RD : (st r' = READY \/ in_start (pc r') = true) -> (st r = READY \/ in_start (pc r) = true)).
  { intros [X|X]; auto. discriminate. }
  assert (LD : launches r' = 1%nat -> launches r = 1%nat \/ st r = READY \/ in_start (pc r) = true) by auto.
  assert (US : forall s0, unfinished (notify_exit s0) = unfinished s0) by (intros s0; unfold notify_exit; destruct (wst s0); reflexivity).
  assert (CNT : unfinished s' - unfinished s = (if counted (pc r') then 1 else 0) - (if counted (pc r) then 1 else 0)).
  { unfold s', done_return. simpl. rewrite US. simpl. rewrite P. simpl. clear. lia. }
  assert (FS : forall s0, failed (notify_exit s0) = failed s0) by (intros s0; unfold notify_exit; destruct (wst s0); reflexivity).
  assert (FL : forall x, In x (failed s') <->
     In x (failed s) \/ (x = j /\ past_loop (pc r') = true /\ past_loop (pc r) = false /\ st r' <> DONE)).
  { intros x. unfold s', done_return. simpl. rewrite FS. simpl. split; auto. intros [X|(_ & _ & Y & _)]; auto.
    rewrite P in Y. discriminate. }
  assert (Q : forall c, In c (queue s') -> In c (queue s) \/ cb_ok s' c).
  { intros c Hc. unfold s', done_return in Hc. simpl in Hc. apply in_app_or in Hc. destruct Hc as [X|X].
    - unfold notify_exit in X. destruct (wst (s_unfinished s (unfinished s - 1))); simpl in X; auto.
      apply in_app_or in X. destruct X as [X|[<-|[]]]; auto. right. simpl. auto.
    - right. apply in_map_iff in X. destruct X as (q & <- & X). apply dependents_started in X.
      rewrite JS in X. simpl in X. change (started (pc (jobs s' (fst q))) = true). rewrite EJ. unfold upd. destruct (Nat.eqb (fst q) j); auto. }
  assert (RET : forall r0, pc r = PReturned r0 -> pc r' = PReturned r0) by (intros r0 X; rewrite P in X; discriminate).
  assert (LCH : launches r' = launches r \/ (true = false /\ launches r' = Datatypes.S (launches r) /\ pc r = PWoken ALockIn)) by (left; reflexivity).
  exact (@inv_update_own true W s s' j r' WF I S EJ L EC EF SD SE SS SP RET LCH RD LD CNT FL Q).
Qed.

Lemma check_pc : forall W s j i, pc (jobs s j) <> PAwaitReady ->
  pc (jobs (check W all_fixed s j i) j) = pc (jobs s j).
Proof.
  intros W s j i N. destruct (check_cases W s j i) as [E|(d & r' & w & Nd & C & E)]; rewrite E; auto.
  apply check_l_async in C. destruct C as (A & _). destruct (ao_pc A) as [X|(X&_)]; [|congruence].
  destruct w; simpl; rewrite upd_same; auto.
Qed.

(* the state of an aborted start before dependency.check(): locks taken so far, waiting for the job lock to be released *)
Lemma inv_acquired : forall W s j hd av, wf W = true -> Inv W s -> pc (jobs s j) = PWoken ALockIn ->
  Inv W (s_avail (setjob s j (w_pc (w_held (jobs s j) hd) (PExt ALockOutAbort))) av) /\
  stab0 s (s_avail (setjob s j (w_pc (w_held (jobs s j) hd) (PExt ALockOutAbort))) av).
Proof.
  intros W s j hd av WF I P. set (r := jobs s j) in *.
  pose proof (I_loc I j) as L0. unfold jl in L0. fold r in L0.
  assert (S : started (pc r) = true) by (rewrite P; auto).
  set (r' := w_pc (w_held r hd) (PExt ALockOutAbort)). set (s' := s_avail (setjob s j r') av).
  assert (EJ : jobs s' = upd (jobs s) j r') by reflexivity.
  assert (L : linv (deps W j) (j_marker (spec W j)) (j_code (spec W j)) (adopted W j) r') by (apply linv_abortheld; auto).
  assert (EC : cur r' = cur r) by reflexivity.
  assert (EF : fdep r' = fdep r) by reflexivity.
  assert (SD : st r = DONE -> st r' = DONE) by auto.
  assert (SE : st r = ERROR -> st r' = ERROR) by auto.
  assert (SS : started (pc r') = true) by reflexivity.
  assert (SP : past_loop (pc r) = true -> past_loop (pc r') = true) by (rewrite P; discriminate).
  assert (RD : (st r' = READY \/ in_start (pc r') = true) -> (st r = READY \/ in_start (pc r) = true)).
  { intros _. right. rewrite P. auto. }
  assert (LD : launches r' = 1%nat -> launches r = 1%nat \/ st r = READY \/ in_start (pc r) = true) by auto.
  assert (CNT : unfinished s' - unfinished s = (if counted (pc r') then 1 else 0) - (if counted (pc r) then 1 else 0)).
  { rewrite P. simpl. clear. lia. }
  assert (FL : forall x, In x (failed s') <->
     In x (failed s) \/ (x = j /\ past_loop (pc r') = true /\ past_loop (pc r) = false /\ st r' <> DONE)).
  { intros x. split; auto. intros [X|(_ & X & _)]; auto. discriminate. }
  assert (Q : forall c, In c (queue s') -> In c (queue s) \/ cb_ok s' c) by (intros c Hc; auto).
  assert (RET : forall r0, pc r = PReturned r0 -> pc r' = PReturned r0) by (intros r0 X; rewrite P in X; discriminate).
  assert (LCH : launches r' = launches r \/ (true = false /\ launches r' = Datatypes.S (launches r) /\ pc r = PWoken ALockIn)) by (left; reflexivity).
  exact (@inv_update_own true W s s' j r' WF I S EJ L EC EF SD SE SS SP RET LCH RD LD CNT FL Q).
Qed.

Lemma inv_start_body : forall W s j, wf W = true -> Inv W s -> pc (jobs s j) = PWoken ALockIn ->
  Inv W (start_body W all_fixed s j) /\ stab s (start_body W all_fixed s j).
Proof.
  intros W s j WF I P. unfold start_body. set (r := jobs s j) in *.
  pose proof (I_loc I j) as L0. unfold jl in L0. fold r in L0.
  assert (ST : started (pc r) = true) by (rewrite P; auto).
  destruct (lockin_facts L0 P) as (LA & MK & NE & ND & NF & ADN).
  destruct (acquire_l (avail s) (held r) (deps W j) 0) as [[av hd] [i|]] eqn:ACQ.
  - (* aborted start *)
    destruct (@inv_acquired W s j hd av WF I P) as (I1 & ST1). fold r in I1, ST1.
    set (s1 := s_avail (setjob s j (w_pc (w_held r hd) (PExt ALockOutAbort))) av) in *.
    assert (S1 : started (pc (jobs s1 j)) = true) by (simpl; rewrite upd_same; reflexivity).
    destruct (@inv_check W s1 j i WF I1 S1) as (I2 & ST2).
    split; auto. apply stab0_stab. eapply stab0_trans; eauto.
  - (* launch *)
    set (r' := w_pc (w_st (w_launches (w_held r hd) (Datatypes.S (launches (w_held r hd)))) RUNNING) (PExt ALockOutRun)).
    set (s' := s_avail (setjob s j r') av).
    assert (EJ : jobs s' = upd (jobs s) j r') by reflexivity.
    assert (L : linv (deps W j) (j_marker (spec W j)) (j_code (spec W j)) (adopted W j) r') by (apply linv_launch; auto).
    assert (EC : cur r' = cur r) by reflexivity.
    assert (EF : fdep r' = fdep r) by reflexivity.
    assert (SD : st r = DONE -> st r' = DONE) by (intros; contradiction).
    assert (SE : st r = ERROR -> st r' = ERROR) by (intros; contradiction).
    assert (SS : started (pc r') = true) by reflexivity.
    assert (SP : past_loop (pc r) = true -> past_loop (pc r') = true) by (rewrite P; discriminate).
    assert (RD : (st r' = READY \/ in_start (pc r') = true) -> (st r = READY \/ in_start (pc r) = true)).
    { intros _. right. rewrite P. auto. }
    assert (LD : launches r' = 1%nat -> launches r = 1%nat \/ st r = READY \/ in_start (pc r) = true).
    { intros _. right; right. rewrite P. auto. }
    assert (CNT : unfinished s' - unfinished s = (if counted (pc r') then 1 else 0) - (if counted (pc r) then 1 else 0)).
    { rewrite P. simpl. clear. lia. }
    assert (FL : forall x, In x (failed s') <->
       In x (failed s) \/ (x = j /\ past_loop (pc r') = true /\ past_loop (pc r) = false /\ st r' <> DONE)).
    { intros x. split; auto. intros [X|(_ & X & _)]; auto. discriminate. }
    assert (Q : forall c, In c (queue s') -> In c (queue s) \/ cb_ok s' c) by (intros c Hc; auto).
    assert (RET : forall r0, pc r = PReturned r0 -> pc r' = PReturned r0) by (intros r0 X; rewrite P in X; discriminate).
    assert (LCH : launches r' = launches r \/ (false = false /\ launches r' = Datatypes.S (launches r) /\ pc r = PWoken ALockIn)) by (right; repeat split; auto).
    exact (@inv_update_own false W s s' j r' WF I ST EJ L EC EF SD SE SS SP RET LCH RD LD CNT FL Q).
Qed.

Lemma inv_submit_pc : forall W s s' j p',
  wf W = true -> Inv W s -> (j < njobs W)%nat -> pc (jobs s j) = PNot ->
  (p' = PSpawned \/ exists k, p' = PDup k) ->
  forallb (dep_submitted s) (deps W j) = true ->
  jobs s' = upd (jobs s) j (w_pc (jobs s j) p') ->
  unfinished s' = unfinished s + (if counted p' then 1 else 0) ->
  failed s' = failed s ->
  (forall c, In c (queue s') -> In c (queue s) \/ c = CSpawn j) ->
  Inv W s' /\ stab0 s s'.
Proof.
  intros W s s' j p' WF I Jn P HP FS EJ EU EF EQ. set (r := jobs s j) in *. set (r' := w_pc r p').
  pose proof (I_loc I j) as L0. unfold jl in L0. fold r in L0.
  assert (NS : started (pc r) = false) by (rewrite P; auto).
  destruct (l_un L0 NS) as (Ul & Uh & Us & Uf & Uc & Uu).
  assert (NS' : started p' = false) by (destruct HP as [->|(k & ->)]; auto).
  assert (L : linv (deps W j) (j_marker (spec W j)) (j_code (spec W j)) (adopted W j) r').
  { destruct HP as [->|(k & ->)]; [apply linv_spawned|apply linv_dup]; auto. }
  assert (SD : st r = DONE -> st r' = DONE) by auto.
  assert (SE : st r = ERROR -> st r' = ERROR) by auto.
  assert (SS : started (pc r) = true -> started (pc r') = true) by (rewrite NS; discriminate).
  assert (SP : past_loop (pc r) = true -> past_loop (pc r') = true) by (rewrite P; discriminate).
  assert (SW : spawned (pc r) = true -> spawned (pc r') = true) by (rewrite P; discriminate).
  assert (SUB : spawned (pc r') = true -> forall k, In (DJob k) (deps W j) -> spawned (pc (jobs s k)) = true).
  { intros _ k Hk. rewrite forallb_forall in FS. apply (FS _ Hk). }
  assert (CO : forall i k, started (pc r') = true -> nth_error (cur r') i = Some DOK ->
            nth_error (deps W j) i = Some (DJob k) -> st (jobs s k) = DONE).
  { simpl. rewrite NS'. discriminate. }
  assert (CF : forall i, started (pc r') = true -> nth_error (cur r') i = Some DFAIL ->
            exists k, nth_error (deps W j) i = Some (DJob k) /\ st (jobs s k) = ERROR).
  { simpl. rewrite NS'. discriminate. }
  assert (RD : (st r' = READY \/ in_start (pc r') = true) -> forall k, In (DJob k) (deps W j) -> st (jobs s k) = DONE).
  { simpl. intros [X|X]; [congruence|]. destruct HP as [->|(k & ->)]; discriminate. }
  assert (FD : fdep r' = true -> exists k, In (DJob k) (deps W j) /\ st (jobs s k) = ERROR) by (simpl; congruence).
  assert (LD : launches r' = 1%nat -> forall k, In (DJob k) (deps W j) -> st (jobs s k) = DONE) by (simpl; congruence).
  assert (CNT : unfinished s' - unfinished s = (if counted (pc r') then 1 else 0) - (if counted (pc r) then 1 else 0)).
  { rewrite EU, P. simpl. clear. destruct (counted p'); lia. }
  assert (FL : forall x, In x (failed s') <->
     In x (failed s) \/ (x = j /\ past_loop (pc r') = true /\ past_loop (pc r) = false /\ st r' <> DONE)).
  { intros x. rewrite EF. split; auto. intros [X|(_ & X & _)]; auto. simpl in X.
    destruct HP as [->|(k & ->)]; discriminate. }
  assert (Q : forall c, In c (queue s') -> In c (queue s) \/ cb_ok s' c).
  { intros c Hc. destruct (EQ c Hc) as [X| ->]; auto. right. simpl. auto. }
  assert (RET : forall r0, pc r = PReturned r0 -> pc r' = PReturned r0) by (intros r0 X; rewrite P in X; discriminate).
  assert (LCH : launches r' = launches r \/ (true = false /\ launches r' = Datatypes.S (launches r) /\ pc r = PWoken ALockIn)) by (left; reflexivity).
  exact (@inv_update true W s s' j r' WF I Jn EJ L SD SE SS SP RET LCH SW SUB CO CF RD FD LD CNT FL Q).
Qed.

Lemma inv_submit : forall W s j, wf W = true -> Inv W s -> (j < njobs W)%nat -> pc (jobs s j) = PNot ->
  forallb (dep_submitted s) (deps W j) = true -> Inv W (submit W all_fixed s j) /\ stab0 s (submit W all_fixed s j).
Proof.
  intros W s j WF I Jn P FS. unfold submit. simpl fx2.
  assert (SPN : forall s0, jobs s0 = jobs s -> unfinished s0 = unfinished s + 1 -> failed s0 = failed s -> queue s0 = queue s ->
            Inv W (enqueue (setjob s0 j (w_pc (jobs s0 j) PSpawned)) (CSpawn j)) /\
            stab0 s (enqueue (setjob s0 j (w_pc (jobs s0 j) PSpawned)) (CSpawn j))).
  { intros s0 E1 E2 E3 E4. apply (@inv_submit_pc W s _ j PSpawned); auto; simpl; rewrite ?E1, ?E2, ?E3, ?E4; auto.
    intros c Hc. apply in_app_or in Hc. destruct Hc as [X|[<-|[]]]; auto. }
  destruct (reg s (j_ident (spec W j))) as [k|].
  - destruct (st (jobs s k)) eqn:SK;
      try (apply (@inv_submit_pc W s _ j (PDup k)); eauto; simpl; auto; lia).
    apply SPN; auto.
  - apply SPN; auto.
Qed.

(* ------------------------------------------------------------------ every transition preserves the invariant *)
Lemma inv_init : forall W, Inv W (init W).
Proof.
  intros W. constructor; simpl.
  - intros x. apply linv_jst0.
  - auto.
  - intros x i k H; discriminate.
  - intros x i H; discriminate.
  - intros x k [X|X]; discriminate.
  - intros; discriminate.
  - intros; discriminate.
  - intros; discriminate.
  - unfold cntf. simpl. induction (seq 0 (njobs W)); simpl; auto.
  - intros x. split; [contradiction|]. intros (X & _). discriminate.
  - contradiction.
Qed.

Lemma stab_jobs_eq : forall b s1 s2 s3, jobs s2 = jobs s1 -> stab_gen b s2 s3 -> stab_gen b s1 s3.
Proof. intros b s1 s2 s3 E H k. rewrite <- E. apply H. Qed.

Lemma ext_run_cb : forall W s c, wf W = true -> Inv W s -> cb_ok s c ->
  Inv W (run_cb W all_fixed s c) /\ stab s (run_cb W all_fixed s c).
Proof.
  intros W s c WF I OK.
  assert (R : Inv W s /\ stab s s) by (split; auto; apply stab0_stab, stab0_refl; auto).
  assert (Z : forall s', Inv W s' /\ stab0 s s' -> Inv W s' /\ stab s s').
  { intros s' (X & Y). split; auto. apply stab0_stab; auto. }
  destruct c as [j|j|j i|j i| |]; simpl.
  - destruct (pc (jobs s j)) eqn:P; auto. apply Z, inv_spawn; auto.
  - unfold run_step. destruct (pc (jobs s j)) eqn:P; auto.
    + apply Z, inv_after_ready; auto.
    + destruct a.
      * apply inv_start_body; auto.
      * apply Z, inv_abort_return; auto.
      * apply Z, inv_lockoutrun; auto.
      * apply Z, inv_proc_return; auto.
      * apply Z, inv_done_return; auto.
      * apply Z, inv_adopt_return; auto.
  - apply Z, inv_check; auto.
  - destruct (nth_error (deps W j) i) as [[k|t c]|]; auto.
    destruct (0 <? avail s t)%nat; auto. apply Z, inv_check; auto.
  - destruct (wst s); auto; apply Z, inv_wait_check; auto.
  - destruct (wst s); auto; apply Z, inv_wait_check; auto.
Qed.

Theorem ext_step : forall W s l s', wf W = true -> Inv W s -> step W s l = Some s' -> Inv W s' /\ stab s s'.
Proof.
  intros W s l s' WF I H.
  assert (Z : forall s', Inv W s' /\ stab0 s s' -> Inv W s' /\ stab s s').
  { intros s0 (X & Y). split; auto. apply stab0_stab; auto. }
  unfold step in H. destruct l as [j|n|j|]; simpl in H.
  - destruct ((j <? njobs W)%nat && match pc (jobs s j) with PNot => true | _ => false end
              && forallb (dep_submitted s) (deps W j) && fits W j) eqn:E; [|discriminate].
    inversion H; subst s'. apply andb_true_iff in E. destruct E as (E & EFIT). apply andb_true_iff in E. destruct E as (E & E3). apply andb_true_iff in E. destruct E as (E1 & E2).
    apply Z, inv_submit; auto. apply Nat.ltb_lt; auto. destruct (pc (jobs s j)); try discriminate; auto.
  - destruct (nth_error (queue s) n) as [c|] eqn:E; [|discriminate]. inversion H; subst s'.
    destruct (@inv_dequeue W s n I) as (I0 & _).
    destruct (@ext_run_cb W (s_queue s (remove_nth n (queue s))) c WF I0) as (X & Y).
    { pose proof (I_q I c (nth_error_In _ _ E)) as X. destruct c; simpl in *; auto. }
    split; auto.
  - destruct (pc (jobs s j)) eqn:P; try discriminate. inversion H; subst s'. apply Z, inv_deliver; auto.
  - destruct (wst s); try discriminate; inversion H; subst s'; apply Z, inv_frame with (s := s); auto;
      simpl; intros c Hc; apply in_app_or in Hc; destruct Hc as [X|[<-|[]]]; auto; right; simpl; auto.
Qed.

Theorem inv_step : forall W s l s', wf W = true -> Inv W s -> step W s l = Some s' -> Inv W s'.
Proof. intros. eapply ext_step; eauto. Qed.

Theorem inv_steps : forall W ls s s', wf W = true -> Inv W s -> steps W s ls = Some s' -> Inv W s'.
Proof.
  intros W ls. induction ls as [|l ls IH]; simpl; intros s s' WF I H.
  - inversion H; subst; auto.
  - unfold steps in H. simpl in H. destruct (step_gen W all_fixed s l) as [s1|] eqn:E; [|discriminate].
    apply (IH s1 s'); auto. eapply inv_step; eauto.
Qed.

Theorem inv_reachable : forall W ls s, wf W = true -> steps W (init W) ls = Some s -> Inv W s.
Proof. intros. eapply inv_steps; eauto. apply inv_init. Qed.
