(* Proofs about model/Sched.v, part 2: every transition preserves the global invariant. *)
From Coq Require Import ZArith List Bool Arith Lia ZifyBool.
From XV Require Import model.Sched proofs.Sched_lemmas.
Import ListNotations.
Open Scope Z_scope.
Set Implicit Arguments.

(* ------------------------------------------------------------------ Dependency.check preserves the invariant *)
Lemma check_cases : forall W s j i,
  check W all_fixed s j i = s \/
  exists d r' w, nth_error (deps W j) i = Some d /\ check_l true (jobs s j) i (dep_status s d) = (r', w) /\
    check W all_fixed s j i = (if w then enqueue (setjob s j r') (CStep j) else setjob s j r').
Proof.
  intros. unfold check. destruct (nth_error (deps W j) i) as [d|] eqn:N; auto.
  right. simpl. destruct (check_l true (jobs s j) i (dep_status s d)) as [r' w] eqn:C.
  exists d, r', w. auto.
Qed.

Lemma In_nth_error_len : forall A B (l : list A) (l' : list B) x, In x l -> length l' = length l ->
  exists i y, nth_error l i = Some x /\ nth_error l' i = Some y.
Proof.
  intros A B l l' x I Len. apply In_nth_error in I. destruct I as [i Hi]. exists i.
  assert (i < length l')%nat by (rewrite Len; apply nth_error_Some; congruence).
  destruct (nth_error l' i) eqn:E; [eauto|]. apply nth_error_None in E. lia.
Qed.

Lemma inv_job_lt : forall W s j, Inv W s -> pc (jobs s j) <> PNot -> (j < njobs W)%nat.
Proof.
  intros W s j I P. destruct (Nat.lt_ge_cases j (njobs W)); auto. exfalso. apply P. apply (I_out I); auto.
Qed.

Lemma inv_check : forall W s j i, wf W = true -> Inv W s -> started (pc (jobs s j)) = true ->
  Inv W (check W all_fixed s j i).
Proof.
  intros W s j i WF I S.
  destruct (check_cases W s j i) as [E|(d & r' & w & Nd & C & E)]; rewrite E; auto. clear E.
  set (r := jobs s j) in *.
  pose proof (I_loc I j) as L. unfold jl in L. fold r in L.
  assert (Jn : (j < njobs W)%nat).
  { apply inv_job_lt with (s := s); auto. fold r. destruct (pc r); simpl in S; congruence. }
  apply check_l_async in C. destruct C as (A & Wk & Eerr & Cur & Cnone).
  destruct (l_CI L S) as (Len & Uns).
  assert (Hi : exists old, nth_error (cur r) i = Some old).
  { assert (i < length (cur r))%nat by (rewrite Len; apply nth_error_Some; congruence).
    destruct (nth_error (cur r) i) eqn:X; eauto. apply nth_error_None in X. lia. }
  destruct Hi as (old & Hold). destruct (Cur _ Hold) as (Cc & Cu & Cf). clear Cur Cnone.
  assert (U' : uns r' = Z.of_nat (count_nok (cur r'))).
  { rewrite Cc, Cu, Uns. symmetry. apply count_nok_replace; auto. }
  assert (NEWF : dep_status s d = DFAIL -> exists k, d = DJob k /\ st (jobs s k) = ERROR).
  { destruct d; simpl.
    - intros X. exists k. split; auto. destruct (st (jobs s k)); try discriminate; auto.
    - destruct (c <=? avail s t)%nat; discriminate. }
  assert (NEWO : forall k, d = DJob k -> dep_status s d = DOK -> st (jobs s k) = DONE).
  { intros k -> X. simpl in X. destruct (st (jobs s k)); try discriminate; auto. }
  assert (Ind : In d (deps W j)) by (eapply nth_error_In; eauto).
  assert (LI : linv (deps W j) (j_marker (spec W j)) (j_code (spec W j)) r').
  { eapply linv_async; eauto.
    - intros IS E'. destruct (Eerr E') as [X|X]; auto.
      destruct (NEWF X) as (k & -> & K). rewrite (I_RD I j k) in K; auto. discriminate.
    - intros (i' & Hi'). rewrite Cc in Hi'. rewrite nth_error_replace in Hi'.
      destruct (Nat.eqb i i') eqn:Ei.
      + apply Nat.eqb_eq in Ei. subst i'. rewrite Hold in Hi'. inversion Hi' as [X].
        destruct (dstatus_eqb old DFAIL) eqn:EO.
        * apply dstatus_eqb_eq in EO. left. exists i. congruence.
        * right. apply Cf; auto. intros ->. simpl in EO. discriminate.
      + left. eauto. }
  destruct A as [Ah Al Ap Ae As Afd Alen Aw Aes Au0 Af2].
  assert (PC : pc r' = pc r \/ (pc r = PAwaitReady /\ pc r' = PWokenReady)) by (destruct Ap as [?|(?&?&_)]; auto).
  assert (FIN : finished (st r) = true -> st r' = st r).
  { intros F. destruct As as [?|[(?&?)|(N&?)]]; auto; try congruence. destruct (st r); simpl in *; congruence. }
  assert (CO' : forall i' k, nth_error (cur r') i' = Some DOK -> nth_error (deps W j) i' = Some (DJob k) -> st (jobs s k) = DONE).
  { intros i' k X Y. rewrite Cc in X. rewrite nth_error_replace in X. destruct (Nat.eqb i i') eqn:Ei.
    - apply Nat.eqb_eq in Ei. subst i'. rewrite Hold in X. inversion X. apply NEWO; congruence.
    - eapply (I_CO I j); eauto. }
  set (s' := if w then enqueue (setjob s j r') (CStep j) else setjob s j r').
  assert (EJ : jobs s' = upd (jobs s) j r') by (subst s'; destruct w; reflexivity).
  assert (EU : unfinished s' = unfinished s) by (subst s'; destruct w; reflexivity).
  assert (EF : failed s' = failed s) by (subst s'; destruct w; reflexivity).
  assert (EQ : queue s' = queue s \/ queue s' = queue s ++ [CStep j]) by (subst s'; destruct w; simpl; auto).
  assert (H1 : st r = DONE -> st r' = DONE) by (intros D; rewrite FIN; rewrite D; auto).
  assert (H2 : st r = ERROR -> st r' = ERROR) by (intros D; rewrite FIN; rewrite D; auto).
  assert (H3 : started (pc r) = true -> started (pc r') = true).
  { intros _. destruct PC as [X|(_&X)]; rewrite X; auto. }
  assert (H4 : past_loop (pc r) = true -> past_loop (pc r') = true).
  { intros P. destruct PC as [X|(Y&X)]; [rewrite X; auto|rewrite Y in P; discriminate]. }
  assert (H5 : spawned (pc r) = true -> spawned (pc r') = true).
  { intros P. destruct PC as [X|(Y&X)]; rewrite X; auto. }
  assert (H6 : spawned (pc r') = true -> forall k, In (DJob k) (deps W j) -> spawned (pc (jobs s k)) = true).
  { intros _ k Hk. apply (I_sub I j k); auto. fold r. destruct (pc r); simpl in S; try discriminate; auto. }
  assert (H7 : forall i' k, started (pc r') = true -> nth_error (cur r') i' = Some DOK ->
            nth_error (deps W j) i' = Some (DJob k) -> st (jobs s k) = DONE).
  { intros i' k _ X Y. eapply CO'; eauto. }
  assert (H8 : forall i', started (pc r') = true -> nth_error (cur r') i' = Some DFAIL ->
            exists k, nth_error (deps W j) i' = Some (DJob k) /\ st (jobs s k) = ERROR).
  { intros i' _ X. rewrite Cc in X. rewrite nth_error_replace in X. destruct (Nat.eqb i i') eqn:Ei.
    + apply Nat.eqb_eq in Ei. subst i'. rewrite Hold in X. inversion X as [X'].
      destruct (NEWF X') as (k & -> & K). exists k. auto.
    + eapply (I_CF I j); eauto. }
  assert (H9 : (st r' = READY \/ in_start (pc r') = true) -> forall k, In (DJob k) (deps W j) -> st (jobs s k) = DONE).
  { intros [R|IS] k Hk.
    + destruct As as [X|[(_&X&_)|(_&_&U0&_)]].
      * apply (I_RD I j k); auto. left. fold r. rewrite <- X. exact R.
      * rewrite X in R. discriminate.
      * rewrite U' in U0.
        assert (LenE : length (cur r') = length (deps W j)) by (rewrite Alen; exact Len).
        destruct (@In_nth_error_len _ _ (deps W j) (cur r') (DJob k) Hk LenE) as (i' & y & Y1 & Y2).
        assert (Z0 : count_nok (cur r') = 0%nat) by (apply Nat2Z.inj; exact U0).
        assert (y = DOK) by (apply (@count_nok_zero (cur r') Z0 i' y Y2)). subst y. exact (CO' i' k Y2 Y1).
    + apply (I_RD I j k); auto. right. fold r. destruct PC as [X|(_&X)]; [rewrite <- X; exact IS|]. rewrite X in IS; discriminate. }
  assert (H10 : fdep r' = true -> exists k, In (DJob k) (deps W j) /\ st (jobs s k) = ERROR).
  { intros FD. destruct Af2 as [X|(NF & X)].
    + apply (I_FD I j). fold r. congruence.
    + destruct (Eerr X) as [Y|Y]; [rewrite Y in NF; discriminate|].
      destruct (NEWF Y) as (k & -> & K). exists k. auto. }
  assert (H11 : launches r' = 1%nat -> forall k, In (DJob k) (deps W j) -> st (jobs s k) = DONE).
  { intros L1 k Hk. apply (I_LD I j k); auto. fold r. congruence. }
  assert (H12 : unfinished s' - unfinished s = (if counted (pc r') then 1 else 0) - (if counted (pc r) then 1 else 0)).
  { clear - EU PC. rewrite EU. destruct PC as [X|(Y&X)]; rewrite X; try rewrite Y; simpl; lia. }
  assert (H13 : forall x, In x (failed s') <->
     In x (failed s) \/ (x = j /\ past_loop (pc r') = true /\ past_loop (pc r) = false /\ st r' <> DONE)).
  { intros x. rewrite EF. split; auto. intros [X|(_ & P & NP & _)]; auto.
    destruct PC as [X|(_&X)]; rewrite X in P; [congruence|discriminate]. }
  assert (H14 : forall c, In c (queue s') -> In c (queue s) \/ cb_ok s' c).
  { intros c Hc. destruct EQ as [X|X]; rewrite X in Hc; auto.
    apply in_app_or in Hc. destruct Hc as [?|[<-|[]]]; auto. right. simpl. auto. }
  exact (@inv_update W s s' j r' WF I Jn EJ LI H1 H2 H3 H4 H5 H6 H7 H8 H9 H10 H11 H12 H13 H14).
Qed.

(* ------------------------------------------------------------------ steps that leave the jobs unchanged *)
Lemma inv_frame : forall W s s', Inv W s -> jobs s' = jobs s -> unfinished s' = unfinished s ->
  failed s' = failed s -> (forall c, In c (queue s') -> In c (queue s) \/ cb_ok s' c) -> Inv W s'.
Proof.
  intros W s s' I EJ EU EF Q. destruct I as [a b c d e f g h i0 j k].
  constructor; unfold jl, cntf in *; rewrite ?EJ, ?EU, ?EF; auto.
  intros c0 Hc. destruct (Q c0 Hc) as [X|X]; auto. specialize (k c0 X).
    destruct c0; simpl in *; rewrite ?EJ; auto.
Qed.

Lemma in_remove_nth : forall A n (l : list A) x, In x (remove_nth n l) -> In x l.
Proof. induction n; destruct l; simpl; intros; auto. destruct H; auto. Qed.

Lemma inv_dequeue : forall W s n, Inv W s -> Inv W (s_queue s (remove_nth n (queue s))).
Proof.
  intros. apply inv_frame with (s := s); auto. simpl. intros c Hc. left. eapply in_remove_nth; eauto.
Qed.

Lemma inv_wait_check : forall W s, Inv W s -> Inv W (wait_check s).
Proof.
  intros. unfold wait_check. destruct (unfinished s =? 0); apply inv_frame with (s := s); auto.
Qed.
