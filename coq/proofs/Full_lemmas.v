(* The full identifier (raw identifier + sorted pre-task identifiers + ordered
   init-task identifiers) follows the raw identifiers.                        *)
From Coq Require Import ZArith NArith List Bool Lia.
From XV Require Import core.Value model.Hash model.Edits proofs.Hash_lemmas proofs.Neutral_lemmas.
Import ListNotations.

Lemma walk_ext h h' : map succs h = map succs h' ->
  forall fuel todo seen, walk h fuel todo seen = walk h' fuel todo seen.
Proof.
  intros E. induction fuel as [|f IH]; intros todo seen; cbn [walk]; [reflexivity|].
  destruct todo as [|n todo]; [reflexivity|]. destruct (mem n seen); [apply IH|].
  assert (En : option_map succs (nth_error h n) = option_map succs (nth_error h' n)).
  { rewrite <- !nth_error_map. rewrite E. reflexivity. }
  destruct (nth_error h n) as [x|], (nth_error h' n) as [x'|]; cbn in En; try discriminate; [|apply IH].
  inversion En as [Es]. rewrite Es. apply IH.
Qed.

Lemma walk_fuel_ext h h' : map succs h = map succs h' -> walk_fuel h = walk_fuel h'.
Proof.
  intros E. unfold walk_fuel.
  assert (L : length h = length h') by (rewrite <- (map_length succs h), E, map_length; reflexivity).
  assert (F : forall l, fold_right (fun x a => length (succs x) + a) 0 l
                        = fold_right (fun s a => length s + a) 0 (map succs l)).
  { induction l as [|x l IHl]; cbn; [reflexivity|]. rewrite IHl. reflexivity. }
  rewrite (F h), (F h'), E, L. reflexivity.
Qed.

Lemma pre_tasks_of_ext h h' n : map succs h = map succs h' -> map n_pre h = map n_pre h' ->
  pre_tasks_of h n = pre_tasks_of h' n.
Proof.
  intros Es Ep. unfold pre_tasks_of. rewrite (walk_fuel_ext h h' Es), (walk_ext h h' Es).
  f_equal. apply flat_map_ext. intros m.
  assert (En : option_map n_pre (nth_error h m) = option_map n_pre (nth_error h' m)).
  { rewrite <- !nth_error_map. rewrite Ep. reflexivity. }
  destruct (nth_error h m), (nth_error h' m); cbn in En; try discriminate; [|reflexivity].
  inversion En. reflexivity.
Qed.

Theorem full_pure_ext H cs cs' h h' fuel n :
  (forall m, raw_pure H cs h fuel m = raw_pure H cs' h' fuel m) ->
  map succs h = map succs h' -> map n_pre h = map n_pre h' -> map n_init h = map n_init h' ->
  full_pure H cs h fuel n = full_pure H cs' h' fuel n.
Proof.
  intros Er Es Ep Ei. unfold full_pure, getnode.
  assert (En : option_map n_init (nth_error h n) = option_map n_init (nth_error h' n)).
  { rewrite <- !nth_error_map. rewrite Ei. reflexivity. }
  destruct (nth_error h n) as [x|], (nth_error h' n) as [x'|]; cbn in En; try discriminate; cbn [bind]; [|reflexivity].
  inversion En as [Ex]. rewrite Er. rewrite (pre_tasks_of_ext h h' n Es Ep). rewrite Ex.
  assert (Em : forall l, map (raw_pure H cs h fuel) l = map (raw_pure H cs' h' fuel) l).
  { intros l. apply map_ext. exact Er. }
  rewrite !Em. reflexivity.
Qed.

(* list-level facts for single-node edits *)
Lemma map_upd_nth {A B} (f : A -> B) l n x y :
  nth_error l n = Some x -> f y = f x -> map f (upd_nth l n y) = map f l.
Proof.
  revert n; induction l as [|z l IH]; intros [|n] E Ef; cbn in *; try discriminate.
  - inversion E. subst. rewrite Ef. reflexivity.
  - rewrite IH; auto.
Qed.
